import EinxModel.Driver.Util
import EinxModel.Driver.Registry
import EinxModel.Driver.Update
import EinxModel.Driver.Notation
import EinxModel.Driver.NotationNF
import EinxModel.Driver.Solve
import EinxModel.Driver.Cse
import EinxModel.Driver.CseTrees
import EinxModel.Driver.Cache
import EinxModel.Driver.CacheConc
import EinxModel.Driver.NumHash
import EinxModel.Driver.Concurrent
import EinxModel.Driver.IR
import EinxModel.Driver.Order
import EinxModel.Driver.Adapt
import EinxModel.Driver.Compile
import EinxModel.Driver.Errors
import EinxModel.Driver.Factory
import EinxModel.Driver.Generic
import EinxModel.Driver.Elab
import EinxModel.Driver.Alias
import EinxModel.Driver.Optimize
import EinxModel.Driver.Denote
import EinxModel.Driver.Shorthand
import EinxModel.Driver.Reject
import EinxModel.Driver.Grammar
import EinxModel.Driver.OptDag
import EinxModel.Driver.Lower
import EinxModel.Driver.Lower2
import EinxModel.Driver.Xlate
import EinxModel.Driver.Exec
import EinxModel.Driver.AtLower
/-! Line-protocol driver: one JSON request per input line, one JSON answer per output line. -/
open Lean Einx.Driver

def dispatch (j : Json) : R Json := do
  match ← strF j "kind" with
  | "ping" => pure (Json.mkObj [("pong", Json.bool true)])
  | "registry" => Einx.Driver.Registry.handle j
  | "sched" | "serial_outcomes" | "explore" => Einx.Driver.Concurrent.handle j
  | "notation" => Einx.Driver.Notation.handle j
  | "notation_nf" => Einx.Driver.NotationNF.handle j
  | "cache-table" | "freeze" | "pyeq" | "pyhash" | "memo" | "stack" => Einx.Driver.Cache.handle j
  | "cache_sched" | "cache_explore" => Einx.Driver.CacheConc.handle j
  | "numhash" => Einx.Driver.NumHash.handle j
  | "solve" | "checksat" | "checkaxes" => Einx.Driver.Solve.handle j
  | "shorthand" => Einx.Driver.Shorthand.handle j
  | "value_range" => Einx.Driver.Cse.handle j
  | "cse_trees" | "cse_check" | "cse_enum" | "forest_sys" => Einx.Driver.CseTrees.handle j
  | "ir_run" | "validate" | "denote" | "norm_arith" => Einx.Driver.IR.handle j
  | "join_exprs" | "cse_replace" | "implicit_output" => Einx.Driver.Order.handle j
  | "adapt_check" | "split_kwargs" | "expr_to_axis" | "elementwise_shape" => Einx.Driver.Adapt.handle j
  | "compile" => Einx.Driver.Compile.handle j
  | "indicator" | "classify" => Einx.Driver.Errors.handle j
  | "factory_check" | "factory_model" => Einx.Driver.Factory.handle j
  | "py_grammar" | "stb_model" => Einx.Driver.Generic.handle j
  | "parse_op_model" => Einx.Driver.Elab.handle j
  | "writes" | "writes_prog" | "alias_table" => Einx.Driver.Alias.handle j
  | "equiv" | "equiv_progs" | "kernel" => Einx.Driver.Optimize.handle j
  | "denote_fun" => Einx.Driver.Denote.handle j
  | "reject_spec" | "elab_rules" => Einx.Driver.Reject.handle j
  | "grammar_spec" => Einx.Driver.Grammar.handle j
  | "optdag" => Einx.Driver.OptDag.handle j
  | "lower_model" => Einx.Driver.Lower.handle j
  | "lower_generic" => Einx.Driver.Lower2.handle j
  | "xlate_stb" | "xlate_diag" | "xlate_ids" | "xlate_unravel" | "py_prelude" => Einx.Driver.Xlate.handle j
  | "exec_check" => Einx.Driver.Exec.handle j
  | "lower_at" => Einx.Driver.AtLower.handle j
  | "update_denote" | "update_lower" | "update_get" | "update_addr" | "np_put" | "np_ufunc_at" | "assignments" =>
    Einx.Driver.Update.handle j
  | k => throw s!"unknown kind {k}"

partial def loop (hin hout : IO.FS.Stream) : IO Unit := do
  let line ← hin.getLine
  if line.isEmpty then return ()
  let ans : Json :=
    match Json.parse line with
    | .error e => Json.mkObj [("error", "bad-request"), ("detail", Json.str e)]
    | .ok j =>
      match dispatch j with
      | .ok r => r
      | .error e => Json.mkObj [("error", "bad-request"), ("detail", Json.str e)]
  hout.putStrLn ans.compress
  hout.flush
  loop hin hout

def main : IO Unit := do
  loop (← IO.getStdin) (← IO.getStdout)
