import EinxModel.Basic.Index
import EinxModel.Registry.Model
import EinxModel.Registry.Spec
import EinxModel.Proofs.Registry
import EinxModel.Props.C11
