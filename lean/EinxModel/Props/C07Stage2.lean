import EinxModel.Proofs.SolveUnroll
import EinxModel.Proofs.SolveBroadcast
import EinxModel.Proofs.SolveNum
import EinxModel.Proofs.SolveRename
import EinxModel.Proofs.NotationParseCases
/-!
C07, the shorthands that live at stage 2/3 (`namedtensor/stage2/solve.py`, `stage3/solve.py`):
"an ellipsis = its written-out repetition; a number = a fresh axis of that length; a scalar size for
an ellipsis axis = the repeated tuple; an anonymous `...` = one shared named ellipsis".

Every theorem is about the executable solving model of C02 (`Solve/Tree.lean`: `rankSystem`,
`valueSystem`, `Sols`), which `tools/props/c02.py` ties to `einx.solve_axes/solve_shapes/matches`, and
about the transformations of `Solve/Shorthand.lean`, which `tools/props/c07_stage2.py` ties to the long
forms einx itself builds (`stage2.solve` output) and accepts (the documented long descriptions).
Sizes and counts range over unbounded `Nat`.

Form of every statement: the long form has the *corresponding solutions* — every solution of one
side yields a solution of the other side that agrees on all axis variables and gives the same
tensor shapes.  The half that has to *construct* an assignment needs the name hygiene `namesOK`
of the side it constructs (node variables `#i/k(…` pairwise different and no axis variables;
decidable, evaluated by the driver on every generated case); the semantic versions (`…_sem`,
about `SemSat`, the value system read without node variables) need no such hypothesis.
-/
namespace Einx.Solve

/-! ### What the value system means (tie of the semantic reading to the executable model) -/

/-- Every solution of the executable value system is a semantic solution: positive axes and nodes,
root dimensions equal to the shapes, constraint arrays honoured; and the shapes are the
semantic shapes. -/
theorem value_system_sound (inp : Input) (ρ σ : Var → Nat) (h : Sat (valueSystem inp ρ) σ) :
    SemSat inp ρ σ ∧ shapesOf inp ρ σ = semShapes inp ρ σ :=
  ⟨sat_sem inp ρ σ h, shapes_of_sat inp ρ σ h⟩

/-- Conversely a semantic solution extends (changing no axis variable) to a solution of the
executable value system with the same shapes, provided the generated names are hygienic. -/
theorem value_system_complete (inp : Input) (ρ τ : Var → Nat) (hn : namesOK inp ρ = true)
    (h : SemSat inp ρ τ) :
    ∃ σ, Sat (valueSystem inp ρ) σ ∧ (∀ a ∈ inp.axes ρ, σ a.2.2 = τ a.2.2) ∧
      shapesOf inp ρ σ = semShapes inp ρ τ :=
  ⟨extend inp ρ τ, sem_sat inp ρ τ hn h⟩

/-! ### (1) An ellipsis = its written-out repetition -/

/-- Semantic form: for counts `ρ` admitted by the rank system, the input and its written-out long
form (`unrollInput`: every `e...` replaced by `ρ id` copies of `e` with the axis names suffixed
`.i` as `stage2/solve.py:map` does, constraint arrays split into one scalar per expanded axis) have
the same semantic solutions — literally the same assignments — whatever counts `ρ'` are given to
the long form (it has no ellipsis left). -/
theorem ellipsis_unroll_sem (inp : Input) (ρ : Var → Nat) (hρ : Sat (rankSystem true inp) ρ)
    (hwf : ∀ c ∈ inp.constraints, c.vals.length = c.shape.foldr (· * ·) 1) (ρ' σ : Var → Nat) :
    (SemSat inp ρ σ ↔ SemSat (unrollInput inp ρ) ρ' σ) ∧
    semShapes (unrollInput inp ρ) ρ' σ = semShapes inp ρ σ :=
  ⟨unroll_semSat inp ρ hρ hwf ρ' σ, unroll_semShapes inp ρ ρ' σ⟩

/-- **Ellipsis = written-out repetition**, on the executable model.  Let `ρ` satisfy the rank
system of `inp` (constraint arrays well-formed: as many values as their shape says).  Then
* the long form has no ellipsis and its rank system holds for every `ρ'` (nothing is left to count);
* every solution of `inp` with counts `ρ` yields a solution of the long form with the same axis
  lengths (`a.i.j` is the same variable on both sides) and the same tensor shapes;
* every solution of the long form yields a solution of `inp` with counts `ρ`, same lengths, same shapes.
The constructing halves assume `namesOK` of the side they construct. -/
theorem ellipsis_unroll (inp : Input) (ρ : Var → Nat) (hρ : Sat (rankSystem true inp) ρ)
    (hwf : ∀ c ∈ inp.constraints, c.vals.length = c.shape.foldr (· * ·) 1) :
    (unrollInput inp ρ).ellIds = [] ∧
    (∀ ρ', Sat (rankSystem true (unrollInput inp ρ)) ρ') ∧
    (∀ σ ρ', Sols inp ρ σ → namesOK (unrollInput inp ρ) ρ' = true →
        ∃ σ', Sols (unrollInput inp ρ) ρ' σ' ∧ (∀ a ∈ inp.axes ρ, σ' a.2.2 = σ a.2.2) ∧
          shapesOf (unrollInput inp ρ) ρ' σ' = shapesOf inp ρ σ) ∧
    (∀ σ' ρ', Sols (unrollInput inp ρ) ρ' σ' → namesOK inp ρ = true →
        ∃ σ, Sols inp ρ σ ∧ (∀ a ∈ inp.axes ρ, σ a.2.2 = σ' a.2.2) ∧
          shapesOf inp ρ σ = shapesOf (unrollInput inp ρ) ρ' σ') := by
  refine ⟨unrollInput_ellIds inp ρ, unroll_rank_sat inp ρ hρ, ?_, ?_⟩
  · intro σ ρ' hs hn
    have hsem := (unroll_semSat inp ρ hρ hwf ρ' σ).mp (sat_sem inp ρ σ hs.2)
    obtain ⟨h1, h2, h3⟩ := sem_sat _ ρ' σ hn hsem
    refine ⟨_, ⟨unroll_rank_sat inp ρ hρ ρ', h1⟩, ?_, ?_⟩
    · intro a ha
      obtain ⟨a', ha', he⟩ := (unroll_inputAxes inp ρ ρ' a.2.2).mpr ⟨a, ha, rfl⟩
      rw [← he]; exact h2 a' ha'
    · rw [h3, unroll_semShapes, shapes_of_sat inp ρ σ hs.2]
  · intro σ' ρ' hs hn
    have hsem := (unroll_semSat inp ρ hρ hwf ρ' σ').mpr (sat_sem _ ρ' σ' hs.2)
    obtain ⟨h1, h2, h3⟩ := sem_sat inp ρ σ' hn hsem
    refine ⟨_, ⟨hρ, h1⟩, h2, ?_⟩
    rw [h3, ← unroll_semShapes inp ρ ρ' σ', shapes_of_sat _ ρ' σ' hs.2]

/-- Non-vacuity: `(a b)... c` against `(4, 6, 5)` with `b = 2`.  The count 2 satisfies the rank
system, both sides are hygienic, the short form has the solution `a = (2, 3), c = 5`, and the long
form computed by `unrollInput` is `(a.0 b.0) (a.1 b.1) c` with `b.0 = 2, b.1 = 2`, solved to the
same lengths. -/
def exEll : Input :=
  { tensors := [⟨.list [.ellipsis "e0" (.flat (.list [.axis "a", .axis "b"])), .axis "c"], some [4, 6, 5]⟩],
    constraints := [⟨"b", [], [2]⟩] }

example : solveAll exEll =
    .unique [("e0", 2)] [("a.1", 3), ("b.1", 2), ("a.0", 2), ("b.0", 2), ("c", 5), ("#0/0.1", 6), ("#0/0.0", 4)] := by
  decide +kernel

example : checkSat (rankSystem true exEll) [("e0", 2)] = true ∧
    namesOK exEll (toFun [("e0", 2)]) = true ∧
    namesOK (unrollInput exEll (toFun [("e0", 2)])) (toFun []) = true := by decide +kernel

example : (unrollInput exEll (toFun [("e0", 2)])).tensors.map (·.expr.render) = ["(a.0 b.0) (a.1 b.1) c"] ∧
    (unrollInput exEll (toFun [("e0", 2)])).constraints.map (fun c => (c.name, c.shape, c.vals)) =
      [("b.0", [], [2]), ("b.1", [], [2])] := by decide +kernel

example : solveAll (unrollInput exEll (toFun [("e0", 2)])) =
    .unique [] [("a.1", 3), ("b.1", 2), ("a.0", 2), ("b.0", 2), ("c", 5), ("#0/0/1", 6), ("#0/0/0", 4)] := by
  decide +kernel

/-! ### (4) A scalar size for an axis under an ellipsis = the repeated tuple -/

/-- **Scalar constraint = repeated tuple.**  Let the constraint array `c` (any rank, e.g. a scalar)
constrain a name whose first occurrence stands under the ellipses `pre ++ id :: suf`, the array
being aligned with the innermost levels `suf`.  Replacing `c` by the same array repeated `d` times
along a new leading dimension (`b=2` ↦ `b=(2,)*d`, `Constraint.broadcast`) changes the solution set
by exactly the statement "the ellipsis `id` is repeated `d` times": same counts, same lengths, for
all tensors and all other constraints.  (Iterating gives tuples of any rank.) -/
theorem scalar_constraint_is_repeated_tuple (ts : List Tensor) (cs₁ cs₂ : List Constraint) (c : Constraint)
    (d : Nat) (hwf : c.vals.length = c.shape.foldr (· * ·) 1) (pre suf : List Var) (id : Var)
    (hst : (Input.occs ⟨ts, cs₁ ++ c :: cs₂⟩).lookup c.name = some (pre ++ id :: suf))
    (hsuf : suf.length = c.shape.length) (ρ σ : Var → Nat) :
    Sols ⟨ts, cs₁ ++ c.broadcast d :: cs₂⟩ ρ σ ↔ (Sols ⟨ts, cs₁ ++ c :: cs₂⟩ ρ σ ∧ ρ id = d) := by
  have hocc : (Input.occs ⟨ts, cs₁ ++ c.broadcast d :: cs₂⟩) = Input.occs ⟨ts, cs₁ ++ c :: cs₂⟩ := rfl
  have hrank : Sat (rankSystem true ⟨ts, cs₁ ++ c.broadcast d :: cs₂⟩) ρ ↔
      (Sat (rankSystem true ⟨ts, cs₁ ++ c :: cs₂⟩) ρ ∧ ρ id = d) := by
    rw [sat_rankSystem_iff, sat_rankSystem_iff, hocc]
    simp only [List.forall_mem_append, List.forall_mem_cons]
    rw [broadcast_rank ρ _ c d pre suf id hst hsuf]
    constructor
    · rintro ⟨h1, h2, h3, ⟨h4, h5⟩, h6⟩; exact ⟨⟨h1, h2, h3, h4, h6⟩, h5⟩
    · rintro ⟨⟨h1, h2, h3, h4, h6⟩, h5⟩; exact ⟨h1, h2, h3, ⟨h4, h5⟩, h6⟩
  have hval : Sat (rankSystem true ⟨ts, cs₁ ++ c :: cs₂⟩) ρ → ρ id = d →
      (Sat (valueSystem ⟨ts, cs₁ ++ c.broadcast d :: cs₂⟩ ρ) σ ↔ Sat (valueSystem ⟨ts, cs₁ ++ c :: cs₂⟩ ρ) σ) := by
    intro hR hd
    have heq := broadcast_value_eq ⟨ts, cs₁ ++ c :: cs₂⟩ ρ hR c d hwf pre suf id hst hsuf hd
    rw [sat_valueSystem_iff, sat_valueSystem_iff]
    have hg : gens ⟨ts, cs₁ ++ c.broadcast d :: cs₂⟩ ρ = gens ⟨ts, cs₁ ++ c :: cs₂⟩ ρ := rfl
    have ha : Input.axes ⟨ts, cs₁ ++ c.broadcast d :: cs₂⟩ ρ = Input.axes ⟨ts, cs₁ ++ c :: cs₂⟩ ρ := rfl
    rw [hg, ha]
    apply and_congr_right
    intro _
    simp only [List.forall_mem_append, List.forall_mem_cons]
    apply and_congr_right
    intro _
    apply and_congr_left
    intro _
    constructor
    · intro h a ha' hn
      rw [← heq a ha' hn]; exact h a ha' hn
    · intro h a ha' hn
      have hn' : a.1 = c.name := hn
      rw [heq a ha' hn']; exact h a ha' hn'
  unfold Sols
  constructor
  · rintro ⟨hr, hv⟩
    obtain ⟨hr', hd⟩ := hrank.mp hr
    exact ⟨⟨hr', (hval hr' hd).mp hv⟩, hd⟩
  · rintro ⟨⟨hr', hv⟩, hd⟩
    exact ⟨hrank.mpr ⟨hr', hd⟩, (hval hr' hd).mpr hv⟩

/-- Non-vacuity (the documentation's example `(a b)... -> a... b...` with `b=2`): against `(4, 6)` the
scalar form and the tuple form `b=(2,2)` are both solved to `a = (2, 3)`; the tuple `b=(2,2,2)`
contradicts the count. -/
def exScalar (c : Constraint) : Input :=
  { tensors := [⟨.ellipsis "e0" (.flat (.list [.axis "a", .axis "b"])), some [4, 6]⟩,
                ⟨.list [.ellipsis "e1" (.axis "a"), .ellipsis "e2" (.axis "b")], none⟩],
    constraints := [c] }

example : (exScalar ⟨"b", [], [2]⟩).occs.lookup "b" = some ([] ++ "e0" :: []) := by decide +kernel

example : (Constraint.broadcast 2 ⟨"b", [], [2]⟩).shape = [2] ∧ (Constraint.broadcast 2 ⟨"b", [], [2]⟩).vals = [2, 2] ∧
    solveAll (exScalar ⟨"b", [], [2]⟩) =
      .unique [("e2", 2), ("e1", 2), ("e0", 2)]
        [("a.1", 3), ("b.1", 2), ("a.0", 2), ("b.0", 2), ("#0.1", 6), ("#0.0", 4)] ∧
    solveAll (exScalar (Constraint.broadcast 2 ⟨"b", [], [2]⟩)) = solveAll (exScalar ⟨"b", [], [2]⟩) ∧
    solveAll (exScalar (Constraint.broadcast 3 ⟨"b", [], [2]⟩)) = .rankNone := by decide +kernel

/-! ### (3) A number = a fresh axis of that length -/

/-- Semantic form (no hypothesis on generated names).  `withNumConstraint inp n v` is the long form
(the name `n` in the expressions, keyword size `n=v`), `numForm inp n v` the short form (the number
`v` wherever `n` stood).  A semantic solution of the long form is one of the short form as it
stands; a semantic solution of the short form becomes one of the long form by giving the variables
of `n` the value `v` (`setName`), provided `n` is fresh at the level of expanded variables
(`freshVars`), carries no other constraint, and `v ≥ 1`. -/
theorem number_is_fresh_axis_sem (inp : Input) (n : String) (v : Nat) (ρ σ : Var → Nat) :
    (SemSat (withNumConstraint inp n v) ρ σ →
      SemSat (numForm inp n v) ρ σ ∧ semShapes (numForm inp n v) ρ σ = semShapes inp ρ σ) ∧
    (1 ≤ v → (∀ c ∈ inp.constraints, c.name ≠ n) → freshVars inp ρ n = true → SemSat (numForm inp n v) ρ σ →
      SemSat (withNumConstraint inp n v) ρ (setName inp ρ n v σ) ∧
      semShapes inp ρ (setName inp ρ n v σ) = semShapes (numForm inp n v) ρ σ) :=
  ⟨num_sem_long_short inp n v ρ σ, fun hv hcn hf h =>
    let r := num_sem_short_long inp n v hv hcn ρ σ hf h
    ⟨r.1, r.2.2.2⟩⟩

/-- **Number = fresh axis with that size**, on the executable model.  Let `n` carry no constraint of
`inp`, let all its occurrences stand under the same ellipses (`sameStack`; in particular: one
occurrence), and `v ≥ 1` (the model admits a numeric axis `0`, a named axis has length ≥ 1; einx
rejects both).  Then for all counts `ρ`
* the rank systems of the short and the long form have the same solutions;
* every solution of the long form yields a solution of the short form with the same lengths of all
  remaining axes and the same shapes;
* every solution of the short form yields one of the long form in which `n` has length `v` everywhere
  and all other axes keep their lengths, same shapes (here `n` must be fresh for the expanded
  variables, `freshVars`).
The constructing halves assume `namesOK` of the side they construct. -/
theorem number_is_fresh_axis (inp : Input) (n : String) (v : Nat) (hv : 1 ≤ v)
    (hcn : ∀ c ∈ inp.constraints, c.name ≠ n) (hstack : sameStack inp n = true) (ρ : Var → Nat) :
    (Sat (rankSystem true (numForm inp n v)) ρ ↔ Sat (rankSystem true (withNumConstraint inp n v)) ρ) ∧
    (∀ σ, Sols (withNumConstraint inp n v) ρ σ → namesOK (numForm inp n v) ρ = true →
      ∃ σ', Sols (numForm inp n v) ρ σ' ∧ (∀ a ∈ (numForm inp n v).axes ρ, σ' a.2.2 = σ a.2.2) ∧
        shapesOf (numForm inp n v) ρ σ' = shapesOf (withNumConstraint inp n v) ρ σ) ∧
    (∀ σ, Sols (numForm inp n v) ρ σ → freshVars inp ρ n = true →
        namesOK (withNumConstraint inp n v) ρ = true →
      ∃ σ', Sols (withNumConstraint inp n v) ρ σ' ∧
        (∀ a ∈ inp.axes ρ, a.1 ≠ n → σ' a.2.2 = σ a.2.2) ∧ (∀ a ∈ inp.axes ρ, a.1 = n → σ' a.2.2 = v) ∧
        shapesOf (withNumConstraint inp n v) ρ σ' = shapesOf (numForm inp n v) ρ σ) := by
  have hrank := num_rank inp n v hcn hstack ρ
  refine ⟨hrank, ?_, ?_⟩
  · intro σ hs hn
    obtain ⟨hsem, hsh⟩ := num_sem_long_short inp n v ρ σ (sat_sem _ ρ σ hs.2)
    obtain ⟨h1, h2, h3⟩ := sem_sat _ ρ σ hn hsem
    refine ⟨_, ⟨hrank.mpr hs.1, h1⟩, h2, ?_⟩
    rw [h3, hsh, shapes_of_sat _ ρ σ hs.2]
    rfl
  · intro σ hs hf hn
    obtain ⟨hsem, hv1, hv2, hsh⟩ := num_sem_short_long inp n v hv hcn ρ σ hf (sat_sem _ ρ σ hs.2)
    obtain ⟨h1, h2, h3⟩ := sem_sat _ ρ _ hn hsem
    have hax : (withNumConstraint inp n v).axes ρ = inp.axes ρ := rfl
    rw [hax] at h2
    refine ⟨_, ⟨hrank.mp hs.1, h1⟩, ?_, ?_, ?_⟩
    · intro a ha hne; rw [h2 a ha]; exact hv2 a ha hne
    · intro a ha he; rw [h2 a ha]; exact hv1 a ha he
    · rw [h3, shapes_of_sat _ ρ σ hs.2, ← hsh]
      rfl

/-- Non-vacuity: `a (b n)...` against `(2, 6, 9)` with `n=3`, short form `a (b 3)...`: the
hypotheses hold (`n` occurs once, is fresh, names are hygienic on both sides) and both forms are
solved to `b = (2, 3)`. -/
def exNum : Input :=
  { tensors := [⟨.list [.axis "a", .ellipsis "e0" (.flat (.list [.axis "b", .axis "n"]))], some [2, 6, 9]⟩],
    constraints := [] }

example : sameStack exNum "n" = true ∧ freshVars exNum (toFun [("e0", 2)]) "n" = true ∧
    namesOK (numForm exNum "n" 3) (toFun [("e0", 2)]) = true ∧
    namesOK (withNumConstraint exNum "n" 3) (toFun [("e0", 2)]) = true ∧
    (numForm exNum "n" 3).tensors.map (·.expr.render) = ["a {(b 3)}..."] := by decide +kernel

example : solveAll (numForm exNum "n" 3) =
      .unique [("e0", 2)] [("b.1", 3), ("#0/1.1", 9), ("b.0", 2), ("#0/1.0", 6), ("a", 2)] ∧
    solveAll (withNumConstraint exNum "n" 3) =
      .unique [("e0", 2)] [("b.1", 3), ("n.1", 3), ("b.0", 2), ("n.0", 3), ("#0/1.1", 9), ("#0/1.0", 6), ("a", 2)] := by
  decide +kernel

/-- `freshVars` is not vacuous: the name `b.0` next to `b...` is not fresh (its variable is the one
of the first repetition of `b`). -/
example : freshVars ⟨[⟨.list [.ellipsis "e0" (.axis "b"), .axis "b.0"], none⟩], []⟩ (toFun [("e0", 2)]) "b.0" = false := by
  decide +kernel

/-! ### (2) An anonymous `...` = one shared named ellipsis -/

/-- **Renaming of axis names preserves the solutions.**  Let `f` be injective on the names of `inp`
(axis occurrences and constraints) and act as a bijection on the expanded variables (`renOK`:
decidable; automatic when no name contains a `.`).  Then the rank systems of `inp` and of the renamed
input have the same solutions, and the value solutions correspond: the variable `f n ++ .i.j` of the
renamed input carries the length of `n.i.j`; same shapes.  Equal names stay equal names, so an
ellipsis axis shared between expressions stays shared. -/
theorem rename_preserves_sols (f : String → String) (inp : Input)
    (hinj : ∀ a ∈ inp.names, ∀ b ∈ inp.names, f a = f b → a = b) (ρ : Var → Nat)
    (hok : renOK f inp ρ = true) :
    (Sat (rankSystem true (renameInput f inp)) ρ ↔ Sat (rankSystem true inp) ρ) ∧
    (∀ σ, Sols inp ρ σ → namesOK (renameInput f inp) ρ = true →
      ∃ σ', Sols (renameInput f inp) ρ σ' ∧ (∀ a ∈ inp.axes ρ, σ' (renVar f a) = σ a.2.2) ∧
        shapesOf (renameInput f inp) ρ σ' = shapesOf inp ρ σ) ∧
    (∀ σ', Sols (renameInput f inp) ρ σ' → namesOK inp ρ = true →
      ∃ σ, Sols inp ρ σ ∧ (∀ a ∈ inp.axes ρ, σ a.2.2 = σ' (renVar f a)) ∧
        shapesOf inp ρ σ = shapesOf (renameInput f inp) ρ σ') := by
  have hrank := rename_rank f inp hinj ρ
  refine ⟨hrank, ?_, ?_⟩
  · intro σ hs hn
    have link := pushRen_link f inp ρ σ hok
    obtain ⟨hiff, hsh⟩ := rename_semSat f inp hinj ρ σ (pushRen f inp ρ σ) link
    obtain ⟨h1, h2, h3⟩ := sem_sat _ ρ _ hn (hiff.mpr (sat_sem inp ρ σ hs.2))
    refine ⟨_, ⟨hrank.mpr hs.1, h1⟩, ?_, ?_⟩
    · intro a ha
      have := h2 (renAxis f a) (mem_renameInput_axes.mpr ⟨a, ha, rfl⟩)
      simp only [renAxis] at this
      rw [this]; exact link a ha
    · rw [h3, hsh, shapes_of_sat inp ρ σ hs.2]
  · intro σ' hs hn
    have link := pullRen_link f inp ρ σ' hok
    obtain ⟨hiff, hsh⟩ := rename_semSat f inp hinj ρ (pullRen f inp ρ σ') σ' link
    obtain ⟨h1, h2, h3⟩ := sem_sat inp ρ _ hn (hiff.mp (sat_sem _ ρ σ' hs.2))
    refine ⟨_, ⟨hrank.mp hs.1, h1⟩, ?_, ?_⟩
    · intro a ha
      rw [h2 a ha]; exact (link a ha).symm
    · rw [h3, ← hsh, shapes_of_sat _ ρ σ' hs.2]

/-- The anonymous ellipsis variable of the pinned source (regenerated on every run). -/
def anonAxis : String := Einx.Extracted.anonymousVariableName

theorem swapName_inj (a b : String) (names : List String) (hb : b ∉ names) :
    ∀ x ∈ names, ∀ y ∈ names, swapName a b x = swapName a b y → x = y := by
  intro x hx y hy h
  unfold swapName at h
  by_cases h1 : x = a
  · by_cases h2 : y = a
    · rw [h1, h2]
    · simp only [h1, ↓reduceIte, h2] at h
      exact absurd (h ▸ hy) hb
  · by_cases h2 : y = a
    · simp only [h1, ↓reduceIte, h2] at h
      exact absurd (h ▸ hx) hb
    · simpa only [h1, ↓reduceIte, h2] using h

/-- **Anonymous `...` = one shared named ellipsis.**  In the stage-1 trees an anonymous ellipsis is
the ellipsis over the axis `.anonymous_ellipsis_axis` (`anonymous_ellipsis_parse` below; every
occurrence gets this one name, which is what makes it shared: the same-name equations of the rank
system give all occurrences the same depth and counts).  Writing `s...` with a name `s` not used in
the input instead is the renaming `.anonymous_ellipsis_axis ↦ s`, and the solutions correspond as
in `rename_preserves_sols`. -/
theorem anonymous_ellipsis_shared (inp : Input) (s : String) (hs : s ∉ inp.names) (ρ : Var → Nat)
    (hok : renOK (swapName anonAxis s) inp ρ = true) :
    let long := renameInput (swapName anonAxis s) inp
    (Sat (rankSystem true long) ρ ↔ Sat (rankSystem true inp) ρ) ∧
    (∀ σ, Sols inp ρ σ → namesOK long ρ = true →
      ∃ σ', Sols long ρ σ' ∧ (∀ a ∈ inp.axes ρ, σ' (renVar (swapName anonAxis s) a) = σ a.2.2) ∧
        shapesOf long ρ σ' = shapesOf inp ρ σ) ∧
    (∀ σ', Sols long ρ σ' → namesOK inp ρ = true →
      ∃ σ, Sols inp ρ σ ∧ (∀ a ∈ inp.axes ρ, σ a.2.2 = σ' (renVar (swapName anonAxis s) a)) ∧
        shapesOf inp ρ σ = shapesOf long ρ σ') :=
  rename_preserves_sols _ inp (swapName_inj anonAxis s inp.names hs) ρ hok

open Einx.Notation in
/-- **The parser model's treatment of the anonymous ellipsis** (`stage1/parse.py` lines 221–228, model
`Notation/Parse.lean`): a lone `...` token parses to the ellipsis whose operand is the axis named
`.anonymous_ellipsis_axis` (of zero width at the position of the dots), exactly the tree that `x...`
produces for an operand `x` that parses to a named axis — with that name in place of `x`'s. -/
theorem anonymous_ellipsis_parse {ts ts' : List Tok} (b e b' e' : Nat) (ipc ipc' : Bool) {t t' : Token} {x : Tok}
    (h : strip ts = [.atom t]) (hop : findOp naryOps [.atom t] = none)
    (h' : strip ts' = [x, .atom t']) (hop' : findOp naryOps [x, .atom t'] = none)
    (ht : t.text = ellipsisLit) (ht' : t'.text = ellipsisLit)
    (n : Str) (xb xe : Int) (hx : parse [x] x.b x.e false = .ok (.axis n none xb xe)) :
    parse ts b e ipc = .ok (.ellipsis (.axis anonName none t.b t.b) t.b t.b t.e) ∧
    parse ts' b' e' ipc' = .ok (.ellipsis (.axis n none xb xe) t'.b x.b t'.e) := by
  constructor
  · rw [parse_atom b e ipc h hop]
    simp [ht, mkEllipsis, Expr.ndim]
  · rw [parse_ell b' e' ipc' h' hop']
    simp [ht', hx, mkEllipsis, Expr.ndim]

/-- Non-vacuity: `... c, ...` against `(2, 3, 4)` and an unknown shape.  The renaming to `s...` is
admissible, both forms are hygienic and solved to the same lengths; the second tensor's rank is
known only because the ellipsis is shared. -/
def exAnon : Input :=
  { tensors := [⟨.list [.ellipsis "e0" (.axis anonAxis), .axis "c"], some [2, 3, 4]⟩,
                ⟨.ellipsis "e1" (.axis anonAxis), none⟩],
    constraints := [] }

example : anonAxis = ".anonymous_ellipsis_axis" ∧ "s" ∉ exAnon.names ∧
    renOK (swapName anonAxis "s") exAnon (toFun [("e0", 2), ("e1", 2)]) = true ∧
    namesOK exAnon (toFun [("e0", 2), ("e1", 2)]) = true ∧
    namesOK (renameInput (swapName anonAxis "s") exAnon) (toFun [("e0", 2), ("e1", 2)]) = true ∧
    (renameInput (swapName anonAxis "s") exAnon).tensors.map (·.expr.render) = ["{s}... c", "{s}..."] := by
  decide +kernel

example : solveAll exAnon = .unique [("e1", 2), ("e0", 2)]
      [("c", 4), (".anonymous_ellipsis_axis.1", 3), (".anonymous_ellipsis_axis.0", 2)] ∧
    solveAll (renameInput (swapName anonAxis "s") exAnon) =
      .unique [("e1", 2), ("e0", 2)] [("c", 4), ("s.1", 3), ("s.0", 2)] := by decide +kernel

/-- `renOK` is not vacuous: renaming `a` to `b.0` next to `b...` merges two different variables. -/
example : renOK (swapName "a" "b.0") ⟨[⟨.list [.axis "a", .ellipsis "e0" (.axis "b")], none⟩], []⟩ (toFun [("e0", 1)]) = false := by
  decide +kernel

end Einx.Solve
