import EinxModel.Proofs.Generic
import EinxModel.Proofs.Stb
import EinxModel.Extracted.Generic
/-!
C17 — generated code is loop-free and size-generic (cost independent of tensor sizes).

* Grammar part (`Generic/Grammar.lean`): the statement type that emitted text is decoded into has no
  loop, conditional, comprehension, lambda, `try`, `with` or short-circuit constructor.  The theorems
  below say what that buys: a block performs, in **every** environment, exactly its syntactic number of
  calls (`grammar_loop_free`), that number is a function of the skeleton (`cost_skeleton_invariant`),
  and equal skeletons mean "equal up to integer literals" (`skeleton_only_ints`).  The tie is T-str: every
  emitted text of the correspondence stream is decoded by the driver (`py_grammar`); the decoder fails on
  every other node kind.
* Lowering part (`Generic/Stb.lean`): `stb_size_generic` — the model of `_squeeze_transpose_broadcast`
  (with the no-op tests of the numpy wrappers) emits programs whose skeleton depends only on the axis
  names and on which lengths are 1.  The model is tied to the real traced graphs of `einx.id` (kind
  `stb_model`).  Everything else of the lowering (flattened axes in `Decomposer`, concatenation, diagonal,
  reduce, elementwise, dot, indexing, argfind) is covered by `lower_size_generic_partial` only up to the
  stated hypothesis and otherwise rests on the source obligation `extracted_size_decisions_allowed`
  and on the search over real emitted texts.
* Source obligations (`Extracted/Generic.lean`, regenerated from /repo on every run).
-/
namespace Einx.Generic
open Einx.IR

/-! ### The grammar -/

/-- **Loop-freedom, operationally.**  For every value type, every interpretation `ρ` of the constructs
(in particular every behaviour of the called functions) and every name store `σ`, one non-raising
execution of a block performs exactly `flatCalls b` calls — the number of call nodes outside nested
`def`s; and `cost` (one execution of the block plus one activation of every nested function body)
is the total number of call nodes.  No construct of the grammar can make the number depend on a value. -/
theorem grammar_loop_free (b : List Stmt) :
    (∀ (V : Type) (ρ : Env V) (σ : String → V), (exec ρ σ b).2 = flatCalls b) ∧ cost b = callCount b :=
  ⟨fun _ ρ σ => exec_calls ρ b σ, Stmt.costL_eq b⟩

/-- The body of a nested function definition, when activated, again performs exactly its syntactic
number of calls, whatever the arguments are bound to. -/
theorem activation_cost (n : String) (ps : List String) (body : List Stmt)
    (V : Type) (ρ : Env V) (σ : String → V) : (exec ρ σ body).2 = flatCalls body :=
  exec_calls ρ body σ

/-- **Cost is a function of the skeleton**: two programs with equal skeletons have the same cost and
the same number of call nodes. -/
theorem cost_skeleton_invariant (a b : List Stmt) (h : skeleton a = skeleton b) :
    cost a = cost b ∧ callCount a = callCount b := by
  have ha := Stmt.callCountL_skel a
  have hb := Stmt.callCountL_skel b
  simp only [skeleton] at h
  have hc : callCount a = callCount b := by
    simp only [callCount]; rw [← ha, ← hb, h]
  exact ⟨by simp only [cost, Stmt.costL_eq]; exact hc, hc⟩

/-- The skeleton has no integer literal left to abstract. -/
theorem skeleton_idempotent (b : List Stmt) : skeleton (skeleton b) = skeleton b :=
  Stmt.skelL_idem b

/-- **Equal skeletons ⇔ the programs differ only in integer literals** (and in the digits quoted by
`assert` messages): same statements, same names, same attributes, same keyword names, same operators,
same string/float/bool constants, same tuple and argument-list lengths. -/
theorem skeleton_only_ints (a b : List Stmt) : skeleton a = skeleton b ↔ SameUpToInts a b :=
  (Stmt.sameL_iff a b).symm

/-- Non-vacuity: `a = np.reshape(a, (2, 3)); return a` and the same text with `(20, 7)` have equal
skeletons, two calls' worth of cost … -/
example :
    let prog (m n : Int) : List Stmt :=
      [.import_ [("numpy", some "np")],
       .funcDef "op" ["a"]
        [.assign [.name "a"] (.call (.attr (.name "np") "reshape") [.name "a", .tuple [.const (.int m), .const (.int n)]] [] []),
         .assign [.name "a"] (.call (.attr (.name "np") "transpose") [.name "a", .tuple [.const (.int 1), .const (.int 0)]] [] []),
         .return_ (.name "a")]]
    cost (prog 2 3) = 2 ∧ cost (skeleton (prog 2 3)) = cost (skeleton (prog 20 7)) := by decide

/-- … and a text with a different rank (one more integer in the tuple) is *not* equal up to integers:
the relation is not trivially true. -/
example :
    ¬ SameUpToInts [.return_ (.tuple [.const (.int 2), .const (.int 3)])] [.return_ (.tuple [.const (.int 6)])] := by
  simp [SameUpToInts, Stmt.sameL, Stmt.same, PyExpr.same, PyExpr.sameL]

/-! ### The lowering -/

/-- **Size-genericity of `_squeeze_transpose_broadcast`.**  If two length assignments of the same flat
input and output expressions (same axis names in the same order) agree on which lengths are 1, the
model emits the same program up to shapes: the same primitives on the same registers with the same
permutations and the same ranks (or fails with the same error).  Every decision of the function — which
axes are squeezed, whether `reshape`, `transpose`, `broadcast_to` are no-ops, the permutation — is a
function of the names and of the `== 1` tests. -/
theorem stb_size_generic (ein ein' eout eout' : List Ax)
    (hni : names ein = names ein') (hpi : ein.map (fun a => a.len == 1) = ein'.map (fun a => a.len == 1))
    (hno : names eout = names eout') (hpo : eout.map (fun a => a.len == 1) = eout'.map (fun a => a.len == 1)) :
    (stbProg ein eout).map (fun r => (progSkeleton r.1, r.2)) = (stbProg ein' eout').map (fun r => (progSkeleton r.1, r.2)) := by
  have hi := sim_of_maps ein ein' hni hpi
  have ho := sim_of_maps eout eout' hno hpo
  have hrel : Rel { reg := 0, shape := lens ein, prog := [], next := 1 } { reg := 0, shape := lens ein', prog := [], next := 1 } :=
    ⟨rfl, rfl, rfl⟩
  have h := stb_generic hrel rfl rfl hi ho
  unfold stbProg
  generalize stb { reg := 0, shape := lens ein, prog := [], next := 1 } ein eout = r at *
  generalize stb { reg := 0, shape := lens ein', prog := [], next := 1 } ein' eout' = r' at *
  cases r <;> cases r' <;> simp only [] at h
  · simp [Except.map, h]
  · simp only [Except.map]; rw [h.prog, h.reg]

/-- The skeleton of the program for `b c a -> a b d`. -/
def exampleStb (b c a d : Nat) : Option (List (List Nat)) :=
  ((stbProg [⟨"b", b⟩, ⟨"c", c⟩, ⟨"a", a⟩] [⟨"a", a⟩, ⟨"b", b⟩, ⟨"d", d⟩]).map
    (fun r => (progSkeleton r.1).map (fun i => match i with
      | .reshape x s => 0 :: x :: s
      | .transpose x p => 1 :: x :: p
      | .broadcastTo x s => 2 :: x :: s
      | _ => [9]))).toOption

/-- Non-vacuity, and the converse direction: `b c a -> a b d` with lengths (3, 1, 2 | d = 4) emits
`reshape; transpose; reshape; broadcast_to`; scaling the non-unit lengths keeps the skeleton, while
changing the 1-pattern (`d = 1`) changes it. -/
example :
    exampleStb 3 1 2 4 = some [[0, 0, 0, 0], [1, 1, 1, 0], [0, 2, 0, 0, 0], [2, 3, 0, 0, 0]]
      ∧ exampleStb 3 1 2 4 = exampleStb 21 1 1000 9
      ∧ (exampleStb 3 1 2 4).map List.length ≠ (exampleStb 3 1 2 1).map List.length := by decide

/-- `lowerId` on flat expressions, up to (not including) the final `reshape` of `_compose_next`. -/
def lowerIdCore (ein eout : List Ax) : Except String St :=
  let s0 : St := { reg := 0, shape := lens ein, prog := [], next := 1 }
  let sq := ein.filter (fun a => !(a.len == 1))
  stb (reshapeW s0 (lens sq)) sq eout

/-- **Partial** size-genericity of the `id` lowering on flat expressions (no flattened axes, no
concatenation, no repeated axis): removal of the unit axes followed by `_squeeze_transpose_broadcast`
is size-generic; the last step, the `reshape` of `_compose_next` to the output shape, is size-generic
under the explicit hypothesis `hfin` that its no-op test gives the same answer for both assignments
(it compares the traced shape of the result with the output shape; that they coincide is part of C01,
not proved here).  Flattened axes, concatenation and the other operation families rest on
`extracted_size_decisions_allowed`, on the `stb_model` tie and on the search. -/
theorem lower_size_generic_partial (ein ein' eout eout' : List Ax)
    (hni : names ein = names ein') (hpi : ein.map (fun a => a.len == 1) = ein'.map (fun a => a.len == 1))
    (hno : names eout = names eout') (hpo : eout.map (fun a => a.len == 1) = eout'.map (fun a => a.len == 1))
    (hfin : ∀ s s', lowerIdCore ein eout = .ok s → lowerIdCore ein' eout' = .ok s' →
      (s.shape == lens eout) = (s'.shape == lens eout')) :
    ((lowerIdCore ein eout).map (fun s => progSkeleton (reshapeW s (lens eout)).prog))
      = ((lowerIdCore ein' eout').map (fun s => progSkeleton (reshapeW s (lens eout')).prog)) := by
  have hi := sim_of_maps ein ein' hni hpi
  have ho := sim_of_maps eout eout' hno hpo
  have hsq : Sim (ein.filter (fun a => !(a.len == 1))) (ein'.filter (fun a => !(a.len == 1))) :=
    hi.filter _ _ (fun a b _ h1 => by rw [h1])
  have hrel0 : Rel { reg := 0, shape := lens ein, prog := [], next := 1 } { reg := 0, shape := lens ein', prog := [], next := 1 } :=
    ⟨rfl, rfl, rfl⟩
  have hrel1 := reshapeW_rel hrel0 (lens (ein.filter (fun a => !(a.len == 1)))) (lens (ein'.filter (fun a => !(a.len == 1))))
    (by
      simp only [lens]
      rw [map_beq_map_filter, map_beq_map_filter]
      exact hi.all_eq _ _ (fun a b _ h1 => by rw [h1]))
    (by simp only [lens, List.length_map]; exact hsq.length_eq)
  have h := stb_generic hrel1 (reshapeW_shape _ _) (reshapeW_shape _ _) hsq ho
  unfold lowerIdCore at hfin ⊢
  simp only [] at hfin ⊢
  generalize stb (reshapeW { reg := 0, shape := lens ein, prog := [], next := 1 } (lens (ein.filter (fun a => !(a.len == 1)))))
    (ein.filter (fun a => !(a.len == 1))) eout = r at *
  generalize stb (reshapeW { reg := 0, shape := lens ein', prog := [], next := 1 } (lens (ein'.filter (fun a => !(a.len == 1)))))
    (ein'.filter (fun a => !(a.len == 1))) eout' = r' at *
  cases r <;> cases r' <;> simp only [] at h
  · simp [Except.map, h]
  · rename_i s s'
    simp only [Except.map]
    have := reshapeW_rel h (lens eout) (lens eout') (hfin s s' rfl rfl)
      (by simp only [lens, List.length_map]; exact ho.length_eq)
    rw [this.prog]

/-- The model `lowerId` restricted to flat expressions is `lowerIdCore` followed by the final reshape
(so the partial theorem speaks about the function the driver runs). -/
theorem lowerId_flat (ein eout : List Ax) (hnd : noDup (names ein) = true) :
    lowerId (ein.map G.ax) (eout.map G.ax) = (lowerIdCore ein eout).map (fun s => reshapeW s (lens eout)) := by
  have hl : ∀ l : List Ax, G.leavesL (l.map G.ax) = l := by
    intro l; induction l with
    | nil => rfl
    | cons a l ih => simp [G.leavesL, G.leaves, ih]
  have hs : ∀ l : List Ax, gShape (l.map G.ax) = lens l := by
    intro l; simp [gShape, lens, G.size, Function.comp_def]
  have hg : ∀ l : List Ax, (l.map G.ax).any isGrp = false := by
    intro l; induction l with
    | nil => rfl
    | cons a l ih => simp [isGrp]
  have hd : ∀ (n : Nat) (s : St) (l : List Ax), decompose n s (l.map G.ax) = (s, l.map G.ax) := by
    intro n s l; cases n <;> simp [decompose, hg]
  unfold lowerId lowerIdCore
  simp only [hl, hs, hd, hnd, Bool.not_true, Bool.false_eq_true, if_false]
  cases stb (reshapeW { reg := 0, shape := lens ein, prog := [], next := 1 } (lens (ein.filter (fun a => !(a.len == 1)))))
    (ein.filter (fun a => !(a.len == 1))) eout <;> rfl

/-! ### Source obligations (regenerated from /repo on every run) -/

/-- Every place in the lowering modules (`adapter/_util.py`, `namedtensor_from_decomposednamedtensor.py`,
`decomposednamedtensor_from_classical.py`, `numpy/classical_from_numpy.py`, `classical_from_classical.py`,
`tracer/optimizer/classical.py`) where control flow looks at an axis length or a shape is of an allowed
form: `== 1` / `!= 1`, equality of two whole shapes, a comparison that only decides whether to raise,
iteration over the entries of a shape (trip count = rank), or one of three anchored special cases.
In particular there is no `for`/`while`/comprehension over `range(<axis length>)`. -/
theorem extracted_size_decisions_allowed :
    Einx.Extracted.sizeSites.all (fun s => s.cls.allowed) = true := by decide

/-- The inventory is not empty: it contains the `== 1` tests, the no-op shape tests and the
coordinate-component loop the property's mechanisms name. -/
example :
    Einx.Extracted.sizeSites.any (fun s => s.cls == .eq1) = true
      ∧ Einx.Extracted.sizeSites.any (fun s => s.cls == .shapeEq) = true
      ∧ Einx.Extracted.sizeSites.any (fun s => s.cls == .coordComponents) = true
      ∧ 20 ≤ Einx.Extracted.sizeSites.length := by decide

/-- The traced IR has no loop or branch node: every subclass of `tracer.Application` is one of the
straight-line kinds the compiler turns into one statement or an inlined expression. -/
theorem extracted_node_kinds_straight_line :
    Einx.Extracted.nodeKinds.all (fun k => straightLineKinds.contains k) = true
      ∧ Einx.Extracted.nodeKinds.length ≥ 10 := by decide

/-- No text fragment of the emitter's `to_code` functions contains a keyword that would open a loop,
a branch, a comprehension, a lambda, `try` or `with` in the emitted text. -/
theorem extracted_emitter_has_no_control_keywords :
    Einx.Extracted.emitterKeywordFragments = [] ∧ Einx.Extracted.emitterFragmentCount ≥ 20 := by decide

end Einx.Generic
