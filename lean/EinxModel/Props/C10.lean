import EinxModel.Proofs.Concurrent
import EinxModel.Extracted.Registry
/-!
C10 — concurrent use from several threads behaves like some serial order.

Property theorems only (the simulation invariant and its preservation are in `Proofs/Concurrent.lean`).
`Extracted.registryLocked`, `registryLockKind`, `threadLocalStacks`, `threadLocalAdapterStacks`,
`cacheWrappers` and `sysModulesIterations` are regenerated from `/repo` on every run, so the `extracted_*` obligations are re-checked
against what the source says now.
-/
namespace Einx.Registry.Conc
open Einx.Registry

/-! ### Obligations regenerated from the source -/

/-- Every public `BackendRegistry` method reads and replaces `self.state` inside `with self.use_lock`. -/
theorem extracted_all_locked : (Einx.Extracted.registryLocked.all (·.2)) = true := by decide

/-- The same fact in the form the theorems use. -/
theorem extracted_cfg_all_locked : (LockCfg.ofTable Einx.Extracted.registryLocked).allLocked = true := by decide

/-- `use_lock` is a mutual-exclusion lock of the `threading` module. -/
theorem extracted_lock_is_mutex :
    Einx.Extracted.registryLockKind = "RLock" ∨ Einx.Extracted.registryLockKind = "Lock" := by decide

/-- The tracing stack `_dependon` of `tracer/graph.py` is a `threading.local()`. -/
theorem thread_local_stacks :
    Einx.Extracted.threadLocalStacks.all (·.2.2) = true ∧ Einx.Extracted.threadLocalStacks ≠ [] := by decide

/-- The device stack (torch adapter), the namespace stack (array-api adapter) and the retrace-warning flag of
`util/lru_cache.py` are kept in `threading.local()` objects, and all three anchors were found. -/
theorem thread_local_adapter_stacks :
    Einx.Extracted.threadLocalAdapterStacks.all (·.2.2) = true ∧ Einx.Extracted.threadLocalAdapterStacks.length = 3 := by
  decide

/-- The graph cache is `functools.cache` / `functools.lru_cache` (safe for concurrent callers: its dictionary is
only touched with the GIL held and a racing first call computes the value twice, never a torn entry). -/
theorem extracted_cache_is_functools :
    Einx.Extracted.cacheWrappers ≠ [] ∧ Einx.Extracted.cacheWrappers.all (fun w => w == "cache" || w == "lru_cache") = true := by
  decide

/-- The model reads `sys.modules` atomically.  The source may do so only through snapshots (`list(sys.modules)` …):
a loop over the live dictionary raises `RuntimeError` when another thread imports a module meanwhile. -/
theorem extracted_sys_modules_snapshot : Einx.Extracted.sysModulesIterations.all (·.2) = true := by decide

/-! ### Linearizability of the locked registry -/

/-- **Invariant at any time** of any execution of any number of threads with any programs under any schedule,
if every method is locked: the shared registry state and `sys.modules` are exactly what the sequential model
reaches by running the committed calls one after the other in commit order, every committed call had the
outcome it has in that serial run, commit order respects every thread's program order, a thread inside a
method owns the lock, and a snapshot held between read and store is never stale. -/
theorem locked_invariant (rc : Cfg) (lc : LockCfg) (hl : lc.allLocked = true) (w0 : World)
    (progs : List (List Op)) (sched : List Nat) : Inv rc w0 progs (run rc lc (init w0 progs) sched) :=
  inv_run hl sched (inv_init rc w0 progs)

/-- **Linearizability.**  If every method is locked then for every execution (any number of threads, any
programs, any schedule) that runs to completion there is a serial order of all calls – a merge of the
threads' programs, so consistent with each thread's program order – such that running the calls in that
order on the sequential model `runOps` yields the final shared state and, call by call, the outcomes the
threads observed.  In particular a call fails in the concurrent run only if it fails in that serial run. -/
theorem locked_linearizable (rc : Cfg) (lc : LockCfg) (hl : lc.allLocked = true) (w0 : World)
    (progs : List (List Op)) (sched : List Nat) :
    let c := run rc lc (init w0 progs) sched
    c.finished = true →
    ∃ order : List (Nat × Op × Out),
      (∀ i p, progs[i]? = some p → opsOf i order = p) ∧
      (∀ e ∈ order, e.1 < progs.length) ∧
      runOps rc w0 (order.map (·.2.1)) = (⟨c.st, c.mods⟩, order.map (·.2.2)) ∧
      (∀ i th, c.threads[i]? = some th → th.outs = outsOf i order) := by
  intro c hfin
  have h : Inv rc w0 progs c := locked_invariant rc lc hl w0 progs sched
  refine ⟨c.lin, ?_, h.tids, h.serial, fun i th hi => (h.thr i th hi).outs⟩
  intro i p hp
  have hlt : i < c.threads.length := by
    rw [h.len]
    rcases Nat.lt_or_ge i progs.length with h' | h'
    · exact h'
    · rw [List.getElem?_eq_none h'] at hp; cases hp
  have hi : c.threads[i]? = some c.threads[i] := List.getElem?_eq_getElem hlt
  have t := h.thr i _ hi
  have hd : c.threads[i].done = true := by
    have := List.all_eq_true.mp hfin c.threads[i] (List.getElem_mem hlt)
    exact this
  simp only [Thread.done, Bool.and_eq_true, List.isEmpty_iff] at hd
  have := t.prog
  rw [hd.2, List.append_nil, hp] at this
  exact (Option.some.inj this).symm

/-- The corollary for the lock discipline extracted from the current source. -/
theorem extracted_linearizable (w0 : World) (progs : List (List Op)) (sched : List Nat) :
    let c := run Einx.Extracted.registryCfg (LockCfg.ofTable Einx.Extracted.registryLocked) (init w0 progs) sched
    c.finished = true →
    ∃ order : List (Nat × Op × Out),
      (∀ i p, progs[i]? = some p → opsOf i order = p) ∧
      (∀ e ∈ order, e.1 < progs.length) ∧
      runOps Einx.Extracted.registryCfg w0 (order.map (·.2.1)) = (⟨c.st, c.mods⟩, order.map (·.2.2)) ∧
      (∀ i th, c.threads[i]? = some th → th.outs = outsOf i order) :=
  locked_linearizable _ _ extracted_cfg_all_locked w0 progs sched

/-- **No deadlock**: with every method locked, an execution that is not finished always has an enabled thread
(so no call is blocked for ever by another thread's activity). -/
theorem locked_no_deadlock (rc : Cfg) (lc : LockCfg) (hl : lc.allLocked = true) (w0 : World)
    (progs : List (List Op)) (sched : List Nat) :
    let c := run rc lc (init w0 progs) sched
    c.finished = false → ∃ i, (stepThread rc lc c i).isSome = true := by
  intro c hfin
  have h : Inv rc w0 progs c := locked_invariant rc lc hl w0 progs sched
  cases hlk : c.lock with
  | some k =>
    obtain ⟨th, hk, hp⟩ := h.owner k hlk
    have t := h.thr k th hk
    refine ⟨k, ?_⟩
    unfold stepThread
    simp only [hk]
    cases hpc : th.pc with
    | idle => exact absurd hpc hp
    | acquired => simp
    | releasing => simp
    | read s =>
      have hb := t.busy hp (by simp [hpc])
      cases hprog : th.prog with
      | nil => exact absurd hprog hb
      | cons op rest => simp
  | none =>
    -- nobody is inside a method; some thread still has calls to make
    have hex : ∃ th ∈ c.threads, th.done = false := by
      obtain ⟨th, hm, hd⟩ := List.all_eq_false.mp hfin
      exact ⟨th, hm, by simpa using hd⟩
    obtain ⟨th, hm, hd⟩ := hex
    obtain ⟨i, hlt, rfl⟩ := List.mem_iff_getElem.mp hm
    have hi : c.threads[i]? = some c.threads[i] := List.getElem?_eq_getElem hlt
    have t := h.thr i _ hi
    have hidle : c.threads[i].pc = .idle := by
      by_cases hp : c.threads[i].pc = .idle
      · exact hp
      · have := t.owns hp; rw [hlk] at this; cases this
    refine ⟨i, ?_⟩
    unfold stepThread
    simp only [hi, hidle]
    cases hprog : c.threads[i].prog with
    | nil => simp [Thread.done, hidle, hprog] at hd
    | cons op rest =>
      by_cases he : isEnv op = true
      · simp [he]
      · have he' : isEnv op = false := by simpa using he
        simp [he', locks_of_allLocked lc hl op he', hlk]

/-- **Progress**: with every method locked, every execution can be completed – whatever has been scheduled so far,
some continuation of the schedule finishes all programs (and every step decreases `Conf.measure`, so no
schedule lets a call spin or wait for ever while steps are being taken).  In particular the hypothesis
`finished` of `locked_linearizable` is satisfiable for all programs. -/
theorem locked_can_finish (rc : Cfg) (lc : LockCfg) (hl : lc.allLocked = true) (w0 : World)
    (progs : List (List Op)) (sched : List Nat) :
    ∃ ext, (run rc lc (init w0 progs) (sched ++ ext)).finished = true := by
  generalize hn : (run rc lc (init w0 progs) sched).measure = n
  induction n using Nat.strongRecOn generalizing sched with
  | _ n ih =>
    cases hfin : (run rc lc (init w0 progs) sched).finished with
    | true => exact ⟨[], by simpa using hfin⟩
    | false =>
      obtain ⟨i, hi⟩ := locked_no_deadlock rc lc hl w0 progs sched hfin
      cases hs : stepThread rc lc (run rc lc (init w0 progs) sched) i with
      | none => simp [hs] at hi
      | some c' =>
        have hrun : run rc lc (init w0 progs) (sched ++ [i]) = c' := by
          rw [run_append]
          show (stepThread rc lc (run rc lc (init w0 progs) sched) i).getD _ = c'
          rw [hs]; rfl
        have hlt : c'.measure < n := by rw [← hn]; exact step_measure_lt i hs
        obtain ⟨ext, hext⟩ := ih c'.measure hlt (sched ++ [i]) (by rw [hrun])
        exact ⟨i :: ext, by simpa using hext⟩

/-! ### The set of serial outcomes computed by the driver is complete (`interleave_complete` in `Proofs/Concurrent.lean`) -/

/-- **Outcome form of linearizability** (the form the harness and the driver use): the observable outcome of a
finished run – outcomes per thread, final registry state, final `sys.modules` – is one of the outcomes of the
serial interleavings at call granularity. -/
theorem locked_outcome_serial (rc : Cfg) (lc : LockCfg) (hl : lc.allLocked = true) (w0 : World)
    (progs : List (List Op)) (sched : List Nat) :
    let c := run rc lc (init w0 progs) sched
    c.finished = true → c.outcome ∈ serialOutcomes rc w0 progs := by
  intro c hfin
  obtain ⟨order, hops, htid, hser, houts⟩ := locked_linearizable rc lc hl w0 progs sched hfin
  have hinv : Inv rc w0 progs c := locked_invariant rc lc hl w0 progs sched
  simp only [serialOutcomes, List.mem_map]
  refine ⟨order.map (fun e => (e.1, e.2.1)), ?_, ?_⟩
  · apply interleave_complete _ _ _ (Nat.le_refl _)
    · intro i p hp
      have := hops i p hp
      simpa [opsOf, List.filter_map, Function.comp_def] using this
    · intro e he
      simp only [List.mem_map] at he
      obtain ⟨e', he', rfl⟩ := he
      exact htid e' he'
  · have hmap : (order.map (fun e => (e.1, e.2.1))).map (·.2) = order.map (·.2.1) := by simp
    simp only [serialOutcome, hmap, hser, Conf.outcome]
    congr 1
    apply List.ext_getElem?
    intro i
    by_cases hi : i < progs.length
    · have hi' : i < c.threads.length := by rw [hinv.len]; exact hi
      have := houts i _ (List.getElem?_eq_getElem hi')
      simp only [List.getElem?_map, List.getElem?_range hi, Option.map_some, List.getElem?_eq_getElem hi', this]
      simp [outsOf, List.zip_map', List.filter_map, Function.comp_def]
    · have hi' : ¬ i < c.threads.length := by rw [hinv.len]; exact hi
      simp [Nat.not_lt.mp hi, Nat.not_lt.mp hi']

/-! ### What goes wrong without the lock (defect D9) – the replay witness when `extracted_all_locked` fails -/

namespace Witness

def numpyB : Backend := { uid := 1, name := "numpy", priority := 0, accepts := [3], invalid := false }
def otherB : Backend := { uid := 2, name := "other", priority := 0, accepts := [4], invalid := false }
def rc : Cfg := { registerClearsMemo := true }
def w0 : World := { st := { backends := [numpyB, otherB], names := [("numpy", numpyB), ("other", otherB)] }, mods := [] }
/-- Thread 0 (A): a lookup by argument type.  Thread 1 (B): `with other:` around nothing. -/
def progs : List (List Op) := [[.get .none [3]], [.enter otherB, .exit otherB]]
def getUnlocked : LockCfg := { LockCfg.all with get := false }
/-- A reads `self.state`; B completes `enter`; A stores the state computed from its stale snapshot;
B runs `exit`. -/
def schedule : List Nat := [0, 1, 1, 1, 1, 0, 1, 1, 1, 1]

end Witness

open Witness in
/-- With an unlocked `get`: thread A is inside `get` between its read and its store while thread B completes
`enter`; A's store then discards B's `use_stack` entry, and B's `exit` fails – an outcome that no serial order
of the three calls produces. -/
theorem unlocked_get_loses_update :
    let c := run rc getUnlocked (init w0 progs) schedule
    c.finished = true ∧
    c.st.stack = [] ∧
    c.threads.map (·.outs) = [[.backend 1], [.unit, .error .assertion]] ∧
    c.outcome ∉ serialOutcomes rc w0 progs := by
  decide

open Witness in
/-- The same programs under the same schedule with every method locked: A has to wait, nothing is lost. -/
theorem locked_get_keeps_update :
    let c := run rc LockCfg.all (init w0 progs) (schedule ++ [0, 0, 1, 1, 1, 1, 1, 1, 1, 1])
    c.finished = true ∧ c.threads.map (·.outs) = [[.backend 1], [.unit, .unit]] ∧
    c.outcome ∈ serialOutcomes rc w0 progs := by
  decide

open Witness in
/-- An unlocked `enter` loses an entry in the same way (A = `enter`, B = `enter … exit`). -/
theorem unlocked_enter_loses_update :
    let progs' : List (List Op) := [[.enter numpyB], [.enter otherB, .exit otherB]]
    let c := run rc { LockCfg.all with enter := false } (init w0 progs') [0, 1, 1, 0, 1, 1, 1, 1]
    c.finished = true ∧ c.outcome ∉ serialOutcomes rc w0 progs' := by
  decide

/-! ### Context stacks -/

/-- **Thread-local stacks do not interfere**: when the storage is thread-local, under any interleaving of the
stack operations of any number of threads each thread's stack contents and outcomes are exactly those of
running its own operations alone. -/
theorem thread_local_noninterference (σ : Nat → List Nat) (sched : List (Nat × SOp)) (t : Nat) :
    let r := stackRun true σ sched
    (r.1 t, (r.2.filter (·.1 == t)).map (·.2)) = stackAlone (σ t) ((sched.filter (·.1 == t)).map (·.2)) := by
  induction sched generalizing σ with
  | nil => simp [stackRun, stackAlone]
  | cons e rest ih =>
    obtain ⟨u, op⟩ := e
    by_cases hut : u = t
    · subst hut
      have := ih (fun j => if j = u then (stackOp (σ u) op).1 else σ j)
      simp only [↓reduceIte] at this
      simp only [stackRun, ↓reduceIte, List.filter_cons, beq_self_eq_true, List.map_cons, stackAlone]
      rw [← this]
    · have hut' : (u == t) = false := by simpa using hut
      have htu : ¬ t = u := fun e => hut e.symm
      have := ih (fun j => if j = u then (stackOp (σ u) op).1 else σ j)
      simp only [htu, ↓reduceIte] at this
      simp only [stackRun, ↓reduceIte, List.filter_cons, hut', Bool.false_eq_true]
      exact this

/-- With a plain module-level object instead of `threading.local()` a thread sees the other thread's entries. -/
theorem shared_stack_interferes :
    let sched : List (Nat × SOp) := [(0, .push 1), (1, .push 2), (0, .peek), (0, .pop), (1, .pop)]
    ((stackRun false (fun _ => []) sched).2.filter (·.1 == 0)).map (·.2)
      ≠ (stackAlone [] ((sched.filter (·.1 == 0)).map (·.2))).2 := by
  decide

/-! ### Non-vacuity -/

/-- The hypotheses of `locked_linearizable` are met by a non-trivial instance: three threads (a lookup that
registers the memo, a `with` block, a registration plus an import) under a schedule with context switches inside
methods run to completion, and the lock is really contended (thread 1 is refused while thread 0 owns it). -/
example :
    let progs : List (List Op) :=
      [[.get .none [3]], [.enter Witness.otherB, .exit Witness.otherB],
       [.register { uid := 3, name := "late", priority := 5, accepts := [3], invalid := false }, .importModule "m"]]
    let c1 := run Witness.rc LockCfg.all (init Witness.w0 progs) [0, 0]
    let c := run Witness.rc LockCfg.all (init Witness.w0 progs) [0, 0, 1, 2, 0, 2, 0, 1, 2, 1, 2, 1, 2, 1, 2, 2, 1, 2, 1, 2, 1, 1, 2, 1, 1, 1, 1]
    stepThread Witness.rc LockCfg.all c1 1 = none ∧ c1.finished = false ∧
    c.finished = true ∧ c.lin.length = 5 ∧ c.outcome ∈ serialOutcomes Witness.rc Witness.w0 progs := by
  decide

end Einx.Registry.Conc
