import EinxModel.Proofs.OptDagSound
import EinxModel.Proofs.OptDagIR
import EinxModel.Proofs.OptDagTerm
/-!
C05 (second file) — the REAL optimiser traversal on DAGs.

`Optimize/Dag.lean: optimizeDag` is an executable model of `einx/_src/tracer/optimizer/optimizer.py` on stores (one
node per tracer, operand pytrees as token lists): the memo `id_to_newobj`, the patterns in list order (first match wins,
result memoised), the rebuild of a node from its rewritten operands with all outputs memoised, fresh graph inputs, and
the loop `while True: … if not changed: break`.  tools/props/c05.py runs it (driver kind `optdag`) on the store of every
captured real graph with the real pattern list of the numpy backend and requires its output to be *structurally equal*
(canonical form) to the real optimised graph, flag `changed` of every pass included.

The theorems below are about that same definition.  What a store computes is `evalProgram` (`Optimize/DagSem.lean`):
nodes are evaluated once, in order, consumers read the stored value; the meaning of applications is a parameter `Sem`
subject to the laws the patterns rely on (`Sem.Laws`), instantiated by `irSem A O fns` over the IR executor for every element
algebra `A` and every meaning `O` of the calls the patterns never inspect (`irSem_laws`).

Side conditions are decidable and computed by the driver for every real graph (`goodRun`): every pass starts from a
program that is a graph whose inputs are distinct tracers without origin (`Prog.wfTop`) and on which `InlineGraph` does not
fire at the top (`noTopInline`; a graph that is inlined away is no longer a graph -- the per-graph evaluator of c05.py covers
that case).  Soundness is one-directional, as for the rule theorems: if the original graph runs, the optimised graph runs and
returns the same.
-/
namespace Einx.OptDag
open Einx Einx.IR

/-- **pass_sound_dag**: one pass of the real traversal (`Optimizer(optimizations)._optimize(graph)`) preserves what a
well-formed graph returns, for every semantics that satisfies the laws of the patterns. -/
theorem pass_sound_dag {V : Type} (Sm : Sem V) (pats : List Pattern) (hL : Sm.Laws pats) (p p' : Prog) (fuel : Nat) (ch : Bool)
    (hwf : p.wfTop = true) (hni : noTopInline pats p = true) (hp : pass pats fuel p = .ok (p', ch))
    (inputs : List V) (r : List (RTok V)) (hev : evalProgram Sm p inputs = .ok r) : evalProgram Sm p' inputs = .ok r :=
  pass_sound Sm pats hL p p' fuel ch hwf hni hp inputs r hev

/-- **optimizeDag_sound** (any semantics with the laws): the graph returned by the optimiser loop returns, on all inputs on
which the original graph runs, what the original graph returns. -/
theorem optimizeDag_sound_laws {V : Type} (Sm : Sem V) (pats : List Pattern) (hL : Sm.Laws pats) :
    ∀ (n : Nat) (p q : Prog) (log : List Bool), goodRun pats n p = true → optimizeDag pats n p = .ok (q, log) →
    ∀ (inputs : List V) (r : List (RTok V)), evalProgram Sm p inputs = .ok r → evalProgram Sm q inputs = .ok r
  | 0, p, q, log, _, h => by simp [optimizeDag, throw, throwThe, MonadExceptOf.throw] at h
  | n + 1, p, q, log, hg, h => by
    intro inputs r hev
    simp only [optimizeDag] at h
    split at h
    · simp only [pure, Except.pure, Except.ok.injEq, Prod.mk.injEq] at h
      rw [← h.1]; exact hev
    · obtain ⟨⟨p', ch⟩, hp, h⟩ := bind_ok.1 h
      simp only [goodRun, Bool.and_eq_true] at hg
      obtain ⟨⟨hwf, hni⟩, hrest⟩ := hg
      have hev' := pass_sound Sm pats hL p p' p.fuel ch hwf hni hp inputs r hev
      cases ch with
      | false =>
        simp only [Bool.false_eq_true, if_false, pure, Except.pure, Except.ok.injEq, Prod.mk.injEq] at h
        rw [← h.1]; exact hev'
      | true =>
        simp only [if_true] at h
        obtain ⟨⟨q', log'⟩, hq, h⟩ := bind_ok.1 h
        simp only [pure, Except.pure, Except.ok.injEq, Prod.mk.injEq] at h
        rw [← h.1]
        rw [hp] at hrest
        exact optimizeDag_sound_laws Sm pats hL n p' q' log' hrest hq inputs r hev'

/-- **optimizeDag_sound**: for every element algebra `A` (every tensor content, every meaning of the elementary functions),
every meaning `O` of the applications the patterns never inspect, and the pattern list of a backend over four different
functions `fns`: the graph the model of the real optimiser returns computes, on all inputs on which the original graph runs
(well-formed tensors of the traced shapes), the same output pytree as the original graph -- with `np.reshape`,
`np.transpose`, `np.broadcast_to`, `np.concatenate` executed by the numpy primitive plans of IR/Prim.lean. -/
theorem optimizeDag_sound {α : Type} (A : Alg α) (O : EApp (PV α) → Except String (PV α)) (fns : NpFns) (hd : fns.distinct = true)
    (n : Nat) (p q : Prog) (log : List Bool) (hg : goodRun fns.patterns n p = true) (h : optimizeDag fns.patterns n p = .ok (q, log))
    (inputs : List (PV α)) (r : List (RTok (PV α))) (hev : evalProgram (irSem A O fns) p inputs = .ok r) :
    evalProgram (irSem A O fns) q inputs = .ok r :=
  optimizeDag_sound_laws (irSem A O fns) fns.patterns (irSem_laws A O fns hd) n p q log hg h inputs r hev

/-- The laws hold for the IR semantics (restated here so that the audit covers it). -/
theorem irSem_satisfies_laws {α : Type} (A : Alg α) (O : EApp (PV α) → Except String (PV α)) (fns : NpFns) (hd : fns.distinct = true) :
    (irSem A O fns).Laws fns.patterns := irSem_laws A O fns hd

/-! ## Termination -/

/-- **pass_terminates** (the fuel bound is sufficient): on a graph over a topologically ordered store (operands before
consumers, no nested graphs -- `Prog.topoOK`, decidable) one pass of the traversal never runs out of the recursion depth
`Prog.fuel = 2·(nodes + graphs) + 2` the model gives it: it returns a program or the exception Python would raise. -/
theorem pass_terminates (pats : List Pattern) (p : Prog) (h : p.topoOK = true) : pass pats p.fuel p ≠ .error .fuel :=
  pass_nf pats p h

/-- **optimizeDag_terminates_partial**: when every pass of the run starts from a graph over a topologically ordered store
(`fuelRun`, decidable; computed by the driver for every real graph), the loop can only run out of fuel by exhausting the pass
budget `n` with `n` passes that all report `changed`. -/
theorem optimizeDag_terminates_partial (pats : List Pattern) : ∀ (n : Nat) (p : Prog), fuelRun pats n p = true →
    optimizeDag pats n p = .error .fuel → allChanged pats n p = true
  | 0, _, _, _ => rfl
  | n + 1, p, hf, h => by
    simp only [fuelRun, Bool.and_eq_true] at hf
    obtain ⟨htopo, hrest⟩ := hf
    simp only [optimizeDag] at h
    split at h
    · cases h
    · cases hp : pass pats p.fuel p with
      | error e =>
        rw [hp] at h
        simp only [bind, Except.bind, Except.error.injEq] at h
        subst h
        exact (pass_nf pats p htopo hp).elim
      | ok r =>
        obtain ⟨p', ch⟩ := r
        rw [hp] at h hrest
        simp only [bind, Except.bind] at h
        cases ch with
        | false => simp [pure, Except.pure] at h
        | true =>
          simp only [if_true] at h
          simp only [allChanged, hp]
          cases hq : optimizeDag pats n p' with
          | error e =>
            rw [hq] at h
            simp only [Except.error.injEq] at h
            subst h
            exact optimizeDag_terminates_partial pats n p' hrest hq
          | ok r => rw [hq] at h; simp [pure, Except.pure] at h

/-- **optimizeDag_terminates** (relative to a measure): if some natural-number measure strictly decreases in every pass that
reports `changed` -- for the real optimiser the number of application nodes of the graph unfolded into a tree, checked on
every real pass by tools/props/c05.py; `Props/C05.lean: optimize_terminates` is the abstract statement --, a budget of
`μ p + 1` passes is never exhausted: the model returns a program (or a Python exception), not `Err.fuel`. -/
theorem optimizeDag_terminates (pats : List Pattern) (μ : Prog → Nat)
    (hμ : ∀ p p', pass pats p.fuel p = .ok (p', true) → μ p' < μ p) (p : Prog) (hf : fuelRun pats (μ p + 1) p = true) :
    optimizeDag pats (μ p + 1) p ≠ .error .fuel := by
  intro h
  have hall := optimizeDag_terminates_partial pats _ p hf h
  have key : ∀ (n : Nat) (q : Prog), μ q < n → allChanged pats n q = false := by
    intro n
    induction n with
    | zero => intro q hq; omega
    | succ n ih =>
      intro q hq
      simp only [allChanged]
      split
      · rename_i q' hp
        exact ih q' (by have := hμ q q' hp; omega)
      · rfl
  rw [key _ p (by omega)] at hall
  cases hall

/-! ## Non-vacuity -/

/-- The numpy backend's functions. -/
def npFns : NpFns :=
  { reshape := ⟨"numpy", none, some "np", ["reshape"]⟩, transpose := ⟨"numpy", none, some "np", ["transpose"]⟩,
    broadcastTo := ⟨"numpy", none, some "np", ["broadcast_to"]⟩, concatenate := ⟨"numpy", none, some "np", ["concatenate"]⟩ }

example : npFns.distinct = true := by decide

/-- The store of `Graph([x], add(y, transpose(transpose(y, (1,0)), (1,0))))` with `y = cast(reshape(cast(reshape(x, (6,))), (3,2)))`
shared by two consumers (nodes: 0 `x`, 1 `import numpy as np`, 2 `np.reshape`, 3 call, 4 cast, 5 call, 6 cast = `y`,
7 `np.transpose`, 8 call, 9 cast, 10 call, 11 cast, 12 `np.add`, 13 call, 14 cast). -/
def exProg : Prog :=
  let v (i : Nat) : List Tok := [.ref i]
  let sh (l : List Nat) : List Tok := natsToks l
  let call (f : Nat) (args : List (List Tok)) : Node := ⟨.value, .app ⟨.call, [v f], args, [], [v 0], [.ref 0]⟩⟩
  let cast (x : Nat) (s : List Nat) : Node := ⟨.tensor s, .app ⟨.cast, [v x], [], [], [], [.ref 0]⟩⟩
  let attr (m : Nat) (k : String) : Node := ⟨.value, .app ⟨.getattr k, [v m], [], [], [], [.ref 0]⟩⟩
  Prog.mk (Store.mk [⟨.tensor [2, 3], .none⟩, ⟨.value, .app ⟨.import_ "numpy" none (some "np"), [], [], [], [], [.ref 0]⟩⟩,
        attr 1 "reshape", call 2 [v 0, sh [6]], cast 3 [6], call 2 [v 4, sh [3, 2]], cast 5 [3, 2],
        attr 1 "transpose", call 7 [v 6, sh [1, 0]], cast 8 [2, 3], call 7 [v 9, sh [1, 0]], cast 10 [3, 2],
        attr 1 "add", call 12 [v 6, v 11], cast 13 [3, 2]]
      [⟨[0], v 14, some "op"⟩])
    [.gref 0]

/-- The model of the real traversal on it: three passes rewrite (reshapes merged through the cast -- the shared value is
rewritten once --, transposes merged, the merged transpose `(0, 1)` removed as a no-op), the fourth reports no change; the
side conditions of `optimizeDag_sound` hold for the whole run. -/
example : (optimizeDag npFns.patterns 10 exProg).toOption.map (·.2) = some [true, true, true, false] := by decide +kernel

example : goodRun npFns.patterns 10 exProg = true ∧ fuelRun npFns.patterns 10 exProg = true ∧ exProg.topoOK = true := by decide +kernel

/-- The result: `add(y', y')` with `y' = cast(reshape(x, (3,2)))` (8 nodes instead of 15). -/
example : (optimizeDag npFns.patterns 10 exProg).toOption.map (fun r => r.1.store.nodes.length) = some 8 := by decide +kernel

/-- The integers with `np.add` read as elementwise addition (any other application is an error). -/
def exO : EApp (PV Int) → Except String (PV Int) := fun ea =>
  match ea.head, ea.pre, ea.args with
  | .call, [[.val (.obj (.attr (.imp "numpy" none (some "np")) "add"))]], [[.val (.tensor a)], [.val (.tensor b)]] =>
    pure (.tensor ⟨a.shape, List.zipWith (· + ·) a.data b.data⟩)
  | _, _, _ => throw "uninterpreted"

def exAlg : Alg Int := intAlgOf (fun _ args => args.sum) (-1)

def outData : Except String (List (RTok (PV Int))) → Option (List Nat × List Int)
  | .ok [.val (.tensor t)] => some (t.shape, t.data)
  | _ => none

/-- The original graph runs on a well-formed input (the hypothesis of `optimizeDag_sound` is met) … -/
example : outData (evalProgram (irSem exAlg exO npFns) exProg [.tensor ⟨[2, 3], [1, 2, 3, 4, 5, 6]⟩])
    = some ([3, 2], [2, 4, 6, 8, 10, 12]) := by decide +kernel

/-- … and so does the optimised graph, with the same result. -/
example : (optimizeDag npFns.patterns 10 exProg).toOption.map
      (fun r => outData (evalProgram (irSem exAlg exO npFns) r.1 [.tensor ⟨[2, 3], [1, 2, 3, 4, 5, 6]⟩]))
    = some (some ([3, 2], [2, 4, 6, 8, 10, 12])) := by decide +kernel

/-- An input whose shape is not the traced one does not run (the premise excludes it). -/
example : outData (evalProgram (irSem exAlg exO npFns) exProg [.tensor ⟨[3, 2], [1, 2, 3, 4, 5, 6]⟩]) = none := by decide +kernel

end Einx.OptDag
