import EinxModel.Proofs.ElabTotal
import EinxModel.Proofs.RejectRoot
/-!
# C03 (elaboration) — `_parse_op` returns a result or raises `SemanticError`; every stated rule is enforced

All statements are about `Einx.Elab.parseOpTree`, the definition the driver executes for the request kind `parse_op_model`
(model M2a of `einx/_src/adapter/einx_from_namedtensor.py:_parse_op`, tied to the real `_parse_op` by the C07 correspondence and
by stream R of `tools/props/c03.py`: trees on success, raise site on failure).  Trees are arbitrary `Expr`s (not only parser
output); flags are arbitrary unless a theorem names the family.

* `elab_total` — for every family with the flags its wrapper passes (extracted from /repo on every run), every `keepdims`
  value, every list of input trees and every optional list of output trees: the model returns a result or one of the twelve
  `SemanticError` raise sites.  No assertion, no `IndexError`, no `ValueError("Invalid value for implicit_output")`.
  `elab_total_flags` is the same for every flag set that satisfies the decidable `flagsSafe`; two `decide`d witnesses show that
  outside `flagsSafe` the internal outcomes are real (`assert len(exprs_out) == 1`, `exprs_in[implicit_output]`).
* one theorem per rule of `_parse_op` ("any input breaking the rule is rejected with a `SemanticError`"), each for ALL trees that
  have the defect.  "Has brackets" is the code's own notion: `_to_el_expr(x).ndim != 0` (`isScalar (toEl x) = false`).

Scope: tree mode of the elementary signature (the wrapper's `el_op` text re-parsed — string mode — can additionally fail with a
`SyntaxError` about text the caller never wrote, known finding D11; the driver runs both modes and the harness compares them).
The checks of `op.inner` that run after `_parse_op` (tensor count, keyword names, `no_el_axis_permute`, stage-3 checks such as
"input axes must appear in the output") are not part of this model.
-/
namespace Einx.Props.C03Elab
open Einx.Notation Einx.Elab

/-- The conclusion of every rule theorem: the model's outcome is one of the `SemanticError` raise sites. -/
def RejectedSemantic (r : PRes (List Expr × List Expr)) : Prop := ∃ e, r = .error e ∧ e.isSemantic = true

/-! ## Totality -/

/-- **`elab_total`**: with the flags of the family's own wrapper, `_parse_op` (tree mode) returns `(exprs_in, exprs_out)` or
    raises `SemanticError` — for all input/output trees and both `keepdims` values. -/
theorem elab_total (fam : Family) (fl : Flags) (hfl : flagsOf fam = some fl) (kd : Bool) (ins : List Expr) (outs : Option (List Expr)) :
    (∃ r, parseOpTree .tree fam fl kd ins outs = .ok r) ∨ RejectedSemantic (parseOpTree .tree fam fl kd ins outs) := by
  obtain ⟨fl', h1, h2⟩ := family_flags_safe fam
  rw [hfl] at h1
  cases h1
  exact (nonInternal_iff _).mp (parseOpTree_total fam fl h2 kd ins outs)

/-- The same for every flag set with a valid `implicit_output` (`None`, `"bijective"`, or `0` as `update_at` uses it) and
    automatic marking only for families whose signature has one output. -/
theorem elab_total_flags (fam : Family) (fl : Flags) (hs : flagsSafe fam fl = true) (kd : Bool) (ins : List Expr)
    (outs : Option (List Expr)) :
    (∃ r, parseOpTree .tree fam fl kd ins outs = .ok r) ∨ RejectedSemantic (parseOpTree .tree fam fl kd ins outs) :=
  (nonInternal_iff _).mp (parseOpTree_total fam fl hs kd ins outs)

/-- Every family of the source has a row of flags, and it is safe (obligation over `Einx.Extracted.familyFlags`). -/
theorem extracted_flags_safe (fam : Family) : ∃ fl, flagsOf fam = some fl ∧ flagsSafe fam fl = true := family_flags_safe fam

/-- **`elab_total_desc`**: the whole stage-1 front end of an operation — `stage1.parse_op(description)` followed by `_parse_op`
    with the flags of the family's wrapper (tree mode) — returns `(exprs_in, exprs_out)`, raises `SyntaxError` (from the parser)
    or raises `SemanticError`; for every family, every string and both `keepdims` values.  Composition of `parse_no_internal`,
    `parse_root_shape` (Proofs/RejectRoot.lean) and `elab_total`. -/
theorem elab_total_desc (fam : Family) (kd : Bool) (desc : Str) :
    (∃ r, parseOpModel .tree fam kd desc = .ok r) ∨
    (∃ k pos alts, parseOpModel .tree fam kd desc = .error (.syntax (.syntax k pos alts))) ∨
    RejectedSemantic (parseOpModel .tree fam kd desc) := by
  obtain ⟨fl, hfl, hs⟩ := family_flags_safe fam
  unfold parseOpModel
  rw [hfl]
  dsimp only
  have hni := parseOp_noint desc
  cases hp : parseOp desc with
  | error err =>
    rw [hp] at hni
    rcases err with ⟨k, pos, alts⟩ | ⟨k⟩
    · right; left; exact ⟨k, pos, alts, rfl⟩
    · exact hni.elim
  | ok x =>
    rcases parseOp_root desc x hp with ⟨ins, b1, e1, b, e, rfl⟩ | ⟨ins, b1, e1, outs, b2, e2, b, e, rfl⟩
    · dsimp only
      rcases (nonInternal_iff _).mp (parseOpTree_total fam fl hs (fl.addKeepdims && kd) ins none) with h | h
      · exact Or.inl h
      · exact Or.inr (Or.inr h)
    · dsimp only
      rcases (nonInternal_iff _).mp (parseOpTree_total fam fl hs (fl.addKeepdims && kd) ins (some outs)) with h | h
      · exact Or.inl h
      · exact Or.inr (Or.inr h)

/-- The error of a result (`PRes` of trees has no decidable equality). -/
def errOf (r : PRes (List Expr × List Expr)) : Option PErr :=
  match r with
  | .ok _ => none
  | .error e => some e

def A (n : String) : Expr := .axis n.toList none 0 0
def N (k : Nat) : Expr := .axis ("unnamed." ++ toString k).toList (some k) 0 0
def L (cs : List Expr) : Expr := .list cs 0 0
def B (x : Expr) : Expr := .brackets x 0 0
def C (cs : List Expr) : Expr := .concat cs 0 0
/-- the flags of `elementwise`, as a base for variations -/
def FL : Flags := { implicit := .bijective, allowConcat := false, markReduced := false, addKeepdims := false, allowDupEl := true, noElPermute := false }

/-- `flagsSafe` is needed: with `mark_reduced_axes=True` on `id` (two outputs) the model reaches `assert len(exprs_out) == 1`,
    and with `implicit_output=3` on `dot` it reaches `exprs_in[3]` — so a wrapper changed that way breaks `extracted_flags_safe`. -/
theorem unsafe_flags_witnesses :
    errOf (parseOpTree .tree .id { FL with allowConcat := true, markReduced := true } false [A "a"] (some [A "a", A "a"])) =
      some (.internal .assertOneOutput) ∧
    errOf (parseOpTree .tree .dot { FL with implicit := .index 3, markReduced := true, allowDupEl := false } false [A "a", A "a"] none) =
      some (.internal .indexError) ∧
    errOf (parseOpTree .tree .elementwise { FL with implicit := .invalid } false [A "a"] none) = some (.internal .invalidImplicit) := by
  decide +kernel

/-! ## Rules -/

/-- **Concatenation is only allowed where the operation says so** (l.92–99): with `allow_concat=False`, any `ConcatenatedAxis`
    anywhere in the inputs or outputs is rejected — first check, so the raise site is exactly this one (both modes). -/
theorem concat_not_allowed_rule (mode : ElMode) (fam : Family) (fl : Flags) (kd : Bool) (ins : List Expr) (outs : Option (List Expr))
    (hf : fl.allowConcat = false) (hc : (ins ++ outs.getD []).any hasConcat = true) :
    parseOpTree mode fam fl kd ins outs = .error .concatNotAllowed := by
  unfold parseOpTree
  simp [hf, hc]

/-- **No brackets in or around a concatenation** (l.101–108): a `ConcatenatedAxis` with a bracket above or below it is rejected
    whatever the family (both modes); the raise site is this one, or the previous one if concatenation is not allowed at all. -/
theorem concat_brackets_rule (mode : ElMode) (fam : Family) (fl : Flags) (kd : Bool) (ins : List Expr) (outs : Option (List Expr))
    (hc : (ins ++ outs.getD []).any (concatTouchesBrackets false) = true) :
    parseOpTree mode fam fl kd ins outs = .error .concatNotAllowed ∨ parseOpTree mode fam fl kd ins outs = .error .concatBrackets := by
  unfold parseOpTree
  dsimp only
  split
  · left; rfl
  · right; first | rfl | rw [if_pos hc]

/-- **An output expression is required unless the operation defines an implicit one** (l.217–218): `implicit_output=None` and
    no `->`. -/
theorem missing_output_rule (fam : Family) (fl : Flags) (hs : flagsSafe fam fl = true) (kd : Bool) (ins : List Expr)
    (hi : fl.implicit = .none) : RejectedSemantic (parseOpTree .tree fam fl kd ins none) := by
  apply rejected_semantic hs
  intro r hr
  obtain ⟨_, _, el, _, _, o, ho, _⟩ := parseOpTree_ok_inv hr
  rcases ho with ho | ⟨_, ho⟩
  · cases ho
  · rw [implicitOut_none _ _ _ _ hi] at ho; cases ho

/-- **Number of input expressions** (l.129–133), general form: the elementary signature fixes it. -/
theorem input_count_rule (fam : Family) (fl : Flags) (hs : flagsSafe fam fl = true) (kd : Bool) (ins : List Expr) (outs : Option (List Expr))
    (h : (elOpTree fam (ins.map toEl) (outs.map (fun o => o.map toEl))).ins.length ≠ ins.length) :
    RejectedSemantic (parseOpTree .tree fam fl kd ins outs) := by
  apply rejected_semantic hs
  intro r hr
  obtain ⟨_, _, el, hel, hlen, _⟩ := parseOpTree_ok_inv hr
  simp only [elOp, Except.ok.injEq] at hel
  subst hel
  exact h hlen

/-- Reductions, arg-operations and shape-preserving operations take exactly one input expression. -/
theorem single_input_rule (fam : Family) (hfam : fam = .reduce ∨ fam = .argfind ∨ fam = .preserveShape) (fl : Flags)
    (hs : flagsSafe fam fl = true) (kd : Bool) (ins : List Expr) (outs : Option (List Expr)) (h : ins.length ≠ 1) :
    RejectedSemantic (parseOpTree .tree fam fl kd ins outs) := by
  apply input_count_rule fam fl hs
  rcases hfam with rfl | rfl | rfl <;> simp [elOpTree] <;> omega

/-- Update operations (`set_at`, `add_at`, …) take at least two input expressions (target, …, updates). -/
theorem update_at_inputs_rule (fl : Flags) (hs : flagsSafe .updateAt fl = true) (kd : Bool) (ins : List Expr) (outs : Option (List Expr))
    (h : ins.length < 2) : RejectedSemantic (parseOpTree .tree .updateAt fl kd ins outs) := by
  apply input_count_rule .updateAt fl hs
  match ins, h with
  | [], _ => simp [elOpTree, updateAtIns]
  | [x], _ => simp [elOpTree, updateAtIns]

/-- **Number of output expressions** (l.134–138): every family except `id` has exactly one output. -/
theorem output_count_rule (fam : Family) (hfam : fam ≠ .id) (fl : Flags) (hs : flagsSafe fam fl = true) (kd : Bool) (ins o : List Expr)
    (h : o.length ≠ 1) : RejectedSemantic (parseOpTree .tree fam fl kd ins (some o)) := by
  apply rejected_semantic hs
  intro r hr
  obtain ⟨_, _, el, hel, _, o', ho, hfin⟩ := parseOpTree_ok_inv hr
  simp only [elOp, Except.ok.injEq] at hel
  subst hel
  rcases ho with ho | ⟨ho, _⟩
  · cases ho
    have := (finish_ok_inv hfin).1
    rw [elOpTree_outs_length fam _ _ hfam] at this
    exact h this.symm
  · cases ho

/-- **Brackets where the elementary operation takes a scalar** (l.248–253), general form for inputs: if the `j`-th argument of
    the signature is scalar and the `j`-th input uses brackets, the call is rejected. -/
theorem brackets_not_allowed_rule (fam : Family) (fl : Flags) (hs : flagsSafe fam fl = true) (kd : Bool) (ins : List Expr)
    (outs : Option (List Expr)) (j : Nat) (x a : Expr) (hx : ins[j]? = some x)
    (ha : (elOpTree fam (ins.map toEl) (outs.map (fun o => o.map toEl))).ins[j]? = some a)
    (hsc : isScalar a = true) (hbr : isScalar (toEl x) = false) :
    RejectedSemantic (parseOpTree .tree fam fl kd ins outs) := by
  apply rejected_semantic hs
  intro r hr
  obtain ⟨_, _, el, hel, _, o', _, hfin⟩ := parseOpTree_ok_inv hr
  simp only [elOp, Except.ok.injEq] at hel
  subst hel
  have hb := (finish_ok_inv hfin).2.1
  have := bracketCheck_none_get false 0 _ _ hb j a (toEl x) ha (by simp [hx])
  rw [hsc, hbr] at this
  cases this

/-- **`elementwise_no_bracket_rule`**: element-wise operations and `id` take scalars — an input that uses brackets is rejected. -/
theorem elementwise_no_bracket_rule (fam : Family) (hfam : fam = .elementwise ∨ fam = .id) (fl : Flags) (hs : flagsSafe fam fl = true)
    (kd : Bool) (ins : List Expr) (outs : Option (List Expr)) (x : Expr) (hx : x ∈ ins) (hbr : isScalar (toEl x) = false) :
    RejectedSemantic (parseOpTree .tree fam fl kd ins outs) := by
  obtain ⟨j, hj, hjx⟩ := List.getElem_of_mem hx
  apply brackets_not_allowed_rule fam fl hs kd ins outs j x emptyList (by simp [hjx, hj])
  · rcases hfam with rfl | rfl <;> simp [elOpTree, hj]
  · rfl
  · exact hbr

/-- **`scalar_output_no_bracket_rule`**: the output of an element-wise operation, a reduction, `dot`, `get_at` (and every output
    of `id`) is scalar for the elementary operation — a written output that uses brackets is rejected. -/
theorem scalar_output_no_bracket_rule (fam : Family)
    (hfam : fam = .elementwise ∨ fam = .reduce ∨ fam = .dot ∨ fam = .getAt ∨ fam = .id) (fl : Flags) (hs : flagsSafe fam fl = true)
    (kd : Bool) (ins o : List Expr) (j : Nat) (x : Expr) (hx : o[j]? = some x) (hbr : isScalar (toEl x) = false) :
    RejectedSemantic (parseOpTree .tree fam fl kd ins (some o)) := by
  apply rejected_semantic hs
  intro r hr
  obtain ⟨_, _, el, hel, _, o', ho, hfin⟩ := parseOpTree_ok_inv hr
  simp only [elOp, Except.ok.injEq] at hel
  subst hel
  rcases ho with ho | ⟨ho, _⟩
  · cases ho
    obtain ⟨hlen, _, hb, _⟩ := finish_ok_inv hfin
    have hj : j < o.length := by
      rcases Nat.lt_or_ge j o.length with h | h
      · exact h
      · rw [List.getElem?_eq_none h] at hx; cases hx
    have ha : (elOpTree fam (ins.map toEl) (some (o.map toEl))).outs[j]? = some emptyList := by
      rcases hfam with rfl | rfl | rfl | rfl | rfl
      · simp only [elOpTree] at hlen ⊢
        simp only [List.length_cons, List.length_nil] at hlen
        have : j = 0 := by omega
        subst this; rfl
      · simp only [elOpTree] at hlen ⊢
        simp only [List.length_cons, List.length_nil] at hlen
        have : j = 0 := by omega
        subst this; rfl
      · simp only [elOpTree] at hlen ⊢
        simp only [List.length_cons, List.length_nil] at hlen
        have : j = 0 := by omega
        subst this; rfl
      · simp only [elOpTree] at hlen ⊢
        simp only [List.length_cons, List.length_nil] at hlen
        have : j = 0 := by omega
        subst this; rfl
      · simp [elOpTree, hj]
    have := bracketCheck_none_get true 0 _ _ hb j emptyList (toEl x) ha (by simp [hx])
    rw [hbr] at this
    cases this
  · cases ho

/-- **`update_output_brackets_rule`** (l.248–259, both directions): the output of an update operation must use brackets exactly
    when the first input does (`set_at("[h], p, p -> h")` and `set_at("h, p, p -> [h]")` are both rejected). -/
theorem update_output_brackets_rule (fl : Flags) (hs : flagsSafe .updateAt fl = true) (kd : Bool) (x : Expr) (rest : List Expr)
    (y : Expr) (orest : List Expr) (h : isScalar (toEl x) ≠ isScalar (toEl y)) :
    RejectedSemantic (parseOpTree .tree .updateAt fl kd (x :: rest) (some (y :: orest))) := by
  apply rejected_semantic hs
  intro r hr
  obtain ⟨_, _, el, hel, _, o', ho, hfin⟩ := parseOpTree_ok_inv hr
  simp only [elOp, Except.ok.injEq] at hel
  subst hel
  rcases ho with ho | ⟨ho, _⟩
  · cases ho
    obtain ⟨_, _, hb, _⟩ := finish_ok_inv hfin
    have := bracketCheck_none_get true 0 _ _ hb 0 (toEl x) (toEl y) (by simp [elOpTree]) (by simp)
    exact h this
  · cases ho

/-- **Automatic bracket marking forbids repeated axis names** (l.266–284): in `mark_reduced_axes` mode (reductions, `dot`), if no
    input uses brackets, an axis name that occurs twice in one input is rejected. -/
theorem auto_mark_duplicate_rule (fam : Family) (fl : Flags) (hs : flagsSafe fam fl = true) (kd : Bool) (ins : List Expr)
    (outs : Option (List Expr)) (hm : fl.markReduced = true) (hnb : ins.any hasBrackets = false)
    (x : Expr) (hx : x ∈ ins) (hd : hasDup (axisNames x) = true) :
    RejectedSemantic (parseOpTree .tree fam fl kd ins outs) := by
  apply rejected_semantic hs
  intro r hr
  obtain ⟨_, _, el, _, _, o', _, hfin⟩ := parseOpTree_ok_inv hr
  have hmk := (finish_ok_inv hfin).2.2.2.1
  simp only [hm, hnb, Bool.not_false, Bool.and_self, if_true] at hmk
  unfold markInputs at hmk
  have : ∃ y, ins.find? (fun x => hasDup (axisNames x)) = some y := by
    cases hf : ins.find? (fun x => hasDup (axisNames x)) with
    | some y => exact ⟨y, rfl⟩
    | none =>
      have := List.find?_eq_none.mp hf x hx
      simp [hd] at this
  obtain ⟨y, hy⟩ := this
  rw [hy] at hmk
  cases hmk

/-- **No two vectorised output axes with the same name** (l.300–310): a written output in which, after splitting concatenations,
    an unbracketed axis name occurs twice is rejected — every family, both modes. -/
theorem output_duplicate_rule (mode : ElMode) (fam : Family) (fl : Flags) (kd : Bool) (ins o : List Expr)
    (h : o.any outputHasDup = true) : ∀ r, parseOpTree mode fam fl kd ins (some o) ≠ .ok r := by
  intro r hr
  obtain ⟨_, _, el, _, _, o', ho, hfin⟩ := parseOpTree_ok_inv hr
  rcases ho with ho | ⟨ho, _⟩
  · cases ho
    have := (finish_ok_inv hfin).2.2.2.2.1
    rw [h] at this
    cases this
  · cases ho

/-- …in tree mode with safe flags: `SemanticError`. -/
theorem output_duplicate_rule_semantic (fam : Family) (fl : Flags) (hs : flagsSafe fam fl = true) (kd : Bool) (ins o : List Expr)
    (h : o.any outputHasDup = true) : RejectedSemantic (parseOpTree .tree fam fl kd ins (some o)) :=
  rejected_semantic hs (output_duplicate_rule .tree fam fl kd ins o h)

/-- **`dot_bracket_rule`** (`allow_duplicate_el_axes=False`, l.312–320): when the inputs use brackets, an input or written output
    whose bracketed axis names repeat (`dot("[a a], [a] -> ")`) is rejected. -/
theorem dot_bracket_rule (fam : Family) (fl : Flags) (hs : flagsSafe fam fl = true) (kd : Bool) (ins o : List Expr)
    (hdup : fl.allowDupEl = false) (hbr : ins.any hasBrackets = true)
    (h : (ins ++ o).any (fun x => hasDup (markedNames x)) = true) :
    RejectedSemantic (parseOpTree .tree fam fl kd ins (some o)) := by
  apply rejected_semantic hs
  intro r hr
  obtain ⟨_, _, el, _, _, o', ho, hfin⟩ := parseOpTree_ok_inv hr
  rcases ho with ho | ⟨ho, _⟩
  · cases ho
    obtain ⟨_, _, _, hmk, _, hd, _⟩ := finish_ok_inv hfin
    simp only [hbr, Bool.not_true, Bool.and_false, Bool.false_eq_true, if_false, Except.ok.injEq] at hmk
    have := hd hdup
    rw [← hmk, h] at this
    cases this
  · cases ho

/-- **Implicit output of an n-ary element-wise operation** (l.159–187): without `->` and with at least two inputs, the output is
    the unique input that contains the axis names of all others; if there is none or more than one, the call is rejected. -/
theorem implicit_output_unique_rule (fl : Flags) (hs : flagsSafe .elementwise fl = true) (kd : Bool) (x y : Expr) (rest : List Expr)
    (hi : fl.implicit = .bijective) (h : (validParents (x :: y :: rest)).length ≠ 1) :
    RejectedSemantic (parseOpTree .tree .elementwise fl kd (x :: y :: rest) none) := by
  apply rejected_semantic hs
  intro r hr
  obtain ⟨_, _, el, hel, _, o', ho, _⟩ := parseOpTree_ok_inv hr
  simp only [elOp, Except.ok.injEq] at hel
  subst hel
  rcases ho with ho | ⟨_, ho⟩
  · cases ho
  · have hall : ∀ (l : List Expr), (l.map (fun _ => emptyList)).all isScalar = true := by
      intro l; induction l with
      | nil => rfl
      | cons a l ih => simp only [List.map_cons, List.all_cons, ih, Bool.and_true]; rfl
    generalize hel : elOpTree Family.elementwise (List.map toEl (x :: y :: rest)) (Option.map (fun o => List.map toEl o) none) = el at ho
    have hins : el.ins = ((x :: y :: rest).map toEl).map (fun _ => emptyList) := by rw [← hel]; rfl
    have houts : el.outs = [emptyList] := by rw [← hel]; rfl
    have hsingle : (el.ins.length == 1 && el.outs.length == 1) = false := by
      rw [hins]; simp
    have hsc : (el.ins ++ el.outs).all isScalar = true := by
      rw [List.all_append, hins, hall, houts]; rfl
    unfold implicitOut at ho
    rw [hi] at ho
    simp only [hsingle, Bool.false_and, Bool.false_eq_true, if_false, hsc, if_true] at ho
    split at ho
    · rename_i p hp
      rw [hp] at h
      simp at h
    · cases ho

/-- **Implicit output of an arg-operation** (l.188–210): `argmax("…")` without `->` replaces the single bracket of the input by
    `[output.axis]`; an input with no or several brackets is rejected. -/
theorem implicit_output_one_bracket_rule (fl : Flags) (hs : flagsSafe .argfind fl = true) (kd : Bool) (x : Expr)
    (hi : fl.implicit = .bijective) (hx : pyEq (toEl x) freshOutAxis = false) (h : bracketCount x ≠ 1) :
    RejectedSemantic (parseOpTree .tree .argfind fl kd [x] none) := by
  apply rejected_semantic hs
  intro r hr
  obtain ⟨_, _, el, hel, _, o', ho, _⟩ := parseOpTree_ok_inv hr
  simp only [elOp, Except.ok.injEq] at hel
  subst hel
  rcases ho with ho | ⟨_, ho⟩
  · cases ho
  · unfold implicitOut at ho
    rw [hi] at ho
    have hf : isScalar freshOutAxis = false := rfl
    simp only [elOpTree, argfindVectorOut, Option.map_none, List.map_cons, List.map_nil, List.headD_cons, if_true, List.length_cons,
      List.length_nil, pyEqL, hx, Bool.and_true, Bool.and_false, Bool.false_eq_true, if_false, hf, List.all_append, List.all_cons,
      List.all_nil, toOutputL, toOutput, Nat.zero_add, beq_self_eq_true] at ho
    have hb : (bracketCount x == 1) = false := by simpa using h
    simp [hb] at ho

/-! ## All rules at once: the decidable defect list of the driver -/

/-- **`defects_rejected`**: if any entry of `defects` (the Boolean hypotheses of the rule theorems above, evaluated by the driver on
    every case of stream R) is present, the call is rejected with a `SemanticError` — for all trees and all safe flag sets. -/
theorem defects_rejected (fam : Family) (fl : Flags) (hs : flagsSafe fam fl = true) (kd : Bool) (ins : List Expr)
    (outs : Option (List Expr)) (h : defects fam fl ins outs ≠ []) :
    RejectedSemantic (parseOpTree .tree fam fl kd ins outs) := by
  have hex : ∃ p ∈ defectTable fam fl ins outs, p.2 = true := by
    cases hf : (defectTable fam fl ins outs).filter (·.2) with
    | nil => simp [defects, hf] at h
    | cons p ps =>
      have : p ∈ (defectTable fam fl ins outs).filter (·.2) := by rw [hf]; simp
      exact ⟨p, (List.mem_filter.mp this).1, (List.mem_filter.mp this).2⟩
  obtain ⟨p, hp, hp2⟩ := hex
  simp only [defectTable, List.mem_cons, List.not_mem_nil, or_false] at hp
  rcases hp with rfl | rfl | rfl | rfl | rfl | rfl | rfl | rfl | rfl | rfl | rfl | rfl | rfl
  · -- concat_not_allowed_rule
    simp only [Bool.and_eq_true, Bool.not_eq_true'] at hp2
    exact ⟨_, concat_not_allowed_rule .tree fam fl kd ins outs hp2.1 hp2.2, rfl⟩
  · rcases concat_brackets_rule .tree fam fl kd ins outs hp2 with h1 | h1
    · exact ⟨_, h1, rfl⟩
    · exact ⟨_, h1, rfl⟩
  · simp only [Bool.and_eq_true, Option.isNone_iff_eq_none, beq_iff_eq] at hp2
    obtain ⟨h1, h2⟩ := hp2
    subst h1
    exact missing_output_rule fam fl hs kd ins h2
  · exact input_count_rule fam fl hs kd ins outs (by simpa using hp2)
  · cases outs with
    | none => simp at hp2
    | some o =>
      simp only [Bool.and_eq_true, bne_iff_ne, ne_eq] at hp2
      exact output_count_rule fam hp2.1 fl hs kd ins o hp2.2
  · simp only [Bool.and_eq_true, Bool.or_eq_true, beq_iff_eq, List.any_eq_true, usesBrackets, Bool.not_eq_true'] at hp2
    obtain ⟨hfam, x, hx, hbr⟩ := hp2
    exact elementwise_no_bracket_rule fam hfam fl hs kd ins outs x hx hbr
  · cases outs with
    | none => simp at hp2
    | some o =>
      simp only [Bool.and_eq_true, Bool.or_eq_true, beq_iff_eq, List.any_eq_true, usesBrackets, Bool.not_eq_true'] at hp2
      obtain ⟨hfam, x, hx, hbr⟩ := hp2
      obtain ⟨j, hj, hjx⟩ := List.getElem_of_mem hx
      refine scalar_output_no_bracket_rule fam ?_ fl hs kd ins o j x (by simp [hjx, hj]) hbr
      rcases hfam with (((h1 | h1) | h1) | h1) | h1
      · exact Or.inl h1
      · exact Or.inr (Or.inl h1)
      · exact Or.inr (Or.inr (Or.inl h1))
      · exact Or.inr (Or.inr (Or.inr (Or.inl h1)))
      · exact Or.inr (Or.inr (Or.inr (Or.inr h1)))
  · split at hp2
    · rename_i x xs y ys
      exact update_output_brackets_rule fl hs kd x xs y ys (by simpa using hp2)
    · cases hp2
  · simp only [Bool.and_eq_true, Bool.not_eq_true', List.any_eq_true] at hp2
    obtain ⟨⟨hm, hnb⟩, x, hx, hd⟩ := hp2
    exact auto_mark_duplicate_rule fam fl hs kd ins outs hm hnb x hx hd
  · cases outs with
    | none => simp at hp2
    | some o => exact output_duplicate_rule_semantic fam fl hs kd ins o hp2
  · cases outs with
    | none => simp at hp2
    | some o =>
      simp only [Bool.and_eq_true, Bool.not_eq_true'] at hp2
      exact dot_bracket_rule fam fl hs kd ins o hp2.1.1 hp2.1.2 hp2.2
  · split at hp2
    · rename_i x y rest
      simp only [Bool.and_eq_true, beq_iff_eq, bne_iff_ne, ne_eq] at hp2
      exact implicit_output_unique_rule fl hs kd x y rest hp2.1 hp2.2
    · cases hp2
  · split at hp2
    · rename_i x
      simp only [Bool.and_eq_true, beq_iff_eq, bne_iff_ne, ne_eq, Bool.not_eq_true'] at hp2
      exact implicit_output_one_bracket_rule fl hs kd x hp2.1.1 hp2.1.2 hp2.2
    · cases hp2

/-- The same for a description: with the flags of the family's wrapper, a description that parses to a call with a defect is
    rejected by the `_parse_op` model (tree mode) with a `SemanticError`. -/
theorem defects_rejected_family (fam : Family) (fl : Flags) (hfl : flagsOf fam = some fl) (kd : Bool) (ins : List Expr)
    (outs : Option (List Expr)) (h : defects fam fl ins outs ≠ []) :
    RejectedSemantic (parseOpTree .tree fam fl kd ins outs) := by
  obtain ⟨fl', h1, h2⟩ := family_flags_safe fam
  rw [hfl] at h1; cases h1
  exact defects_rejected fam fl h2 kd ins outs h

/-! ## Non-vacuity: every rule on a concrete tree, with the raise site the model reports -/

/-- `elab_total` covers real flag rows: the reduce row exists and is safe. -/
example : ∃ fl, flagsOf .reduce = some fl ∧ flagsSafe .reduce fl = true := extracted_flags_safe .reduce

def flagsD (fam : Family) : Flags := (flagsOf fam).getD default

/-- accepted calls exist (the `ok` branch of `elab_total`)… -/
example : errOf (parseOpTree .tree .reduce (flagsD .reduce) false [L [A "a", B (A "b")]] none) = none ∧
    errOf (parseOpTree .tree .dot (flagsD .dot) false [L [A "a", A "b"], L [A "b", A "c"]] (some [L [A "a", A "c"]])) = none := by decide +kernel

/-- …and each rule fires on a tree that has exactly its defect (family flags from the extracted table). -/
example :
    [ -- sum("(a + b)")
      errOf (parseOpTree .tree .reduce (flagsD .reduce) false [C [A "a", A "b"]] none),
      -- id("([a] + b) -> c")
      errOf (parseOpTree .tree .id (flagsD .id) false [C [B (A "a"), A "b"]] (some [A "c"])),
      -- sum("a, b -> a")
      errOf (parseOpTree .tree .reduce (flagsD .reduce) false [A "a", A "b"] (some [A "a"])),
      -- set_at("[h]")
      errOf (parseOpTree .tree .updateAt (flagsD .updateAt) false [B (A "h")] none),
      -- sum("a [b] -> a, a")
      errOf (parseOpTree .tree .reduce (flagsD .reduce) false [L [A "a", B (A "b")]] (some [A "a", A "a"])),
      -- add("a [b], a")
      errOf (parseOpTree .tree .elementwise (flagsD .elementwise) false [L [A "a", B (A "b")], A "a"] none),
      -- sum("a [b] -> [a]")
      errOf (parseOpTree .tree .reduce (flagsD .reduce) false [L [A "a", B (A "b")]] (some [B (A "a")])),
      -- set_at("[h], p, p -> h")
      errOf (parseOpTree .tree .updateAt (flagsD .updateAt) false [B (A "h"), A "p", A "p"] (some [A "h"])),
      -- sum("a a b -> b")
      errOf (parseOpTree .tree .reduce (flagsD .reduce) false [L [A "a", A "a", A "b"]] (some [A "b"])),
      -- id("a b -> a a")
      errOf (parseOpTree .tree .id (flagsD .id) false [L [A "a", A "b"]] (some [L [A "a", A "a"]])),
      -- dot("[a a], [a] -> ")
      errOf (parseOpTree .tree .dot (flagsD .dot) false [B (L [A "a", A "a"]), B (A "a")] (some [L []])),
      -- add("a, b")
      errOf (parseOpTree .tree .elementwise (flagsD .elementwise) false [A "a", A "b"] none),
      -- argmax("[a] [b]")
      errOf (parseOpTree .tree .argfind (flagsD .argfind) false [L [B (A "a"), B (A "b")]] none) ] =
    [some .concatNotAllowed, some .concatBrackets, some (.inputCount 1 2), some (.inputCount 2 1), some (.outputCount 1 2),
     some (.bracketsNotAllowed 0 false), some (.bracketsNotAllowed 0 true), some (.bracketsRequired 0 true),
     some (.markDuplicate ["a".toList]), some .outputDuplicate, some .bracketDuplicate, some .noUniqueParent, some .notOneBracket] := by
  decide +kernel

/-- The hypotheses of the rule theorems hold on those trees (so the theorems apply to them, not only the `decide`). -/
example : RejectedSemantic (parseOpTree .tree .elementwise (flagsD .elementwise) false [L [A "a", B (A "b")], A "a"] none) :=
  elementwise_no_bracket_rule .elementwise (Or.inl rfl) _ (by decide) false _ none (L [A "a", B (A "b")]) (by simp) (by decide +kernel)

example : RejectedSemantic (parseOpTree .tree .reduce (flagsD .reduce) false [L [A "a", A "a", A "b"]] (some [A "b"])) :=
  auto_mark_duplicate_rule .reduce _ (by decide) false _ _ (by decide) (by decide +kernel) (L [A "a", A "a", A "b"]) (by simp) (by decide +kernel)

example : RejectedSemantic (parseOpTree .tree .argfind (flagsD .argfind) false [L [B (A "a"), B (A "b")]] none) :=
  implicit_output_one_bracket_rule _ (by decide) false _ (by decide) (by decide +kernel) (by decide +kernel)

example : RejectedSemantic (parseOpTree .tree .elementwise (flagsD .elementwise) false [A "a", A "b"] none) :=
  implicit_output_unique_rule _ (by decide) false _ _ [] (by decide) (by decide +kernel)

example : RejectedSemantic (parseOpTree .tree .updateAt (flagsD .updateAt) false [B (A "h"), A "p", A "p"] (some [A "h"])) :=
  update_output_brackets_rule _ (by decide) false _ _ _ [] (by decide +kernel)

/-- `defects` on concrete trees: exactly the rule that was broken. -/
example : defects .reduce (flagsD .reduce) [L [A "a", A "a", A "b"]] (some [A "b"]) = ["auto_mark_duplicate_rule"] ∧
    defects .elementwise (flagsD .elementwise) [L [A "a", B (A "b")], A "a"] none = ["elementwise_no_bracket_rule"] ∧
    defects .reduce (flagsD .reduce) [L [A "a", B (A "b")]] none = [] := by decide +kernel

/-- `elab_total_desc`: the three branches are inhabited (descriptions, not hand-built trees). -/
example : errOf (parseOpModel .tree .reduce false "a [b] -> a".toList) = none ∧
    errOf (parseOpModel .tree .reduce false "a [b -> a".toList) = some (.syntax (.syntax .openingNotClosed [2] [])) ∧
    errOf (parseOpModel .tree .reduce false "a a b -> b".toList) = some (.markDuplicate ["a".toList]) := by decide +kernel

end Einx.Props.C03Elab
