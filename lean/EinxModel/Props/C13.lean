import EinxModel.Proofs.Factory
/-!
# C13 — tensor factories run once per call, with the resolved shape, only at run time

Two objects are reasoned about:

* the **model** `Einx.Factory.inner` of `namedtensor_calltensorfactory.op(...).inner`
  (`Factory/Model.lean`, parameterised by `Extracted/Factory.lean`, regenerated from the source on every run):
  the list of graph nodes inserted per argument list;
* the **checker** `Einx.Factory.factoryOK` (`Factory/Check.lean`), which the driver runs on the real traced
  graph of every generated call (`tools/props/c13.py`).

What is proved: the model inserts, per factory argument, exactly one call of that argument, with the solved
shape and exactly the declared optional keywords, followed by the `isinstance` and the shape assertion, and only
the doubly asserted value reaches the wrapped operation; all call nodes carry the `depend_on` stack; the
inserted nodes depend on the solved shape only.  For real graphs: acceptance by the checker implies that in
every execution that evaluates each reachable node exactly once, each factory is invoked exactly once with the
solved shape and the model's keywords.

What is assumed (named hypotheses / reading): `Exec` — the compiled function evaluates every reachable node
exactly once per call (C04 `emit_once`) and nothing else; an invocation of the factory at input `t` is a `Call`
node whose function operand is `t` or a `Cast` of it (a `Cast` is the identity at run time, and no other node
returns the factory object); tracing itself evaluates nothing (`python.call` only constructs a node).
-/
namespace Einx.Props.C13
open Einx.Factory Einx.Extracted

/-! ## Obligations over the regenerated constants -/

/-- `{"signature": …, "arg_index": …} | factory_kwargs` has no key collision, so `|` is concatenation. -/
theorem keywords_disjoint : Factory.perCallKeywords.all (fun k => !Factory.opsKeywords.contains k) = true := by decide

/-- The keywords einx may pass are exactly the three optional keywords the property names. -/
theorem keywords_are_the_optional_ones :
    ∀ k, k ∈ Factory.perCallKeywords ++ Factory.opsKeywords ↔ k ∈ Spec.optionalKeywords := by
  intro k
  simp [Factory.perCallKeywords, Factory.opsKeywords, Spec.optionalKeywords]
  constructor <;> (intro h; rcases h with h | h | h <;> simp [h])

/-- The traced call has exactly one positional argument, `tuple(tensor.shape)`, made only under the factory
condition; the operation is traced only under `depend_on(inputs)`; `python.call` attaches that stack;
`graph=True` returns before the compiled function runs; a callable's tracer is shape-less and keyed by type and
signature only (so the compiled function cannot capture the factory object: it receives it as an argument). -/
theorem source_anchors :
    Factory.callArgs = ["shape"] ∧ Factory.shapeSource = "tensor.shape" ∧ Factory.callOnlyInsideCondition = true ∧
    Factory.castShapeGivesSolvedShape = true ∧ Factory.callAttachesDeps = true ∧ Factory.tracesUnderDependOn = true ∧
    Factory.graphReturnsBeforeRun = true ∧ Factory.callableTracerShapeNone = true ∧
    Factory.callableKeyedByTypeAndSignature = true ∧ Factory.callsBeforeAssertsBeforeOp = true ∧
    Factory.assertSequence = ["isinstance", "shape_eq"] ∧ Factory.castShapeSource = "expr.shape" := by decide

/-! ## The model -/

/-- **One call per factory argument** (general form): for every tracer `v`, the node list of the model contains
as many calls with function operand `v` as there are factory arguments whose tracer is `v`. -/
theorem factory_node_count (c : Ctx) (args : List Arg) (v : Ref) :
    (inner c args).1.countP (Node.callsRef v) = args.countP (fun a => a.factory.isSome && a.value == v) := by
  simp only [inner, List.countP_append, assertAll_noCall, callAll_count, Nat.add_zero]

/-- **One call per factory argument**: with pairwise distinct argument tracers (every argument of an einx call
gets its own tracer), each factory argument is the function operand of exactly one call node, and a tensor
argument of none. -/
theorem factory_node_once (c : Ctx) (args : List Arg) (hnd : (args.map (·.value)).Nodup) (a : Arg) (ha : a ∈ args) :
    (inner c args).1.countP (Node.callsRef a.value) = if a.factory.isSome then 1 else 0 := by
  rw [factory_node_count]
  cases hf : a.factory.isSome with
  | true => simpa using countP_value_one args hnd a ha hf
  | false =>
    simp only [Bool.false_eq_true, if_false]
    apply List.countP_eq_zero.mpr
    intro b hb
    by_cases hv : b.value = a.value
    · -- same tracer ⇒ same argument (Nodup) ⇒ not a factory
      have : b = a := eq_of_value_eq args hnd b hb a ha hv
      subst this; simp [hf]
    · simp [hv]

/-- **Only declared keywords, and all of them**: the keywords of the traced call are exactly those of
`signature`, `arg_index`, `name` (the latter when the operation is registered through `ops`) that the factory's
signature declares as keyword-capable parameters — all of them if it has `**kwargs` — in this order, with the
values: the signature constant, the argument's index, the operation's name. -/
theorem factory_kwargs_declared_only (c : Ctx) (i : Nat) (sig : Sig) :
    passed c i sig = (Spec.offered c.opName i).filter (fun kv => Spec.declares sig kv.1) ∧
    ∀ kv ∈ passed c i sig, kv.1 ∈ Spec.optionalKeywords ∧ Spec.declares sig kv.1 = true := by
  refine ⟨by rw [passed_eq, offered_eq], ?_⟩
  intro kv hkv
  rw [passed_eq, offered_eq, List.mem_filter] at hkv
  refine ⟨?_, hkv.2⟩
  have h := hkv.1
  unfold Spec.offered at h
  cases hn : c.opName with
  | none => rw [hn] at h; simp at h; rcases h with h | h <;> simp [h, Spec.optionalKeywords]
  | some n => rw [hn] at h; simp at h; rcases h with h | h | h <;> simp [h, Spec.optionalKeywords]

/-- `nodes` contains, from index `b` on, the guard block for `x`, and `out` is its final cast. -/
def Guarded (nodes : List Node) (deps : List Ref) (x : Ref) (solved : List Nat) (out : Ref) : Prop :=
  ∃ b, (nodes.drop b).take 7 = guardBlock deps x b solved ∧ out = Ref.node (b + 6)

/-- **Asserted before use**: for the `p`-th argument, if it is a factory, the node list contains its call — with
the positional arguments `[solved shape]` and the keywords of `factory_kwargs_declared_only` — at some index `r`,
and the tracer handed to the wrapped operation is the cast (to a tensor of the solved shape) at the end of the
block `isinstance(r, T)`, `assert`, `.shape`, `tuple`, `== solved`, `assert` inserted behind it.  The wrapped
operation receives only `(inner c args).2`, so it cannot use the unchecked result. -/
theorem factory_asserts_before_use (c : Ctx) (args : List Arg) (p : Nat) (a : Arg) (sig : Sig)
    (hp : args[p]? = some a) (hf : a.factory = some sig) :
    ∃ r out, (inner c args).1[r]? = some (Node.call a.value (Factory.callArgs.map (argVal a)) (passed c p sig) c.deps) ∧
      (inner c args).2[p]? = some out ∧ Guarded (inner c args).1 c.deps (Ref.node r) a.solved out := by
  obtain ⟨k, h1, h2⟩ := callAll_at c args 0 0 p a sig hp hf
  have hk : k < (callAll c 0 0 args).1.length := (List.getElem?_eq_some_iff.mp h2).1
  have hz : ((callAll c 0 0 args).2.zip args)[p]? = some ((Ref.node (0 + k), true), a) := by
    rw [List.getElem?_zip_eq_some]; exact ⟨h1, hp⟩
  obtain ⟨k', g1, g2⟩ := assertAll_at c _ (callAll c 0 0 args).1.length p _ a hz
  refine ⟨k, Ref.node ((callAll c 0 0 args).1.length + k' + 6), ?_, ?_, ?_⟩
  · simp only [inner]
    rw [List.getElem?_append_left hk]
    simpa using h2
  · simpa [inner] using g2
  · refine ⟨(callAll c 0 0 args).1.length + k', ?_, rfl⟩
    simp only [inner]
    rw [← List.drop_drop, List.drop_left]
    simpa using g1

/-- A tensor argument is handed to the wrapped operation unchanged. -/
theorem tensor_argument_untouched (c : Ctx) (args : List Arg) (p : Nat) (a : Arg)
    (hp : args[p]? = some a) (hf : a.factory = none) : (inner c args).2[p]? = some a.value := by
  have h1 := callAll_at_tensor c args 0 0 p a hp hf
  have hz : ((callAll c 0 0 args).2.zip args)[p]? = some ((a.value, false), a) := by
    rw [List.getElem?_zip_eq_some]; exact ⟨h1, hp⟩
  simpa [inner] using assertAll_at_tensor c _ _ p _ a hz

/-- **No size constraints; nodes depend on the solved shape only**: the tracer the solver sees for a factory has
no shape, whatever the factory; after `_cast_shape` its `tensor.shape` is the solved shape of its expression;
and the call node inserted for it is determined by the solved shape (and the signature's declared keywords). -/
theorem factory_no_constraints (c : Ctx) (base i : Nat) (v : Ref) (sig : Sig) (solved : List Nat) :
    toTracerShape (ApiArg.factory sig) = none ∧
    (Arg.ofApi v (ApiArg.factory sig) solved).tshape = some solved ∧
    callTensorFactory c base i (Arg.ofApi v (ApiArg.factory sig) solved) =
      ([Node.call v [ArgVal.shape solved] (passed c i sig) c.deps], (Ref.node base, true)) := by
  simp [toTracerShape, Arg.ofApi, castShape, callTensorFactory, argVal, Factory.callableTracerShapeNone,
        Factory.castShapeGivesSolvedShape, Factory.callArgs, Factory.shapeSource]

/-- **Trace purity (model)**: every call-like node the model inserts (`call`, `isinstance`, `tuple`) carries
exactly the `depend_on` stack; the model has no other effect than appending nodes (there is no evaluation
function in it: `inner` is a pure function to a node list). -/
theorem trace_is_pure (c : Ctx) (args : List Arg) : (inner c args).1.all (Node.depsOK c.deps) = true := by
  simp only [inner, List.all_append, callAll_depsOK, assertAll_depsOK, Bool.and_self]

/-! ## The checker on real graphs -/

/-- An execution of a compiled graph, as a schedule of application indices: every application reachable from
the output is evaluated exactly once, and nothing else is.  A hypothesis of `checker_sound` below; proved for the
program the code generator emits in `Props/C13Exec.lean` (`exec_from_compile`, `checker_sound_compiled`). -/
def Exec (g : Graph) (sched : List Nat) : Prop := sched.Nodup ∧ ∀ i, i ∈ sched ↔ i ∈ reachable g

/-- **Soundness of the checker**: if `factoryOK g d` holds then, in every execution of `g`, for every argument
position `p` that `d` declares to be a factory with signature `sig` and solved shape `solved`, exactly one
evaluated node is a call of (a cast of) graph input `p`; that node's positional arguments are exactly the tuple
`solved`, and its keyword names are exactly the model's `passed` keywords (hence declared ones only, by
`factory_kwargs_declared_only`). -/
theorem checker_sound (g : Graph) (d : Descr) (h : factoryOK g d = true) (sched : List Nat) (hex : Exec g sched)
    (p : Nat) (ad : ArgD) (sig : Sig) (t : Nat)
    (hd : d.args[p]? = some ad) (hf : ad.factory = some sig) (ht : g.inputs[p]? = some t) :
    ∃ i fn args kwargs deps out,
      sched.filter (callsInput g t) = [i] ∧
      g.apps[i]? = some ⟨GNode.call fn args kwargs deps, out⟩ ∧
      args.map V.asShape? = [some ad.solved] ∧
      kwargs.map (·.1) = (passed d.ctx ad.argIndex sig).map (·.1) := by
  unfold factoryOK at h
  simp only [Bool.and_eq_true, List.all_eq_true] at h
  have hp : p < g.inputs.length := (List.getElem?_eq_some_iff.mp ht).1
  have hc := h.2 p (List.mem_range.mpr hp)
  unfold checkInput at hc
  rw [hd, ht] at hc
  simp only [hf] at hc
  unfold checkFactory at hc
  simp only [Bool.and_eq_true] at hc
  obtain ⟨_, hcu⟩ := hc
  -- exactly one consumer of the factory's class
  generalize hus : classUsers g t = us at hcu
  match us, hcu with
  | [i], hcu =>
    simp only [Bool.and_eq_true] at hcu
    obtain ⟨hcall, _⟩ := hcu
    unfold checkCallNode at hcall
    cases hai : g.apps[i]? with
    | none => simp [hai] at hcall
    | some a =>
      rw [hai] at hcall
      obtain ⟨node, out⟩ := a
      cases node with
      | call fn args kwargs deps =>
        cases fn with
        | ref f =>
          cases out with
          | ref o =>
            simp only [Bool.and_eq_true, beq_iff_eq, List.contains_eq_mem, decide_eq_true_eq] at hcall
            obtain ⟨⟨⟨⟨⟨hroot, _⟩, hargs⟩, hkw⟩, _⟩, hreach⟩ := hcall
            have hci : callsInput g t i = true := by simp [callsInput, hai, hroot]
            refine ⟨i, V.ref f, args, kwargs, deps, V.ref o, ?_, hai, hargs, hkw⟩
            apply filter_eq_singleton _ _ _ hex.1 ((hex.2 i).mpr hreach) hci
            intro j _ hj
            have := callsInput_mem_classUsers g t j hj
            rw [hus] at this
            simpa using this
          | _ => simp at hcall
        | _ => simp at hcall
      | _ => simp at hcall

/-- **Asserted before use (real graphs)**: if `factoryOK g d` holds then for every factory position the factory
(through casts) has exactly one consumer — its call `i` —, and the call's result `r` is consumed only by the
`isinstance` check and the first `assert`, whose result is consumed only by `.shape → tuple → == solved` and the
second `assert` (`GuardChain`): every other node of the graph can reach the factory's value only through the
result `a2` of the second assert. -/
theorem checker_guard (g : Graph) (d : Descr) (h : factoryOK g d = true)
    (p : Nat) (ad : ArgD) (sig : Sig) (t : Nat)
    (hd : d.args[p]? = some ad) (hf : ad.factory = some sig) (ht : g.inputs[p]? = some t) :
    ∃ i r a2, classUsers g t = [i] ∧ outId g i = some r ∧ GuardChain g ad.solved r a2 ∧
      (g.output.refs.all (fun x => root g x != t)) = true := by
  unfold factoryOK at h
  simp only [Bool.and_eq_true, List.all_eq_true] at h
  have hp : p < g.inputs.length := (List.getElem?_eq_some_iff.mp ht).1
  have hc := h.2 p (List.mem_range.mpr hp)
  unfold checkInput at hc
  rw [hd, ht] at hc
  simp only [hf] at hc
  unfold checkFactory at hc
  simp only [Bool.and_eq_true] at hc
  obtain ⟨⟨_, hout⟩, hcu⟩ := hc
  generalize hus : classUsers g t = us at hcu
  match us, hcu with
  | [i], hcu =>
    simp only [Bool.and_eq_true] at hcu
    obtain ⟨_, hg⟩ := hcu
    cases ho : outId g i with
    | none => simp [ho] at hg
    | some r =>
      rw [ho] at hg
      simp only [guardOK] at hg
      cases hk : checkGuard g ad.solved r with
      | error e => simp [hk] at hg
      | ok a2 =>
        refine ⟨i, r, a2, rfl, ho, checkGuard_chain g ad.solved r a2 hk, ?_⟩
        simpa [List.all_eq_true, List.any_eq_true] using hout

/-- What `tracePure` means: every `Call` node of an accepted graph lists every graph input among its additional
dependencies (it can therefore only be emitted inside the compiled function, after the inputs exist). -/
theorem tracePure_spec (g : Graph) (h : tracePure g = true) (a : GApp) (ha : a ∈ g.apps)
    (fn : V) (args : List V) (kwargs : List (String × V)) (deps : List V) (hn : a.node = GNode.call fn args kwargs deps) :
    ∀ t ∈ g.inputs, t ∈ refsL deps := by
  unfold tracePure at h
  rw [List.all_eq_true] at h
  have := h a ha
  rw [hn] at this
  simpa [List.all_eq_true] using this

/-! ## Non-vacuity -/

-- einx.add("a b, b -> a b", np.zeros((2, 3)), f)   with   def f(shape, name=None)
def realGraph : Graph :=
  { inputs := [0, 1], output := (.ref 20),
    apps := [
      ⟨.other "import" [], (.ref 2)⟩,
      ⟨.getattr (.ref 2) "add", (.ref 3)⟩,
      ⟨.getattr (.ref 2) "reshape", (.ref 4)⟩,
      ⟨.cast (.ref 1), (.ref 5)⟩,
      ⟨.call (.ref 5) [(.seq "tuple" [(.int 3)])] [("name", (.str "add"))] [(.ref 0), (.ref 1)], (.ref 6)⟩,
      ⟨.builtin "isinstance", (.ref 7)⟩,
      ⟨.getattr (.ref 2) "ndarray", (.ref 8)⟩,
      ⟨.call (.ref 7) [(.ref 6), (.ref 8)] [] [(.ref 0), (.ref 1)], (.ref 9)⟩,
      ⟨.assert (.ref 6) (.ref 9), (.ref 10)⟩,
      ⟨.builtin "tuple", (.ref 11)⟩,
      ⟨.getattr (.ref 10) "shape", (.ref 12)⟩,
      ⟨.call (.ref 11) [(.ref 12)] [] [(.ref 0), (.ref 1)], (.ref 13)⟩,
      ⟨.operator "==" [(.ref 13), (.seq "tuple" [(.int 3)])], (.ref 14)⟩,
      ⟨.assert (.ref 10) (.ref 14), (.ref 15)⟩,
      ⟨.cast (.ref 15), (.ref 16)⟩,
      ⟨.call (.ref 4) [(.ref 16), (.seq "tuple" [(.int 1), (.int 3)])] [] [(.ref 0), (.ref 1)], (.ref 17)⟩,
      ⟨.cast (.ref 17), (.ref 18)⟩,
      ⟨.call (.ref 3) [(.ref 0), (.ref 18)] [] [(.ref 0), (.ref 1)], (.ref 19)⟩,
      ⟨.cast (.ref 19), (.ref 20)⟩],
    tracers := [
      ⟨"tensor", some [2, 3], "", none⟩,
      ⟨"convertible", none, "function", none⟩,
      ⟨"value", none, "", some 0⟩,
      ⟨"value", none, "", some 1⟩,
      ⟨"value", none, "", some 2⟩,
      ⟨"convertible", some [3], "function", some 3⟩,
      ⟨"value", none, "", some 4⟩,
      ⟨"value", none, "", some 5⟩,
      ⟨"value", none, "", some 6⟩,
      ⟨"value", none, "", some 7⟩,
      ⟨"value", none, "", some 8⟩,
      ⟨"value", none, "", some 9⟩,
      ⟨"value", none, "", some 10⟩,
      ⟨"value", none, "", some 11⟩,
      ⟨"value", none, "", some 12⟩,
      ⟨"value", none, "", some 13⟩,
      ⟨"tensor", some [3], "", some 14⟩,
      ⟨"value", none, "", some 15⟩,
      ⟨"tensor", some [1, 3], "", some 16⟩,
      ⟨"value", none, "", some 17⟩,
      ⟨"tensor", some [2, 3], "", some 18⟩] }

def sigName : Sig := ⟨[("shape", .posOrKw), ("name", .posOrKw)]⟩
def realDescr : Descr := { opName := some "add", args := [⟨none, [2, 3], 0⟩, ⟨some sigName, [3], 1⟩] }

/-- The checker accepts a graph captured from the real einx (after optimisation). -/
example : factoryOK realGraph realDescr = true := by decide +kernel
example : tracePure realGraph = true := by decide +kernel
/-- … and the hypotheses of `checker_sound` are met: the schedule "all reachable nodes in order" is an execution. -/
example : Exec realGraph (reachable realGraph) := ⟨by decide +kernel, fun _ => Iff.rfl⟩
example : (reachable realGraph).filter (callsInput realGraph 1) = [4] := by decide +kernel
example : guardOK realGraph [3] 6 = true := by decide +kernel

/-- The checker rejects the same graph when the description says the solved shape is `(4,)`, when the factory
is said to declare no keyword (then `name=` must not be passed), and when the shape assertion is cut out. -/
example : factoryOK realGraph { realDescr with args := [⟨none, [2, 3], 0⟩, ⟨some sigName, [4], 1⟩] } = false := by decide +kernel
example : factoryOK realGraph { realDescr with args := [⟨none, [2, 3], 0⟩, ⟨some ⟨[("shape", .posOrKw)]⟩, [3], 1⟩] } = false := by decide +kernel
example : factoryOK { realGraph with apps := realGraph.apps.set 14 ⟨.cast (.ref 10), (.ref 16)⟩ } realDescr = false := by decide +kernel

/-- The model on a concrete argument list: a tensor and two factories (positional-only; `**kwargs`). -/
def demoArgs : List Arg :=
  [Arg.ofApi (.ext 0) (.tensor [2, 3]) [2, 3],
   Arg.ofApi (.ext 1) (.factory ⟨[("shape", .posOrKw)]⟩) [3],
   Arg.ofApi (.ext 2) (.factory ⟨[("shape", .posOnly), ("kw", .varKw)]⟩) [3, 4]]

example : (inner ⟨some "add", [.ext 0, .ext 1, .ext 2]⟩ demoArgs).1.length = 16 := by decide
example : (inner ⟨some "add", []⟩ demoArgs).1.take 2 =
    [.call (.ext 1) [.shape [3]] [] [],
     .call (.ext 2) [.shape [3, 4]] [("signature", .signature), ("arg_index", .argIndex 2), ("name", .opName "add")] []] := by decide
example : (inner ⟨some "add", []⟩ demoArgs).2 = [.ext 0, .node 8, .node 15] := by decide
example : (demoArgs.map (·.value)).Nodup := by decide

end Einx.Props.C13
