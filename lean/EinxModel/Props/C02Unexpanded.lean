import EinxModel.Proofs.SolveUnexpanded
/-!
C02 — the `UnexpandedEllipsis(...)` branch of `stage2/solve.py:map`, modelled (`Solve/Unexpanded.lean`:
`expandU`, `valueSystemU`) and characterised.

An ellipsis whose expansion the stage-2 solver left open inside a flattened axis is replaced by ONE
free axis (length ≥ 1).  In the flattened axis the `k`-fold repetition of `e` contributes the factor
`∏_{i<k} v_i`, every `v_i` a value of its own copy of `e` (the copies' axes `a.i` are distinct
variables) and `k ≥ 0` free; the free axis contributes any `u ≥ 1`.  Every real solution is therefore
a solution of the replaced system (nothing is lost), and the replacement adds no spurious solution
iff every `u ≥ 1` is such a product (`PowVals e u`).  `unexpanded_sound_iff` decides this on the value
range `_value_range` computes (`Solve/Cse.lean:valueRange`, exact by `valueRange_spec`): sound iff the
range is unbounded with minimum ≤ 2 (count 0 gives 1, count 1 gives everything ≥ 2).  A constant
(`3...`), a lower bound ≥ 3, … are unsound: the known finding `matches("(3...)", zeros(2))`.
A repair must test exactly this (or reject the call as under-determined).
-/
namespace Einx.Solve

/-- The model of the branch extends the model the C02 theorems are about: with all expansions
determined, `expandU` is `expand` and `valueSystemU` is `valueSystem`. -/
theorem unexpanded_model_extends (inp : Input) (ρ : Var → Nat) :
    valueSystemU inp (fun id => some (ρ id)) = valueSystem inp ρ ∧
    ∀ e path idx, expandU (fun id => some (ρ id)) path idx e = expand ρ path idx e :=
  ⟨valueSystemU_some inp ρ, fun e path idx => expandU_some ρ e path idx⟩

/-- **When is the free axis sound?**  Let `_value_range(e) = (m, ub)` for the repeated expression `e`
(no repeated axis, positive lower bounds — the hypotheses under which `_value_range` is exact).  Every
length `u ≥ 1` of the free axis is a product of values of copies of `e` — i.e. replacing the
undetermined ellipsis by a free axis adds no solution — iff the range is unbounded (`ub`) with
minimum `m ≤ 2`. -/
theorem unexpanded_sound_iff (e : VExpr) (m : Nat) (ub : Bool) (h : valueRange e = some (m, ub))
    (hrep : hasRepeatedAxis e = false) (hpos : MinPos e) :
    (∀ u, 1 ≤ u → PowVals e u) ↔ (ub = true ∧ m ≤ 2) := by
  constructor
  · intro hall
    cases ub with
    | false =>
      exfalso
      have hval : ∀ σ, Admissible e σ → evalV σ e = m := fun σ hσ =>
        (valueRange_spec_fixed e m h hrep hpos _).mp ⟨σ, hσ, rfl⟩
      rcases Nat.lt_or_ge m 2 with hm | hm
      · obtain ⟨σs, hadm, hp⟩ := hall 2 (by omega)
        have := natProd_const_small (m := m) (by omega) (σs.map (fun σ => evalV σ e)) (by
          intro x hx
          obtain ⟨σ, hσ, rfl⟩ := List.mem_map.mp hx
          exact hval σ (hadm σ hσ))
        omega
      · obtain ⟨σs, hadm, hp⟩ := hall (m + 1) (by omega)
        exact natProd_const_ne_succ hm (σs.map (fun σ => evalV σ e)) (by
          intro x hx
          obtain ⟨σ, hσ, rfl⟩ := List.mem_map.mp hx
          exact hval σ (hadm σ hσ)) hp
    | true =>
      refine ⟨rfl, ?_⟩
      rcases Nat.lt_or_ge m 3 with hm | hm
      · omega
      · exfalso
        obtain ⟨σs, hadm, hp⟩ := hall 2 (by omega)
        have := natProd_big (σs.map (fun σ => evalV σ e)) (by
          intro x hx
          obtain ⟨σ, hσ, rfl⟩ := List.mem_map.mp hx
          have := (valueRange_spec e m h hrep hpos _).mp ⟨σ, hadm σ hσ, rfl⟩
          omega)
        omega
  · rintro ⟨rfl, hm⟩ u hu
    rcases Nat.lt_or_ge u 2 with h1 | h2
    · exact ⟨[], by simp, by simp only [List.map_nil, natProd]; omega⟩
    · obtain ⟨σ, hσ, hv⟩ := (valueRange_spec e m h hrep hpos u).mpr (by omega)
      exact ⟨[σ], by simpa using hσ, by simp [natProd, hv]⟩

/-- Nothing is lost: every product of values of copies of `e` is ≥ 1 … a length the free axis can take
(provided the values of `e` are positive). -/
theorem unexpanded_complete (e : VExpr)
    (hval : ∀ σ, Admissible e σ → 1 ≤ evalV σ e) (u : Nat) (h : PowVals e u) : 1 ≤ u := by
  obtain ⟨σs, hadm, rfl⟩ := h
  apply natProd_pos_of_pos
  intro x hx
  obtain ⟨σ, hσ, rfl⟩ := List.mem_map.mp hx
  exact hval σ (hadm σ hσ)

/-! ### The known finding `(3...)` against a dimension of length 2, on the executable systems -/

/-- `(3...)` against shape `(2,)` — the input of `einx.matches("(3...)", zeros(2))`. -/
def exThree : Input := { tensors := [⟨.flat (.ellipsis "e0" (.num 3)), some [2]⟩], constraints := [] }

/-- The system the real code states (expansion of `e0` undetermined): the free axis takes the length 2,
the call is accepted. -/
example : (valueSystemU exThree (fun _ => none)).vars = [("#0", 1), ("UnexpandedEllipsis({3}...)", 1)] ∧
    checkSat (valueSystemU exThree (fun _ => none)) [("#0", 2), ("UnexpandedEllipsis({3}...)", 2)] = true := by
  decide +kernel

/-- … while for EVERY repetition count the expanded system has no solution (`3^k ≠ 2`; a theorem over
all `k`, not a sample). -/
theorem three_pow_never_two (ρ : Var → Nat) : ¬ ∃ σ, Sat (valueSystem exThree ρ) σ := by
  rintro ⟨σ, hσ⟩
  have h := (sat_sem exThree ρ σ hσ).roots ⟨.flat (.ellipsis "e0" (.num 3)), some [2]⟩ (by simp [exThree]) [2] rfl
  simp only [evalItems, List.cons.injEq, and_true] at h
  exact prodL_threes _ h

/-- The criterion says so: `_value_range` of the constant 3 is `(3, False)`, hence the free axis is not
sound; concretely 2 is no product of 3s.  For a fresh unknown axis `b` (`(b...)`) the range is
`(1, True)` and the replacement is sound. -/
example : valueRange (.axis "unnamed.0" (some 3) 1) = some (3, false) ∧
    valueRange (.axis "b" none 1) = some (1, true) ∧
    valueRange (.list [.axis "b" none 1, .axis "b2" none 1]) = some (1, true) ∧
    valueRange (.concat [.axis "b" none 1, .axis "c" none 1, .axis "d" none 1]) = some (3, true) := by decide

example : ¬ ∀ u, 1 ≤ u → PowVals (.axis "unnamed.0" (some 3) 1) u := fun h =>
  absurd ((unexpanded_sound_iff _ 3 false (by decide) (by decide) (by decide)).mp h) (by decide)

example : ∀ u, 1 ≤ u → PowVals (.axis "b" none 1) u :=
  (unexpanded_sound_iff _ 1 true (by decide) (by decide) (by decide)).mpr ⟨rfl, by decide⟩

/-- `((b + c + d)...)`: unbounded but with minimum 3 — unsound as well (2 is not reachable). -/
example : ¬ ∀ u, 1 ≤ u → PowVals (.concat [.axis "b" none 1, .axis "c" none 1, .axis "d" none 1]) u := fun h =>
  absurd ((unexpanded_sound_iff _ 3 true (by decide) (by decide) (by decide)).mp h) (by decide)

end Einx.Solve
