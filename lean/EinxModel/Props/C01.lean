import EinxModel.Proofs.IR
import EinxModel.Proofs.IRGeneric
import EinxModel.IR.PrimX
import EinxModel.Denote.Expr2
/-!
C01 — every built-in operation computes exactly its loop-notation meaning.

The deciding theorem is `validate_sound`: if the symbolic validator accepts the straight-line program
that was translated from a traced graph, then for **every** content of the input tensors and **every**
interpretation of the elementary function symbols the program computes the denotation.  The
loop-notation denotation is symbolic (`Denote.denoteId`, `Denote.denoteElementwise`: for each output
position a cell over the input elements); its concrete meaning is the image of those cells under
`evalCell`.  The numpy primitives' plans (`IR.planInstr`) are trusted to describe numpy and are
conformance-tested against real numpy on every run.
-/
namespace Einx.IR
open Einx

/-- **Naturality** (free theorem of the IR): a program commutes with every homomorphism of element
algebras.  This is what lets one symbolic run speak for all tensor contents. -/
theorem program_natural {α β : Type} {A : Alg α} {B : Alg β} {h : α → β} (hh : Hom A B h)
    (prog : List Instr) (regs : List (Tensor α)) :
    evalProg B prog (regs.map (Tensor.map h)) = (evalProg A prog regs).map (·.map (Tensor.map h)) :=
  evalProg_map hh prog regs

/-- **Soundness of the validator.**  If `validate` accepts `prog` against the symbolic tensors
`expected` (the denotation of the call), then for all integer input tensors `xs` of the validated
shapes (each holding `prod shape` elements), all interpretations `I` of the elementary functions and
any value `bad` for out-of-range reads, running `prog` on `xs` succeeds and its output registers are
exactly the denotation evaluated on `xs`. -/
theorem validate_sound (prog : List Instr) (outs : List Nat) (expected : List (Tensor Cell))
    (I : String → List Int → Int) (bad : Int) (xs : List (Tensor Int))
    (hlen : ∀ x ∈ xs, x.data.length = prod x.shape)
    (hv : validate prog (xs.map (·.shape)) outs expected = true) :
    ∃ regs, evalProg (intAlgOf I bad) prog xs = .ok regs ∧
      outs.map (fun r => regs[r]?) =
        expected.map (fun t => some (t.map (evalCell (intAlgOf I bad) xs))) := by
  unfold validate at hv
  cases hs : symRun prog (xs.map (·.shape)) outs with
  | error e => simp [hs] at hv
  | ok res =>
    simp only [hs] at hv
    have heq := tensorsBeq_eq _ _ hv
    subst heq
    unfold symRun at hs
    cases hr : evalProg symAlg prog (symInputs (xs.map (·.shape))) with
    | error e => simp [hr, bind, Except.bind] at hs
    | ok sregs =>
      simp only [hr, bind, Except.bind] at hs
      have hnat := evalProg_map (interp_hom I bad xs) prog (symInputs (xs.map (·.shape)))
      rw [symInputs_interp _ xs hlen, hr] at hnat
      refine ⟨_, hnat, ?_⟩
      cases hsel : selectRegs sregs outs with
      | none => simp [hsel, pure, Except.pure] at hs
      | some ts =>
        simp only [hsel, pure, Except.pure, Except.ok.injEq] at hs
        subst hs
        exact selectRegs_map _ sregs outs ts hsel

/-- Naturality for the extended instruction set (reductions, einsum, matmul, flip, roll) that the driver
executes (`evalProgG planInstrX`). -/
theorem program_natural_extended {α β : Type} {A : Alg α} {B : Alg β} {h : α → β} (hh : Hom A B h)
    (prog : List InstrX) (regs : List (Tensor α)) :
    evalProgG planInstrX B prog (regs.map (Tensor.map h)) =
      (evalProgG planInstrX A prog regs).map (·.map (Tensor.map h)) :=
  evalProgG_map planInstrX hh prog regs

/-- **Soundness of the validator the driver runs** (`validateG planInstrX`): acceptance implies that for
all integer inputs of the validated shapes and all interpretations of the elementary and reduction
symbols the program computes the denotation.  (Reductions are canonical multiset cells `red:<f>`; see
`IR/PrimX.lean` for the modelling decisions about numpy that this rests on.) -/
theorem validate_sound_extended (prog : List InstrX) (outs : List Nat) (expected : List (Tensor Cell))
    (I : String → List Int → Int) (bad : Int) (xs : List (Tensor Int))
    (hlen : ∀ x ∈ xs, x.data.length = prod x.shape)
    (hv : validateG planInstrX prog (xs.map (·.shape)) outs expected = true) :
    ∃ regs, evalProgG planInstrX (intAlgOf I bad) prog xs = .ok regs ∧
      outs.map (fun r => regs[r]?) =
        expected.map (fun t => some (t.map (evalCell (intAlgOf I bad) xs))) :=
  validateG_sound planInstrX prog outs expected I bad xs hlen hv

/-- Symbolic equivalence of two programs (used for graphs before/after optimisation, C05) implies equal
outputs for all inputs and interpretations. -/
theorem equiv_sound_extended (p1 p2 : List InstrX) (outs1 outs2 : List Nat)
    (I : String → List Int → Int) (bad : Int) (xs : List (Tensor Int))
    (hlen : ∀ x ∈ xs, x.data.length = prod x.shape)
    (hv : equivG planInstrX p1 p2 (xs.map (·.shape)) outs1 outs2 = true) :
    ∃ r1 r2, evalProgG planInstrX (intAlgOf I bad) p1 xs = .ok r1 ∧
      evalProgG planInstrX (intAlgOf I bad) p2 xs = .ok r2 ∧
      outs1.map (fun r => r1[r]?) = outs2.map (fun r => r2[r]?) :=
  equivG_sound planInstrX p1 p2 outs1 outs2 I bad xs hlen hv

/-- Non-vacuity (extended set): `np.sum(x, axis=1)` on shape (2,3) is accepted against the denotation of
`a [b] -> a`, and `np.sum(x, axis=0)` is rejected. -/
example :
    let e_in := Denote.Expr.list [.axis "a" 2, .br (.axis "b" 3)]
    let e_out := Denote.Expr.axis "a" 2
    (match Denote.denoteReduce "sum" e_in e_out with
      | .ok exp => validateG planInstrX [.reduce "sum" 0 [1] false] [[2, 3]] [1] [exp]
          && !validateG planInstrX [.reduce "sum" 0 [0] false] [[2, 3]] [1] [exp]
      | .error _ => false) = true := by decide +kernel

/-- Non-vacuity: the validator accepts the program `transpose; reshape` against the denotation of
`a b c -> (c a) b` on shape (2,3,2) -- computed by the same definitions the driver runs. -/
example :
    let e_in := Denote.Expr.list [.axis "a" 2, .axis "b" 3, .axis "c" 2]
    let e_out := Denote.Expr.list [.flat (.list [.axis "c" 2, .axis "a" 2]), .axis "b" 3]
    (match Denote.denoteId [e_in] [e_out] with
      | .ok exp => validate [.transpose 0 [2, 0, 1], .reshape 1 [4, 3]] [[2, 3, 2]] [2] exp
      | .error _ => false) = true := by decide +kernel

/-- … and rejects the same program with the reversed permutation (the kind of change C01/C05 are about). -/
example :
    let e_in := Denote.Expr.list [.axis "a" 2, .axis "b" 3, .axis "c" 2]
    let e_out := Denote.Expr.list [.flat (.list [.axis "c" 2, .axis "a" 2]), .axis "b" 3]
    (match Denote.denoteId [e_in] [e_out] with
      | .ok exp => validate [.transpose 0 [1, 2, 0], .reshape 1 [4, 3]] [[2, 3, 2]] [2] exp
      | .error _ => false) = false := by decide +kernel

end Einx.IR
