import EinxModel.Proofs.IR
import EinxModel.Proofs.IRGeneric
import EinxModel.IR.PrimX
import EinxModel.Denote.Expr2
import EinxModel.Denote.Expr3
import EinxModel.Proofs.DenoteViews
import EinxModel.Proofs.Peel
import EinxModel.Proofs.Arith
/-!
C01 — every built-in operation computes exactly its loop-notation meaning.

The deciding theorem is `validate_sound`: if the symbolic validator accepts the straight-line program
that was translated from a traced graph, then for **every** content of the input tensors and **every**
interpretation of the elementary function symbols the program computes the denotation.  The
loop-notation denotation is symbolic (`Denote.denoteId`, `Denote.denoteElementwise`: for each output
position a cell over the input elements); its concrete meaning is the image of those cells under
`evalCell`.  The numpy primitives' plans (`IR.planInstr`) are trusted to describe numpy and are
conformance-tested against real numpy on every run.
-/
namespace Einx.IR
open Einx

/-- **Naturality** (free theorem of the IR): a program commutes with every homomorphism of element
algebras.  This is what lets one symbolic run speak for all tensor contents. -/
theorem program_natural {α β : Type} {A : Alg α} {B : Alg β} {h : α → β} (hh : Hom A B h)
    (prog : List Instr) (regs : List (Tensor α)) :
    evalProg B prog (regs.map (Tensor.map h)) = (evalProg A prog regs).map (·.map (Tensor.map h)) :=
  evalProg_map hh prog regs

/-- **Soundness of the validator.**  If `validate` accepts `prog` against the symbolic tensors
`expected` (the denotation of the call), then for all integer input tensors `xs` of the validated
shapes (each holding `prod shape` elements), all interpretations `I` of the elementary functions and
any value `bad` for out-of-range reads, running `prog` on `xs` succeeds and its output registers are
exactly the denotation evaluated on `xs`. -/
theorem validate_sound (prog : List Instr) (outs : List Nat) (expected : List (Tensor Cell))
    (I : String → List Int → Int) (bad : Int) (xs : List (Tensor Int))
    (hlen : ∀ x ∈ xs, x.data.length = prod x.shape)
    (hv : validate prog (xs.map (·.shape)) outs expected = true) :
    ∃ regs, evalProg (intAlgOf I bad) prog xs = .ok regs ∧
      outs.map (fun r => regs[r]?) =
        expected.map (fun t => some (t.map (evalCell (intAlgOf I bad) xs))) := by
  unfold validate at hv
  cases hs : symRun prog (xs.map (·.shape)) outs with
  | error e => simp [hs] at hv
  | ok res =>
    simp only [hs] at hv
    have heq := tensorsBeq_eq _ _ hv
    subst heq
    unfold symRun at hs
    cases hr : evalProg symAlg prog (symInputs (xs.map (·.shape))) with
    | error e => simp [hr, bind, Except.bind] at hs
    | ok sregs =>
      simp only [hr, bind, Except.bind] at hs
      have hnat := evalProg_map (interp_hom I bad xs) prog (symInputs (xs.map (·.shape)))
      rw [symInputs_interp _ xs hlen, hr] at hnat
      refine ⟨_, hnat, ?_⟩
      cases hsel : selectRegs sregs outs with
      | none => simp [hsel, pure, Except.pure] at hs
      | some ts =>
        simp only [hsel, pure, Except.pure, Except.ok.injEq] at hs
        subst hs
        exact selectRegs_map _ sregs outs ts hsel

/-- Naturality for the extended instruction set (reductions, einsum, matmul, flip, roll) that the driver
executes (`evalProgG planInstrX`). -/
theorem program_natural_extended {α β : Type} {A : Alg α} {B : Alg β} {h : α → β} (hh : Hom A B h)
    (prog : List InstrX) (regs : List (Tensor α)) :
    evalProgG planInstrX B prog (regs.map (Tensor.map h)) =
      (evalProgG planInstrX A prog regs).map (·.map (Tensor.map h)) :=
  evalProgG_map planInstrX hh prog regs

/-- **Soundness of the validator the driver runs** (`validateG planInstrX`): acceptance implies that for
all integer inputs of the validated shapes and all interpretations of the elementary and reduction
symbols the program computes the denotation.  (Reductions are canonical multiset cells `red:<f>`; see
`IR/PrimX.lean` for the modelling decisions about numpy that this rests on.) -/
theorem validate_sound_extended (prog : List InstrX) (outs : List Nat) (expected : List (Tensor Cell))
    (I : String → List Int → Int) (bad : Int) (xs : List (Tensor Int))
    (hlen : ∀ x ∈ xs, x.data.length = prod x.shape)
    (hv : validateG planInstrX prog (xs.map (·.shape)) outs expected = true) :
    ∃ regs, evalProgG planInstrX (intAlgOf I bad) prog xs = .ok regs ∧
      outs.map (fun r => regs[r]?) =
        expected.map (fun t => some (t.map (evalCell (intAlgOf I bad) xs))) :=
  validateG_sound planInstrX prog outs expected I bad xs hlen hv

/-- Symbolic equivalence of two programs (used for graphs before/after optimisation, C05) implies equal
outputs for all inputs and interpretations. -/
theorem equiv_sound_extended (p1 p2 : List InstrX) (outs1 outs2 : List Nat)
    (I : String → List Int → Int) (bad : Int) (xs : List (Tensor Int))
    (hlen : ∀ x ∈ xs, x.data.length = prod x.shape)
    (hv : equivG planInstrX p1 p2 (xs.map (·.shape)) outs1 outs2 = true) :
    ∃ r1 r2, evalProgG planInstrX (intAlgOf I bad) p1 xs = .ok r1 ∧
      evalProgG planInstrX (intAlgOf I bad) p2 xs = .ok r2 ∧
      outs1.map (fun r => r1[r]?) = outs2.map (fun r => r2[r]?) :=
  equivG_sound planInstrX p1 p2 outs1 outs2 I bad xs hlen hv

/-- Non-vacuity (extended set): `np.sum(x, axis=1)` on shape (2,3) is accepted against the denotation of
`a [b] -> a`, and `np.sum(x, axis=0)` is rejected. -/
example :
    let e_in := Denote.Expr.list [.axis "a" 2, .br (.axis "b" 3)]
    let e_out := Denote.Expr.axis "a" 2
    (match Denote.denoteReduce "sum" e_in e_out with
      | .ok exp => validateG planInstrX [.reduce "sum" 0 [1] false] [[2, 3]] [1] [exp]
          && !validateG planInstrX [.reduce "sum" 0 [0] false] [[2, 3]] [1] [exp]
      | .error _ => false) = true := by decide +kernel

/-- Non-vacuity: the validator accepts the program `transpose; reshape` against the denotation of
`a b c -> (c a) b` on shape (2,3,2) -- computed by the same definitions the driver runs. -/
example :
    let e_in := Denote.Expr.list [.axis "a" 2, .axis "b" 3, .axis "c" 2]
    let e_out := Denote.Expr.list [.flat (.list [.axis "c" 2, .axis "a" 2]), .axis "b" 3]
    (match Denote.denoteId [e_in] [e_out] with
      | .ok exp => validate [.transpose 0 [2, 0, 1], .reshape 1 [4, 3]] [[2, 3, 2]] [2] exp
      | .error _ => false) = true := by decide +kernel

/-- … and rejects the same program with the reversed permutation (the kind of change C01/C05 are about). -/
example :
    let e_in := Denote.Expr.list [.axis "a" 2, .axis "b" 3, .axis "c" 2]
    let e_out := Denote.Expr.list [.flat (.list [.axis "c" 2, .axis "a" 2]), .axis "b" 3]
    (match Denote.denoteId [e_in] [e_out] with
      | .ok exp => validate [.transpose 0 [1, 2, 0], .reshape 1 [4, 3]] [[2, 3, 2]] [2] exp
      | .error _ => false) = false := by decide +kernel

/-! ### The families added to the validator: n-ary elementwise, argmax/argmin, get_at, sort/argsort

`validate_sound_extended` is generic in the plan function, so it covers the new instructions
(`argfind`, `sortAxis`, `arange`, `take`) as it stands.  What is new is the *form* of the denotations
(`Denote/Expr3.lean`); the theorems below say what those forms mean. -/

/-- **Peeling = unravel.**  The coordinates that the argmax/argmin denotation builds from the flat index
by successive `divmod` with the trailing sizes are the row-major multi-index of that flat index. -/
theorem peel_eq_unravel (sizes : List Nat) (k : Nat) (h : k < prod sizes) :
    Denote.peel sizes k = unravel sizes k :=
  Denote.peel_eq_unravel sizes k h

/-- **Meaning of the coordinate cells of argmax/argmin.**  For every interpretation in which `remainder`
and `floor_divide` are `%` and `/` on non-negative integers, every register content and every flat-index
cell `k` whose value `n` lies inside the block of the bracketed axes, the cells `peelCells sizes k` that
the denotation writes along the bracketed output axis evaluate to `unravel sizes n`. -/
theorem argfind_coordinates_meaning {I : String → List Int → Int} (hI : Denote.DivModInterp I) (bad : Int)
    (xs : List (Tensor Int)) (sizes : List Nat) (k : Cell) (n : Nat)
    (hk : evalCell (intAlgOf I bad) xs k = Int.ofNat n) (hn : n < prod sizes) :
    evalCells (intAlgOf I bad) xs (Denote.peelCells sizes k) = (unravel sizes n).map Int.ofNat :=
  Denote.evalCell_peelCells hI bad xs sizes k n hk hn

/-- **Meaning of the index cell of get_at.**  For every interpretation in which `add` and `multiply` are
the integer operations: if the coordinate cells evaluate to the natural numbers `vals` (`none` = omitted
un-bracketed axis of length 1, index 0), the index cell `ravelExpr coords sizes` evaluates to the row-major
flat position `ravel sizes vals`. -/
theorem get_at_index_meaning {I : String → List Int → Int} (hI : Denote.ArithInterp I) (bad : Int)
    (xs : List (Tensor Int)) (coords : List (Option Cell)) (vals : List (Option Nat)) (sizes : List Nat)
    (hv : coords.map (Option.map (evalCell (intAlgOf I bad) xs)) = vals.map (Option.map Int.ofNat)) :
    evalCell (intAlgOf I bad) xs (Denote.ravelExpr coords sizes) =
      Int.ofNat (ravel sizes (vals.map (·.getD 0))) := by
  have h1 := Denote.evalCell_ravelExpr hI bad xs coords sizes
  have hv' : coords.map (Option.map (evalCell ⟨id, I, bad⟩ xs)) = vals.map (Option.map Int.ofNat) := hv
  rw [hv', Denote.ravelInt_eq_ravel] at h1
  exact h1

/-- Non-vacuity of the two hypotheses: the integer operations satisfy them. -/
example : Denote.DivModInterp (fun f args => match f, args with
    | "remainder", [a, b] => a % b
    | "floor_divide", [a, b] => a / b
    | _, _ => 0) := by
  intro a s
  exact ⟨rfl, rfl⟩

example : Denote.ArithInterp (fun f args => match f, args with
    | "add", [a, b] => a + b
    | "multiply", [a, b] => a * b
    | _, _ => 0) := by
  intro a b
  exact ⟨rfl, rfl⟩

/-- Non-vacuity (argmax): the program einx emits for `[b] [c] -> [2]` on shape (2,3) -- reshape, `argmax`,
the `divmod` chain, reshape, concatenate -- is accepted against `denoteArgfind`; stacking the two
coordinates in the wrong order is rejected. -/
example :
    let e_in := Denote.Expr.list [.br (.axis "b" 2), .br (.axis "c" 3)]
    let e_out := Denote.Expr.br (.axis "k" 2)
    let prog (o : List Nat) : List InstrX :=
      [.base (.reshape 0 [6]), .argfind "argmax" 1 0,
       .base (.ewise "floor_divide" [.reg 2, .lit 3]), .base (.ewise "remainder" [.reg 2, .lit 3]),
       .base (.ewise "floor_divide" [.reg 3, .lit 2]), .base (.ewise "remainder" [.reg 3, .lit 2]),
       .base (.reshape 6 [1]), .base (.reshape 4 [1]), .base (.concat o 0)]
    (match Denote.denoteArgfind "argmax" e_in e_out with
      | .ok exp => validateG planInstrX (prog [7, 8]) [[2, 3]] [9] [exp]
          && !validateG planInstrX (prog [8, 7]) [[2, 3]] [9] [exp]
      | .error _ => false) = true := by decide +kernel

/-- Non-vacuity (get_at): the program einx emits for `[h] c, p -> p c` on shapes (2,2), (2,) -- flatten,
`p·2 + arange(2)`, `take` -- is accepted against `denoteGetAt`; a wrong multiplier is rejected. -/
example :
    let e_t := Denote.Expr.list [.br (.axis "h" 2), .axis "c" 2]
    let e_c := Denote.Expr.axis "p" 2
    let e_out := Denote.Expr.list [.axis "p" 2, .axis "c" 2]
    let prog (m : Int) : List InstrX :=
      [.base (.reshape 0 [4]), .base (.ewise "multiply" [.reg 1, .lit m]), .base (.reshape 3 [2, 1]),
       .arange 2, .base (.reshape 5 [1, 2]), .base (.ewise "add" [.reg 4, .reg 6]), .take 2 7]
    (match Denote.denoteGetAt [e_t, e_c] e_out with
      | .ok exp => validateG planInstrX (prog 2) [[2, 2], [2]] [8] [exp]
          && !validateG planInstrX (prog 3) [[2, 2], [2]] [8] [exp]
      | .error _ => false) = true := by decide +kernel

/-- Non-vacuity (n-ary elementwise): `add("a, a, a -> a")` is the left fold `add(add(x, y), z)`; folding in
another operand order is rejected. -/
example :
    let e := Denote.Expr.axis "a" 2
    (match Denote.denoteElementwiseFold "add" [e, e, e] e with
      | .ok exp =>
        validateG planInstrX [.base (.ewise "add" [.reg 0, .reg 1]), .base (.ewise "add" [.reg 3, .reg 2])] [[2], [2], [2]] [4] [exp]
          && !validateG planInstrX [.base (.ewise "add" [.reg 0, .reg 2]), .base (.ewise "add" [.reg 3, .reg 1])] [[2], [2], [2]] [4] [exp]
      | .error _ => false) = true := by decide +kernel

/-- Non-vacuity (sort): `np.sort(x, axis=1)` is accepted against the denotation of `a [b]`, `axis=0` is not. -/
example :
    let e := Denote.Expr.list [.axis "a" 2, .br (.axis "b" 2)]
    (match Denote.denoteSort "sort" e e with
      | .ok exp => validateG planInstrX [.sortAxis "sort" 0 1] [[2, 2]] [1] [exp]
          && !validateG planInstrX [.sortAxis "sort" 0 0] [[2, 2]] [1] [exp]
      | .error _ => false) = true := by decide +kernel

/-! ### Validation modulo integer arithmetic (index arithmetic of get_at) -/

/-- **Soundness of the arithmetic normalisation** (`IR.normArith`: canonical polynomial form of `add` /
`multiply` over the other sub-cells, applied recursively inside all other function symbols): for every
interpretation in which `add` / `multiply` are the integer operations, every register content and every
value for out-of-range reads, a cell and its normal form have the same value. -/
theorem normArith_sound {I : String → List Int → Int} (hI : ArithI I) (bad : Int) (xs : List (Tensor Int))
    (c : Cell) : evalCell (intAlgOf I bad) xs (normArith c) = evalCell (intAlgOf I bad) xs c :=
  normArith_eval hI bad xs c

/-- **Soundness of the validator modulo integer arithmetic** (`validateArith planInstrX`, the driver's
fallback for get_at when the index arithmetic is associated or ordered differently from the canonical
form): acceptance implies that for all integer inputs of the validated shapes and all interpretations of
the function symbols *in which `add` and `multiply` are the integer operations* the program computes the
denotation.  (`validate_sound_extended` needs no such restriction and stays the theorem behind every
`mode = syntactic` verdict.) -/
theorem validate_sound_arith (prog : List InstrX) (outs : List Nat) (expected : List (Tensor Cell))
    (I : String → List Int → Int) (hI : ArithI I) (bad : Int) (xs : List (Tensor Int))
    (hlen : ∀ x ∈ xs, x.data.length = prod x.shape)
    (hv : validateArith planInstrX prog (xs.map (·.shape)) outs expected = true) :
    ∃ regs, evalProgG planInstrX (intAlgOf I bad) prog xs = .ok regs ∧
      outs.map (fun r => regs[r]?) =
        expected.map (fun t => some (t.map (evalCell (intAlgOf I bad) xs))) :=
  validateArith_sound planInstrX prog outs expected I hI bad xs hlen hv

/-- Non-vacuity of `ArithI`. -/
example : ArithI (fun f args => match f, args with
    | "add", [a, b] => a + b
    | "multiply", [a, b] => a * b
    | _, _ => 0) := by
  intro a b
  exact ⟨rfl, rfl⟩

/-- Non-vacuity: the get_at program of the example above with the sum commuted (`arange + p·2`) and the
multiplier split (`(p·1)·2`) is rejected by the syntactic validator but accepted modulo arithmetic; a wrong
multiplier is still rejected. -/
example :
    let e_t := Denote.Expr.list [.br (.axis "h" 2), .axis "c" 2]
    let e_c := Denote.Expr.axis "p" 2
    let e_out := Denote.Expr.list [.axis "p" 2, .axis "c" 2]
    let prog (m : Int) : List InstrX :=
      [.base (.reshape 0 [4]), .base (.ewise "multiply" [.reg 1, .lit 1]), .base (.ewise "multiply" [.reg 3, .lit m]),
       .base (.reshape 4 [2, 1]), .arange 2, .base (.reshape 6 [1, 2]), .base (.ewise "add" [.reg 7, .reg 5]), .take 2 8]
    (match Denote.denoteGetAt [e_t, e_c] e_out with
      | .ok exp => !validateG planInstrX (prog 2) [[2, 2], [2]] [9] [exp]
          && validateArith planInstrX (prog 2) [[2, 2], [2]] [9] [exp]
          && !validateArith planInstrX (prog 3) [[2, 2], [2]] [9] [exp]
      | .error _ => false) = true := by decide +kernel

/-! ### The fuel of `views` is sufficient -/

/-- Choosing a block of the leftmost top-level concatenation strictly decreases the number of
concatenation nodes (the termination measure of the enumeration of virtual tensors). -/
theorem nconcat_choose_lt (k : Nat) (ds ds' : List Denote.Dim) (h : Denote.Dim.chooseL k ds = some ds') :
    Denote.Dim.nconcatL ds' < Denote.Dim.nconcatL ds :=
  Denote.Dim.nconcatL_chooseL_lt k ds ds' h

/-- **Fuel sufficiency.**  `views` runs `viewsFuel` with fuel = number of concatenation nodes + 1; any
larger amount of fuel gives the same enumeration, … -/
theorem views_fuel_sufficient (e : Denote.Expr) (m : Nat)
    (hm : Denote.Dim.nconcatL (Denote.dims false e) + 1 ≤ m) :
    Denote.viewsFuel m (Denote.dims false e) = Denote.views e :=
  Denote.viewsFuel_stable _ m _ (by omega) hm

/-- … the enumeration satisfies the un-fuelled recursion equation (so it is the depth-first enumeration
of all block choices, not a truncation of it), … -/
theorem views_unfold (ds : List Denote.Dim) :
    Denote.viewsFuel (Denote.Dim.nconcatL ds + 1) ds =
      if Denote.Dim.nconcatL ds == 0 then [ds]
      else (List.range (Denote.Dim.nblocksL ds)).flatMap (fun k =>
        match Denote.Dim.chooseL k ds with
        | some ds' => Denote.viewsFuel (Denote.Dim.nconcatL ds' + 1) ds'
        | none => []) :=
  Denote.viewsFuel_unfold ds

/-- … and every virtual tensor it returns is concatenation-free (the fuel-exhausted case is never reached
with a concatenation left). -/
theorem views_concatFree (e : Denote.Expr) : ∀ v ∈ Denote.views e, Denote.Dim.nconcatL v = 0 :=
  Denote.viewsFuel_concatFree _ _ (by omega)

/-- Non-vacuity: an expression with two nested-free concatenations `(a + b) (c + d)` has four virtual
tensors, all concatenation-free, and ten times the fuel changes nothing. -/
example :
    let e := Denote.Expr.list [.concat [.axis "a" 1, .axis "b" 2], .concat [.axis "c" 1, .axis "d" 1]]
    ((Denote.views e).length == 4 && (Denote.views e).all (fun v => Denote.Dim.nconcatL v == 0)
      && (Denote.viewsFuel 30 (Denote.dims false e)).length == 4) = true := by decide +kernel

end Einx.IR
