import EinxModel.Proofs.Alias
import EinxModel.Extracted.Alias
/-!
C09 — arguments are never modified (except the documented in-place `*_at` target).

Property theorems only (helper lemmas: `Proofs/Alias.lean`; definitions: `Alias/Model.lean`, the same
definitions the driver executes for kind `writes`).  `Extracted/Alias.lean` is regenerated from `/repo`
on every run: the obligations `extracted_inplace_rows`, `table_inplace_rows_traced` and
`extracted_traced_have_rows` re-check the alias table against what
`tracer/signature/classical/numpy.py` registers now.

Reading of the property in the model: a call runs the compiled graph on the caller's own array objects
(graph input `k` *is* the caller's `k`-th tensor argument).  "Not modified" = the contents of the buffer
the argument lives in are the same before and after.  The harness evaluates `writes g` on every real
traced graph: `[]` for every operation that is not `*_at`, `⊆ [0]` for `set_at/add_at/subtract_at`.
Partial: numpy's view/copy/in-place behaviour is the table `aliasTable` (trusted, conformance-tested
against real numpy on every run).
-/
namespace Einx.Alias

/-! ### Source obligations (regenerated from /repo) -/

/-- Every function that einx traces as in-place (`signature.classical.inplace(...)` registrations) has an
alias-table row saying that it writes positional argument 0, `signature.classical.inplace` still passes
its first argument as the written object, and the python compiler still defines the result of a
`CallInplace` / `UpdateItem` node as the written object (what `Node.inplace` assumes).  Adding a new
in-place function without a row breaks this obligation. -/
theorem extracted_inplace_rows :
    Einx.Extracted.inplaceTargetIsFirstArg = true ∧ Einx.Extracted.inplaceResultIsTarget = true ∧
      ∀ f ∈ Einx.Extracted.inplaceTraced, effectOf f = some (.inplace 0) := by decide

/-- The table has no in-place rows besides the functions einx traces as in-place. -/
theorem table_inplace_rows_traced : ∀ f ∈ inplaceRows, f ∈ Einx.Extracted.inplaceTraced := by decide

/-- Every numpy function einx traces has a row in the alias table (a function without a row makes the
driver answer `unsupported`, which the harness reports as a broken tie). -/
theorem extracted_traced_have_rows :
    ∀ p ∈ Einx.Extracted.tracedFunctions, (effectOf p.1).isSome = true := by decide

/-! ### Soundness of the may-alias analysis -/

/-- The analysis over-approximates the root sharing of the store semantics: after executing `g` — for
every behaviour of numpy (view or copy) and every contents — a register that denotes one of the initial
objects denotes the object of one of the inputs the analysis lists for it.  In particular a graph output
can only share memory with the inputs in `outRoots g` (checked against `np.shares_memory` by the harness). -/
theorem alias_sound {V} (g : Graph) (b : Behav V) (inObjs : List Nat) (objs : List V) (hlen : inObjs.length = g.nin)
    (r o : Nat) (hr : (exec b g inObjs objs).regs[r]? = some o) (ho : o < objs.length) :
    ∃ i ∈ rootsOf (analyse g).regs r, inObjs[i]? = some o := by
  have h := inv_execFrom b g.nodes 0 _ _ (inv_init inObjs objs)
  rw [hlen] at h
  exact h.2.2 r o hr ho

/-- Frame property, general form (inputs may be the same object or views of one buffer): executing `g`
leaves every object of the initial store unchanged that is not the object of a may-written input. -/
theorem write_frame {V} (g : Graph) (b : Behav V) (inObjs : List Nat) (objs : List V) (hlen : inObjs.length = g.nin)
    (o : Nat) (ho : o < objs.length) (h : ∀ i ∈ writes g, inObjs[i]? ≠ some o) :
    (exec b g inObjs objs).objs[o]? = objs[o]? := by
  have hinv := inv_init inObjs objs
  rw [hlen] at hinv
  apply execFrom_frame b o ho g.nodes 0 _ _ hinv
  intro i hi
  exact h i (mem_dedup.mpr hi)

/-- **noWrite_sound.**  If input `i` is not in `writes g` (`checkNoWrite g i = true`: no in-place node's
target may alias input `i` under the alias table), then for every store, every view/copy decision of
numpy and every written contents, executing `g` leaves the object of input `i` unchanged.  (Inputs are
distinct objects here: input `k` is object `k`; `write_frame` is the version for aliased inputs.) -/
theorem noWrite_sound {V} (g : Graph) (i : Nat) (h : checkNoWrite g i = true) (b : Behav V) (objs : List V)
    (hi : i < objs.length) : (exec b g (List.range g.nin) objs).objs[i]? = objs[i]? := by
  apply write_frame g b _ objs (by simp) i hi
  intro j hj hji
  have : j = i := by
    rcases Nat.lt_or_ge j g.nin with hlt | hge
    · simpa [List.getElem?_range hlt] using hji
    · simp [List.getElem?_eq_none (l := List.range g.nin) (by simpa using hge)] at hji
  subst this
  simp [checkNoWrite] at h
  exact h hj

/-- **at_only_first.**  The obligation the harness evaluates on every captured `set_at/add_at/subtract_at`
graph is `writes g ⊆ [0]`; it implies that every argument but the first (coordinates, updates) and every
other object of the store is left unchanged. -/
theorem at_only_first {V} (g : Graph) (h : (writes g).all (· == 0) = true) (b : Behav V) (objs : List V)
    (i : Nat) (hpos : 1 ≤ i) (hi : i < objs.length) : (exec b g (List.range g.nin) objs).objs[i]? = objs[i]? := by
  apply noWrite_sound g i _ b objs hi
  simp only [checkNoWrite, Bool.not_eq_true', List.contains_eq_mem, decide_eq_false_iff_not]
  intro hmem
  have := List.all_eq_true.mp h i hmem
  simp at this
  omega

/-- A graph without in-place nodes writes nothing … -/
theorem noInplace_writes_nil (g : Graph) (h : g.nodes.all (fun nd => !nd.isInplace) = true) : writes g = [] := by
  simp [writes, analyse, analyseFrom_written_noInplace g.nodes _ h, Abs.init, dedup]

/-- … hence leaves every object of the store unchanged. -/
theorem noInplace_frame {V} (g : Graph) (h : g.nodes.all (fun nd => !nd.isInplace) = true) (b : Behav V)
    (inObjs : List Nat) (objs : List V) (hlen : inObjs.length = g.nin) (o : Nat) (ho : o < objs.length) :
    (exec b g inObjs objs).objs[o]? = objs[o]? := by
  apply write_frame g b inObjs objs hlen o ho
  simp [noInplace_writes_nil g h]

/-- The shape of the update lowering (`update_at_ravelled`: pure nodes, one in-place primitive on the
flattened target, pure nodes): the may-written inputs are exactly the inputs the target register may
alias. -/
theorem writes_single_inplace (nin : Nat) (pre post : List Node) (t : Nat) (rd outs : List Nat)
    (hpre : pre.all (fun nd => !nd.isInplace) = true) (hpost : post.all (fun nd => !nd.isInplace) = true) :
    writes { nin := nin, nodes := pre ++ [.inplace t rd] ++ post, outs := outs }
      = dedup (rootsOf (analyseFrom pre (Abs.init nin)).regs t) := by
  simp only [writes, analyse, analyseFrom_append, analyseFrom]
  rw [analyseFrom_written_noInplace post _ hpost]
  simp [Abs.step, analyseFrom_written_noInplace pre _ hpre, Abs.init]

/-- The store semantics of an in-place node is exact: it replaces the contents of the object its target
register denotes, and of no other object; the result register denotes that same object. -/
theorem inplace_step_exact {V} (b : Behav V) (n : Nat) (st : State V) (t o : Nat) (rd : List Nat)
    (ht : st.regs[t]? = some o) :
    (st.step b n (.inplace t rd)).objs = st.objs.set o (b.newVal n st) ∧
      (st.step b n (.inplace t rd)).regs = st.regs ++ [o] := by
  simp [State.step, ht]

/-- Execution defines exactly one register per node (so in a well-formed graph, `Graph.wf`, every
register a node uses is defined when the node runs: the semantics never takes its dangling-register
branch on graphs the driver accepts). -/
theorem exec_regs_length {V} (b : Behav V) (g : Graph) (inObjs : List Nat) (objs : List V) :
    (exec b g inObjs objs).regs.length = inObjs.length + g.nodes.length :=
  execFrom_regs_length b g.nodes 0 _

/-- The written set is duplicate free (the driver's answer is a set). -/
theorem writes_nodup (g : Graph) : (writes g).Nodup := dedup_nodup _

/-! ### Non-vacuity -/

/-- `einx.set_at("a [h] b, a p, b p -> b [h] a", x, idx, upd)` as captured (numpy backend), tensor steps only:
`a' = reshape(a)`, `b' = multiply(b, 3)`, `c' = broadcast_to(reshape(c))`, `put(a', b', c')`, `reshape`, `transpose`. -/
def exSetAt : Graph :=
  { nin := 3, nodes := [.view [0], .fresh [1], .view [2], .view [5], .inplace 3 [4, 6], .view [7], .view [8]], outs := [9] }

example : exSetAt.wf = true := by decide
example : writes exSetAt = [0] := by decide
example : outRoots exSetAt = [0] := by decide
/-- The coordinate tensor (input 1) and the update tensor (input 2) flow only into read positions. -/
example : checkNoWrite exSetAt 1 = true ∧ checkNoWrite exSetAt 2 = true ∧ checkNoWrite exSetAt 0 = false := by decide
example : (writes exSetAt).all (· == 0) = true := by decide

/-- The store semantics really writes: when numpy returns views, `put` lands in the caller's buffer … -/
example : (exec (V := Nat) { choose := fun _ => some 0, newVal := fun _ _ => 99 } exSetAt [0, 1, 2] [10, 20, 30]).objs
    = [99, 20, 30, 99] := by decide
/-- … and when `reshape` copies (non-contiguous target) the caller's buffer is untouched. -/
example : (exec (V := Nat) { choose := fun _ => none, newVal := fun n _ => 100 + n } exSetAt [0, 1, 2] [10, 20, 30]).objs.take 3
    = [10, 20, 30] := by decide

/-- A lowering that applied the in-place primitive to the coordinate tensor (`np.add.at(indices, …)`) is
caught: input 1 is may-written, the `at_only_first` obligation is false. -/
def exBad : Graph := { nin := 3, nodes := [.view [1], .inplace 3 [0, 2]], outs := [0] }
example : writes exBad = [1] ∧ (writes exBad).all (· == 0) = false := by decide
/-- … and the concrete semantics confirms the analysis: the object of input 1 changes. -/
example : (exec (V := Nat) { choose := fun _ => some 0, newVal := fun _ _ => 7 } exBad [0, 1, 2] [10, 20, 30]).objs[1]? = some 7 := by decide

/-- An `out=` of an input on an otherwise pure function (`np.negative(a, out=a)`): the driver turns it into
an in-place node, so an operation that is not `*_at` no longer has `writes = []`. -/
example : writes { nin := 1, nodes := [.inplace 0 [0]], outs := [1] } = [0] := by decide

/-- Aliased inputs (`einx.add_at("[h], p, p", x, idx, x)`: input 2 is the object of input 0): `write_frame`
does not promise anything for the shared object, and indeed it changes. -/
example : (exec (V := Nat) { choose := fun _ => none, newVal := fun _ _ => 5 } { nin := 3, nodes := [.inplace 0 [1, 2]], outs := [3] }
    [0, 1, 0] [10, 20]).objs = [5, 20] := by decide

end Einx.Alias
