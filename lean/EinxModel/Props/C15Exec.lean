import EinxModel.Props.C15
import EinxModel.Props.C13Exec
import EinxModel.Proofs.ExecAdapt
import EinxModel.Proofs.ExecSemAdapt
/-!
# C15 with C04 — the adapted user function is called exactly once by the compiled program

`Props/C15.lean:adaptOK_sound` is a statement about the traced graph ("exactly one call node of the user constant").  Here
it is connected with the program the code generator emits for that graph (C04), using `Props/C13Exec.lean:exec_from_compile`.

* `Exec/View.lean:toAdapt` translates the C04 graph (plus the annotations it does not carry: traced tensor shapes, the value
  of every `Constant` node) into the C15 graph type; the driver (`Driver/Exec.lean`, kind `exec_check`, mode `adapt`) runs
  `adaptOK` on the translated graph of every captured adapter call and compares it with the directly decoded one.
* `adapter_called_once_compiled`: for every `Graph.WF`, supported graph whose translations are accepted (`adaptOK`) and
  serialisation-sane (`Factory.wf`), if `compile` succeeds and the call of the user constant is reachable from the graph output
  (`callsReachable`, decidable — `adaptOK` itself does not ask for it), then exactly one application of the schedule of the
  emitted program calls the user constant, the emitted program contains exactly one statement for it, and the event trace of
  the emitted program — the trace of the reference evaluation of the graph — contains exactly one event produced by a node
  that calls the user constant: a call event with as many positional arguments as the specification has aligned tensors
  and exactly the keyword names `axis` (reduce) followed by the forwarded options.
* `adapter_called_at_most_once_compiled`: without the reachability premise, at most one.

* `adapter_call_value_compiled` (value level): under the same premises and reachability, the event trace of the emitted program
  contains exactly one call event whose *function term is a constant object* (`constAtom n`; the graph has exactly one `Constant`
  node, the user function), with the specification's number of positional arguments and keyword names; no other call event calls
  a constant object.

Not proved here: that the positional arguments evaluate to the aligned tensors (their *traced shapes* are in `adaptOK_sound`).
-/
namespace Einx.Adapt
open Einx.Compile Einx.Exec

/-- **adapter_called_once_compiled**. -/
theorem adapter_called_once_compiled (cfg : UCfg) (fc : FCfg) (g : Compile.Graph) (aux : List TAux)
    (shapes : List (Nat × List Nat)) (constVals : List (Option Val)) (ag : Adapt.Graph) (fg : Factory.Graph)
    (comp : Compiled) (s : Spec) (hwf : g.WF = true) (hsup : Supported g = true)
    (hag : toAdapt g shapes constVals = some ag) (hfg : toFactory g aux = some fg) (hfwf : Factory.wf fg = true)
    (hc : compile cfg fc g = .ok comp) (hok : adaptOK ag s = true) :
    ∃ k c fn args out i,
      ag.apps.filter isAnyConstant = [.constant (.obj k) c] ∧
      ag.apps.filter (isCallOf c) = [.call fn args s.kwargs out] ∧ ag.apps[i]? = some (.call fn args s.kwargs out) ∧
      ArgsAre ag args s.argShapes ∧
      (callsReachable ag fg c = true →
        ∃ f as ks r,
          (appsOf comp.order).filter (callsTracer ag c) = [i] ∧
          comp.st.srcs.count i = 1 ∧
          evalGraph g cfg.unaryParens comp.order = .ok r ∧
          (taggedTrace { env := unbound } (sstmts comp.st)).map (·.2) = r.trace ∧
          (taggedTrace { env := unbound } (sstmts comp.st)).filter (byCallOf ag c) = [(some i, .call (E.mk .call (f :: as ++ ks)))] ∧
          as.length = s.argShapes.length ∧ ks.map kwName = s.kwargs.map (fun kv => some kv.1)) ∧
      -- without reachability: nothing but node `i` can produce such an event
      (∀ q ∈ taggedTrace { env := unbound } (sstmts comp.st), byCallOf ag c q = true → q.1 = some i) := by
  obtain ⟨k, c, fn, args, r, xs1, c1, r1, xs2, c2, r2, ci, r3, hconst, hcall, _, hargs, _⟩ := adaptOK_sound ag s hok
  obtain ⟨i, hi, hpi, huniq⟩ := filter_singleton_index (isCallOf c) _ ag.apps hcall
  refine ⟨k, c, fn, args, .ref r, i, hconst, hcall, hi, hargs, ?_, ?_⟩
  · intro hreach
    -- node `i` of the C04 graph
    obtain ⟨a, ha, hta⟩ := toAdapt_app g shapes constVals ag hag i _ hi
    obtain ⟨fn', args', kwargs', deps', o, rfl, hfn, hargs', hkw', _⟩ := toAdaptApp_call_inv _ a fn args s.kwargs (.ref r) hta.symm
    have hfnc : fn' = .var c := by
      cases hfv : fn with
      | ref f =>
        rw [hfv] at hpi hfn
        simp only [isCallOf, beq_iff_eq] at hpi
        subst hpi
        exact toVal_ref_inv fn' f hfn.symm
      | _ => rw [hfv] at hpi; simp [isCallOf] at hpi
    subst hfnc
    -- the constant node
    obtain ⟨k0, hk0, _, _⟩ := filter_singleton_index isAnyConstant _ ag.apps hconst
    obtain ⟨a0, ha0, hta0⟩ := toAdapt_app g shapes constVals ag hag k0 _ hk0
    obtain ⟨str, rfl⟩ := toAdaptApp_constant_inv _ a0 _ c hta0.symm
    have hnot := not_allowInline_of_constant g aux fg hfg hfwf k0 str c ha0
    -- reachable, hence visited
    have hilt : i < ag.apps.length := (List.getElem?_eq_some_iff.1 hi).1
    have hir : i ∈ Factory.reachable fg := by
      simp only [callsReachable, List.all_eq_true, List.mem_range, Bool.or_eq_true, Bool.not_eq_true',
        List.contains_eq_mem, decide_eq_true_eq] at hreach
      rcases hreach i hilt with h | h
      · simp [callsTracer, hi, hpi] at h
      · exact h
    have hex := Einx.Props.C13.exec_from_compile cfg fc g aux fg comp hwf hsup hfg hfwf hc
    have hisched : i ∈ appsOf comp.order := (hex.2 i).2 hir
    have hivis : Visit.app i ∈ comp.order := (mem_appsOf _ i).1 hisched
    have hcti : callsTracer ag c i = true := by simp [callsTracer, hi, hpi]
    have hfilt : (appsOf comp.order).filter (callsTracer ag c) = [i] := by
      apply Einx.Factory.filter_eq_singleton _ _ _ hex.1 hisched hcti
      intro j _ hj
      simp only [callsTracer] at hj
      cases hb : ag.apps[j]? with
      | none => simp [hb] at hj
      | some b => rw [hb] at hj; exact huniq j b hb hj
    obtain ⟨scopes, st, ho, he, hb⟩ := compile_parts cfg fc g comp hc
    have hcount : comp.st.srcs.count i = 1 := by
      rw [srcs_of_body st comp.st hb]
      have := emit_once_wf (Exec.ctxOf cfg g scopes) hwf comp.order ho st he i _ ha
        (by show (!isAllowInline g (.var c)) = true; rw [hnot]; rfl)
      simpa [hivis] using this
    obtain ⟨rr, hr, htr, _⟩ := compile_correct_wf cfg fc g comp hwf hc
    have hprog : comp.st.program = (sstmts comp.st).map (·.stmt) := by simp [GState.program, sstmts]
    have htrace : (taggedTrace { env := unbound } (sstmts comp.st)).map (·.2) = rr.trace := by
      rw [htr, hprog, taggedTrace_events]
      simp
    obtain ⟨f, as, ks, hev, hlen, hnames⟩ :=
      call_node_event cfg fc g comp hwf hc i (.var c) args' kwargs' deps' o ha hnot hivis { env := unbound }
    refine ⟨f, as, ks, rr, hfilt, hcount, hr, htrace, ?_, ?_, ?_⟩
    · rw [← hev]
      apply List.filter_congr
      intro q hq
      simp only [byCallOf, isTag]
      cases hq1 : q.1 with
      | none => simp
      | some j =>
        cases hb : ag.apps[j]? with
        | none =>
          have : j ≠ i := by intro hji; rw [hji, hi] at hb; cases hb
          simp [hb, this]
        | some b =>
          cases hcj : isCallOf c b with
          | true =>
            have := huniq j b hb hcj
            subst this
            simp [hb, hcj]
          | false =>
            have : j ≠ i := by
              intro hji
              rw [hji, hi] at hb
              cases hb
              rw [hpi] at hcj
              cases hcj
            simp [hb, hcj, this]
    · rw [hlen, ← argsAre_length ag args s.argShapes hargs, hargs', List.length_map]
    · rw [hnames, hkw']
      simp [toKw, List.map_map, Function.comp_def]
  · intro q _ hq
    simp only [byCallOf] at hq
    cases hq1 : q.1 with
    | none => rw [hq1] at hq; cases hq
    | some j =>
      rw [hq1] at hq
      simp only at hq
      cases hb : ag.apps[j]? with
      | none => rw [hb] at hq; cases hq
      | some b =>
        rw [hb] at hq
        rw [huniq j b hb hq]

/-- **adapter_call_value_compiled** (value level): under the premises of `adapter_called_once_compiled` and reachability of the
call, the event trace of the emitted program contains **exactly one call event whose function term is a constant object**
(`constAtom n`: an object injected into the namespace of the generated code — the graph has exactly one `Constant` node, the
user function); it has as many positional arguments as the specification has aligned tensors and exactly the keyword names
`axis` (reduce) followed by the forwarded options.  No other call event of the program calls a constant object, whatever node
produced it. -/
theorem adapter_call_value_compiled (cfg : UCfg) (fc : FCfg) (g : Compile.Graph) (aux : List TAux)
    (shapes : List (Nat × List Nat)) (constVals : List (Option Val)) (ag : Adapt.Graph) (fg : Factory.Graph)
    (comp : Compiled) (s : Spec) (hwf : g.WF = true) (hsup : Supported g = true)
    (hag : toAdapt g shapes constVals = some ag) (hfg : toFactory g aux = some fg) (hfwf : Factory.wf fg = true)
    (hc : compile cfg fc g = .ok comp) (hok : adaptOK ag s = true) :
    ∃ k c, ag.apps.filter isAnyConstant = [.constant (.obj k) c] ∧
      (callsReachable ag fg c = true →
        ∃ f as ks,
          (execBlock { env := unbound } comp.st.program).trace.filter (trackedCall isConstAtom) =
            [.call (E.mk .call (f :: as ++ ks))] ∧
          isConstAtom f = true ∧ as.length = s.argShapes.length ∧ ks.map kwName = s.kwargs.map (fun kv => some kv.1)) := by
  obtain ⟨k, c, fn, args, r, xs1, c1, r1, xs2, c2, r2, ci, r3, hconst, hcall, huses, hargs, _⟩ := adaptOK_sound ag s hok
  obtain ⟨i, hi, hpi, huniq⟩ := filter_singleton_index (isCallOf c) _ ag.apps hcall
  refine ⟨k, c, hconst, ?_⟩
  intro hreach
  obtain ⟨a, ha, hta⟩ := toAdapt_app g shapes constVals ag hag i _ hi
  obtain ⟨fn', args', kwargs', deps', o, rfl, hfn, hargs', hkw', _⟩ := toAdaptApp_call_inv _ a fn args s.kwargs (.ref r) hta.symm
  have hfnc : fn' = .var c := by
    cases hfv : fn with
    | ref f =>
      rw [hfv] at hpi hfn
      simp only [isCallOf, beq_iff_eq] at hpi
      subst hpi
      exact toVal_ref_inv fn' f hfn.symm
    | _ => rw [hfv] at hpi; simp [isCallOf] at hpi
  subst hfnc
  obtain ⟨k0, hk0, _, _⟩ := filter_singleton_index isAnyConstant _ ag.apps hconst
  obtain ⟨a0, ha0, hta0⟩ := toAdapt_app g shapes constVals ag hag k0 _ hk0
  obtain ⟨str, rfl⟩ := toAdaptApp_constant_inv _ a0 _ c hta0.symm
  have hnot := not_allowInline_of_constant g aux fg hfg hfwf k0 str c ha0
  have hilt : i < ag.apps.length := (List.getElem?_eq_some_iff.1 hi).1
  have hir : i ∈ Factory.reachable fg := by
    simp only [callsReachable, List.all_eq_true, List.mem_range, Bool.or_eq_true, Bool.not_eq_true',
      List.contains_eq_mem, decide_eq_true_eq] at hreach
    rcases hreach i hilt with h | h
    · simp [callsTracer, hi, hpi] at h
    · exact h
  have hex := Einx.Props.C13.exec_from_compile cfg fc g aux fg comp hwf hsup hfg hfwf hc
  have hivis : Visit.app i ∈ comp.order := (mem_appsOf _ i).1 ((hex.2 i).2 hir)
  obtain ⟨_, _, ho, _, _⟩ := compile_parts cfg fc g comp hc
  obtain ⟨rr, hr, htr, _⟩ := compile_correct_wf cfg fc g comp hwf hc
  have T := track_const g aux shapes constVals ag fg hwf hsup hag hfg hfwf k c i fn args s.kwargs (.ref r) hconst hi hpi huses
  obtain ⟨f, as, ks, hfilt, hqf, hlen, hnames⟩ := tracked_call_once isConstAtom_qok T cfg.unaryParens comp.order rr hr
    (visitOrder_nodup g hwf comp.order ho) (fun k' hk' => visitOrder_enters g aux fg hwf hsup hfg comp.order ho k' hk')
    i c args' kwargs' deps' o ha rfl hnot hivis (by
      intro v _ ⟨j, y, args2, kwargs2, deps2, out2, hv, hj, hy⟩
      subst hy
      have hja := toAdapt_app_fwd g shapes constVals ag hag j _ hj
      have := huniq j _ hja (by simp [toAdaptApp, isCallOf, toVal_var])
      rw [hv, this])
  refine ⟨f, as, ks, by rw [← htr]; exact hfilt, hqf, ?_, ?_⟩
  · rw [hlen, ← argsAre_length ag args s.argShapes hargs, hargs', List.length_map]
  · rw [hnames, hkw']
    simp [toKw, List.map_map, Function.comp_def]

/-! ## Non-vacuity -/

/-- The graph of `adapt_numpylike_reduce(f)("a [b] c", x, scale=2)` (`Props/C15.lean:exampleGraph`) as the C04 graph. -/
def exampleCGraph : Compile.Graph :=
  { apps := [
      .import_ "numpy" none (some "np") 1,
      .constant "<function f>" 3,
      .call (.var 3) [.var 0] [("axis", E.mk .tuple [.lit "1"]), ("scale", .lit "2")] [.var 0] 7,
      .builtin "isinstance" 8,
      .getattr (.var 1) "ndarray" 9,
      .call (.var 8) [.var 7, .var 9] [] [.var 0] 10,
      .assert_ (.var 7) (.var 10) none (.var 11),
      .builtin "tuple" 12,
      .getattr (.var 11) "shape" 13,
      .call (.var 12) [.var 13] [] [.var 0] 14,
      .operator "==" [.var 14, E.mk .tuple [.lit "2", .lit "4"]] 15,
      .assert_ (.var 11) (.var 15) none (.var 16),
      .cast (.var 16) (.var 17)],
    origin := [none, some 0, none, some 1, none, none, none, some 2, some 3, some 4, some 5, some 6, some 7, some 8, some 9,
               some 10, some 11, some 12],
    graphs := [{ inputs := [0], output := .var 17, name := some "op" }],
    top := .gref 0 }

def exampleConsts : List (Option Val) := [none, some (.obj 0)]

/-- The translation gives the graph of `Props/C15.lean` (same verdicts), the premises hold, `compile` succeeds, and the
conclusion's instance: node 2 is the only caller of the constant, one statement, one event `const1(in0, axis=…, scale=…)`. -/
example : (match toAdapt exampleCGraph [(0, [2, 3, 4]), (17, [2, 4])] exampleConsts, toFactory exampleCGraph [] with
    | some ag, some fg => some (adaptOK ag exampleSpec, adaptOK ag { exampleSpec with axis := some [2] }, Factory.wf fg,
        callsReachable ag fg 3, exampleCGraph.WF, Supported exampleCGraph)
    | _, _ => none) = some (true, false, true, true, true, true) := by decide +kernel

example : (match compile Einx.Props.C13.fixedCfg { checkLater := true, checkBlock := true, bindResult := true } exampleCGraph,
      toAdapt exampleCGraph [(0, [2, 3, 4]), (17, [2, 4])] exampleConsts with
    | .ok c, some ag =>
      decide ((appsOf c.order).filter (callsTracer ag 3) = [2]) && decide (c.st.srcs.count 2 = 1) &&
      decide (((taggedTrace { env := unbound } (sstmts c.st)).filter (byCallOf ag 3)).map
          (fun p => (p.1, (callShape p.2).map (fun s => (s.2.1.length, s.2.2)))) = [(some 2, some (1, ["axis", "scale"]))])
    | _, _ => false) = true := by decide +kernel

/-- Value level on the example: the compiled program has exactly one call event of a constant object, `const1(in0, axis=…, scale=…)`. -/
example : (match compile Einx.Props.C13.fixedCfg { checkLater := true, checkBlock := true, bindResult := true } exampleCGraph with
    | .ok c =>
      ((execBlock { env := unbound } c.st.program).trace.filter (trackedCall isConstAtom)).map
        (fun ev => (callShape ev).map (fun s => (decide (s.1 = constAtom 1), s.2.1.length, s.2.2)))
    | _ => []) = [some (true, 1, ["axis", "scale"])] := by decide +kernel

end Einx.Adapt
