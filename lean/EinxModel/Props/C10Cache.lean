import EinxModel.Proofs.CacheConcurrent
import EinxModel.Proofs.Cache
import EinxModel.Extracted.Cacheconc
/-!
C10, second property file — first-time compilation triggered concurrently: the compiled-function cache
(`functools.cache` around `_construct_graph`, `Cache/Concurrent.lean`) under arbitrary interleavings of its
micro steps lookup / miss / compute / insert.

Helper lemmas and the invariant are in `Proofs/CacheConcurrent.lean`.  `Extracted/Cacheconc.lean` is regenerated from
`/repo` on every run.
-/
namespace Einx.Cache.Conc
open Einx.Cache

/-! ### Obligations regenerated from the source -/

/-- `util/lru_cache.py:lru_cache` memoises with `functools.cache` / `functools.lru_cache` and nothing else: no
dictionary, lock or in-progress marker of its own – the micro steps of the model are those of `functools.cache`. -/
theorem extracted_memo_is_functools : Einx.Extracted.memoIsFunctools = true := by decide

/-- `func_frozen` / `func_unfrozen` only rebind their locals and call through (they add no shared state). -/
theorem extracted_wrappers_stateless : Einx.Extracted.wrappersStateless = true := by decide

/-- The retrace warning – the only other shared mutable state of `util/lru_cache.py` – is off by default and then
`_with_retrace_warning` returns the function itself. -/
theorem extracted_retrace_off_by_default : Einx.Extracted.retraceOffByDefault = true := by decide

/-- One cache per `api` object shared by all threads; `inner` calls it exactly once; `inner` and `_construct_graph`
store to nothing but their locals. -/
theorem extracted_cache_per_api_shared : Einx.Extracted.cachePerApiShared = true := by decide

section
variable {K V : Type} [DecidableEq K]

/-! ### Invariant and serializability -/

/-- **Invariant at any time** of any execution (any number of threads, any programs, any schedule, any eviction
policy that only drops entries), if the cached function is deterministic in its key: every stored value is the
function's value for its key, only requested keys are stored, every finished call returned the function's value
for its key, and a value waiting to be stored is the function's value for the key of the call in progress. -/
theorem cache_invariant (comp : Comp K V) (f : K → Outcome V) (hdet : Deterministic comp f)
    (trim : Store K V → Store K V) (htrim : ∀ m e, e ∈ trim m → e ∈ m) (progs : List (List K)) (sched : List Nat) :
    Inv f progs (run comp trim (init progs) sched) :=
  inv_run hdet htrim sched (inv_init f progs)

/-- **`cache_concurrent_serializable`.**  For any number of threads, any programs of requests and any schedule of the
micro steps lookup / miss / compute / insert (two threads may both miss and both compute), if the cached function is
deterministic in its key (`Deterministic comp f`: whatever thread runs it, whenever, whatever the cache contains, it
returns `f key` – for `_construct_graph` this is C06's `einx_cache_transparent` hypothesis and C16) then in every
execution that runs to completion **every call returns `f key`** – the value (or exception class) the call has in
a serial execution, see `cache_results_eq_serial_memo` – and every stored value is `f` of its key.  Holds for every
eviction policy that only drops entries (`functools.cache`: none; `EINX_CACHE_SIZE > 0`: LRU). -/
theorem cache_concurrent_serializable (comp : Comp K V) (f : K → Outcome V) (hdet : Deterministic comp f)
    (trim : Store K V → Store K V) (htrim : ∀ m e, e ∈ trim m → e ∈ m) (progs : List (List K)) (sched : List Nat) :
    let c := run comp trim (init progs) sched
    c.finished = true →
      (∀ (i : Nat) (p : List K), progs[i]? = some p → ∃ th : Thread K V, c.threads[i]? = some th ∧ th.outs = p.map f) ∧
      (∀ k v, (k, v) ∈ c.cache → f k = .ok v) := by
  intro c hfin
  have h : Inv f progs c := cache_invariant comp f hdet trim htrim progs sched
  refine ⟨?_, h.sound⟩
  intro i p hp
  have hlt : i < c.threads.length := by rw [h.len]; exact lt_of_getElem?_some hp
  have hi : c.threads[i]? = some c.threads[i] := List.getElem?_eq_getElem hlt
  refine ⟨c.threads[i], hi, ?_⟩
  have t := h.thr i _ hi
  have hd : c.threads[i].done = true := List.all_eq_true.mp hfin _ (List.getElem_mem hlt)
  simp only [Thread.done, List.isEmpty_iff] at hd
  have hprog := t.prog
  rw [hd, List.append_nil, hp] at hprog
  rw [t.outs, Option.some.inj hprog]

/-- **The results are those of every serial execution.**  Take any serial order of all calls (a merge of the
threads' programs, each call tagged with its thread) and run it on the sequential memo machine of C06
(`Einx.Cache.run`: one call after the other, hits served from the memo).  Each thread observes, call by call, in the
concurrent execution exactly what it observes in that serial execution. -/
theorem cache_results_eq_serial_memo (comp : Comp K V) (f : K → Outcome V) (hdet : Deterministic comp f)
    (trim : Store K V → Store K V) (htrim : ∀ m e, e ∈ trim m → e ∈ m) (progs : List (List K)) (sched : List Nat)
    (order : List (Nat × K))
    (hord : ∀ (i : Nat) (p : List K), progs[i]? = some p → (order.filter (fun e => e.1 == i)).map (·.2) = p) :
    let c := run comp trim (init progs) sched
    let serial := (Einx.Cache.run (fun k : K => k) (fun a b => decide (a = b)) id f [] (order.map (·.2))).2
    c.finished = true →
      ∀ (i : Nat) (p : List K), progs[i]? = some p → ∃ th : Thread K V, c.threads[i]? = some th ∧
        th.outs = ((order.zip serial).filter (fun e => e.1.1 == i)).map (·.2) := by
  intro c serial hfin i p hp
  obtain ⟨th, hth, houts⟩ := (cache_concurrent_serializable comp f hdet trim htrim progs sched hfin).1 i p hp
  refine ⟨th, hth, ?_⟩
  -- the sequential memo machine returns `f key` for every call of every history (`run_spec`, as in C06's `memo_history_outcomes`;
  -- not imported from `Props/C06.lean`, whose obligations depend on another extracted file)
  have hser : serial = (order.map (·.2)).map f := by
    have inv0 : MemoInv (fun k : K => k) f (fun _ => True) ([] : Memo K V) := by intro e he; cases he
    exact (run_spec (fun k : K => k) (fun a b => decide (a = b)) id f (fun _ => True) (fun _ _ he => he)
      (fun a b _ _ hab => by simp only [decide_eq_true_eq] at hab; rw [hab]) (order.map (·.2)) [] inv0 (fun _ _ => trivial)).1
  rw [houts, hser, List.map_map]
  have := zip_filter_map (fun e : Nat × K => f e.2) (fun e => e.1 == i) order
  simp only [Function.comp_def] at this ⊢
  rw [this, ← hord i p hp, List.map_map]
  rfl

/-- **The final cache is a function of the set of requested keys** (`functools.cache`, no eviction): after any
complete execution, under any schedule, looking up `k` finds `v` exactly when `k` was requested by some thread and
`f k = ok v`; failing keys are not stored; the dictionary has no duplicate keys. -/
theorem cache_final_content (comp : Comp K V) (f : K → Outcome V) (hdet : Deterministic comp f)
    (progs : List (List K)) (sched : List Nat) :
    let c := run comp id (init progs) sched
    c.finished = true →
      (∀ k v, c.cache.get k = some v ↔ (k ∈ progs.flatten ∧ f k = .ok v)) ∧ c.cache.keys.Nodup := by
  intro c hfin
  have h : Inv f progs c := cache_invariant comp f hdet id (fun _ _ he => he) progs sched
  have hc : Complete f c := complete_run hdet sched (inv_init f progs) (complete_init f progs)
  refine ⟨?_, hc.nodup⟩
  intro k v
  constructor
  · intro hg
    have hm := Store.get_some_mem _ _ _ hg
    exact ⟨h.req k v hm, h.sound k v hm⟩
  · intro ⟨hk, hv⟩
    obtain ⟨p, hp, hkp⟩ := List.mem_flatten.mp hk
    obtain ⟨i, hlt, rfl⟩ := List.mem_iff_getElem.mp hp
    have hlt' : i < c.threads.length := by rw [h.len]; exact hlt
    have hi : c.threads[i]? = some c.threads[i] := List.getElem?_eq_getElem hlt'
    have t := h.thr i _ hi
    have hd : c.threads[i].done = true := List.all_eq_true.mp hfin _ (List.getElem_mem hlt')
    simp only [Thread.done, List.isEmpty_iff] at hd
    have hprog := t.prog
    rw [hd, List.append_nil, List.getElem?_eq_getElem hlt] at hprog
    have : k ∈ c.threads[i].served := by rw [← Option.some.inj hprog]; exact hkp
    exact hc.stored i _ hi k this v hv

/-- **Schedule independence**: two complete executions of the same programs – e.g. a racing one and the serial one –
give every thread the same results and leave the same cache (as a finite map). -/
theorem cache_schedule_independent (comp : Comp K V) (f : K → Outcome V) (hdet : Deterministic comp f)
    (progs : List (List K)) (s1 s2 : List Nat) :
    let c1 := run comp id (init progs) s1
    let c2 := run comp id (init progs) s2
    c1.finished = true → c2.finished = true →
      c1.threads.map (·.outs) = c2.threads.map (·.outs) ∧ ∀ k, c1.cache.get k = c2.cache.get k := by
  intro c1 c2 h1 h2
  have r1 := cache_concurrent_serializable comp f hdet id (fun _ _ he => he) progs s1 h1
  have r2 := cache_concurrent_serializable comp f hdet id (fun _ _ he => he) progs s2 h2
  have f1 := (cache_final_content comp f hdet progs s1 h1).1
  have f2 := (cache_final_content comp f hdet progs s2 h2).1
  have l1 : c1.threads.length = progs.length := (cache_invariant comp f hdet id (fun _ _ he => he) progs s1).len
  have l2 : c2.threads.length = progs.length := (cache_invariant comp f hdet id (fun _ _ he => he) progs s2).len
  constructor
  · apply List.ext_getElem?
    intro i
    by_cases hi : i < progs.length
    · obtain ⟨t1, ht1, ho1⟩ := r1.1 i _ (List.getElem?_eq_getElem hi)
      obtain ⟨t2, ht2, ho2⟩ := r2.1 i _ (List.getElem?_eq_getElem hi)
      have ht1' : c1.threads[i]? = some t1 := ht1
      have ht2' : c2.threads[i]? = some t2 := ht2
      simp [List.getElem?_map, ht1', ht2', ho1, ho2]
    · have a : c1.threads.length ≤ i := by omega
      have b : c2.threads.length ≤ i := by omega
      simp [List.getElem?_map, List.getElem?_eq_none a, List.getElem?_eq_none b]
  · intro k
    cases hg : c1.cache.get k with
    | some v => exact ((f2 k v).mpr ((f1 k v).mp hg)).symm
    | none =>
      cases hg2 : c2.cache.get k with
      | none => rfl
      | some v => rw [(f1 k v).mpr ((f2 k v).mp hg2)] at hg; cases hg

/-! ### Progress -/

/-- **No call waits for another thread**: an unfinished execution always has an enabled thread – indeed every thread
that has calls left is enabled (the cache has no lock; no hypothesis on the cached function). -/
theorem cache_no_deadlock (comp : Comp K V) (trim : Store K V → Store K V) (c : Conf K V) (hfin : c.finished = false) :
    ∃ i, (stepThread comp trim c i).isSome = true := by
  obtain ⟨th, hm, hd⟩ := List.all_eq_false.mp hfin
  obtain ⟨i, hlt, rfl⟩ := List.mem_iff_getElem.mp hm
  refine ⟨i, enabled_of_prog (List.getElem?_eq_getElem hlt) ?_⟩
  intro he
  simp [Thread.done, he] at hd

/-- **Progress**: whatever has been scheduled so far, some continuation completes all programs (every step decreases
`Conf.measure`).  In particular the hypothesis `finished` of the theorems above is satisfiable for all programs. -/
theorem cache_can_finish (comp : Comp K V) (trim : Store K V → Store K V) (progs : List (List K)) (sched : List Nat) :
    ∃ ext, (run comp trim (init progs) (sched ++ ext)).finished = true := by
  generalize hn : (run comp trim (init progs) sched).measure = n
  induction n using Nat.strongRecOn generalizing sched with
  | _ n ih =>
    cases hfin : (run comp trim (init progs) sched).finished with
    | true => exact ⟨[], by simpa using hfin⟩
    | false =>
      obtain ⟨i, hi⟩ := cache_no_deadlock comp trim _ hfin
      cases hs : stepThread comp trim (run comp trim (init progs) sched) i with
      | none => simp [hs] at hi
      | some c' =>
        have hrun : run comp trim (init progs) (sched ++ [i]) = c' := by
          rw [run_append]
          show (stepThread comp trim (run comp trim (init progs) sched) i).getD _ = c'
          rw [hs]; rfl
        have hlt : c'.measure < n := by rw [← hn]; exact step_measure_lt i hs
        obtain ⟨ext, hext⟩ := ih c'.measure hlt (sched ++ [i]) (by rw [hrun])
        exact ⟨i :: ext, by simpa using hext⟩

end

/-! ### Witnesses (tests on instances, by evaluation) -/

/-- A deterministic function on keys `Nat`: key 7 raises, every other key `k` compiles to `100 + k`. -/
def wF : Nat → Outcome Nat := fun k => if k = 7 then .raised "ValueError" else .ok (100 + k)
def wComp : Comp Nat Nat := fun _ _ _ k => wF k

/-- **Two threads both miss and both compute** the same key (schedule A-lookup, B-lookup, A-compute, B-compute,
A-insert, B-insert): the wrapped function runs twice, both calls return the same value, one entry is stored. -/
theorem both_miss_both_compute :
    let c := run wComp id (init [[3], [3]]) [0, 1, 0, 1, 0, 1]
    c.finished = true ∧ c.computeCount 3 = 2 ∧ c.threads.map (·.outs) = [[.ok 103], [.ok 103]] ∧ c.cache = [(3, 103)] := by
  decide

/-- The same programs run serially: one computation, the second call is a hit – same results, same cache. -/
theorem serial_one_compute :
    let c := run wComp id (init [[3], [3]]) (serialSchedule [[3], [3]])
    c.finished = true ∧ c.computeCount 3 = 1 ∧ c.threads.map (·.outs) = [[.ok 103], [.ok 103]] ∧ c.cache = [(3, 103)] := by
  decide

/-- **The hypothesis `Deterministic` is needed**: with a function whose result depends on the calling thread, the
racing schedule gives the two threads different values and which of them stays in the cache depends on the schedule;
serially both calls get the first thread's value. -/
theorem nondeterministic_not_serializable :
    let comp : Comp Nat Nat := fun tid _ _ k => .ok (1000 * tid + k)
    let race1 := run comp id (init [[3], [3]]) [0, 1, 0, 1, 0, 1]
    let race2 := run comp id (init [[3], [3]]) [0, 1, 0, 1, 1, 0]
    let serial := run comp id (init [[3], [3]]) (serialSchedule [[3], [3]])
    race1.threads.map (·.outs) = [[.ok 3], [.ok 1003]] ∧ race1.cache = [(3, 1003)] ∧ race2.cache = [(3, 3)] ∧
      serial.threads.map (·.outs) = [[.ok 3], [.ok 3]] := by
  decide

/-! ### Non-vacuity -/

/-- The hypotheses of `cache_concurrent_serializable` / `cache_final_content` are met by a non-trivial instance: three
threads, shared and private keys, a failing key, a schedule with context switches inside calls that runs to
completion; two threads computed key 3; the failing key is not stored. -/
example :
    let progs : List (List Nat) := [[3, 7, 4], [3, 5], [7, 3]]
    let c := run wComp id (init progs) [0, 1, 0, 1, 2, 2, 0, 1, 2, 2, 0, 0, 1, 1, 1, 0, 0, 0, 2]
    Deterministic wComp wF ∧ c.finished = true ∧ c.computeCount 3 = 2 ∧ c.computeCount 7 = 2 ∧
      c.threads.map (·.outs) = progs.map (·.map wF) ∧ c.cache.get 7 = none ∧ c.cache.keys = [3, 5, 4] := by
  refine ⟨fun _ _ _ _ => rfl, ?_⟩
  decide

/-- `cache_results_eq_serial_memo`: a merge of the programs satisfying the hypothesis on `order`. -/
example :
    let progs : List (List Nat) := [[3, 7], [3, 5]]
    let order : List (Nat × Nat) := [(1, 3), (0, 3), (0, 7), (1, 5)]
    ∀ i p, progs[i]? = some p → (order.filter (fun e => e.1 == i)).map (·.2) = p := by
  intro progs order i p hp
  match i, hp with
  | 0, hp => simp [progs] at hp; subst hp; decide
  | 1, hp => simp [progs] at hp; subst hp; decide
  | n + 2, hp => simp [progs] at hp

end Einx.Cache.Conc
