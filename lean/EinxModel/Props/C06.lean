import EinxModel.Proofs.Cache
import EinxModel.Extracted.Cache
/-!
C06 — a call's outcome does not depend on earlier calls (cache transparency).

Property theorems only (helper lemmas live in `Proofs/Cache.lean`).  `Extracted/Cache.lean` is regenerated
from `/repo` on every run: the dispatch table of `_freeze_value`, the shape of `_freeze_args` / `lru_cache`,
and the `__exit__` methods behind the two context stacks.  Obligations over it are discharged by `decide`.
-/
namespace Einx.Cache
open Einx.Extracted

/-! ### Obligations regenerated from the source -/

/-- Every branch of `_freeze_value` is one the model interprets. -/
theorem extracted_table_known : freezeTable.known = true := by decide

/-- Containers (`ndarray`, `list`/`tuple`, `dict`, `SimpleNamespace`, `inspect.Parameter`) are rewritten as on the
pinned tree and strings, `None`, types, identity objects and tracer placeholders fall through. -/
theorem extracted_table_respects : freezeTable.respects = true := by decide

/-- `_freeze_args` freezes every value and is the outermost wrapper around `functools.cache`. -/
theorem extracted_freeze_args_outermost : freezeArgsOutermost = true := by decide

/-- `Use.__exit__` / `DependOn.__exit__` pop on every path and do not swallow exceptions; tracing runs inside
`with tracer.depend_on(...)`. -/
theorem extracted_stack_cfg_ok : stackCfg.ok = true := by decide

/-! ### The memo machine -/

section Memo
variable {C K F : Type} (key : C → K) (hit : K → K → Bool) (trim : Memo K F → Memo K F) (compute : C → Outcome F)

/-- **Cache transparency.** If calls with colliding keys have the same fresh outcome, then after *any* history
of calls (of any length, including failing ones, under any eviction policy that only drops entries) the
outcome of a call is the outcome of computing it afresh. -/
theorem memo_transparent
    (htrim : ∀ m e, e ∈ trim m → e ∈ m)
    (hcomp : ∀ a b, hit (key a) (key b) = true → compute a = compute b)
    (h : List C) (c : C) :
    (step key hit trim compute (after key hit trim compute [] h) c).2 = compute c := by
  have inv0 : MemoInv key compute (fun _ => True) ([] : Memo K F) := by intro e he; cases he
  have hr := run_spec key hit trim compute (fun _ => True) htrim (fun a b _ _ => hcomp a b) h [] inv0 (fun _ _ => trivial)
  exact (step_spec key hit trim compute (fun _ => True) htrim (fun a b _ _ => hcomp a b) _ hr.2 c trivial).1

/-- Relativised version: the hypothesis on colliding keys is only needed for the calls that actually occur, as
long as all of them satisfy `P`. -/
theorem memo_transparent_on (P : C → Prop)
    (htrim : ∀ m e, e ∈ trim m → e ∈ m)
    (hcomp : ∀ a b, P a → P b → hit (key a) (key b) = true → compute a = compute b)
    (h : List C) (c : C) (hall : ∀ x ∈ c :: h, P x) :
    (step key hit trim compute (after key hit trim compute [] h) c).2 = compute c := by
  have inv0 : MemoInv key compute P ([] : Memo K F) := by intro e he; cases he
  have hr := run_spec key hit trim compute P htrim hcomp h [] inv0 (fun x hx => hall x (List.mem_cons_of_mem _ hx))
  exact (step_spec key hit trim compute P htrim hcomp _ hr.2 c (hall c (List.mem_cons_self ..))).1

/-- Every outcome along a history is the fresh outcome of that call. -/
theorem memo_history_outcomes
    (htrim : ∀ m e, e ∈ trim m → e ∈ m)
    (hcomp : ∀ a b, hit (key a) (key b) = true → compute a = compute b)
    (h : List C) :
    (run key hit trim compute [] h).2 = h.map compute := by
  have inv0 : MemoInv key compute (fun _ => True) ([] : Memo K F) := by intro e he; cases he
  exact (run_spec key hit trim compute (fun _ => True) htrim (fun a b _ _ => hcomp a b) h [] inv0 (fun _ _ => trivial)).1

/-- A call that raised leaves the memo exactly as it found it (no hypothesis on `compute`). -/
theorem memo_error_not_stored (m : Memo K F) (c : C) (e : String)
    (h : (step key hit trim compute m c).2 = .raised e) :
    (step key hit trim compute m c).1 = m := by
  unfold step at h ⊢
  cases hf : m.find? (fun e => hit (key c) e.1) with
  | some x => rfl
  | none =>
    cases hc : compute c with
    | ok f => simp [hf, hc] at h
    | raised e' => rfl

/-- The same for a whole einx call (compile through the memo, then run the compiled function on the data):
its result after any history is `exec (compile c) data`. -/
theorem call_outcome_history_independent {D R : Type} (exec : F → D → R) (raisedR : String → R)
    (htrim : ∀ m e, e ∈ trim m → e ∈ m)
    (hcomp : ∀ a b, hit (key a) (key b) = true → compute a = compute b)
    (h : List C) (c : C) (d : D) :
    (callStep key hit trim compute exec raisedR (after key hit trim compute [] h) c d).2 =
      (match compute c with
        | .ok f => exec f d
        | .raised e => raisedR e) := by
  have := memo_transparent key hit trim compute htrim hcomp h c
  unfold callStep
  generalize step key hit trim compute (after key hit trim compute [] h) c = r at this
  obtain ⟨m', o⟩ := r
  simp only at this
  subst this
  cases compute c <;> rfl

end Memo

/-! ### The key refines the observation -/

/-- Value level: under a table that tags every scalar with its type, equal frozen values have equal typed
observations. -/
theorem frozen_eq_typed (T : Table) (hr : T.respects = true) (ht : T.tagsAll = true) (x y : PyVal)
    (h : pyEq (freeze T x) (freeze T y) = true) : typedEq (observe x) (observe y) = true := by
  have r := respects_of hr
  rw [freeze_factor T r (tagsAll_of ht) x, freeze_factor T r (tagsAll_of ht) y] at h
  exact tag_typed _ _ h

/-- **`key_refines_observation`.**  For every dispatch table that treats containers as the pinned one
(`respects`) and freezes every scalar together with its type (`tagsAll`) – both `decide`d on the extracted
table – two calls whose cache keys are `==` have the same typed observation: same `api` object, same
description, same tensor kinds and shapes, same backend object, same keyword names, and keyword values that
agree in structure, numeric class and value. -/
theorem key_refines_observation (T : Table) (hr : T.respects = true) (ht : T.tagsAll = true) (a b : Call)
    (h : pyEq (keyOf T a) (keyOf T b) = true) : typedEq (observeCall a) (observeCall b) = true := by
  simp only [keyOf, pyEq, pyEqList, Bool.and_true, Bool.and_eq_true, beq_iff_eq] at h
  obtain ⟨hop, _, hargs, _, hkw⟩ := h
  have h1 := frozen_eq_typed T hr ht _ _ hargs
  have h2 := frozen_eq_typed T hr ht _ _ hkw
  simp only [observe] at h1 h2
  simp [observeCall, keyOf, typedEq, typedEqList, hop, h1, h2]

/-- **Partial version for tables that do not tag scalars** (the pinned tree): the conclusion holds for calls all of
whose numbers (keyword values, other non-tensor arguments) belong to one numeric class `c` – e.g. axis sizes that
are all integers, which is the documented use. -/
theorem key_refines_observation_partial (T : Table) (hr : T.respects = true) (hn : T.tagsNone = true)
    (c : NumClass) (a b : Call)
    (ha : singleClass c (observeCall a) = true) (hb : singleClass c (observeCall b) = true)
    (h : pyEq (keyOf T a) (keyOf T b) = true) : typedEq (observeCall a) (observeCall b) = true := by
  have e : ∀ x, keyOf T x = observeCall x := by
    intro x; simp [observeCall, keyOf, freeze_untagged hr hn]
  rw [e a, e b] at h
  exact single_typed c _ _ ha hb h

/-- The two calls of D8: `einx.id("a b -> a b c", x, c=2)` and the same with `c=2.0`. -/
def d8a : Call := { op := 0, args := [.str "a b -> a b c", .tensor [2, 3]], kwargs := [("c", .num .pyInt ⟨2, 0⟩), ("backend", .obj 1)] }
def d8b : Call := { op := 0, args := [.str "a b -> a b c", .tensor [2, 3]], kwargs := [("c", .num .pyFloat ⟨2, 0⟩), ("backend", .obj 1)] }
/-- … and `c=1` vs `c=True`. -/
def d8c : Call := { op := 0, args := [.str "a b -> a b c", .tensor [2, 3]], kwargs := [("c", .num .pyInt ⟨1, 0⟩), ("backend", .obj 1)] }
def d8d : Call := { op := 0, args := [.str "a b -> a b c", .tensor [2, 3]], kwargs := [("c", .num .pyBool ⟨1, 0⟩), ("backend", .obj 1)] }

/-- **Refutation on the pinned table (D8).** Without tags the keys of `c=2` / `c=2.0` (and `c=1` / `c=True`) are
`==` although the observations differ: `key_refines_observation` is false for `pinnedTable`. -/
theorem key_refines_observation_refuted_pinned :
    (pyEq (keyOf pinnedTable d8a) (keyOf pinnedTable d8b) = true ∧ typedEq (observeCall d8a) (observeCall d8b) = false) ∧
    (pyEq (keyOf pinnedTable d8c) (keyOf pinnedTable d8d) = true ∧ typedEq (observeCall d8c) (observeCall d8d) = false) := by
  decide

/-- **Status of the tree being checked.** Either the extracted table tags every scalar, and then the key refines
the observation for all calls; or it is the D8 situation, witnessed on the extracted table itself. -/
theorem extracted_table_status :
    (freezeTable.tagsAll = true ∧ ∀ a b : Call, pyEq (keyOf freezeTable a) (keyOf freezeTable b) = true →
        typedEq (observeCall a) (observeCall b) = true) ∨
    (freezeTable.tagsNone = true ∧ pyEq (keyOf freezeTable d8a) (keyOf freezeTable d8b) = true ∧
        typedEq (observeCall d8a) (observeCall d8b) = false) := by
  first
  | exact Or.inl ⟨by decide, key_refines_observation freezeTable (by decide) (by decide)⟩
  | exact Or.inr (by decide)

/-- Container kinds are erased: a list, a tuple and an array with the same `tolist()` give the same key. -/
theorem freeze_erases_container_kind (T : Table) (hr : T.respects = true) (xs : List PyVal) (d : NumKind) :
    freeze T (.list xs) = freeze T (.tuple xs) ∧ freeze T (.ndarray d (.list xs)) = freeze T (.tuple xs) := by
  have r := respects_of hr
  simp [freeze, r.list, r.tuple, r.ndarray, finishSeq]

/-! ### End to end: the cache of `api.py` -/

/-- **If tracing depends only on the typed observation** (which is what `_to_tracer` establishes for tensor
arguments: shapes and kinds only) **and the table tags scalars, the compiled-function cache is transparent**:
after any history the outcome of `construct_graph_with_cache` is that of a fresh `_construct_graph`. -/
theorem einx_cache_transparent {F : Type} (T : Table) (hr : T.respects = true) (ht : T.tagsAll = true) (env : HashEnv)
    (compute : Call → Outcome F)
    (hobs : ∀ a b, typedEq (observeCall a) (observeCall b) = true → compute a = compute b)
    (h : List Call) (c : Call) :
    (step (keyOf T) (keyHit T env) id compute (after (keyOf T) (keyHit T env) id compute [] h) c).2 = compute c := by
  apply memo_transparent
  · intro m e he; exact he
  · intro a b hk
    simp only [keyHit, Bool.and_eq_true] at hk
    exact hobs a b (key_refines_observation T hr ht a b hk.2)

/-- **What holds on the pinned table**: the cache is transparent along every history in which all numbers that reach a
key belong to one numeric class (all keyword values integers, say). -/
theorem einx_cache_transparent_partial {F : Type} (T : Table) (hr : T.respects = true) (hn : T.tagsNone = true) (env : HashEnv)
    (c0 : NumClass) (compute : Call → Outcome F)
    (hobs : ∀ a b, typedEq (observeCall a) (observeCall b) = true → compute a = compute b)
    (h : List Call) (c : Call) (hall : ∀ x ∈ c :: h, singleClass c0 (observeCall x) = true) :
    (step (keyOf T) (keyHit T env) id compute (after (keyOf T) (keyHit T env) id compute [] h) c).2 = compute c := by
  apply memo_transparent_on (keyOf T) (keyHit T env) id compute (fun x => singleClass c0 (observeCall x) = true)
  · intro m e he; exact he
  · intro a b ha hb hk
    simp only [keyHit, Bool.and_eq_true] at hk
    exact hobs a b (key_refines_observation_partial T hr hn c0 a b ha hb hk.2)
  · exact hall

/-! ### The context stacks -/

/-- **`stack_restored`.** Whatever a program does with `with backend:` blocks and `with depend_on(...)` blocks –
nested in any way, with exceptions raised anywhere and caught or not – when it is done the `use_stack` and the
`_dependon` stack are exactly as before, and `registry.exit` never fails its assertion. -/
theorem stack_restored (cfg : StackCfg) (hc : cfg.ok = true) (p : Prog) (s : Stacks) :
    (exec cfg p s).1 = s ∧ (exec cfg p s).2 ≠ .corrupt :=
  exec_restores cfg hc p s

/-- … in particular for one einx call on the tree being checked, failing at trace time or at run time, inside any
nest of user `with` blocks. -/
theorem failing_call_restores_stacks (deps : List Nat) (traceRaises runRaises : Bool) (inner : Prog) (bs : List Nat) (s : Stacks) :
    (exec stackCfg (bs.foldr (fun b p => Prog.withBackend b p) (einxCall deps traceRaises runRaises inner)) s).1 = s :=
  (exec_restores stackCfg extracted_stack_cfg_ok _ s).1

/-! ### Non-vacuity -/

/-- The fixed table (a branch `isinstance(x, bool | int | float | np.generic) → (type(x), x)` before the
fall-through) satisfies the hypotheses of `key_refines_observation`, and separates the D8 calls. -/
example :
    let T : Table := { pinnedTable with rows := pinnedTable.rows ++ [⟨[.bool, .int, .float, .complex, .npGeneric], .tagType⟩] }
    T.respects = true ∧ T.tagsAll = true ∧ T.known = true ∧ pyEq (keyOf T d8a) (keyOf T d8b) = false ∧
      pyEq (keyOf T d8a) (keyOf T d8a) = true := by decide

/-- A fix that forgets numpy scalars is recognised as incomplete. -/
example :
    let T : Table := { pinnedTable with rows := pinnedTable.rows ++ [⟨[.bool, .int, .float], .tagType⟩] }
    T.tagsAll = false ∧ T.tagsNone = false := by decide

/-- The hypotheses of `key_refines_observation_partial` are met by a non-trivial pair: equal keys from a list and an
array of integers (`b=[2, 3]` vs `b=np.array([2, 3])`). -/
example :
    let a : Call := { op := 0, args := [.str "(a b)... -> a... b...", .tensor [4, 6]], kwargs := [("b", .list [.num .pyInt ⟨2, 0⟩, .num .pyInt ⟨3, 0⟩])] }
    let b : Call := { a with kwargs := [("b", .ndarray .npInt64 (.list [.num .pyInt ⟨2, 0⟩, .num .pyInt ⟨3, 0⟩]))] }
    pinnedTable.respects = true ∧ pinnedTable.tagsNone = true ∧ singleClass .integer (observeCall a) = true ∧
      singleClass .integer (observeCall b) = true ∧ pyEq (keyOf pinnedTable a) (keyOf pinnedTable b) = true := by decide

/-- The memo machine on a concrete history: a miss, a hit through an equal-but-not-identical key, a failing call
that is not stored and fails again. -/
example :
    let key : Nat → Nat := fun c => c % 10
    let compute : Nat → Outcome Nat := fun c => if c % 10 == 7 then .raised "ValueError" else .ok (c % 10 + 100)
    (run key (· == ·) id compute [] [3, 13, 7, 7, 3]).2 = [.ok 103, .ok 103, .raised "ValueError", .raised "ValueError", .ok 103] ∧
    (run key (· == ·) id compute [] [3, 13, 7, 7, 3]).1 = [(3, 103)] := by decide

/-- A `with` nest with a failing call in the middle, and what goes wrong if `__exit__` skipped the pop on exceptions. -/
example :
    let p := Prog.tryExcept (.withBackend 1 (.withBackend 2 (einxCall [7] true false (.prim false))))
    exec stackCfg p ⟨[], []⟩ = (⟨[], []⟩, .normal) ∧
    (exec { stackCfg with useExitUnconditional := false } p ⟨[], []⟩).1 = ⟨[1, 2], []⟩ := by decide

end Einx.Cache
