import EinxModel.Proofs.LowerEwDenote
import EinxModel.Proofs.LowerRed
import EinxModel.Props.C01
/-!
C01 (lowering algorithm, elementwise operations and reductions) — the decomposer's lowering of elementwise
operations and of reductions computes the loop-notation meaning, for **all** descriptions in the model's domain, any
number of operands and **all** axis lengths.

`Generic.lowerElementwise` (`Generic/LowerOps.lean`) is the line-by-line model of `Decomposer.__call__` around
`decomposednamedtensor_from_classical.elementwise` for the numpy backend: every input is decomposed
(`_decompose_single`: parenthesised groups are unflattened with reshapes), its unit axes are removed, it is
aligned with the output expression without broadcast axes by `_squeeze_transpose_broadcast(…,
broadcast_to_unitary=True)` (transpose, insert unit dimensions), the numpy function is called (once for the
operations of fixed arity; as a left fold of binary calls for the operations wrapped by
`_associative_binary_to_nary`), the output expression is chosen by `np.argmax` over the aligned axis lengths and
checked by `_ensure_output`, and the result is broadcast to the flat output and reshaped to the grouped output
(`_compose_next`); with the no-op tests of the numpy wrappers.  The model is tied to the real traced graphs on every
run (driver kind `lower_model`, stream `lower_model` of `tools/props/c17.py`).

Domain: every input and the output are arbitrary nestings of parenthesised groups over named axes (`Generic.G`);
any number of inputs ≥ 1 (the arity the numpy wrapper demands for the operation); any permutation; unit axes
anywhere; output axes that no input has (broadcast); inputs that lack output axes (numpy broadcasting).  Not in the
domain: concatenation, a repeated axis name inside one expression (the model rejects a repeated name in an input;
a repeated name in the output and inconsistent lengths are excluded by the decidable hypothesis `ewDomain` —
einx's solver never produces them), Python scalars as operands.

* `lower_elementwise_correct`     run on the symbolic inputs = `Denote.denoteElementwise` (operations of fixed
                                  arity) / `Denote.denoteElementwiseFold` (n-ary operations: the left fold of the
                                  binary function) of the corresponding stage-3 expressions
* `lower_elementwise_validates`   … equivalently: the validator of C01 accepts, for every such description
* `lower_elementwise_all_inputs`  … hence (by `validate_sound`) for all integer tensor contents and interpretations
* `ew_instance_holds`             the instance the driver recomputes on every traced call of the stream

Reductions: `Generic.lowerReduce` models `Decomposer.__call__` around `decomposednamedtensor_from_classical.reduce`
(one input whose bracketed axes are reduced, one output): the input is decomposed, its unit axes that are *not* in
brackets are removed, `np.f(x, axis=_expr_to_axis(expr))` is called once (never `keepdims`: einx expresses it in the
output expression), `_ensure_output` checks the static shape, the result is transposed / broadcast to the flat
output and reshaped to the grouped output.  Domain as above, plus: the output names no bracketed axis (`redDomain`);
the ten reductions that `classical_from_numpy.ops` wraps with `reduce(np.f)` (not `logsumexp`).

* `lower_reduce_correct`          run on the symbolic input (generic executor over `planInstrX`) = `Denote.denoteReduce`
* `lower_reduce_validates`        … the validator of C01 (`validateG planInstrX`) accepts, for every such description
* `lower_reduce_all_inputs`       … hence (by `validate_sound_extended`) for all integer tensor contents and interpretations
* `red_instance_holds`            the instance the driver recomputes on every traced reduction of the stream
-/
namespace Einx.Lower
open Einx Einx.IR Einx.Generic Einx.Denote

/-- **Correctness of the lowering algorithm for elementwise operations.**  For every operation name `f`, every list
of input expressions `ins` and output expression `go` (flat or grouped to any depth, unit axes, broadcast output
axes, operands that lack output axes, any permutation, any axis lengths) whose output names are pairwise different
and whose lengths are consistent: if the model of einx's decomposer returns a program `s.prog` with result register
`s.reg`, then

* the loop-notation denotation of the operation for the corresponding stage-3 expressions is defined
  (`ewExpected`: `denoteElementwise f`, i.e. `f` applied to the operands' elements, for the operations of fixed
  arity; `denoteElementwiseFold f`, the left fold of the binary `f`, for the operations that take any number of
  operands), and
* running the program on the symbolic inputs of shapes `ins.map gShape` succeeds and leaves in `s.reg` exactly the
  denotation: the same shape and, for every output position, the same application of `f` to input elements. -/
theorem lower_elementwise_correct (f : String) (ins : List (List G)) (go : List G) (s : St)
    (hd : ewDomain ins go = true) (h : lowerElementwise f ins go = .ok s) :
    ∃ T, ewExpected f ins go = .ok T ∧ T.shape = gShape go ∧
      symRun s.prog (ins.map gShape) [s.reg] = .ok [T] :=
  lower_ew_core hd h

/-- **The validator accepts the lowering of every elementwise description.** -/
theorem lower_elementwise_validates (f : String) (ins : List (List G)) (go : List G) (s : St)
    (hd : ewDomain ins go = true) (h : lowerElementwise f ins go = .ok s) :
    ∃ exp, ewExpected f ins go = .ok exp ∧
      validate s.prog (ins.map gShape) [s.reg] [exp] = true := by
  obtain ⟨T, hden, _, hrun⟩ := lower_elementwise_correct f ins go s hd h
  exact ⟨T, hden, by simp [validate, hrun, tensorsBeq_refl]⟩

/-- **For all tensor contents.**  By `validate_sound`: for all integer tensors `xs` of the input shapes, every
interpretation of the elementary function symbols and any value for out-of-range reads, the lowered program runs on
`xs` and its result register holds the loop-notation denotation evaluated on `xs`. -/
theorem lower_elementwise_all_inputs (f : String) (ins : List (List G)) (go : List G) (s : St)
    (hd : ewDomain ins go = true) (h : lowerElementwise f ins go = .ok s)
    (I : String → List Int → Int) (bad : Int) (xs : List (Tensor Int))
    (hx : xs.map (·.shape) = ins.map gShape) (hlen : ∀ x ∈ xs, x.data.length = prod x.shape) :
    ∃ T regs, ewExpected f ins go = .ok T ∧
      evalProg (intAlgOf I bad) s.prog xs = .ok regs ∧
      regs[s.reg]? = some (T.map (evalCell (intAlgOf I bad) xs)) := by
  obtain ⟨T, hden, hv⟩ := lower_elementwise_validates f ins go s hd h
  rw [← hx] at hv
  obtain ⟨regs, hev, hout'⟩ := validate_sound s.prog [s.reg] [T] I bad xs hlen hv
  exact ⟨T, regs, hden, hev, by simpa using hout'⟩

/-- The instance of the theorem that the driver computes on every traced elementwise call of the `lower_model`
stream (`Generic/LowerOpsDenote.lean`: `ewDomain`, `ewInstance`) is `true` whenever the hypotheses hold and the
lowering succeeds; the harness reports how many traced calls are in the domain. -/
theorem ew_instance_holds (f : String) (ins : List (List G)) (go : List G) (s : St) (hd : ewDomain ins go = true)
    (h : lowerElementwise f ins go = .ok s) : ewInstance f ins go = true := by
  obtain ⟨exp, hden, hv⟩ := lower_elementwise_validates f ins go s hd h
  simp only [ewInstance, h, hden, hv]

/-! ### Non-vacuity -/

/-- `a (b c), c a 1, b -> b a c d` with `a=2, b=2, c=3`, a unit axis, an operand that lacks `c` and a broadcast
axis `d=4`. -/
def ewIn : List (List G) :=
  [[.ax ⟨"a", 2⟩, .grp [.ax ⟨"b", 2⟩, .ax ⟨"c", 3⟩]], [.ax ⟨"c", 3⟩, .ax ⟨"a", 2⟩, .ax ⟨"u", 1⟩], [.ax ⟨"b", 2⟩]]
def ewOut : List G := [.ax ⟨"b", 2⟩, .ax ⟨"a", 2⟩, .ax ⟨"c", 3⟩, .ax ⟨"d", 4⟩]

/-- Primitive, operand registers and shape/permutation of every instruction (for comparing programs). -/
def instrCodeE : Instr → List Nat
  | .reshape x s => 0 :: x :: s
  | .transpose x p => 1 :: x :: p
  | .broadcastTo x s => 2 :: x :: s
  | .ewise _ args => 3 :: args.map (fun a => match a with | .reg r => r | .lit _ => 999)
  | _ => [9]

/-- The hypotheses hold and the lowering of the three-operand `add` succeeds with the ten-instruction program that
einx emits for `einx.add("a (b c), c a 1, b -> b a c d", x, y, z, d=4)`:
`reshape x (2,2,3); transpose (1,0,2); reshape y (3,2); transpose (1,0); reshape (1,2,3); add; reshape z (2,1,1); add;
reshape (2,2,3,1); broadcast_to (2,2,3,4)`; the validator accepts it against the denotation. -/
example :
    ewDomain ewIn ewOut = true ∧
    (match lowerElementwise "add" ewIn ewOut, ewExpected "add" ewIn ewOut with
      | .ok s, .ok exp =>
        s.prog.map instrCodeE == [[0, 0, 2, 2, 3], [1, 3, 1, 0, 2], [0, 1, 3, 2], [1, 5, 1, 0], [0, 6, 1, 2, 3], [3, 4, 7],
            [0, 2, 2, 1, 1], [3, 8, 9], [0, 10, 2, 2, 3, 1], [2, 11, 2, 2, 3, 4]]
          && s.reg == 12 && validate s.prog (ewIn.map gShape) [s.reg] [exp]
      | _, _ => false) = true := by
  decide +kernel

/-- The theorem applied to the example (a binary operation of fixed arity on the first two operands). -/
example : ∃ s exp, lowerElementwise "subtract" (ewIn.take 2) ewOut = .ok s ∧
    ewExpected "subtract" (ewIn.take 2) ewOut = .ok exp ∧
    validate s.prog ((ewIn.take 2).map gShape) [s.reg] [exp] = true := by
  have hok : (match lowerElementwise "subtract" (ewIn.take 2) ewOut with | .ok _ => true | .error _ => false) = true := by
    decide +kernel
  cases h : lowerElementwise "subtract" (ewIn.take 2) ewOut with
  | error e => simp [h] at hok
  | ok s =>
    obtain ⟨exp, hd, hv⟩ := lower_elementwise_validates "subtract" (ewIn.take 2) ewOut s (by decide +kernel) h
    exact ⟨s, exp, rfl, hd, hv⟩

/-- The arity check of the numpy wrapper is part of the model: `subtract` with three operands is rejected. -/
example : (match lowerElementwise "subtract" ewIn ewOut with | .ok _ => false | .error _ => true) = true := by
  decide +kernel

/-- The hypothesis is needed: with inconsistent lengths (`a=2` in the input, `a=3` in the output) the model emits
`broadcast_to`-free code whose result shape is not the output's, and the run fails. -/
example :
    ewDomain [[.ax ⟨"a", 2⟩]] [.ax ⟨"a", 3⟩] = false ∧
    (match lowerElementwise "exp" [[.ax ⟨"a", 2⟩]] [.ax ⟨"a", 3⟩] with
      | .ok s => (match symRun s.prog [[2]] [s.reg] with | .ok _ => false | .error _ => true)
      | .error _ => true) = true := by
  decide +kernel

/-! ### Reductions -/

/-- **Correctness of the lowering algorithm for reductions.**  For every numpy-wrapped reduction `f`, every input
expression `gi` whose axes named in `m` are in brackets and every output expression `go` (flat or grouped to any depth,
unit axes in or outside brackets, broadcast output axes, any permutation, any axis lengths) such that the output names
are pairwise different and not bracketed and the lengths are consistent: if the model of einx's decomposer returns the
program `l.prog` with result register `l.reg`, then

* the loop-notation denotation `denoteReduce f` of the corresponding stage-3 expressions is defined, and
* running the program on the symbolic input of shape `gShape gi` succeeds and leaves in `l.reg` exactly the
  denotation: the same shape and, for every output position, the canonical reduction cell over the same input
  elements. -/
theorem lower_reduce_correct (f : String) (m : List String) (gi go : List G) (l : LX)
    (hd : redDomain m gi go = true) (h : lowerReduce f m gi go = .ok l) :
    ∃ T, denoteReduce f (rootExprM m gi) (rootExpr go) = .ok T ∧ T.shape = gShape go ∧
      symRunG planInstrX l.prog [gShape gi] [l.reg] = .ok [T] :=
  lower_red_core hd h

/-- **The validator accepts the lowering of every reduction.** -/
theorem lower_reduce_validates (f : String) (m : List String) (gi go : List G) (l : LX)
    (hd : redDomain m gi go = true) (h : lowerReduce f m gi go = .ok l) :
    ∃ exp, denoteReduce f (rootExprM m gi) (rootExpr go) = .ok exp ∧
      validateG planInstrX l.prog [gShape gi] [l.reg] [exp] = true := by
  obtain ⟨T, hden, _, hrun⟩ := lower_reduce_correct f m gi go l hd h
  exact ⟨T, hden, by simp [validateG, hrun, tensorsBeq_refl]⟩

/-- **For all tensor contents.**  By `validate_sound_extended`: for every integer tensor `x` of the input shape, every
interpretation of the function symbols (in particular of `red:f`, applied to the canonical multiset of the reduced
elements) and any value for out-of-range reads, the lowered program runs on `x` and its result register holds the
loop-notation denotation evaluated on `x`. -/
theorem lower_reduce_all_inputs (f : String) (m : List String) (gi go : List G) (l : LX)
    (hd : redDomain m gi go = true) (h : lowerReduce f m gi go = .ok l)
    (I : String → List Int → Int) (bad : Int) (x : Tensor Int)
    (hx : x.shape = gShape gi) (hlen : x.data.length = prod x.shape) :
    ∃ T regs, denoteReduce f (rootExprM m gi) (rootExpr go) = .ok T ∧
      evalProgG planInstrX (intAlgOf I bad) l.prog [x] = .ok regs ∧
      regs[l.reg]? = some (T.map (evalCell (intAlgOf I bad) [x])) := by
  obtain ⟨T, hden, hv⟩ := lower_reduce_validates f m gi go l hd h
  have hv' : validateG planInstrX l.prog ([x].map (·.shape)) [l.reg] [T] = true := by simpa [hx] using hv
  obtain ⟨regs, hev, hout'⟩ := validate_sound_extended l.prog [l.reg] [T] I bad [x] (by simpa using hlen) hv'
  exact ⟨T, regs, hden, hev, by simpa using hout'⟩

/-- The instance of the theorem that the driver computes on every traced reduction of the `lower_model` stream. -/
theorem red_instance_holds (f : String) (m : List String) (gi go : List G) (l : LX) (hd : redDomain m gi go = true)
    (h : lowerReduce f m gi go = .ok l) : redInstance f m gi go = true := by
  obtain ⟨exp, hden, hv⟩ := lower_reduce_validates f m gi go l hd h
  simp only [redInstance, h, hden, hv]

/-- `a [b] (c [d]) 1 -> c a 1` with `a=2, b=3, c=2, d=2` (einx: `einx.sum("a [b] (c [d]) 1 -> c a 1", x, c=2)`). -/
def redIn : List G := [.ax ⟨"a", 2⟩, .ax ⟨"b", 3⟩, .grp [.ax ⟨"c", 2⟩, .ax ⟨"d", 2⟩], .ax ⟨"u", 1⟩]
def redOut : List G := [.ax ⟨"c", 2⟩, .ax ⟨"a", 2⟩, .ax ⟨"v", 1⟩]

def instrCodeX : InstrX → List Nat
  | .base i => instrCodeE i
  | .reduce _ x axes k => 4 :: x :: (if k then 1 else 0) :: axes
  | _ => [9]

/-- The hypotheses hold, the lowering succeeds with the program einx emits
(before optimisation: `reshape (2,3,2,2,1); reshape (2,3,2,2); sum axis=(1,3); transpose (1,0); reshape (2,2,1)`), the validator accepts it against the
denotation, and the denotation is a genuine reduction (its first cell is a `red:sum` of six input elements). -/
example :
    redDomain ["b", "d"] redIn redOut = true ∧
    (match lowerReduce "sum" ["b", "d"] redIn redOut, denoteReduce "sum" (rootExprM ["b", "d"] redIn) (rootExpr redOut) with
      | .ok l, .ok exp =>
        l.prog.map instrCodeX == [[0, 0, 2, 3, 2, 2, 1], [0, 1, 2, 3, 2, 2], [4, 2, 0, 1, 3], [1, 3, 1, 0], [0, 4, 2, 2, 1]]
          && l.reg == 5 && validateG planInstrX l.prog [gShape redIn] [l.reg] [exp]
          && (match exp.data.head? with
              | some (.app g args) => g == "red:sum" && args.length == 6
              | _ => false)
      | _, _ => false) = true := by
  decide +kernel

/-- The theorem applied to the example. -/
example : ∃ l exp, lowerReduce "max" ["b", "d"] redIn redOut = .ok l ∧
    denoteReduce "max" (rootExprM ["b", "d"] redIn) (rootExpr redOut) = .ok exp ∧
    validateG planInstrX l.prog [gShape redIn] [l.reg] [exp] = true := by
  have hok : (match lowerReduce "max" ["b", "d"] redIn redOut with | .ok _ => true | .error _ => false) = true := by
    decide +kernel
  cases h : lowerReduce "max" ["b", "d"] redIn redOut with
  | error e => simp [h] at hok
  | ok l =>
    obtain ⟨exp, hd, hv⟩ := lower_reduce_validates "max" ["b", "d"] redIn redOut l (by decide +kernel) h
    exact ⟨l, exp, rfl, hd, hv⟩

/-- `logsumexp` is not a numpy-wrapped reduction: the model declines. -/
example : (match lowerReduce "logsumexp" ["b"] redIn redOut with | .ok _ => false | .error _ => true) = true := by
  decide +kernel

end Einx.Lower
