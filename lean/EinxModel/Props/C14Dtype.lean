import EinxModel.Props.C14
import Mathlib.Tactic.Ring
/-!
C14 / C01 (work package "join") — the dtype of the index arithmetic of `_ravel`.

The models of `_ravel` (`Update.addrLowered`, `Extracted.ravelKernel`, the `multiply` / `add` instructions of
`AtLower.ravel`) compute over unbounded integers.  numpy computes every `np.multiply(coord, multiplier)` and `np.add`
in the dtype of its array operands (a Python `int` operand is weak: it does not widen the result), i.e. in

  * the dtype of the index ranges `classical.arange(axis.value, dtype=coord_dtype)` for the terms of the un-bracketed
    target axes — for every traced call the literal of `_ravel`'s `else: coord_dtype = …` branch
    (`Extracted.arangeDtype`, regenerated from the source on every run; the traced graphs are checked to carry
    exactly this dtype whatever the dtype of the coordinate arrays is: tie `at-arange-dtype`),
  * the dtype of the caller's coordinate arrays for the terms of the bracketed target axes (nothing in `_ravel`,
    `get_at_ravelled`, `update_at_ravelled` casts them: `Extracted.ravelCasts = []`).

`wrap bits` is two's-complement arithmetic with `bits` bits.  What the code must guarantee, as an explicit obligation
(`IndexDtypeOK`): the number of elements of the target is below `2^(bits-1)` for **both** dtypes.  Under it the wrapped
evaluation of the kernel is the row-major address (`index_arith_exact`, `extracted_kernel_exact`); the first half is
discharged for all targets with fewer than 2³¹ elements by `extracted_index_dtype_wide` (an obligation on the extracted
dtype: it fails when the index ranges are created in the coordinates' dtype or any narrower literal); the second half
is a precondition on the caller that einx does not check (`narrow_coordinate_dtype_wraps`: a `decide`d witness with
int8 coordinates, reproduced on the real code — see docs/wp/join.md (e)).
-/
namespace Einx.Update

/-- Two's-complement reduction of an integer to `bits` bits. -/
def wrap (bits : Nat) (x : Int) : Int :=
  (x + 2 ^ (bits - 1)) % 2 ^ bits - 2 ^ (bits - 1)

/-- Sum of the terms with every intermediate result reduced to `bits` bits (left fold, as `_associative_binary_to_nary`
applies `np.add`); each term is itself the reduced product. -/
def wrappedSum (bits : Nat) (terms : List Nat) : Int :=
  terms.foldl (fun acc t => wrap bits (acc + wrap bits (Int.ofNat t))) 0

/-- The obligation on the dtypes: the flat size of the target fits both the dtype of the index ranges and the dtype of
the coordinate arrays (signed, `bits` wide). -/
def IndexDtypeOK (arangeBits coordBits : Nat) (shape : List Nat) : Prop :=
  0 < arangeBits ∧ 0 < coordBits ∧ (prod shape : Int) < 2 ^ (arangeBits - 1) ∧ (prod shape : Int) < 2 ^ (coordBits - 1)

theorem wrap_id (bits : Nat) (hb : 0 < bits) (x : Int) (h0 : 0 ≤ x) (h1 : x < 2 ^ (bits - 1)) : wrap bits x = x := by
  unfold wrap
  have hp : (2 : Int) ^ bits = 2 * 2 ^ (bits - 1) := by
    have : bits = (bits - 1) + 1 := by omega
    rw [this, Int.pow_succ]; simp; ring
  have hpos : (0 : Int) < 2 ^ (bits - 1) := Int.pow_pos (by decide)
  rw [hp]
  generalize (2 : Int) ^ (bits - 1) = P at *
  rw [Int.emod_eq_of_lt (by omega) (by omega)]
  omega

theorem wrappedSum_aux (bits : Nat) (hb : 0 < bits) (terms : List Nat) (acc : Nat)
    (h : ((acc + terms.sum : Nat) : Int) < 2 ^ (bits - 1)) :
    terms.foldl (fun a t => wrap bits (a + wrap bits (Int.ofNat t))) (acc : Int) = ((acc + terms.sum : Nat) : Int) := by
  induction terms generalizing acc with
  | nil => simp
  | cons t ts ih =>
    simp only [List.foldl_cons, List.sum_cons] at h ⊢
    have ht : wrap bits (Int.ofNat t) = (t : Int) := by
      apply wrap_id bits hb
      · exact Int.natCast_nonneg t
      · have : ((t : Nat) : Int) ≤ ((acc + (t + ts.sum) : Nat) : Int) := by exact_mod_cast (by omega : t ≤ acc + (t + ts.sum))
        exact lt_of_le_of_lt this h
    have hat : wrap bits ((acc : Int) + (t : Int)) = ((acc + t : Nat) : Int) := by
      have e : (acc : Int) + (t : Int) = ((acc + t : Nat) : Int) := by push_cast; ring
      rw [e]
      apply wrap_id bits hb
      · exact Int.natCast_nonneg _
      · have : ((acc + t : Nat) : Int) ≤ ((acc + (t + ts.sum) : Nat) : Int) := by exact_mod_cast (by omega : acc + t ≤ acc + (t + ts.sum))
        exact lt_of_le_of_lt this h
    rw [ht, hat]
    have := ih (acc + t) (by rw [show acc + t + ts.sum = acc + (t + ts.sum) by omega]; exact h)
    rw [this]
    congr 1
    omega

/-- **No wrap-around below the bound**: if the unbounded sum of non-negative terms is below `2^(bits-1)`, reducing every
product and every partial sum to `bits` bits changes nothing. -/
theorem index_arith_exact (bits : Nat) (hb : 0 < bits) (terms : List Nat) (h : (terms.sum : Int) < 2 ^ (bits - 1)) :
    wrappedSum bits terms = (terms.sum : Int) := by
  have := wrappedSum_aux bits hb terms 0 (by simpa using h)
  simpa [wrappedSum] using this

/-- … hence the kernel translated from `_ravel`, evaluated in a dtype of `bits` bits, is the row-major address of every
valid index of a target whose flat size is below `2^(bits-1)`. -/
theorem extracted_kernel_exact (bits : Nat) (hb : 0 < bits) (shape idx : List Nat) (hv : Valid shape idx)
    (hfit : (prod shape : Int) < 2 ^ (bits - 1)) :
    wrappedSum bits (Einx.Extracted.ravelKernel idx shape) = (ravel shape idx : Int) := by
  obtain ⟨he, hlt⟩ := ravel_index_in_range shape idx hv
  rw [index_arith_exact bits hb _ (by rw [he]; exact lt_of_lt_of_le (by exact_mod_cast hlt) (le_of_lt hfit) |> fun h => h), he]

/-- The same under the explicit obligation, in the narrower of the two dtypes (numpy promotes the sum to the wider). -/
theorem index_dtype_obligation_suffices (ab cb : Nat) (shape idx : List Nat) (hv : Valid shape idx)
    (h : IndexDtypeOK ab cb shape) :
    wrappedSum ab (Einx.Extracted.ravelKernel idx shape) = (ravel shape idx : Int)
    ∧ wrappedSum cb (Einx.Extracted.ravelKernel idx shape) = (ravel shape idx : Int) :=
  ⟨extracted_kernel_exact ab h.1 shape idx hv h.2.2.1, extracted_kernel_exact cb h.2.1 shape idx hv h.2.2.2⟩

/-- **Obligation regenerated from the source**: the index ranges of `_ravel` are created in a fixed dtype of at least 32
bits (not in the coordinates' dtype), and nothing in `_ravel` / `get_at_ravelled` / `update_at_ravelled` changes a
dtype.  Fails when `coord_dtype`'s literal is narrowed or the ranges follow the coordinate arrays. -/
theorem extracted_index_dtype_wide :
    32 ≤ Einx.Extracted.arangeDtypeBits ∧ Einx.Extracted.ravelCasts = [] := by decide

/-- For every target with fewer than 2³¹ elements the half of the obligation that concerns the index ranges holds
with the extracted dtype. -/
theorem extracted_arange_fits (shape : List Nat) (h : (prod shape : Int) < 2 ^ 31) :
    0 < Einx.Extracted.arangeDtypeBits ∧ (prod shape : Int) < 2 ^ (Einx.Extracted.arangeDtypeBits - 1) := by
  have hw := extracted_index_dtype_wide.1
  refine ⟨by omega, lt_of_lt_of_le h ?_⟩
  have hn : (2 : Nat) ^ 31 ≤ 2 ^ (Einx.Extracted.arangeDtypeBits - 1) := Nat.pow_le_pow_right (by decide) (by omega)
  exact_mod_cast hn

/-- The other half is **not** guaranteed by the code: coordinates given as int8 for a 20×20 target, coordinates
(10, 5): every coordinate fits int8, the row-major address 205 does not; the product `10 * 20` wraps to `-56`
and the wrapped sum is `-51` (numpy then reads element `400 - 51 = 349`).  Witness of the finding reported in
docs/wp/join.md (e): `einx.get_at("[b c], p [2] -> p", x, int8 coordinates)`. -/
theorem narrow_coordinate_dtype_wraps :
    Einx.Extracted.ravelKernel [10, 5] [20, 20] = [200, 5] ∧ ravel [20, 20] [10, 5] = 205
    ∧ wrappedSum 8 (Einx.Extracted.ravelKernel [10, 5] [20, 20]) = -51
    ∧ ¬ IndexDtypeOK 32 8 [20, 20] := by
  refine ⟨by decide, by decide, by decide, ?_⟩
  intro h
  have := h.2.2.2
  simp [prod] at this

/-- Non-vacuity: the obligation is met by int32 ranges and int16 coordinates for a 100×100 target, and the conclusion
is the expected address. -/
example : IndexDtypeOK 32 16 [100, 100] ∧ Valid [100, 100] [99, 99]
    ∧ wrappedSum 16 (Einx.Extracted.ravelKernel [99, 99] [100, 100]) = 9999 := by
  refine ⟨⟨by decide, by decide, by simp [prod], by simp [prod]⟩, by decide, by decide⟩

/-- Non-vacuity of `index_arith_exact` at the boundary: 127 fits int8, 128 does not. -/
example : wrappedSum 8 [100, 27] = 127 ∧ wrappedSum 8 [100, 28] = -128 := by decide

end Einx.Update
