import EinxModel.Proofs.Order
import EinxModel.Proofs.OrderJoin
import EinxModel.Proofs.OrderCse
import EinxModel.Proofs.OrderReorder
import EinxModel.Order.Implicit
import EinxModel.Order.Sites
/-!
C16 — results are reproducible across processes, hash seeds and repeated calls.

Property theorems only.  Every place of einx where the enumeration order of a Python `set` (which depends on
`PYTHONHASHSEED`) or a random draw (`uuid4`, `id()`) could reach the result is listed in
`Extracted/Sets.lean`, regenerated from `/repo` on every run; the obligations `extracted_sites_all_classified`,
`extracted_draws_all_classified` and `extracted_valid_parents_pop_guarded` are re-checked against what the source says
now.  For every order-sensitive site the function is modelled with the enumeration as an explicit argument and the
observable result is proved independent of it – or the precise hypothesis under which it is, with a witness that the
hypothesis cannot be dropped (`set_duplicates_order_sensitive`, `cse_overlap_order_sensitive`: both are reproduced on the
real code by `tools/props/c16.py`).

Remark (`graph_text_deterministic`): the text returned for `graph=True` is the value of `compile`, a function of the traced
graph (C04 models it as a Lean function); within one process two requests for the same call go through the same cache
entry.  Nothing to prove beyond functionality; the harness compares the two texts.

Not modelled (the property is "partial" here): sympy's internal orderings inside `solver.solve`, numpy's floating-point
summation order.
-/
namespace Einx.Order
open Einx.Extracted.Sets

/-! ### T-src: the inventory of order- and randomness-revealing sites -/

/-- Obligation regenerated from the source: every place where a set is iterated, listed, popped, joined or handed on is
order-safe by construction, only feeds an error message, pops a set just checked to be a singleton, or is one of the
`modelledSites`.  A new or changed order-revealing site breaks this. -/
theorem extracted_sites_all_classified : setSites.all SetSite.discharged = true := by decide +kernel

/-- Obligation regenerated from the source: every `uuid4()` / `id()` / `hash()` value is used only as (part of) a name
or as an identity key. -/
theorem extracted_draws_all_classified : drawSites.all DrawSite.discharged = true := by decide +kernel

/-- Obligation regenerated from the source: `_parse_op` checks `len(valid_parents) != 1` before `valid_parents.pop()`. -/
theorem extracted_valid_parents_pop_guarded : validParentsPopGuarded = true := by decide

/-- Obligation regenerated from the source: the modules named by the property were found, parsed and scanned. -/
theorem extracted_scan_covers_call_path :
    ∀ f ∈ ["einx/_src/namedtensor/stage2/cse.py", "einx/_src/adapter/decomposednamedtensor_from_classical.py",
           "einx/_src/adapter/einx_from_namedtensor.py", "einx/_src/util/solver.py", "einx/_src/frontend/backend.py",
           "einx/_src/namedtensor/stage1/parse.py", "einx/_src/namedtensor/stage3/tree.py", "einx/_src/namedtensor/solve.py",
           "einx/_src/frontend/api.py", "einx/_src/tracer/compiler/python/__init__.py"],
      scannedFiles.contains f = true := by decide +kernel

/-! ### Generic facts used for several sites -/

/-- `set.pop()` / `next(iter(s))` on a one-element set: every enumeration yields that element. -/
theorem singleton_pop_order_invariant {α : Type} (s l₁ l₂ : List α) (hs : s.length = 1)
    (h₁ : l₁.Perm s) (h₂ : l₂.Perm s) : l₁.head? = l₂.head? ∧ ∃ a, l₁.head? = some a ∧ s = [a] := by
  match s, hs with
  | [a], _ =>
    rw [List.perm_singleton.1 h₁, List.perm_singleton.1 h₂]
    exact ⟨rfl, a, rfl, rfl⟩

/-- A loop that raises as soon as it meets an offending element raises for one enumeration iff it raises for any
other (which element is reported – the message, the caret – may differ). -/
theorem raise_on_any_order_invariant {α : Type} (p : α → Bool) {l₁ l₂ : List α} (h : l₁.Perm l₂) :
    (l₁.find? p).isSome = (l₂.find? p).isSome := by
  apply Bool.eq_iff_iff.2
  simp only [List.find?_isSome]
  exact ⟨fun ⟨x, hx, px⟩ => ⟨x, h.mem_iff.1 hx, px⟩, fun ⟨x, hx, px⟩ => ⟨x, h.mem_iff.2 hx, px⟩⟩

/-- `for l in literals: if text.startswith(l): …; break`: when at most one element matches, the first match does not
depend on the order (the lexer's literal table: `Einx.Notation.literals_prefix_free`, C12). -/
theorem first_match_order_invariant {α : Type} (p : α → Bool) {l₁ l₂ : List α} (h : l₁.Perm l₂)
    (huniq : ∀ a ∈ l₁, ∀ b ∈ l₁, p a = true → p b = true → a = b) : l₁.find? p = l₂.find? p :=
  Cse.find?_perm_of_unique p h huniq

/-- A loop whose body commutes with itself (`classes[t] = s; s.add(t)`, `d[k] = v` for distinct keys, `acc.add(x)`)
computes the same state for every enumeration. -/
theorem comm_fold_order_invariant {α β : Type} (f : β → α → β) (hc : ∀ b x y, f (f b x) y = f (f b y) x)
    {l₁ l₂ : List α} (h : l₁.Perm l₂) (b : β) : l₁.foldl f b = l₂.foldl f b :=
  foldl_perm_comm f hc h b

/-- `equations = list(set(equations))`: whether an assignment solves the system depends only on which equations are
members, not on their order or multiplicity – so a *unique* solution is the same for every enumeration.  (How sympy
searches for it is not modelled.) -/
theorem solver_spec_order_invariant {Eqn Asg : Type} (sat : Eqn → Asg → Prop) (l₁ l₂ : List Eqn)
    (h : ∀ e, e ∈ l₁ ↔ e ∈ l₂) (σ : Asg) : (∀ e ∈ l₁, sat e σ) ↔ (∀ e ∈ l₂, sat e σ) :=
  ⟨fun H e he => H e ((h e).2 he), fun H e he => H e ((h e).1 he)⟩

/-! ### (a) `_join_exprs` -/

open Join in
/-- **`_join_exprs` returns the same axes with the same lengths for every enumeration order of the set in `take_one`**:
it never fails, the joined names are exactly the names of the axes with `value != 1`, each once; two enumerations can
only differ in the order of the axes. -/
theorem join_exprs_order_invariant (enum₁ enum₂ : List String → List String) (h₁ : EnumOK enum₁) (h₂ : EnumOK enum₂)
    (exprs : List (List Ax)) :
    ∃ r₁ r₂, joinExprs enum₁ exprs = some r₁ ∧ joinExprs enum₂ exprs = some r₂ ∧ r₁.Perm r₂ ∧
      (r₁.map (·.1)).Nodup ∧ ∀ x, x ∈ r₁.map (·.1) ↔ x ∈ (nonUnit exprs).flatten := by
  obtain ⟨n₁, hn₁, hnd₁, hm₁⟩ := joinNames_spec enum₁ h₁ exprs
  obtain ⟨n₂, hn₂, hnd₂, hm₂⟩ := joinNames_spec enum₂ h₂ exprs
  let g : String → Ax := fun n => (n, (valueOf exprs n).getD 0)
  have hval : ∀ (ns : List String), (∀ x ∈ ns, x ∈ (nonUnit exprs).flatten) →
      allSome (ns.map (fun n => (valueOf exprs n).map (fun v => (n, v)))) = some (ns.map g) := by
    intro ns hns
    apply allSome_map
    intro x hx
    obtain ⟨a, ha, hax, _⟩ := mem_nonUnit_flatten (hns x hx)
    obtain ⟨v, hv⟩ := valueOf_isSome ⟨a, ha, hax⟩
    simp [g, hv]
  have hperm : n₁.Perm n₂ := (List.perm_ext_iff_of_nodup hnd₁ hnd₂).2 (fun x => by rw [hm₁, hm₂])
  refine ⟨n₁.map g, n₂.map g, ?_, ?_, hperm.map g, ?_, ?_⟩
  · simp only [joinExprs, hn₁]; exact hval n₁ (fun x hx => (hm₁ x).1 hx)
  · simp only [joinExprs, hn₂]; exact hval n₂ (fun x hx => (hm₂ x).1 hx)
  · simpa [g, List.map_map, Function.comp_def] using hnd₁
  · intro x; simpa [g, List.map_map, Function.comp_def] using hm₁ x

open Einx.Update in
/-- Downstream of `_join_exprs` every operand is aligned to the joined expression by axis *name*; a different
enumeration therefore is the same solved update with its iteration axes listed in a different order (`reorder p`).
**`add_at` / `subtract_at` do not depend on that order** (for all targets, coordinates and updates). -/
theorem reorder_add_sub_invariant (m : Mode) (hm : m = .add ∨ m = .sub) (op op' : Op) (p : List Nat) (t : List Int)
    (hp : p.Perm (List.range op.axes.length)) (h : reorder p op = some op') : denote m op' t = denote m op t :=
  reorder_denote_add_sub m hm op op' p t hp h

open Einx.Update in
/-- **`set_at` does not depend on the order when no two assignments write the same element.**  (With duplicate
addresses the value that survives is the last one in iteration order: `set_duplicates_order_sensitive`.) -/
theorem reorder_set_invariant_partial (op op' : Op) (p : List Nat) (t : List Int)
    (hp : p.Perm (List.range op.axes.length)) (h : reorder p op = some op') (hd : distinctAddresses op = true) :
    denote .set op' t = denote .set op t :=
  reorder_denote_set op op' p t hp h hd

open Einx.Update in
/-- The hypothesis of `reorder_set_invariant_partial` cannot be dropped: `set_at("[h], p q, q p -> [h]", zeros(4),
[[1,0],[0,2]], [[10,20],[30,40]])` gives `[20,10,40,0]` with the axes joined as `p q` and `[30,10,40,0]` joined as `q p`
(both happen on the real code, depending on `PYTHONHASHSEED`: finding D16). -/
theorem set_duplicates_order_sensitive :
    let op : Op := { axes := [2, 2], tdims := [.idx 4], coords := [⟨[.ax 0, .ax 1], [1, 0, 0, 2]⟩],
                     udims := [1, 0], udata := [10, 20, 30, 40] }
    ∃ op', reorder [1, 0] op = some op' ∧ distinctAddresses op = false ∧
      denote .set op [0, 0, 0, 0] = some [20, 10, 40, 0] ∧ denote .set op' [0, 0, 0, 0] = some [30, 10, 40, 0] := by
  exact ⟨_, rfl, by decide, by decide, by decide⟩

/-! ### (b) the implicit output of elementwise operations -/

open Implicit in
/-- With the length check in place (`extracted_valid_parents_pop_guarded`), the implicitly chosen output expression does
not depend on how the set `valid_parents` enumerates its members. -/
theorem implicit_output_order_invariant {α : Type} [BEq α] (enum₁ enum₂ : List α → List α)
    (h₁ : ∀ l, (enum₁ l).Perm l) (h₂ : ∀ l, (enum₂ l).Perm l) (exprs : List α) (names : List (List String)) :
    implicitOutput validParentsPopGuarded enum₁ exprs names = implicitOutput validParentsPopGuarded enum₂ exprs names := by
  rw [extracted_valid_parents_pop_guarded]
  simp only [implicitOutput, Bool.true_and]
  split
  · rfl
  · rename_i hlen
    have hl : (validParents exprs names).length = 1 := by simpa using hlen
    exact (singleton_pop_order_invariant _ _ _ hl (h₁ _) (h₂ _)).1

open Implicit in
/-- Without the check the choice would depend on the enumeration (two inputs with the same axis names in different
order are both valid parents). -/
theorem implicit_output_unguarded_order_sensitive :
    implicitOutput false id ["a b", "b a"] [["a", "b"], ["b", "a"]]
      ≠ implicitOutput false List.reverse ["a b", "b a"] [["a", "b"], ["b", "a"]] := by decide

/-! ### (c) common-subexpression elimination -/

open Cse in
/-- Every filter between the set enumeration and `replace` maps re-enumerated candidates to re-enumerated candidates:
`[c for c in common_exprs if P c]` and the filter that compares a candidate with all others. -/
theorem cse_filters_order_invariant {α : Type} [BEq α] (ps : List (α → Bool)) (r : α → α → Bool) {c₁ c₂ : List α}
    (h : c₁.Perm c₂) :
    (filterAgainst r (ps.foldl (fun c p => filterEach p c) c₁)).Perm (filterAgainst r (ps.foldl (fun c p => filterEach p c) c₂)) := by
  apply filterAgainst_perm
  induction ps generalizing c₁ c₂ with
  | nil => exact h
  | cons p ps ih => exact ih (filterEach_perm p h)

open Cse in
/-- **The expressions after CSE are the same for every enumeration order of `common_exprs`, up to the numbering of the
`cse.<n>` names** – provided no exprlist of a candidate is a prefix of an exprlist of another candidate
(`nonOverlapping`, decidable).  The renumbering is a bijection of the candidate indices. -/
theorem cse_order_invariant_partial (c₁ c₂ : List Cand) (hp : c₁.Perm c₂) (hnd : c₁.Nodup)
    (hno : nonOverlapping c₁ = true) (roots : List Tree) :
    roots.map (replace c₂) = roots.map (fun t => (replace c₁ t).map (Tok.map (renumber c₁ c₂))) ∧
    (∀ i, i < c₁.length → renumber c₁ c₂ i < c₂.length) ∧
    (∀ i j, i < c₁.length → j < c₁.length → renumber c₁ c₂ i = renumber c₁ c₂ j → i = j) :=
  ⟨List.map_congr_left (fun t _ => replace_perm c₁ c₂ hp hnd hno t), fun i hi => renumber_lt c₁ c₂ hp i hi,
   fun i j hi hj h => renumber_injective c₁ c₂ hp hnd i j hi hj h⟩

open Cse in
/-- The hypothesis cannot be dropped: for `(a b c)` with the candidates `a b` and `a b c` (both start at the same
position) one enumeration substitutes `(cse.0 c)`, the other `(cse.0)`; no renumbering relates them.  On the real code:
`einx.add("(a b c d), (a b c e) -> (a b c d e)", x, y, d=3, e=2)` succeeds or raises `AxisSizeError` depending on
`PYTHONHASHSEED` (finding D17). -/
theorem cse_overlap_order_sensitive :
    let root : Tree := .flat 1 (.list 2 [.axis 3 "a" none, .axis 4 "b" none, .axis 5 "c" none])
    let d₁ : List Cand := [[[3, 4]], [[3, 4, 5]]]
    nonOverlapping d₁ = false ∧ d₁.Perm d₁.reverse ∧
      replace d₁ root = [.lpar, .cse 0 none, .ax "c" none, .rpar] ∧ replace d₁.reverse root = [.lpar, .cse 0 none, .rpar] :=
  ⟨by decide, (List.reverse_perm _).symm, by decide, by decide⟩

/-! ### (d) the registry's candidate set -/

open Einx.Registry in
/-- "Keep only backends with highest priority" commutes with any re-enumeration of the candidate set. -/
theorem keepMax_perm {l₁ l₂ : List Backend} (h : l₁.Perm l₂) : (keepMax l₁).Perm (keepMax l₂) := by
  simp only [keepMax, h.length_eq, maxPriority_perm h]
  split
  · exact h.filter _
  · exact h

open Einx.Registry in
/-- Hence the outcome of the lookup – exactly one backend (which one), none, or several (which set) – is the same. -/
theorem registry_outcome_perm {l₁ l₂ : List Backend} (h : l₁.Perm l₂) :
    (∀ b, keepMax l₁ = [b] ↔ keepMax l₂ = [b]) ∧ (keepMax l₁ = [] ↔ keepMax l₂ = []) ∧
    (keepMax l₁).length = (keepMax l₂).length ∧ ∀ b, b ∈ keepMax l₁ ↔ b ∈ keepMax l₂ := by
  have hk := keepMax_perm h
  refine ⟨fun b => ⟨fun e => ?_, fun e => ?_⟩, ⟨fun e => ?_, fun e => ?_⟩, hk.length_eq, fun b => hk.mem_iff⟩
  · rw [e] at hk; exact List.perm_singleton.1 hk.symm
  · rw [e] at hk; exact List.perm_singleton.1 hk
  · rw [e] at hk; exact hk.symm.eq_nil
  · rw [e] at hk; exact hk.eq_nil

/-! ### (e) fresh names -/

open Einx.Denote Fresh in
/-- **Positions do not depend on the names**: renaming the leaves of a dimension and the keys of the assignment by a map
that is injective on the names in use (what a different `uuid4` draw does to `unnamed.*` axes) leaves the position
unchanged. -/
theorem pos_rename (ρ : String → String) (σ : Assign) (d : Dim) (h : InjOn ρ (dimNames d ++ σ.map (·.1))) :
    (renameDim ρ d).pos (renameAssign ρ σ) = d.pos σ := pos_rename_aux ρ σ d h

open Einx.Denote Fresh in
/-- … for a whole view, together with its shape: the symbolic denotation reads the same input element for the same
output element whatever the fresh names are. -/
theorem fresh_name_invariant (ρ : String → String) (σ : Assign) (view : List Dim)
    (h : InjOn ρ (dimsNames view ++ σ.map (·.1))) :
    position (renameDims ρ view) (renameAssign ρ σ) = position view σ ∧ viewShape (renameDims ρ view) = viewShape view := by
  induction view with
  | nil => exact ⟨rfl, rfl⟩
  | cons d ds ih =>
    have hd : InjOn ρ (dimNames d ++ σ.map (·.1)) := injOn_mono h (by
      intro x hx; simp only [dimsNames, List.mem_append] at hx ⊢; rcases hx with hx | hx <;> simp [hx])
    have hds : InjOn ρ (dimsNames ds ++ σ.map (·.1)) := injOn_mono h (by
      intro x hx; simp only [dimsNames, List.mem_append] at hx ⊢; rcases hx with hx | hx <;> simp [hx])
    obtain ⟨ih1, ih2⟩ := ih hds
    simp only [position, viewShape] at ih1 ih2 ⊢
    simp only [renameDims, List.mapM_cons, List.map_cons, pos_rename ρ σ d hd, size_rename ρ d, ih1, ih2]
    exact ⟨trivial, trivial⟩

/-! ### Non-vacuity -/

/-- `_join_exprs` on `p q`, `q p` (tie between `p` and `q`): two admissible enumerations give two different orders of
the same two axes. -/
example :
    Join.joinExprs Join.enumFirst [[("p", 2), ("q", 2)], [("q", 2), ("p", 2)], []] = some [("p", 2), ("q", 2)] ∧
    Join.joinExprs Join.enumLast [[("p", 2), ("q", 2)], [("q", 2), ("p", 2)], []] = some [("q", 2), ("p", 2)] := by
  decide

/-- … and the enumerations used above are admissible. -/
example : Join.EnumOK Join.enumFirst ∧ Join.EnumOK Join.enumLast ∧ ∀ prio, Join.EnumOK (Join.enumBy prio) :=
  ⟨Join.enumFirst_ok, Join.enumLast_ok, Join.enumBy_ok⟩

/-- The implicit output is chosen (not vacuously `none`): `a b, b` ↦ `a b`. -/
example : Implicit.implicitOutput true id ["a b", "b"] [["a", "b"], ["b"]] = some "a b" := by decide

/-- Two equal-priority candidates in two orders: the kept lists differ as lists and agree as sets. -/
example :
    let a : Einx.Registry.Backend := { uid := 1, name := "x", priority := 0, accepts := [], invalid := false }
    let b : Einx.Registry.Backend := { uid := 2, name := "y", priority := 0, accepts := [], invalid := false }
    Einx.Registry.keepMax [a, b] ≠ Einx.Registry.keepMax [b, a] ∧ [a, b].Perm [b, a] := by
  exact ⟨by decide, List.Perm.swap _ _ _⟩

/-- A renaming that is injective on the names in use but not globally: the position is unchanged. -/
example :
    let d : Einx.Denote.Dim := .flat [.axis ⟨"a", 2, false⟩, .axis ⟨"unnamed.1", 3, false⟩]
    let ρ : String → String := fun n => if n == "unnamed.1" then "unnamed.7" else if n == "zzz" then "a" else n
    (Fresh.renameDim ρ d).pos (Fresh.renameAssign ρ [("a", 1), ("unnamed.1", 2)]) = some 5 ∧ d.pos [("a", 1), ("unnamed.1", 2)] = some 5 := by
  decide

end Einx.Order
