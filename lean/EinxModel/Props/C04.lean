import EinxModel.Proofs.Compile
import EinxModel.Proofs.CompileCorrect
import EinxModel.Proofs.CompileOrder
import EinxModel.Proofs.CompileClosed
import EinxModel.Proofs.FuseCompile
import EinxModel.Extracted.Compile
/-!
C04 — generated source is a faithful, self-contained compilation of the traced graph.

Property theorems only (helper lemmas live in `Proofs/Compile.lean`).  The model (`Compile/{Syntax,Graph,Gen}.lean`)
is the one the driver executes (kind `compile`); `Extracted.compile*` is regenerated from `/repo` on every run.

* `emit_order`, `emit_once`      – statements appear in traversal order; every application that is a call of an opaque
                                    callable, an in-place call, an item update, an assert or an import yields exactly one.
* `fuse_sound`                    – sharing names between variables under the interference condition `fuseSafe`
                                    (computed by the driver for every compiled graph) preserves trace and result.
* `value_computed_once_*`         – obligation over the extracted usage switches (D6) with a decided witness.
* `compile_correct_wf`            – universal: for every `Graph.WF` graph (decidable) on which `compile` succeeds, executing the
                                    emitted statements = `evalGraph` (event trace and result); nested graphs and in-place nodes
                                    included; no per-graph premise.  `_wf_fused`: lifted through the generator's name groups under
                                    `fuseSafe`.
* `fuse_text_safe`, `fuse_text_sound` – the same in text order, block by block (`fuseSafe` and `entrySafe` of every block's text:
                                    the driver's verdict `fuse_safe`), and its consequence for the execution of a block.
* `fuse_produces_safe`            – the name groups computed by the generator's `fuse` loop (with both filters, as extracted) are
                                    `fuseSafe` on the emitted program, for every `Graph.WF` graph on which `compile` succeeds;
                                    `compile_correct_wf_fused_total` / `compile_correct_extracted`: the fused statement without
                                    per-graph premise.  Helper lemmas: `Proofs/Fuse{Safe,Loop,All,Emit,Scope,Text,Compile}.lean`.
* `compile_correct`               – the simulation for every context and traversal, under `matched` and `liveIn program = []`
                                    (also the terms of all cached values); `_flat`: no premise without nested graphs; `_compiled`:
                                    for `compile`; `_fused`: through any `fuseSafe` renaming (`fuse_sound`).
* `emit_closed`, `compile_closed` – `liveIn program = []` from `noSelfRef` / from `Graph.WF`.
* `visitOrder_wellBracketed`, `visitOrder_noSelfRef`, `visitOrder_nodup`, `emit_once_wf` – the traversal premises (`matched`,
                                    `noSelfRef`, `Nodup`) hold for every graph / every `Graph.WF` graph.
  Helper lemmas: `Proofs/CompileCorrect.lean`, `Proofs/CompileOrder.lean`, `Proofs/CompileClosed.lean`.
-/
namespace Einx.Compile

/-! ### Obligations regenerated from the source -/

/-- The allow-list of builtins whose calls may be inlined is the modelled one. -/
theorem extracted_allow_inline : Einx.Extracted.compileAllowInline = allowInlineFunctions := by decide

/-- The `fuse` loop excludes input variables that are used in a later statement or in another block. -/
theorem extracted_fuse_filters : Einx.Extracted.compileFCfg.checkLater = true ∧ Einx.Extracted.compileFCfg.checkBlock = true := by decide

/-- **Obligation for "every value is computed once"**: the usage counter is incremented for every use (before the
visited check), uses of an alias count for the aliased value, and aliases stay inlined.  On a tree where
`get_usages` returns before counting, this fails (D6); `d6_witness` below is the replay witness. -/
theorem value_computed_once_obligation :
    Einx.Extracted.compileUCfg.countFirst = true ∧ Einx.Extracted.compileUCfg.outputsRecursed = false ∧
    Einx.Extracted.compileUCfg.aliasForward = true ∧ Einx.Extracted.compileUCfg.forceInlineWins = true := by decide

/-- **Obligation for "the text contains the compiled object"**: `compile` binds a result that is an expression
(a graph collapsed to the function it calls) to a name.  Fails on a tree where the text of such a graph is only its
imports (D7). -/
theorem self_contained_obligation : Einx.Extracted.compileFCfg.bindResult = true := by decide

/-- **Obligation for "the text is executable"**: the generator of fresh variable names refuses every lowercase Python
keyword and every name that a variable carries as a hint (`np`, `op`, `const1`, …).  On a tree without the filter the
45th generated name is `as` and the text of any operation with 45 variables does not compile (found while proving
`fuse_produces_safe`; fixed in /repo). -/
theorem extracted_names_filtered :
    Einx.Extracted.compileFCfg.skipReserved = true ∧
    ∀ k ∈ ["and", "as", "assert", "async", "await", "break", "class", "continue", "def", "del", "elif", "else", "except", "finally",
           "for", "from", "global", "if", "import", "in", "is", "lambda", "nonlocal", "not", "or", "pass", "raise", "return", "try",
           "while", "with", "yield"], k ∈ Einx.Extracted.compileFCfg.nameKeywords := by decide

/-- `next(names)` never yields a refused word, and the generator advances. -/
theorem nextName_not_refused (bad : List String) (fuel i : Nat) (s : String) (j : Nat)
    (h : nextName bad fuel i = some (s, j)) : bad.contains s = false ∧ i < j := by
  induction fuel generalizing i with
  | zero => simp [nextName] at h
  | succ fuel ih =>
    unfold nextName at h
    split at h
    · have := ih (i + 1) h
      exact ⟨this.1, by omega⟩
    · rename_i hb
      simp only [Option.some.injEq, Prod.mk.injEq] at h
      obtain ⟨rfl, rfl⟩ := h
      exact ⟨by simpa using hb, by omega⟩

/-- Every name `assignNames` gives to a group is the group's single hint, or a generated name that is not refused (in
particular, with the extracted filter: no keyword, no hinted name), or the out-of-fuel marker `?` (never observed: the
fuel `bad.length + 1` exceeds the number of refused words). -/
theorem assignNames_names_ok (grp : List Nat) (hints : List (Nat × String)) (bad : List String) :
    ∀ p ∈ assignNames grp hints bad, p.2 ∈ hints.map (·.2) ∨ bad.contains p.2 = false ∨ p.2 = "?" := by
  unfold assignNames
  generalize dedupeNat grp = reps
  suffices H : ∀ (acc : List (Nat × String) × Nat),
      (∀ p ∈ acc.1, p.2 ∈ hints.map (·.2) ∨ bad.contains p.2 = false ∨ p.2 = "?") →
      ∀ p ∈ (reps.foldl (fun (acc : List (Nat × String) × Nat) r =>
        let members := (grp.zipIdx).filterMap (fun (gid, v) => if gid == r then some v else none)
        let hs := hints.filterMap (fun (v, h) => if members.contains v then some h else none)
        match hs with
        | [h] => (acc.1 ++ [(r, h)], acc.2)
        | _ =>
          match nextName bad (bad.length + 1) acc.2 with
          | some (nm, i) => (acc.1 ++ [(r, nm)], i)
          | none => (acc.1 ++ [(r, "?")], acc.2)) acc).1,
        p.2 ∈ hints.map (·.2) ∨ bad.contains p.2 = false ∨ p.2 = "?" by
    exact H ([], 0) (by simp)
  induction reps with
  | nil => intro acc h; simpa using h
  | cons r reps ih =>
    intro acc hacc
    simp only [List.foldl_cons]
    apply ih
    intro p hp
    split at hp
    · rename_i h hs
      simp only [List.mem_append, List.mem_singleton] at hp
      rcases hp with hp | rfl
      · exact hacc p hp
      · left
        have : h ∈ hints.filterMap (fun (v, h) => if ((grp.zipIdx).filterMap (fun (gid, v) => if gid == r then some v else none)).contains v then some h else none) := by
          rw [hs]; simp
        rw [List.mem_filterMap] at this
        obtain ⟨⟨v, h'⟩, hm, hv⟩ := this
        simp only at hv
        split at hv
        · simp only [Option.some.injEq] at hv
          subst hv
          exact List.mem_map.mpr ⟨(v, h'), hm, rfl⟩
        · simp at hv
    · split at hp
      · rename_i nm i hn
        simp only [List.mem_append, List.mem_singleton] at hp
        rcases hp with hp | rfl
        · exact hacc p hp
        · right; left; exact (nextName_not_refused bad _ _ nm i hn).1
      · simp only [List.mem_append, List.mem_singleton] at hp
        rcases hp with hp | rfl
        · exact hacc p hp
        · right; right; rfl

/-- Non-vacuity / witness: the 45th candidate of `names()` is the keyword `as`; with the extracted filter `next(names)` skips
it (and a hinted `c`), without a filter it is handed out. -/
example : nameAt 44 = "as" ∧ nextName (badNames Einx.Extracted.compileFCfg [(2, "c")]) 40 44 = some ("at", 46) ∧
          nextName (badNames Einx.Extracted.compileFCfg [(2, "c")]) 40 2 = some ("d", 4) ∧ nextName [] 1 44 = some ("as", 45) := by
  refine ⟨by decide, ?_, ?_, by decide⟩ <;> simp [nextName, badNames, Einx.Extracted.compileFCfg, nameAt, nameAtAux, nameDigits] <;> decide

/-- **Obligation for operator applications**: a unary operator application is emitted inside parentheses, like a binary
one.  Fails on a tree that prints `-(x)`, where a following attribute/item access binds tighter than the operator. -/
theorem unary_operator_obligation : Einx.Extracted.compileUCfg.unaryParens = true := by decide

/-! ### D6 witness: one `GetItem` with three consumers -/

/-- `def op(x): return (x[0], x[0], x[0])` as a traced graph: input tracer 0, `GetItem(0, 0) → 1`, output `(1, 1, 1)`. -/
def d6Graph : Graph :=
  { apps := [.getitem (.var 0) (.lit "0") 1],
    origin := [none, some 0],
    graphs := [{ inputs := [0], output := E.mk .tuple [.var 1, .var 1, .var 1], name := some "op" }],
    top := .gref 0 }

def fixedUCfg : UCfg := { countFirst := true, outputsRecursed := false, aliasForward := true, forceInlineWins := true, unaryParens := true }

/-- Usage count of a tracer as `CodeObject.define` reads it. -/
def usageOf (cfg : UCfg) (g : Graph) (t : Nat) : Option Nat :=
  match usageGet (usageRec g cfg g.fuel g.top {}).counts g.fuel (.var t) with
  | .ok n => some n
  | .error _ => none

/-- (pure operations executed by the emitted statements, operations of the graph, number of variables) -/
def opsSummary (cfg : UCfg) (g : Graph) : Option (Nat × Nat × Nat) :=
  match compile cfg { checkLater := true, checkBlock := true, bindResult := false } g with
  | .ok c => some (progOps c.st.program, refOps g c.order, c.st.vars.length)
  | .error _ => none

/-- With the early return (`UCfg.pinned`) the value with three uses has usage count 1 … -/
theorem d6_witness_count : usageOf UCfg.pinned d6Graph 1 = some 1 ∧ usageOf fixedUCfg d6Graph 1 = some 3 := by decide

/-- … so the item access is inlined at each of its three uses: the emitted statements (`return (a[0], a[0], a[0])`)
evaluate three operations where the graph has one; with counting before the visited check the value is bound to a
variable (`b = a[0]; return (b, b, b)`) and evaluated once. -/
theorem d6_witness : opsSummary UCfg.pinned d6Graph = some (3, 1, 2) ∧ opsSummary fixedUCfg d6Graph = some (1, 1, 3) := by
  decide

/-! ### Emission order and "exactly one statement" -/

/-- **emit_order**: the sources of the emitted statements follow the traversal order: they form a sublist of the
visited applications (so the statement of an operand, which is visited first, precedes its consumer's). -/
theorem emit_order (c : Ctx) (order : List Visit) : ∀ (st st' : GState), emitAll c order st = .ok st' →
    ∃ l : List Nat, st'.srcs = st.srcs ++ l ∧ l.Sublist (order.filterMap Visit.src) := by
  induction order with
  | nil =>
    intro st st' h
    simp only [emitAll, List.foldlM, pure, Except.pure, Except.ok.injEq] at h
    subst h
    exact ⟨[], by simp, by simp⟩
  | cons v rest ih =>
    intro st st' h
    obtain ⟨s1, h1, h2⟩ := emitAll_cons c v rest st st' h
    obtain ⟨l1, e1, sub1, _⟩ := emitVisit_srcs c st s1 v h1
    obtain ⟨l2, e2, sub2⟩ := ih s1 st' h2
    refine ⟨l1 ++ l2, by rw [e2, e1, List.append_assoc], ?_⟩
    have : (v :: rest).filterMap Visit.src = v.src.toList ++ rest.filterMap Visit.src := by
      cases hv : v.src <;> simp [List.filterMap_cons, hv]
    rw [this]
    exact List.Sublist.append sub1 sub2

/-- **emit_once**: along a traversal without repetitions, every application of a kind that must become a statement
(call of an opaque callable, in-place call, item update, assert, import, constant) has exactly one statement;
applications that are not visited have none. -/
theorem emit_once (c : Ctx) (order : List Visit) : ∀ (st st' : GState), emitAll c order st = .ok st' →
    order.Nodup → ∀ (i : Nat) (a : App), c.g.apps[i]? = some a → a.isStmtKind c.g = true →
    st'.srcs.count i = st.srcs.count i + (if Visit.app i ∈ order then 1 else 0) := by
  induction order with
  | nil =>
    intro st st' h _ i a _ _
    simp only [emitAll, List.foldlM, pure, Except.pure, Except.ok.injEq] at h
    subst h
    simp
  | cons v rest ih =>
    intro st st' h hnd i a ha hk
    obtain ⟨s1, h1, h2⟩ := emitAll_cons c v rest st st' h
    obtain ⟨l1, e1, sub1, hone⟩ := emitVisit_srcs c st s1 v h1
    have hnd' := List.nodup_cons.1 hnd
    rw [ih s1 st' h2 hnd'.2 i a ha hk, e1, List.count_append]
    by_cases hv : v = .app i
    · subst hv
      rw [hone i a rfl ha hk]
      have : Visit.app i ∉ rest := hnd'.1
      simp [this]
    · have hl : l1.count i = 0 := by
        apply List.count_eq_zero.2
        intro hmem
        have := sub1.subset hmem
        cases v with
        | app j =>
          simp only [Visit.src, Option.toList, List.mem_singleton] at this
          exact hv (by rw [this])
        | enter g => simp [Visit.src] at this
        | exit g => simp [Visit.src] at this
      have hne : (Visit.app i ∈ v :: rest) ↔ (Visit.app i ∈ rest) := by
        simp only [List.mem_cons]
        constructor
        · rintro (h | h)
          · exact absurd h.symm hv
          · exact h
        · exact Or.inr
      simp only [hl, hne]
      omega

/-! ### Name sharing (`fuse`) -/

/-- **fuse_sound**: let `ρ` send every variable to the representative of its name group.  If the block satisfies the
interference condition (`fuseSafe`: when a statement writes the shared name of its output variable, no *other* variable
with that name is live afterwards) and the two initial states agree on the variables that are live on entry, then the
renamed block produces the same event trace and the same result.  (`ρ` may merge variables only where one is dead;
variables of other blocks that are read in this block are live on entry and therefore keep their own names.) -/
theorem fuse_sound (ρ : Nat → Nat) (l : List Stmt) (x x' : XState)
    (hsafe : fuseSafe ρ l = true)
    (henv : ∀ v ∈ liveIn l, x'.env (ρ v) = x.env v) (htrace : x'.trace = x.trace) (hret : x'.ret = x.ret) :
    (execBlock x' (l.map (Stmt.rename ρ))).trace = (execBlock x l).trace ∧
    (execBlock x' (l.map (Stmt.rename ρ))).ret = (execBlock x l).ret := by
  have := block_rel ρ l x x' hsafe ⟨henv, htrace, hret⟩
  exact ⟨this.trace, this.ret⟩

/-- Entry states that agree exist whenever distinct live-in variables keep distinct names (`entrySafe`). -/
theorem fuse_entry (ρ : Nat → Nat) (l : List Stmt) (env : Env) (hentry : entrySafe ρ l = true) :
    ∃ env' : Env, ∀ v ∈ liveIn l, env' (ρ v) = env v := by
  refine ⟨fun n => match (liveIn l).find? (fun v => ρ v == n) with | some v => env v | none => unbound n, ?_⟩
  intro v hv
  have hex : ∃ w, (liveIn l).find? (fun w => ρ w == ρ v) = some w := by
    cases hf : (liveIn l).find? (fun w => ρ w == ρ v) with
    | some w => exact ⟨w, rfl⟩
    | none =>
      have := List.find?_eq_none.1 hf v hv
      simp at this
  obtain ⟨w, hw⟩ := hex
  simp only [hw]
  have hwmem := List.mem_of_find?_eq_some hw
  have hwρ : ρ w = ρ v := by simpa using List.find?_some hw
  simp only [entrySafe, List.all_eq_true, Bool.or_eq_true, beq_iff_eq, bne_iff_ne] at hentry
  rcases hentry w hwmem v hv with h | h
  · rw [h]
  · exact absurd hwρ h

/-! ### `compile_correct`: executing the emitted statements = evaluating the graph -/

/-- **compile_correct_flat** (graphs without nested sub-graphs, statements as emitted, before name sharing).
For *every* context `c` (graph, usage counts, scopes, switches) and *every* traversal `order` that consists of
applications only (no `enter`/`exit` of a nested graph: `order.all Visit.isApp`, decidable): if the generator succeeds
on it (`emitAll c order {} = .ok st`), then the node-by-node reference evaluation `evalGraph` along the same order
succeeds too, and executing the emitted statements from the entry environment produces
  * the same event trace (calls of opaque callables, in-place calls, item updates, asserts, in order),
  * the same result, and
  * for every value `x` (in particular the compiled object `g.top`), the expression the generator has for `x`, read in
    the final environment, is the term the reference memoised for `x`.
In-place calls and item updates are covered (no side condition).  No well-formedness premise on the graph is needed:
success of `emitAll` is the only hypothesis. -/
theorem compile_correct_flat (c : Ctx) (order : List Visit) (st : GState)
    (hflat : order.all Visit.isApp = true) (h : emitAll c order {} = .ok st) :
    ∃ r, evalGraph c.g c.cfg.unaryParens order = .ok r ∧
      r.trace = (execBlock { env := unbound } st.program).trace ∧
      r.ret = (execBlock { env := unbound } st.program).ret ∧
      ∀ x, convTop r.vals x = (convTop st.cache x).map (E.subst (execBlock { env := unbound } st.program).env) := by
  obtain ⟨new, r, hp, href, hsim⟩ := emitAll_sim_flat c order hflat {} {} { env := unbound } Sim.init st h
  have hp' : st.program = new := by simpa [GState.program] using hp
  rw [hp']
  refine ⟨r, href, hsim.trace, hsim.ret, ?_⟩
  intro x
  rw [hsim.vals, convTop_mapσ]

/-- **compile_correct** (all graphs, nested sub-graphs included; statements as emitted, before name sharing).
For *every* context `c` and *every* traversal `order` in which each `exit g` is preceded by an `enter g` (`matched`,
decidable; proved for every traversal of the generator in `visitOrder_matched`): if the generator succeeds
(`emitAll c order {} = .ok st`) and the emitted program is closed — no variable is read before a statement has bound it
(`liveIn st.program = []`, decidable on the output; it excludes reading the function variable of a nested graph inside
its own body, i.e. a graph that contains itself) — then `evalGraph` succeeds along the same order, and executing the
emitted statements from the entry environment yields the same event trace and the same result; moreover every cached
expression whose variables are bound reads, in the final environment, as the term the reference memoised.
In-place calls and item updates are covered without a side condition (events carry terms; an aliased in-place result is
the term of the aliased operand on both sides).  What remains per graph: the decidable premise `liveIn st.program = []`. -/
theorem compile_correct (c : Ctx) (order : List Visit) (st : GState)
    (h : emitAll c order {} = .ok st) (hm : matched order [] = true) (hclosed : liveIn st.program = []) :
    ∃ r, evalGraph c.g c.cfg.unaryParens order = .ok r ∧
      r.trace = (execBlock { env := unbound } st.program).trace ∧
      r.ret = (execBlock { env := unbound } st.program).ret ∧
      ∀ x e, convTop st.cache x = .ok e → (∀ v ∈ e.vars, v ∈ outsOf st.program) →
        convTop r.vals x = .ok (e.subst (execBlock { env := unbound } st.program).env) := by
  obtain ⟨new, r, σ, en, hp, href, hinv⟩ := emitAll_inv c order [] unbound {} st {} { env := unbound } Inv.init hm h (by
    intro newAll hp v hv
    have hp' : st.program = newAll := by simpa [GState.program] using hp
    rw [← hp', hclosed] at hv
    simp at hv)
  have hp' : st.program = new := by simpa [GState.program] using hp
  rw [← hp'] at hinv
  refine ⟨r, href, hinv.sim.trace, hinv.sim.ret, ?_⟩
  intro x e hx hv
  rw [hinv.sim.vals, convTop_mapσ, hx]
  simp only [Except.map, Except.ok.injEq]
  exact E.subst_congr _ _ e (fun v hv' => (hinv.agree v (hv v hv')).1)

/-- **compile_correct_compiled**: the check the driver performs per graph (`ref_ok`, `same_trace`, `same_ret` of
`Driver/Compile.lean`), as a theorem about `compile` itself: for every graph and all switches, if `compile` succeeds and
the emitted program is closed (`liveIn`, decidable), then the reference evaluation along the generator's traversal
succeeds and has the same event trace and result as the execution of the emitted statements.  (`matched` is discharged by
`visitOrder_matched`; the statement that binds the compiled object under `bindResult` is pure.) -/
theorem compile_correct_compiled (cfg : UCfg) (fc : FCfg) (g : Graph) (comp : Compiled)
    (h : compile cfg fc g = .ok comp) (hclosed : liveIn comp.st.program = []) :
    ∃ r, evalGraph g cfg.unaryParens comp.order = .ok r ∧
      r.trace = (execBlock { env := unbound } comp.st.program).trace ∧
      r.ret = (execBlock { env := unbound } comp.st.program).ret := by
  unfold compile at h
  simp only [bind, Except.bind] at h
  cases hs : getScopes g g.fuel with
  | error err => simp [hs] at h
  | ok scopes =>
  simp only [hs] at h
  cases ho : visitOrder g with
  | error err => simp [ho] at h
  | ok order =>
  simp only [ho] at h
  cases he : emitAll { g := g, cfg := cfg, counts := (usageRec g cfg g.fuel g.top {}).counts, scopes := scopes } order {} with
  | error err => simp [he] at h
  | ok st =>
  simp only [he] at h
  cases hc : convTop st.cache g.top with
  | error err => simp [hc] at h
  | ok obj =>
  simp only [hc] at h
  have hm := visitOrder_matched g order ho
  have key : ∀ st' : GState, (st' = st ∨ ∃ v e, st'.program = st.program ++ [.assign v e false]) →
      liveIn st'.program = [] →
      ∃ r, evalGraph g cfg.unaryParens order = .ok r ∧
        r.trace = (execBlock { env := unbound } st'.program).trace ∧
        r.ret = (execBlock { env := unbound } st'.program).ret := by
    intro st' hst hcl
    rcases hst with rfl | ⟨v, e, hp⟩
    · obtain ⟨r, h1, h2, h3, _⟩ := compile_correct _ order st' he hm hcl
      exact ⟨r, h1, h2, h3⟩
    · have hcl' : liveIn st.program = [] := by
        apply List.eq_nil_iff_forall_not_mem.2
        intro w hw
        have := liveIn_append_left st.program [.assign v e false] w hw
        rw [← hp, hcl] at this
        simp at this
      obtain ⟨r, h1, h2, h3, _⟩ := compile_correct _ order st he hm hcl'
      refine ⟨r, h1, ?_, ?_⟩
      · rw [h2, hp, execBlock_append]; rfl
      · rw [h3, hp, execBlock_append]; rfl
  have fin : ∀ (st' : GState) (cond : Prop) [Decidable cond] (mk : Compiled),
      mk.st = st' → mk.order = order →
      (st' = st ∨ ∃ v e, st'.program = st.program ++ [.assign v e false]) →
      (if cond then (throw "RecursionError: Block.to_code" : Except String Unit) >>= fun _ => pure mk else pure mk) = .ok comp →
      ∃ r, evalGraph g cfg.unaryParens comp.order = .ok r ∧
        r.trace = (execBlock { env := unbound } comp.st.program).trace ∧
        r.ret = (execBlock { env := unbound } comp.st.program).ret := by
    intro st' cond _ mk h1 h2 h3 h4
    split at h4
    · simp [throw, throwThe, MonadExceptOf.throw, bind, Except.bind] at h4
    · simp only [pure, Except.pure, Except.ok.injEq] at h4
      subst h4
      rw [h2]
      rw [h1] at hclosed ⊢
      exact key st' h3 hclosed
  split at h
  · exact fin _ _ _ rfl rfl (Or.inl rfl) h
  · cases hb : fc.bindResult with
    | false =>
      simp only [hb, Bool.false_eq_true, if_false] at h
      exact fin _ _ _ rfl rfl (Or.inl rfl) h
    | true =>
      simp only [hb, if_true] at h
      refine fin _ _ _ rfl rfl (Or.inr ⟨st.vars.length, obj, ?_⟩) h
      rw [program_push]
      rfl

/-- **compile_correct_fused**: `compile_correct` lifted through name sharing with `fuse_sound`.  For every renaming `ρ`
of variables (in particular the one computed by the generator's `fuse` loop, `fun v => grp[v]?.getD v`) that satisfies
the interference condition `fuseSafe ρ st.program` (decidable; checked per graph by the driver — that the `fuse` loop
always produces such a `ρ` is *not* proved here), the renamed statements, executed from *any* entry environment, have the
event trace and the result of the reference evaluation of the graph.  (Statements in emission order; the text hoists
imports to the top of the root block.) -/
theorem compile_correct_fused (c : Ctx) (order : List Visit) (st : GState)
    (h : emitAll c order {} = .ok st) (hm : matched order [] = true) (hclosed : liveIn st.program = [])
    (ρ : Nat → Nat) (hsafe : fuseSafe ρ st.program = true) (env' : Env) :
    ∃ r, evalGraph c.g c.cfg.unaryParens order = .ok r ∧
      r.trace = (execBlock { env := env' } (st.program.map (Stmt.rename ρ))).trace ∧
      r.ret = (execBlock { env := env' } (st.program.map (Stmt.rename ρ))).ret := by
  obtain ⟨r, h1, h2, h3, _⟩ := compile_correct c order st h hm hclosed
  obtain ⟨f1, f2⟩ := fuse_sound ρ st.program { env := unbound } { env := env' } hsafe
    (by intro v hv; rw [hclosed] at hv; simp at hv) rfl rfl
  exact ⟨r, h1, by rw [h2, f1], by rw [h3, f2]⟩

/-- `compile_correct_fused` for `compile` itself, with the name groups `compile` computed. -/
theorem compile_correct_compiled_fused (cfg : UCfg) (fc : FCfg) (g : Graph) (comp : Compiled)
    (h : compile cfg fc g = .ok comp) (hclosed : liveIn comp.st.program = [])
    (hsafe : fuseSafe (fun v => comp.grp[v]?.getD v) comp.st.program = true) (env' : Env) :
    ∃ r, evalGraph g cfg.unaryParens comp.order = .ok r ∧
      r.trace = (execBlock { env := env' } (comp.st.program.map (Stmt.rename (fun v => comp.grp[v]?.getD v)))).trace ∧
      r.ret = (execBlock { env := env' } (comp.st.program.map (Stmt.rename (fun v => comp.grp[v]?.getD v)))).ret := by
  obtain ⟨r, h1, h2, h3⟩ := compile_correct_compiled cfg fc g comp h hclosed
  obtain ⟨f1, f2⟩ := fuse_sound (fun v => comp.grp[v]?.getD v) comp.st.program { env := unbound } { env := env' } hsafe
    (by intro v hv; rw [hclosed] at hv; simp at hv) rfl rfl
  exact ⟨r, h1, by rw [h2, f1], by rw [h3, f2]⟩

/-- The traversal of the generator is well bracketed for every graph (premise `matched` of `compile_correct`). -/
theorem visitOrder_wellBracketed (g : Graph) (order : List Visit) (h : visitOrder g = .ok order) :
    matched order [] = true := visitOrder_matched g order h

/-- **visitOrder_nodup**: the premise `nodup_order` that the driver checks per graph holds for *every* well-formed graph.
`Graph.WF` (decidable, `Compile/Sem.lean`): every tracer is among the registered outputs of its origin; applications are
in topological order (every tracer that an operand leads to — directly, or as the output of a nested-graph operand — has
an earlier origin; this is the order in which `graphcap` numbers applications); outputs of nested graphs mention no graph.
Without the topological condition the statement is false: a nested graph whose output is the tracer that consumes the
graph is traversed twice by a successful `visit`. -/
theorem visitOrder_nodup (g : Graph) (hwf : g.WF = true) (order : List Visit) (h : visitOrder g = .ok order) :
    order.Nodup := visitOrder_nodup_of_wf g hwf order h

/-- `emit_once` for the generator's own traversal of a well-formed graph (no per-graph `Nodup` premise left). -/
theorem emit_once_wf (c : Ctx) (hwf : c.g.WF = true) (order : List Visit) (ho : visitOrder c.g = .ok order)
    (st' : GState) (h : emitAll c order {} = .ok st') (i : Nat) (a : App) (ha : c.g.apps[i]? = some a)
    (hk : a.isStmtKind c.g = true) :
    st'.srcs.count i = if Visit.app i ∈ order then 1 else 0 := by
  have := emit_once c order {} st' h (visitOrder_nodup c.g hwf order ho) i a ha hk
  simpa [GState.srcs] using this

/-! ### Discharging the premises from the graph -/

/-- **emit_closed**: the premise `liveIn st.program = []` of `compile_correct` follows from a premise on the *input*: along
the traversal, no application mentions a nested graph that is still open and no graph output mentions an open graph
(`noSelfRef`, decidable, `Compile/Sem.lean`).  Then no statement reads a variable before it is bound. -/
theorem emit_closed (c : Ctx) (order : List Visit) (st : GState) (h : emitAll c order {} = .ok st)
    (hns : noSelfRef c.g order [] = true) : liveIn st.program = [] :=
  (emit_closed_of_noSelfRef c order st h hns).1

/-- **visitOrder_noSelfRef**: the generator's traversal of a well-formed graph never mentions a nested graph while it is
open, and closes every graph it opens. -/
theorem visitOrder_noSelfRef (g : Graph) (hwf : g.WF = true) (order : List Visit) (h : visitOrder g = .ok order) :
    noSelfRef g order [] = true ∧ pendAfter order [] = [] := visitOrder_noSelfRef_of_wf g hwf order h

/-- The program `compile` emits for a well-formed graph is closed (including the statement that binds the compiled object). -/
theorem compile_closed (cfg : UCfg) (fc : FCfg) (g : Graph) (comp : Compiled) (hwf : g.WF = true)
    (h : compile cfg fc g = .ok comp) : liveIn comp.st.program = [] := by
  unfold compile at h
  simp only [bind, Except.bind] at h
  cases hs : getScopes g g.fuel with
  | error err => simp [hs] at h
  | ok scopes =>
  simp only [hs] at h
  cases ho : visitOrder g with
  | error err => simp [ho] at h
  | ok order =>
  simp only [ho] at h
  cases he : emitAll { g := g, cfg := cfg, counts := (usageRec g cfg g.fuel g.top {}).counts, scopes := scopes } order {} with
  | error err => simp [he] at h
  | ok st =>
  simp only [he] at h
  cases hc : convTop st.cache g.top with
  | error err => simp [hc] at h
  | ok obj =>
  simp only [hc] at h
  obtain ⟨hns, hpend⟩ := visitOrder_noSelfRef g hwf order ho
  obtain ⟨hcl0, hCL⟩ := emit_closed_of_noSelfRef _ order st he hns
  rw [hpend] at hCL
  have hobj : ∀ v ∈ obj.vars, v ∈ outsOf st.program :=
    fun v hv => hCL.src (G := g.top.grefsOf) (by simp) v (convTop_vars _ _ _ hc v hv)
  have key : ∀ st' : GState, (st' = st ∨ st'.program = st.program ++ [.assign st.vars.length obj false]) →
      liveIn st'.program = [] := by
    intro st' hst
    rcases hst with rfl | hp
    · exact hcl0
    · apply List.eq_nil_iff_forall_not_mem.2
      intro v hv
      rw [hp] at hv
      rcases liveIn_append_cases _ _ v hv with h1 | ⟨h1, h2⟩
      · rw [hcl0] at h1; simp at h1
      · simp only [liveIn, Stmt.reads, List.filter_nil, List.append_nil] at h1
        exact h2 (hobj v h1)
  have fin : ∀ (st' : GState) (cond : Prop) [Decidable cond] (mk : Compiled),
      mk.st = st' → (st' = st ∨ st'.program = st.program ++ [.assign st.vars.length obj false]) →
      (if cond then (throw "RecursionError: Block.to_code" : Except String Unit) >>= fun _ => pure mk else pure mk) = .ok comp →
      liveIn comp.st.program = [] := by
    intro st' cond _ mk h1 h3 h4
    split at h4
    · simp [throw, throwThe, MonadExceptOf.throw, bind, Except.bind] at h4
    · simp only [pure, Except.pure, Except.ok.injEq] at h4
      subst h4
      rw [h1]
      exact key st' h3
  split at h
  · exact fin _ _ _ rfl (Or.inl rfl) h
  · cases hb : fc.bindResult with
    | false =>
      simp only [hb, Bool.false_eq_true, if_false] at h
      exact fin _ _ _ rfl (Or.inl rfl) h
    | true =>
      simp only [hb, if_true] at h
      refine fin _ _ _ rfl (Or.inr ?_) h
      rw [program_push]
      rfl

/-- **compile_correct_wf** — the universal statement: for *every* graph `g` that satisfies the decidable well-formedness
predicate `Graph.WF` (origins consistent, applications in topological order, nested-graph outputs mention no graph) and
for all switches, if `compile` succeeds then the reference evaluation of `g` along the generator's traversal succeeds,
and executing the emitted statements from the entry environment yields the same event trace and the same result.
No per-graph premise is left (the driver's verdicts `ref_ok`, `same_trace`, `same_ret`, `closed_prog`, `nodup_order`
are consequences of `wf_graph`). -/
theorem compile_correct_wf (cfg : UCfg) (fc : FCfg) (g : Graph) (comp : Compiled) (hwf : g.WF = true)
    (h : compile cfg fc g = .ok comp) :
    ∃ r, evalGraph g cfg.unaryParens comp.order = .ok r ∧
      r.trace = (execBlock { env := unbound } comp.st.program).trace ∧
      r.ret = (execBlock { env := unbound } comp.st.program).ret :=
  compile_correct_compiled cfg fc g comp h (compile_closed cfg fc g comp hwf h)

/-- `compile_correct_wf` lifted through the name groups `compile` computed; the only per-graph premise left is `fuseSafe`
of that renaming on the emitted program. -/
theorem compile_correct_wf_fused (cfg : UCfg) (fc : FCfg) (g : Graph) (comp : Compiled) (hwf : g.WF = true)
    (h : compile cfg fc g = .ok comp)
    (hsafe : fuseSafe (fun v => comp.grp[v]?.getD v) comp.st.program = true) (env' : Env) :
    ∃ r, evalGraph g cfg.unaryParens comp.order = .ok r ∧
      r.trace = (execBlock { env := env' } (comp.st.program.map (Stmt.rename (fun v => comp.grp[v]?.getD v)))).trace ∧
      r.ret = (execBlock { env := env' } (comp.st.program.map (Stmt.rename (fun v => comp.grp[v]?.getD v)))).ret :=
  compile_correct_compiled_fused cfg fc g comp h (compile_closed cfg fc g comp hwf h) hsafe env'

/-! ### The `fuse` loop produces a safe renaming -/

/-- **fuse_produces_safe**: for *every* graph that satisfies `Graph.WF` and for all usage switches, if `compile` succeeds and the
`fuse` loop has its two filters (an input that is used in a later statement, or in another block, is not a candidate:
`extracted_fuse_filters`), then the name groups the loop computed (`comp.grp`, the model of `variableid_to_group` after the loop over
`code.blocks`) satisfy the interference condition `fuseSafe` on the emitted statements (emission order): whenever a statement
writes the shared name of its output variable, no other variable with that name is live afterwards.

Proof (`Proofs/Fuse*.lean`): the emitted program defines every variable at most once (`emitAll_sd`; the `def` of a nested graph
is emitted once because the traversal has no repetitions, `visitOrder_nodup`), reads no variable before its definition
(`compile_closed`), and all its statements lie in blocks the loop visits (`goodBlk_lt`: the scope map only returns existing
scopes).  Along the loop the invariant `FInv` holds: the members of a name group are linearly ordered by `Before` (defined earlier,
and without reader after the definition of the later one); a merge `fuse(v, o)` happens at the statement that defines `o`, is the
last reader of `v` (filters), the group of `o` is still `{o}` and `v` is the last member of its group (`FInv.merge`). -/
theorem fuse_produces_safe (cfg : UCfg) (fc : FCfg) (g : Graph) (comp : Compiled) (hwf : g.WF = true)
    (hfilters : fc.checkLater = true ∧ fc.checkBlock = true) (h : compile cfg fc g = .ok comp) :
    fuseSafe (fun v => comp.grp[v]?.getD v) comp.st.program = true := by
  obtain ⟨hg, hnd, hblk, _⟩ := compile_fuse_facts cfg fc g comp hwf h
  rw [hg]
  exact fuseAll_safe fc hfilters.1 hfilters.2 comp.st comp.nblocks hnd (compile_closed cfg fc g comp hwf h) hblk

/-- `fuse_produces_safe` for the switches of the `fuse` loop as they are read from the source on this run. -/
theorem fuse_produces_safe_extracted (cfg : UCfg) (g : Graph) (comp : Compiled) (hwf : g.WF = true)
    (h : compile cfg Einx.Extracted.compileFCfg g = .ok comp) :
    fuseSafe (fun v => comp.grp[v]?.getD v) comp.st.program = true :=
  fuse_produces_safe cfg _ g comp hwf extracted_fuse_filters h

/-- **compile_correct_wf_fused_total**: `compile_correct_wf_fused` without per-graph premise.  For every `Graph.WF` graph and all
usage switches, if `compile` (with a `fuse` loop that has both filters) succeeds, then the emitted statements *with the names the
generator assigned* (variables renamed to the representative of their name group), executed from any entry environment, have the
event trace and the result of the node-by-node reference evaluation of the graph. -/
theorem compile_correct_wf_fused_total (cfg : UCfg) (fc : FCfg) (g : Graph) (comp : Compiled) (hwf : g.WF = true)
    (hfilters : fc.checkLater = true ∧ fc.checkBlock = true) (h : compile cfg fc g = .ok comp) (env' : Env) :
    ∃ r, evalGraph g cfg.unaryParens comp.order = .ok r ∧
      r.trace = (execBlock { env := env' } (comp.st.program.map (Stmt.rename (fun v => comp.grp[v]?.getD v)))).trace ∧
      r.ret = (execBlock { env := env' } (comp.st.program.map (Stmt.rename (fun v => comp.grp[v]?.getD v)))).ret :=
  compile_correct_wf_fused cfg fc g comp hwf h (fuse_produces_safe cfg fc g comp hwf hfilters h) env'

/-- The same for the generator as extracted from the source on this run (all switches of `usage.py`, `define` and the `fuse` loop). -/
theorem compile_correct_extracted (g : Graph) (comp : Compiled) (hwf : g.WF = true)
    (h : compile Einx.Extracted.compileUCfg Einx.Extracted.compileFCfg g = .ok comp) (env' : Env) :
    ∃ r, evalGraph g Einx.Extracted.compileUCfg.unaryParens comp.order = .ok r ∧
      r.trace = (execBlock { env := env' } (comp.st.program.map (Stmt.rename (fun v => comp.grp[v]?.getD v)))).trace ∧
      r.ret = (execBlock { env := env' } (comp.st.program.map (Stmt.rename (fun v => comp.grp[v]?.getD v)))).ret :=
  compile_correct_wf_fused_total _ _ g comp hwf extracted_fuse_filters h env'

/-- **fuse_text_safe**: the interference condition in *text order*, block by block — the verdict `fuse_safe` the driver decides per
graph, as a theorem.  For every `Graph.WF` graph, all usage switches, both filters of the `fuse` loop, and every block `b`: on the text
of the block (comments and hoisted imports first, then the statements of the block in emission order) the generator's name groups
satisfy `fuseSafe` (a statement that writes a shared name is not followed by a read of another variable of that name before its
definition) and `entrySafe` (the variables the block reads from outside — parameters, variables of enclosing blocks, function
variables — have pairwise distinct names). -/
theorem fuse_text_safe (cfg : UCfg) (fc : FCfg) (g : Graph) (comp : Compiled) (hwf : g.WF = true)
    (hfilters : fc.checkLater = true ∧ fc.checkBlock = true) (h : compile cfg fc g = .ok comp) (b : Nat) :
    fuseSafe (fun v => comp.grp[v]?.getD v) ((comp.st.block b).map (·.stmt)) = true ∧
    entrySafe (fun v => comp.grp[v]?.getD v) ((comp.st.block b).map (·.stmt)) = true := by
  obtain ⟨hg, hnd, hblk, hinfo⟩ := compile_fuse_facts cfg fc g comp hwf h
  rw [hg]
  exact fuseAll_text_safe fc hfilters.1 hfilters.2 comp.st comp.nblocks hnd (compile_closed cfg fc g comp hwf h) hblk hinfo b

/-- **fuse_text_sound**: consequently (`fuse_sound`, `fuse_entry`) the text of every block, with the names the generator assigned,
behaves like the text with one name per variable: for every state `x` on entry of the block there is an entry environment for the
renamed block (the values of the variables that are live on entry, under their shared names) from which it produces the same
event trace and the same result. -/
theorem fuse_text_sound (cfg : UCfg) (fc : FCfg) (g : Graph) (comp : Compiled) (hwf : g.WF = true)
    (hfilters : fc.checkLater = true ∧ fc.checkBlock = true) (h : compile cfg fc g = .ok comp) (b : Nat) (x : XState) :
    ∃ env' : Env,
      (execBlock { x with env := env' } (((comp.st.block b).map (·.stmt)).map (Stmt.rename (fun v => comp.grp[v]?.getD v)))).trace
        = (execBlock x ((comp.st.block b).map (·.stmt))).trace ∧
      (execBlock { x with env := env' } (((comp.st.block b).map (·.stmt)).map (Stmt.rename (fun v => comp.grp[v]?.getD v)))).ret
        = (execBlock x ((comp.st.block b).map (·.stmt))).ret := by
  obtain ⟨hs, he⟩ := fuse_text_safe cfg fc g comp hwf hfilters h b
  obtain ⟨env', henv⟩ := fuse_entry (fun v => comp.grp[v]?.getD v) ((comp.st.block b).map (·.stmt)) x.env he
  exact ⟨env', fuse_sound _ _ x { x with env := env' } hs henv rfl rfl⟩

/-! ### Non-vacuity -/

/-- `a = f(a); a = g(a); return a`: three variables share one name, the block is safe, and the theorem applies. -/
example :
    let l : List Stmt := [.assign 1 (E.mk .call [.lit "f", .var 0]) true, .assign 2 (E.mk .call [.lit "g", .var 1]) true, .return_ (.var 2)]
    let ρ : Nat → Nat := fun _ => 0
    fuseSafe ρ l = true ∧ entrySafe ρ l = true ∧
    (execBlock { env := unbound } (l.map (Stmt.rename ρ))).ret = (execBlock { env := unbound } l).ret := by decide

/-- Merging a variable that is still needed is rejected: `b = f(a); return (a, b)` with `a`, `b` sharing a name. -/
example :
    fuseSafe (fun _ => 0) [.assign 1 (E.mk .call [.lit "f", .var 0]) true, .return_ (E.mk .tuple [.var 0, .var 1])] = false := by decide

/-- The D6 witness is a real compilation: traversal, scopes, names and text are all exercised. -/
example : (match compile UCfg.pinned { checkLater := true, checkBlock := true, bindResult := false } d6Graph with
    | .ok c => some (c.order, c.grp, fuseSafe (fun v => c.grp[v]?.getD v) c.st.program)
    | .error _ => none) = some ([.enter 0, .app 0, .exit 0], [0, 1], true) := by decide

/-- `import numpy as np; a = np.zeros(3); np.fill(a, 1)` with result `a`: a graph without nested sub-graphs that contains an
in-place call whose result aliases `a`. -/
def flatGraph : Graph :=
  { apps := [.import_ "numpy" none (some "np") 0, .getattr (.var 0) "zeros" 1, .call (.var 1) [.lit "3"] [] [] 2,
             .getattr (.var 0) "fill" 3, .callInplace (.var 2) (.var 3) [.var 2, .lit "1"] [] [] 4],
    origin := [some 0, some 1, some 2, some 3, some 4],
    graphs := [],
    top := .var 4 }

/-- The context `compile` builds for a graph. -/
def ctxOf (cfg : UCfg) (g : Graph) : Option Ctx :=
  match getScopes g g.fuel with
  | .ok scopes => some { g, cfg, counts := (usageRec g cfg g.fuel g.top {}).counts, scopes }
  | .error _ => none

/-- Hypotheses of `compile_correct_flat` on `flatGraph`: the traversal has five applications, `emitAll` succeeds and
emits three statements (one of them the in-place call). -/
example : (match ctxOf fixedUCfg flatGraph, visitOrder flatGraph with
    | some c, .ok order => (match emitAll c order {} with
      | .ok st => some (order.all Visit.isApp, order.length, st.program.length, (execBlock { env := unbound } st.program).trace.length)
      | .error _ => none)
    | _, _ => none) = some (true, 5, 3, 2) := by decide

/-- Hypotheses of `compile_correct` / `compile_correct_compiled(_fused)` on the nested D6 graph and on `flatGraph`:
`compile` succeeds, the traversal is bracketed, the program is closed and the generator's name groups are `fuseSafe`. -/
example : (match compile UCfg.pinned { checkLater := true, checkBlock := true, bindResult := false } d6Graph with
    | .ok c => some (matched c.order [], liveIn c.st.program, fuseSafe (fun v => c.grp[v]?.getD v) c.st.program, c.st.program.length)
    | .error _ => none) = some (true, [], true, 3) := by decide

example : (match compile fixedUCfg { checkLater := true, checkBlock := true, bindResult := true } flatGraph with
    | .ok c => some (matched c.order [], liveIn c.st.program, fuseSafe (fun v => c.grp[v]?.getD v) c.st.program, c.st.program.length)
    | .error _ => none) = some (true, [], true, 3) := by decide

/-- The premise `liveIn … = []` is not vacuous either way: a program that reads a variable no statement has bound
is rejected. -/
example : liveIn [.return_ (.var 0), .def_ 0 [] 0 0] = [0] := by decide

/-- Both example graphs are well-formed (premise of `visitOrder_nodup`), and a graph that is consumed by its own output is not. -/
example : d6Graph.WF = true ∧ flatGraph.WF = true := by decide

example : ({ apps := [.call (.lit "f") [.gref 0] [] [] 0], origin := [some 0],
             graphs := [{ inputs := [], output := .var 0, name := none }], top := .var 0 } : Graph).WF = false := by decide

/-- Hypotheses of `emit_closed`/`compile_correct_wf` on the nested D6 graph: well-formed, `compile` succeeds, and the
traversal mentions no open graph. -/
example : d6Graph.WF = true ∧ (match compile fixedUCfg { checkLater := true, checkBlock := true, bindResult := true } d6Graph with
    | .ok c => some (noSelfRef d6Graph c.order [], pendAfter c.order [], c.st.program.length)
    | .error _ => none) = some (true, [], 4) := by decide

/-! Non-vacuity of `fuse_produces_safe`: the loop merges variables, across a parameter, and the filters are needed. -/

/-- `import numpy as np; a = np.zeros(3); a = np.exp(a)`: the result of `zeros` is dead when `exp` is called. -/
def chainGraph : Graph :=
  { apps := [.import_ "numpy" none (some "np") 0, .getattr (.var 0) "zeros" 1, .call (.var 1) [.lit "3"] [] [] 2,
             .getattr (.var 0) "exp" 3, .call (.var 3) [.var 2] [] [] 4],
    origin := [some 0, some 1, some 2, some 3, some 4], graphs := [], top := .var 4 }

/-- `a = np.zeros(3); b = np.exp(a); c = np.add(a, b)`: `a` is still needed after `exp`. -/
def liveGraph : Graph :=
  { apps := [.import_ "numpy" none (some "np") 0, .getattr (.var 0) "zeros" 1, .call (.var 1) [.lit "3"] [] [] 2,
             .getattr (.var 0) "exp" 3, .call (.var 3) [.var 2] [] [] 4,
             .getattr (.var 0) "add" 5, .call (.var 5) [.var 2, .var 4] [] [] 6],
    origin := [some 0, some 1, some 2, some 3, some 4, some 5, some 6], graphs := [], top := .var 6 }

/-- `def op(a): a = np.exp(a); a = np.exp(a); return a`: a parameter and two results share one name. -/
def nestGraph : Graph :=
  { apps := [.import_ "numpy" none (some "np") 0, .getattr (.var 0) "exp" 1, .call (.var 1) [.var 5] [] [] 2,
             .call (.var 1) [.var 2] [] [] 3],
    origin := [some 0, some 1, some 2, some 3, none, none],
    graphs := [{ inputs := [5], output := .var 3, name := some "op" }], top := .gref 0 }

/-- Text, name groups and `fuseSafe` verdict of a compilation. -/
def fuseSummary (fc : FCfg) (g : Graph) : Option (String × List Nat × Bool) :=
  match compile { fixedUCfg with attrForceInline := true } fc g with
  | .ok c => some (c.text, c.grp, fuseSafe (fun v => c.grp[v]?.getD v) c.st.program)
  | .error _ => none

/-- The hypotheses of `fuse_produces_safe` are met by compilations in which the loop does merge variables. -/
example : chainGraph.WF = true ∧ fuseSummary { checkLater := true, checkBlock := true, bindResult := true } chainGraph =
    some ("import numpy as np\na = np.zeros(3)\na = np.exp(a)", [0, 1, 1], true) := by decide

example : nestGraph.WF = true ∧ fuseSummary { checkLater := true, checkBlock := true, bindResult := true } nestGraph =
    some ("import numpy as np\ndef op(a):\n    a = np.exp(a)\n    a = np.exp(a)\n    return a", [0, 1, 2, 1, 1], true) := by decide

/-- The hypothesis on the filters cannot be dropped: without the later-use filter the loop merges `a` into the result of `exp`
although `a` is read afterwards (`a = np.exp(a); b = np.add(a, a)`), and the groups are not `fuseSafe`. -/
example : liveGraph.WF = true ∧
    fuseSummary { checkLater := true, checkBlock := true, bindResult := true } liveGraph =
      some ("import numpy as np\na = np.zeros(3)\nb = np.exp(a)\nc = np.add(a, b)", [0, 1, 2, 3], true) ∧
    fuseSummary { checkLater := false, checkBlock := true, bindResult := true } liveGraph =
      some ("import numpy as np\na = np.zeros(3)\na = np.exp(a)\nb = np.add(a, a)", [0, 1, 1, 3], false) := by decide

/-- `fuse_text_safe` on the nested example: the inner block (`a = np.exp(a); a = np.exp(a); return a` with the parameter `a` live on
entry) and the root block are safe in text order; without the later-use filter the root block of `liveGraph` is not. -/
def textSummary (fc : FCfg) (g : Graph) : Option (List (Bool × Bool)) :=
  match compile { fixedUCfg with attrForceInline := true } fc g with
  | .ok c => some ((List.range c.nblocks).map (fun b =>
      (fuseSafe (fun v => c.grp[v]?.getD v) ((c.st.block b).map (·.stmt)), entrySafe (fun v => c.grp[v]?.getD v) ((c.st.block b).map (·.stmt)))))
  | .error _ => none

example : textSummary { checkLater := true, checkBlock := true, bindResult := true } nestGraph = some [(true, true), (true, true)] ∧
    textSummary { checkLater := true, checkBlock := true, bindResult := true } liveGraph = some [(true, true)] ∧
    textSummary { checkLater := false, checkBlock := true, bindResult := true } liveGraph = some [(false, true)] := by decide

end Einx.Compile
