import EinxModel.Proofs.Compile
import EinxModel.Extracted.Compile
/-!
C04 — generated source is a faithful, self-contained compilation of the traced graph.

Property theorems only (helper lemmas live in `Proofs/Compile.lean`).  The model (`Compile/{Syntax,Graph,Gen}.lean`)
is the one the driver executes (kind `compile`); `Extracted.compile*` is regenerated from `/repo` on every run.

* `emit_order`, `emit_once`      – statements appear in traversal order; every application that is a call of an opaque
                                    callable, an in-place call, an item update, an assert or an import yields exactly one.
* `fuse_sound`                    – sharing names between variables under the interference condition `fuseSafe`
                                    (computed by the driver for every compiled graph) preserves trace and result.
* `value_computed_once_*`         – obligation over the extracted usage switches (D6) with a decided witness.
-/
namespace Einx.Compile

/-! ### Obligations regenerated from the source -/

/-- The allow-list of builtins whose calls may be inlined is the modelled one. -/
theorem extracted_allow_inline : Einx.Extracted.compileAllowInline = allowInlineFunctions := by decide

/-- The `fuse` loop excludes input variables that are used in a later statement or in another block. -/
theorem extracted_fuse_filters : Einx.Extracted.compileFCfg.checkLater = true ∧ Einx.Extracted.compileFCfg.checkBlock = true := by decide

/-- **Obligation for "every value is computed once"**: the usage counter is incremented for every use (before the
visited check), uses of an alias count for the aliased value, and aliases stay inlined.  On a tree where
`get_usages` returns before counting, this fails (D6); `d6_witness` below is the replay witness. -/
theorem value_computed_once_obligation :
    Einx.Extracted.compileUCfg.countFirst = true ∧ Einx.Extracted.compileUCfg.outputsRecursed = false ∧
    Einx.Extracted.compileUCfg.aliasForward = true ∧ Einx.Extracted.compileUCfg.forceInlineWins = true := by decide

/-- **Obligation for "the text contains the compiled object"**: `compile` binds a result that is an expression
(a graph collapsed to the function it calls) to a name.  Fails on a tree where the text of such a graph is only its
imports (D7). -/
theorem self_contained_obligation : Einx.Extracted.compileFCfg.bindResult = true := by decide

/-- **Obligation for operator applications**: a unary operator application is emitted inside parentheses, like a binary
one.  Fails on a tree that prints `-(x)`, where a following attribute/item access binds tighter than the operator. -/
theorem unary_operator_obligation : Einx.Extracted.compileUCfg.unaryParens = true := by decide

/-! ### D6 witness: one `GetItem` with three consumers -/

/-- `def op(x): return (x[0], x[0], x[0])` as a traced graph: input tracer 0, `GetItem(0, 0) → 1`, output `(1, 1, 1)`. -/
def d6Graph : Graph :=
  { apps := [.getitem (.var 0) (.lit "0") 1],
    origin := [none, some 0],
    graphs := [{ inputs := [0], output := E.mk .tuple [.var 1, .var 1, .var 1], name := some "op" }],
    top := .gref 0 }

def fixedUCfg : UCfg := { countFirst := true, outputsRecursed := false, aliasForward := true, forceInlineWins := true, unaryParens := true }

/-- Usage count of a tracer as `CodeObject.define` reads it. -/
def usageOf (cfg : UCfg) (g : Graph) (t : Nat) : Option Nat :=
  match usageGet (usageRec g cfg g.fuel g.top {}).counts g.fuel (.var t) with
  | .ok n => some n
  | .error _ => none

/-- (pure operations executed by the emitted statements, operations of the graph, number of variables) -/
def opsSummary (cfg : UCfg) (g : Graph) : Option (Nat × Nat × Nat) :=
  match compile cfg ⟨true, true, false⟩ g with
  | .ok c => some (progOps c.st.program, refOps g c.order, c.st.vars.length)
  | .error _ => none

/-- With the early return (`UCfg.pinned`) the value with three uses has usage count 1 … -/
theorem d6_witness_count : usageOf UCfg.pinned d6Graph 1 = some 1 ∧ usageOf fixedUCfg d6Graph 1 = some 3 := by decide

/-- … so the item access is inlined at each of its three uses: the emitted statements (`return (a[0], a[0], a[0])`)
evaluate three operations where the graph has one; with counting before the visited check the value is bound to a
variable (`b = a[0]; return (b, b, b)`) and evaluated once. -/
theorem d6_witness : opsSummary UCfg.pinned d6Graph = some (3, 1, 2) ∧ opsSummary fixedUCfg d6Graph = some (1, 1, 3) := by
  decide

/-! ### Emission order and "exactly one statement" -/

/-- **emit_order**: the sources of the emitted statements follow the traversal order: they form a sublist of the
visited applications (so the statement of an operand, which is visited first, precedes its consumer's). -/
theorem emit_order (c : Ctx) (order : List Visit) : ∀ (st st' : GState), emitAll c order st = .ok st' →
    ∃ l : List Nat, st'.srcs = st.srcs ++ l ∧ l.Sublist (order.filterMap Visit.src) := by
  induction order with
  | nil =>
    intro st st' h
    simp only [emitAll, List.foldlM, pure, Except.pure, Except.ok.injEq] at h
    subst h
    exact ⟨[], by simp, by simp⟩
  | cons v rest ih =>
    intro st st' h
    obtain ⟨s1, h1, h2⟩ := emitAll_cons c v rest st st' h
    obtain ⟨l1, e1, sub1, _⟩ := emitVisit_srcs c st s1 v h1
    obtain ⟨l2, e2, sub2⟩ := ih s1 st' h2
    refine ⟨l1 ++ l2, by rw [e2, e1, List.append_assoc], ?_⟩
    have : (v :: rest).filterMap Visit.src = v.src.toList ++ rest.filterMap Visit.src := by
      cases hv : v.src <;> simp [List.filterMap_cons, hv]
    rw [this]
    exact List.Sublist.append sub1 sub2

/-- **emit_once**: along a traversal without repetitions, every application of a kind that must become a statement
(call of an opaque callable, in-place call, item update, assert, import, constant) has exactly one statement;
applications that are not visited have none. -/
theorem emit_once (c : Ctx) (order : List Visit) : ∀ (st st' : GState), emitAll c order st = .ok st' →
    order.Nodup → ∀ (i : Nat) (a : App), c.g.apps[i]? = some a → a.isStmtKind c.g = true →
    st'.srcs.count i = st.srcs.count i + (if Visit.app i ∈ order then 1 else 0) := by
  induction order with
  | nil =>
    intro st st' h _ i a _ _
    simp only [emitAll, List.foldlM, pure, Except.pure, Except.ok.injEq] at h
    subst h
    simp
  | cons v rest ih =>
    intro st st' h hnd i a ha hk
    obtain ⟨s1, h1, h2⟩ := emitAll_cons c v rest st st' h
    obtain ⟨l1, e1, sub1, hone⟩ := emitVisit_srcs c st s1 v h1
    have hnd' := List.nodup_cons.1 hnd
    rw [ih s1 st' h2 hnd'.2 i a ha hk, e1, List.count_append]
    by_cases hv : v = .app i
    · subst hv
      rw [hone i a rfl ha hk]
      have : Visit.app i ∉ rest := hnd'.1
      simp [this]
    · have hl : l1.count i = 0 := by
        apply List.count_eq_zero.2
        intro hmem
        have := sub1.subset hmem
        cases v with
        | app j =>
          simp only [Visit.src, Option.toList, List.mem_singleton] at this
          exact hv (by rw [this])
        | enter g => simp [Visit.src] at this
        | exit g => simp [Visit.src] at this
      have hne : (Visit.app i ∈ v :: rest) ↔ (Visit.app i ∈ rest) := by
        simp only [List.mem_cons]
        constructor
        · rintro (h | h)
          · exact absurd h.symm hv
          · exact h
        · exact Or.inr
      simp only [hl, hne]
      omega

/-! ### Name sharing (`fuse`) -/

/-- **fuse_sound**: let `ρ` send every variable to the representative of its name group.  If the block satisfies the
interference condition (`fuseSafe`: when a statement writes the shared name of its output variable, no *other* variable
with that name is live afterwards) and the two initial states agree on the variables that are live on entry, then the
renamed block produces the same event trace and the same result.  (`ρ` may merge variables only where one is dead;
variables of other blocks that are read in this block are live on entry and therefore keep their own names.) -/
theorem fuse_sound (ρ : Nat → Nat) (l : List Stmt) (x x' : XState)
    (hsafe : fuseSafe ρ l = true)
    (henv : ∀ v ∈ liveIn l, x'.env (ρ v) = x.env v) (htrace : x'.trace = x.trace) (hret : x'.ret = x.ret) :
    (execBlock x' (l.map (Stmt.rename ρ))).trace = (execBlock x l).trace ∧
    (execBlock x' (l.map (Stmt.rename ρ))).ret = (execBlock x l).ret := by
  have := block_rel ρ l x x' hsafe ⟨henv, htrace, hret⟩
  exact ⟨this.trace, this.ret⟩

/-- Entry states that agree exist whenever distinct live-in variables keep distinct names (`entrySafe`). -/
theorem fuse_entry (ρ : Nat → Nat) (l : List Stmt) (env : Env) (hentry : entrySafe ρ l = true) :
    ∃ env' : Env, ∀ v ∈ liveIn l, env' (ρ v) = env v := by
  refine ⟨fun n => match (liveIn l).find? (fun v => ρ v == n) with | some v => env v | none => unbound n, ?_⟩
  intro v hv
  have hex : ∃ w, (liveIn l).find? (fun w => ρ w == ρ v) = some w := by
    cases hf : (liveIn l).find? (fun w => ρ w == ρ v) with
    | some w => exact ⟨w, rfl⟩
    | none =>
      have := List.find?_eq_none.1 hf v hv
      simp at this
  obtain ⟨w, hw⟩ := hex
  simp only [hw]
  have hwmem := List.mem_of_find?_eq_some hw
  have hwρ : ρ w = ρ v := by simpa using List.find?_some hw
  simp only [entrySafe, List.all_eq_true, Bool.or_eq_true, beq_iff_eq, bne_iff_ne] at hentry
  rcases hentry w hwmem v hv with h | h
  · rw [h]
  · exact absurd hwρ h

/-! ### Non-vacuity -/

/-- `a = f(a); a = g(a); return a`: three variables share one name, the block is safe, and the theorem applies. -/
example :
    let l : List Stmt := [.assign 1 (E.mk .call [.lit "f", .var 0]) true, .assign 2 (E.mk .call [.lit "g", .var 1]) true, .return_ (.var 2)]
    let ρ : Nat → Nat := fun _ => 0
    fuseSafe ρ l = true ∧ entrySafe ρ l = true ∧
    (execBlock { env := unbound } (l.map (Stmt.rename ρ))).ret = (execBlock { env := unbound } l).ret := by decide

/-- Merging a variable that is still needed is rejected: `b = f(a); return (a, b)` with `a`, `b` sharing a name. -/
example :
    fuseSafe (fun _ => 0) [.assign 1 (E.mk .call [.lit "f", .var 0]) true, .return_ (E.mk .tuple [.var 0, .var 1])] = false := by decide

/-- The D6 witness is a real compilation: traversal, scopes, names and text are all exercised. -/
example : (match compile UCfg.pinned ⟨true, true, false⟩ d6Graph with
    | .ok c => some (c.order, c.grp, fuseSafe (fun v => c.grp[v]?.getD v) c.st.program)
    | .error _ => none) = some ([.enter 0, .app 0, .exit 0], [0, 1], true) := by decide

end Einx.Compile
