import EinxModel.Proofs.Optimize
/-!
C05 — graph optimisation never changes what an operation computes, and terminates.

All statements are about `IR.evalProg` / `IR.planInstr` -- the evaluator and the numpy primitive plans that
the validator (C01) and the driver kind `equiv` execute -- for **every** element algebra (so for every
tensor content and every meaning of the elementary functions), every rank, shape and permutation.
`Extracted.*` is regenerated from `einx/_src/tracer/optimizer/classical.py` on every run
(tools/extract/kernels.py); the obligations below are re-proved against what the source says now.

A rewrite is sound when the rewritten program yields the same result whenever the original program runs;
registers are appended by every instruction, so "the operand of the second instruction is the result of
the first" is written `regs.length`.
-/
namespace Einx.Optimize
open Einx Einx.IR

/-! ## The permutation composition of `SkipTranspose` (classical.py:58) -/

/-- Obligation (T-src): the expression the source assigns to `new_perm` is `perm1[p] for p in perm2` with
Option-valued indexing.  Fails to build if the source composes the other way round. -/
theorem composePerm_spec (p1 p2 : List Nat) :
    Extracted.composePerm p1 p2 = p2.mapM (fun q => p1[q]?) := rfl

/-- On permutations of the same rank the extracted composition is defined (no index is out of range) ... -/
theorem composePerm_defined (p1 p2 : List Nat) (n : Nat) (h1 : isPerm p1 n = true) (h2 : isPerm p2 n = true) :
    (Extracted.composePerm p1 p2).isSome = true := by
  rw [composePerm_spec]
  apply mapM_isSome
  intro a ha
  have ha' : a < p1.length := by
    rw [(permOK_of_isPerm h1).len]; exact ((permOK_of_isPerm h2).mem a).1 ha
  simp [List.getElem?_eq_getElem ha']

/-- ... and is again a permutation of that rank. -/
theorem composePerm_isPerm (p1 p2 p : List Nat) (n : Nat) (h1 : isPerm p1 n = true) (h2 : isPerm p2 n = true)
    (hc : Extracted.composePerm p1 p2 = some p) : isPerm p n = true :=
  isPerm_of_permOK (compose_permOK (permOK_of_isPerm h1) (permOK_of_isPerm h2) hc)

/-- **transpose_transpose**: for permutations `p1`, `p2` of the rank of the operand, the program
`y = transpose(x, p1); z = transpose(y, p2)` and the program `z' = transpose(x, p)` with
`p = Extracted.composePerm p1 p2` (what `SkipTranspose` builds) compute the same tensor `z = z'` --
same shape, same elements -- over every element algebra. -/
theorem transpose_transpose {α : Type} (A : Alg α) (regs : List (Tensor α)) (x : Nat) (t : Tensor α)
    (p1 p2 p : List Nat) (hx : regs[x]? = some t)
    (h1 : isPerm p1 t.shape.length = true) (h2 : isPerm p2 t.shape.length = true)
    (hc : Extracted.composePerm p1 p2 = some p) :
    ∃ y z, evalProg A [.transpose x p1, .transpose regs.length p2] regs = .ok (regs ++ [y] ++ [z]) ∧
      evalProg A [.transpose x p] regs = .ok (regs ++ [z]) := by
  obtain ⟨y, z, e1, e2, e3⟩ := transpose_transpose_step A regs x t p1 p2 p hx h1 h2 hc
  exact ⟨y, z, evalProg_two A regs _ _ y z e1 e2, evalProg_one A regs _ z e3⟩

/-- Obligation: the no-op test of `SkipTranspose` holds only for the identity permutation of the operand's rank. -/
theorem transposeNoop_sound (perm : List Nat) (n : Nat) (h : Extracted.transposeNoop perm n = true) :
    perm = List.range n := by
  simpa [Extracted.transposeNoop] using h

/-- **transpose_id**: transposing by the identity permutation returns the operand. -/
theorem transpose_id {α : Type} (A : Alg α) (regs : List (Tensor α)) (x : Nat) (t : Tensor α) (perm : List Nat)
    (hx : regs[x]? = some t) (hwf : t.data.length = prod t.shape)
    (h : Extracted.transposeNoop perm t.shape.length = true) :
    evalProg A [.transpose x perm] regs = .ok (regs ++ [t]) := by
  rw [transposeNoop_sound perm _ h]
  exact evalProg_one A regs _ t (transpose_id_step A regs x t hx hwf)

/-! ## Reshape -/

/-- Obligation: the no-op test of `SkipReshape` holds only when the target shape is the operand's shape. -/
theorem reshapeNoop_sound (shape inputShape : List Nat) (h : Extracted.reshapeNoop shape inputShape = true) :
    shape = inputShape := by
  simpa [Extracted.reshapeNoop] using h

/-- **reshape_same**: a reshape to the operand's own shape returns the operand. -/
theorem reshape_same {α : Type} (A : Alg α) (regs : List (Tensor α)) (x : Nat) (t : Tensor α) (shape : List Nat)
    (hx : regs[x]? = some t) (hwf : t.data.length = prod t.shape)
    (h : Extracted.reshapeNoop shape t.shape = true) :
    evalProg A [.reshape x shape] regs = .ok (regs ++ [t]) := by
  rw [reshapeNoop_sound _ _ h]
  exact evalProg_one A regs _ t (reshape_same_step A regs x t hx hwf)

/-- **reshape_reshape**: whenever `y = reshape(x, s1); z = reshape(y, s2)` runs, `reshape(x, s2)` (what
`SkipReshape` builds: the inner operand with the OUTER shape) runs and gives the same `z`. -/
theorem reshape_reshape {α : Type} (A : Alg α) (regs : List (Tensor α)) (x : Nat) (t : Tensor α)
    (s1 s2 : List Nat) (hx : regs[x]? = some t) (r : List (Tensor α))
    (hrun : evalProg A [.reshape x s1, .reshape regs.length s2] regs = .ok r) :
    ∃ y z, r = regs ++ [y] ++ [z] ∧ evalProg A [.reshape x s2] regs = .ok (regs ++ [z]) := by
  by_cases h1 : prod t.shape = prod s1
  · have e1 := step_reshape A regs x t s1 hx h1
    by_cases h2 : prod s1 = prod s2
    · obtain ⟨y, z, f1, f2, f3⟩ := reshape_reshape_step A regs x t s1 s2 hx h1 h2
      rw [evalProg_two A regs _ _ y z f1 f2] at hrun
      exact ⟨y, z, (Except.ok.inj hrun).symm, evalProg_one A regs _ z f3⟩
    · exfalso
      obtain ⟨e, he⟩ := step_reshape_error A (regs ++ [⟨s1, _⟩]) regs.length ⟨s1, _⟩ s2 (getElem?_append_last regs _) h2
      rw [evalProg_two_error A regs _ _ _ e e1 he] at hrun
      cases hrun
  · exfalso
    obtain ⟨e, he⟩ := step_reshape_error A regs x t s1 hx h1
    rw [evalProg_one_error A regs _ _ e he] at hrun
    cases hrun

/-- Obligations (structural anchors): the merged nodes are built from the inner node's operand, with the
outer shape (reshape) and with `new_perm` where `perm1` is the inner and `perm2` the outer permutation. -/
theorem merge_operands : Extracted.reshapeMergeOperands = true ∧ Extracted.transposeMergeOperands = true := by
  decide

/-! ## broadcast_to, concatenate -/

/-- Obligation: the no-op test of `SkipBroadcastTo`. -/
theorem broadcastNoop_sound (shape inputShape : List Nat) (h : Extracted.broadcastNoop shape inputShape = true) :
    shape = inputShape := by
  simpa [Extracted.broadcastNoop] using h

/-- **broadcast_same**: broadcasting to the operand's own shape returns the operand. -/
theorem broadcast_same {α : Type} (A : Alg α) (regs : List (Tensor α)) (x : Nat) (t : Tensor α) (shape : List Nat)
    (hx : regs[x]? = some t) (hwf : t.data.length = prod t.shape)
    (h : Extracted.broadcastNoop shape t.shape = true) :
    evalProg A [.broadcastTo x shape] regs = .ok (regs ++ [t]) := by
  rw [broadcastNoop_sound _ _ h]
  exact evalProg_one A regs _ t (broadcast_same_step A regs x t hx hwf)

/-- Obligation: the no-op test of `SkipConcatenate` holds only for a one-element operand list. -/
theorem concatNoop_sound (xs : List Nat) (h : Extracted.concatNoop xs.length = true) : ∃ x, xs = [x] := by
  have hl : xs.length = 1 := by simpa [Extracted.concatNoop] using h
  match xs, hl with
  | [x], _ => exact ⟨x, rfl⟩

/-- **concat_singleton**: concatenating a single tensor (along a valid axis) returns that tensor. -/
theorem concat_singleton {α : Type} (A : Alg α) (regs : List (Tensor α)) (xs : List Nat) (x axis : Nat) (t : Tensor α)
    (h : Extracted.concatNoop xs.length = true) (h0 : xs[0]? = some x)
    (hx : regs[x]? = some t) (hwf : t.data.length = prod t.shape) (hax : axis < t.shape.length) :
    evalProg A [.concat xs axis] regs = .ok (regs ++ [t]) := by
  obtain ⟨x', rfl⟩ := concatNoop_sound xs h
  simp at h0
  subst h0
  exact evalProg_one A regs _ t (concat_singleton_step A regs x' axis t hx hwf hax)

/-! ## Pass structure and termination -/

/-- Obligations (structural anchors of `optimizer.py` and of the numpy backend's pattern list). -/
theorem optimizer_structure :
    Extracted.optimizerMemoFirst = true ∧ Extracted.optimizerLoop = true ∧
    Extracted.numpyPatterns = [("SkipReshape", "np.reshape"), ("SkipTranspose", "np.transpose"),
      ("SkipBroadcastTo", "np.broadcast_to"), ("SkipConcatenate", "np.concatenate"), ("InlineGraph", ""), ("SkipCast", "")] := by
  decide

/-- **pass_decreases** (term model of the six patterns, built from the `Extracted.*` tests and composition): a pass
that reports a change strictly decreases the number of call/cast nodes of the tree; a pass never increases it. -/
theorem pass_decreases (t : Term) :
    (rewrite t).1.size ≤ t.size ∧ ((rewrite t).2 = true → (rewrite t).1.size < t.size) :=
  ⟨(rewrite_facts t).1, (rewrite_facts t).2.1⟩

/-- A pass that reports no change returns the graph it was given. -/
theorem pass_unchanged (t : Term) (h : (rewrite t).2 = false) : (rewrite t).1 = t :=
  (rewrite_facts t).2.2 h

/-- The optimiser loop on the term model stops after at most `size t + 1` passes, at a term that a further pass
leaves unchanged (a fixed point of `rewrite`). -/
theorem optimize_term_fixpoint (t : Term) :
    (termPassModel.fix t).2 ≤ t.size + 1 ∧ rewrite (termPassModel.fix t).1 = ((termPassModel.fix t).1, false) := by
  refine ⟨(fix_iter_aux termPassModel t.size t (Nat.le_refl _) _ (Nat.le_refl _)).2, ?_⟩
  obtain ⟨g', hg, he⟩ : ∃ g', (rewrite g').2 = false ∧ (termPassModel.fix t).1 = (rewrite g').1 := by
    induction h : t.size using Nat.strongRecOn generalizing t with
    | _ n ih =>
      rw [fix_unfold]
      by_cases hc : (termPassModel.pass t).2 = true
      · simp only [hc, if_true]
        exact ih _ (by rw [← h]; exact termPassModel.decreases t hc) _ rfl
      · simp only [hc, Bool.false_eq_true, if_false]
        exact ⟨t, by simpa [termPassModel] using hc, rfl⟩
  have hid := pass_unchanged g' hg
  rw [he, hid]
  exact Prod.ext hid hg

/-- **optimize_terminates**: if every pass that reports a change strictly decreases the measure, the loop
`while True: x = pass(x); if not changed: break` stops after at most `measure g + 1` passes: the
fuel-bounded loop with that much fuel completes and agrees with the loop defined by well-founded recursion. -/
theorem optimize_terminates {G : Type} (P : PassModel G) (g : G) :
    P.iter (P.measure g + 1) g = some (P.fix g) ∧ (P.fix g).2 ≤ P.measure g + 1 :=
  fix_iter_aux P (P.measure g) g (Nat.le_refl _) _ (Nat.le_refl _)

/-- The loop ends with a pass that reported no change, and returns that pass's graph. -/
theorem optimize_fixpoint {G : Type} (P : PassModel G) (g : G) :
    ∃ g', (P.pass g').2 = false ∧ (P.fix g).1 = (P.pass g').1 := by
  induction h : P.measure g using Nat.strongRecOn generalizing g with
  | _ n ih =>
    rw [fix_unfold]
    by_cases hc : (P.pass g).2 = true
    · simp only [hc, if_true]
      exact ih _ (by rw [← h]; exact P.decreases g hc) _ rfl
    · simp only [hc, Bool.false_eq_true, if_false]
      exact ⟨g, by simpa using hc, rfl⟩

/-! ## Symbolic equivalence of the graph before and after optimisation (driver kind `equiv`) -/

/-- **equiv_sound**: if `equivProgs` accepts the programs translated from the unoptimised and the optimised
graph, then for all integer inputs of those shapes, all interpretations of the elementary functions and
any value for out-of-range reads both programs run and their output registers are equal. -/
theorem equiv_sound (prog1 : List Instr) (outs1 : List Nat) (prog2 : List Instr) (outs2 : List Nat)
    (I : String → List Int → Int) (bad : Int) (xs : List (Tensor Int))
    (hlen : ∀ x ∈ xs, x.data.length = prod x.shape)
    (h : equivProgs prog1 outs1 prog2 outs2 (xs.map (·.shape)) = true) :
    ∃ regs1 regs2, evalProg (intAlgOf I bad) prog1 xs = .ok regs1 ∧
      evalProg (intAlgOf I bad) prog2 xs = .ok regs2 ∧
      outs1.map (fun r => regs1[r]?) = outs2.map (fun r => regs2[r]?) := by
  unfold equivProgs at h
  cases h2 : symRun prog2 (xs.map (·.shape)) outs2 with
  | error e => simp [h2] at h
  | ok exp =>
    simp only [h2] at h
    obtain ⟨regs2, r2, o2⟩ := symRun_sound prog2 outs2 exp I bad xs hlen h2
    unfold validate at h
    cases h1 : symRun prog1 (xs.map (·.shape)) outs1 with
    | error e => simp [h1] at h
    | ok res =>
      simp only [h1] at h
      have heq := tensorsBeq_eq _ _ h
      subst heq
      obtain ⟨regs1, r1, o1⟩ := symRun_sound prog1 outs1 res I bad xs hlen h1
      exact ⟨regs1, regs2, r1, r2, o1.trans o2.symm⟩

/-! ## Non-vacuity -/

/-- The extracted composition on concrete permutations of rank 3 ... -/
example : Extracted.composePerm [1, 2, 0] [0, 2, 1] = some [1, 0, 2] := by decide

/-- ... the hypotheses of `transpose_transpose` are met (rank 3, distinct non-involutive permutations) ... -/
example : isPerm [1, 2, 0] 3 = true ∧ isPerm [0, 2, 1] 3 = true := by decide

/-- ... `equivProgs` accepts the merge on a tensor whose axis lengths coincide (shape (2,2,2): shapes cannot
tell the two composition orders apart) ... -/
example : equivProgs [.transpose 0 [1, 2, 0], .transpose 1 [0, 2, 1]] [2] [.transpose 0 [1, 0, 2]] [1] [[2, 2, 2]] = true := by
  decide +kernel

/-- ... and rejects the reversed composition `perm2[p] for p in perm1` = [2, 1, 0] on the same tensor. -/
example : equivProgs [.transpose 0 [1, 2, 0], .transpose 1 [0, 2, 1]] [2] [.transpose 0 [2, 1, 0]] [1] [[2, 2, 2]] = false := by
  decide +kernel

/-- The term model on `add(transpose(transpose(x, [1,2,0]), [0,2,1]), cast(reshape(reshape(y, [6,4]), [2,3,4])))`: two passes
(the merges and the cast removal fire in the first; the second removes the reshape that has become a no-op; the third reports
unchanged), result `add(transpose(x, [1,0,2]), y)`. -/
example : termPassModel.iter 5 (.op2 "add" (.transpose (.transpose (.input 0 [2, 3, 4]) [1, 2, 0]) [0, 2, 1])
      (.cast (.reshape (.reshape (.input 1 [2, 3, 4]) [6, 4]) [2, 3, 4])) [3, 2, 4])
    = some (.op2 "add" (.transpose (.input 0 [2, 3, 4]) [1, 0, 2]) (.input 1 [2, 3, 4]) [3, 2, 4], 3) := by
  rfl

/-- A pass model that fires until a counter reaches 0: three passes fire from 3, the fourth reports unchanged. -/
example : (PassModel.fix ⟨fun n => (n - 1, decide (0 < n)), id, by intro g h; simp at h ⊢; omega⟩ 3) = (0, 4) := by
  simp [fix_unfold]

end Einx.Optimize
