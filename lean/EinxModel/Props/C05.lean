import EinxModel.Proofs.OptimizeSound
/-!
C05 — graph optimisation never changes what an operation computes, and terminates.

All statements are about `IR.evalProg` / `IR.planInstr` -- the evaluator and the numpy primitive plans that
the validator (C01) and the driver kind `equiv` execute -- for **every** element algebra (so for every
tensor content and every meaning of the elementary functions), every rank, shape and permutation.
`Extracted.*` is regenerated from `einx/_src/tracer/optimizer/classical.py` on every run
(tools/extract/kernels.py); the obligations below are re-proved against what the source says now.

A rewrite is sound when the rewritten program yields the same result whenever the original program runs;
registers are appended by every instruction, so "the operand of the second instruction is the result of
the first" is written `regs.length`.

Whole passes: `Term.evalWith` / `Term.eval` (Optimize/Rules.lean) give the term model of the six patterns the
semantics of the same executor (every node is one `step` = one instruction of `evalProg` on the values of its
operands); `rule_sound` / `rewrites_sound` prove that the patterns applied anywhere, in any order, preserve what a
term computes, `rewrite_sound` that one pass of the model does, `optimize_sound` that the optimiser loop
does, `optimize_sound_fixpoint` adds that the result is a fixed point of the pass.  Sharing: `rebuild_preserves`
/ `optimize_lets_sound` for graphs given as lists of let-bound terms (a shared value is rewritten once, all
consumers read the rewritten value), `unfold_sound` / `unfold_rewrite_sound` for their tree unfolding.
-/
namespace Einx.Optimize
open Einx Einx.IR

/-! ## The permutation composition of `SkipTranspose` (classical.py:58) -/

/-- Obligation (T-src): the expression the source assigns to `new_perm` is `perm1[p] for p in perm2` with
Option-valued indexing.  Fails to build if the source composes the other way round. -/
theorem composePerm_spec (p1 p2 : List Nat) :
    Extracted.composePerm p1 p2 = p2.mapM (fun q => p1[q]?) := rfl

/-- On permutations of the same rank the extracted composition is defined (no index is out of range) ... -/
theorem composePerm_defined (p1 p2 : List Nat) (n : Nat) (h1 : isPerm p1 n = true) (h2 : isPerm p2 n = true) :
    (Extracted.composePerm p1 p2).isSome = true := by
  rw [composePerm_spec]
  apply mapM_isSome
  intro a ha
  have ha' : a < p1.length := by
    rw [(permOK_of_isPerm h1).len]; exact ((permOK_of_isPerm h2).mem a).1 ha
  simp [List.getElem?_eq_getElem ha']

/-- ... and is again a permutation of that rank. -/
theorem composePerm_isPerm (p1 p2 p : List Nat) (n : Nat) (h1 : isPerm p1 n = true) (h2 : isPerm p2 n = true)
    (hc : Extracted.composePerm p1 p2 = some p) : isPerm p n = true :=
  isPerm_of_permOK (compose_permOK (permOK_of_isPerm h1) (permOK_of_isPerm h2) hc)

/-- **transpose_transpose**: for permutations `p1`, `p2` of the rank of the operand, the program
`y = transpose(x, p1); z = transpose(y, p2)` and the program `z' = transpose(x, p)` with
`p = Extracted.composePerm p1 p2` (what `SkipTranspose` builds) compute the same tensor `z = z'` --
same shape, same elements -- over every element algebra. -/
theorem transpose_transpose {α : Type} (A : Alg α) (regs : List (Tensor α)) (x : Nat) (t : Tensor α)
    (p1 p2 p : List Nat) (hx : regs[x]? = some t)
    (h1 : isPerm p1 t.shape.length = true) (h2 : isPerm p2 t.shape.length = true)
    (hc : Extracted.composePerm p1 p2 = some p) :
    ∃ y z, evalProg A [.transpose x p1, .transpose regs.length p2] regs = .ok (regs ++ [y] ++ [z]) ∧
      evalProg A [.transpose x p] regs = .ok (regs ++ [z]) := by
  obtain ⟨y, z, e1, e2, e3⟩ := transpose_transpose_step A regs x t p1 p2 p hx h1 h2 hc
  exact ⟨y, z, evalProg_two A regs _ _ y z e1 e2, evalProg_one A regs _ z e3⟩

/-- Obligation: the no-op test of `SkipTranspose` holds only for the identity permutation of the operand's rank. -/
theorem transposeNoop_sound (perm : List Nat) (n : Nat) (h : Extracted.transposeNoop perm n = true) :
    perm = List.range n := by
  simpa [Extracted.transposeNoop] using h

/-- **transpose_id**: transposing by the identity permutation returns the operand. -/
theorem transpose_id {α : Type} (A : Alg α) (regs : List (Tensor α)) (x : Nat) (t : Tensor α) (perm : List Nat)
    (hx : regs[x]? = some t) (hwf : t.data.length = prod t.shape)
    (h : Extracted.transposeNoop perm t.shape.length = true) :
    evalProg A [.transpose x perm] regs = .ok (regs ++ [t]) := by
  rw [transposeNoop_sound perm _ h]
  exact evalProg_one A regs _ t (transpose_id_step A regs x t hx hwf)

/-! ## Reshape -/

/-- Obligation: the no-op test of `SkipReshape` holds only when the target shape is the operand's shape. -/
theorem reshapeNoop_sound (shape inputShape : List Nat) (h : Extracted.reshapeNoop shape inputShape = true) :
    shape = inputShape := by
  simpa [Extracted.reshapeNoop] using h

/-- **reshape_same**: a reshape to the operand's own shape returns the operand. -/
theorem reshape_same {α : Type} (A : Alg α) (regs : List (Tensor α)) (x : Nat) (t : Tensor α) (shape : List Nat)
    (hx : regs[x]? = some t) (hwf : t.data.length = prod t.shape)
    (h : Extracted.reshapeNoop shape t.shape = true) :
    evalProg A [.reshape x shape] regs = .ok (regs ++ [t]) := by
  rw [reshapeNoop_sound _ _ h]
  exact evalProg_one A regs _ t (reshape_same_step A regs x t hx hwf)

/-- **reshape_reshape**: whenever `y = reshape(x, s1); z = reshape(y, s2)` runs, `reshape(x, s2)` (what
`SkipReshape` builds: the inner operand with the OUTER shape) runs and gives the same `z`. -/
theorem reshape_reshape {α : Type} (A : Alg α) (regs : List (Tensor α)) (x : Nat) (t : Tensor α)
    (s1 s2 : List Nat) (hx : regs[x]? = some t) (r : List (Tensor α))
    (hrun : evalProg A [.reshape x s1, .reshape regs.length s2] regs = .ok r) :
    ∃ y z, r = regs ++ [y] ++ [z] ∧ evalProg A [.reshape x s2] regs = .ok (regs ++ [z]) := by
  by_cases h1 : prod t.shape = prod s1
  · have e1 := step_reshape A regs x t s1 hx h1
    by_cases h2 : prod s1 = prod s2
    · obtain ⟨y, z, f1, f2, f3⟩ := reshape_reshape_step A regs x t s1 s2 hx h1 h2
      rw [evalProg_two A regs _ _ y z f1 f2] at hrun
      exact ⟨y, z, (Except.ok.inj hrun).symm, evalProg_one A regs _ z f3⟩
    · exfalso
      obtain ⟨e, he⟩ := step_reshape_error A (regs ++ [⟨s1, _⟩]) regs.length ⟨s1, _⟩ s2 (getElem?_append_last regs _) h2
      rw [evalProg_two_error A regs _ _ _ e e1 he] at hrun
      cases hrun
  · exfalso
    obtain ⟨e, he⟩ := step_reshape_error A regs x t s1 hx h1
    rw [evalProg_one_error A regs _ _ e he] at hrun
    cases hrun

/-- Obligations (structural anchors): the merged nodes are built from the inner node's operand, with the
outer shape (reshape) and with `new_perm` where `perm1` is the inner and `perm2` the outer permutation. -/
theorem merge_operands : Extracted.reshapeMergeOperands = true ∧ Extracted.transposeMergeOperands = true := by
  decide

/-! ## broadcast_to, concatenate -/

/-- Obligation: the no-op test of `SkipBroadcastTo`. -/
theorem broadcastNoop_sound (shape inputShape : List Nat) (h : Extracted.broadcastNoop shape inputShape = true) :
    shape = inputShape := by
  simpa [Extracted.broadcastNoop] using h

/-- **broadcast_same**: broadcasting to the operand's own shape returns the operand. -/
theorem broadcast_same {α : Type} (A : Alg α) (regs : List (Tensor α)) (x : Nat) (t : Tensor α) (shape : List Nat)
    (hx : regs[x]? = some t) (hwf : t.data.length = prod t.shape)
    (h : Extracted.broadcastNoop shape t.shape = true) :
    evalProg A [.broadcastTo x shape] regs = .ok (regs ++ [t]) := by
  rw [broadcastNoop_sound _ _ h]
  exact evalProg_one A regs _ t (broadcast_same_step A regs x t hx hwf)

/-- Obligation: the no-op test of `SkipConcatenate` holds only for a one-element operand list. -/
theorem concatNoop_sound (xs : List Nat) (h : Extracted.concatNoop xs.length = true) : ∃ x, xs = [x] := by
  have hl : xs.length = 1 := by simpa [Extracted.concatNoop] using h
  match xs, hl with
  | [x], _ => exact ⟨x, rfl⟩

/-- **concat_singleton**: concatenating a single tensor (along a valid axis) returns that tensor. -/
theorem concat_singleton {α : Type} (A : Alg α) (regs : List (Tensor α)) (xs : List Nat) (x axis : Nat) (t : Tensor α)
    (h : Extracted.concatNoop xs.length = true) (h0 : xs[0]? = some x)
    (hx : regs[x]? = some t) (hwf : t.data.length = prod t.shape) (hax : axis < t.shape.length) :
    evalProg A [.concat xs axis] regs = .ok (regs ++ [t]) := by
  obtain ⟨x', rfl⟩ := concatNoop_sound xs h
  simp at h0
  subst h0
  exact evalProg_one A regs _ t (concat_singleton_step A regs x' axis t hx hwf hax)

/-! ## Pass structure and termination -/

/-- Obligations (structural anchors of `optimizer.py` and of the numpy backend's pattern list). -/
theorem optimizer_structure :
    Extracted.optimizerMemoFirst = true ∧ Extracted.optimizerLoop = true ∧
    Extracted.numpyPatterns = [("SkipReshape", "np.reshape"), ("SkipTranspose", "np.transpose"),
      ("SkipBroadcastTo", "np.broadcast_to"), ("SkipConcatenate", "np.concatenate"), ("InlineGraph", ""), ("SkipCast", "")] := by
  decide

/-- **pass_decreases** (term model of the six patterns, built from the `Extracted.*` tests and composition): a pass
that reports a change strictly decreases the number of call/cast nodes of the tree; a pass never increases it. -/
theorem pass_decreases (t : Term) :
    (rewrite t).1.size ≤ t.size ∧ ((rewrite t).2 = true → (rewrite t).1.size < t.size) :=
  ⟨(rewrite_facts t).1, (rewrite_facts t).2.1⟩

/-- A pass that reports no change returns the graph it was given. -/
theorem pass_unchanged (t : Term) (h : (rewrite t).2 = false) : (rewrite t).1 = t :=
  (rewrite_facts t).2.2 h

/-- The optimiser loop on the term model stops after at most `size t + 1` passes, at a term that a further pass
leaves unchanged (a fixed point of `rewrite`). -/
theorem optimize_term_fixpoint (t : Term) :
    (termPassModel.fix t).2 ≤ t.size + 1 ∧ rewrite (termPassModel.fix t).1 = ((termPassModel.fix t).1, false) := by
  refine ⟨(fix_iter_aux termPassModel t.size t (Nat.le_refl _) _ (Nat.le_refl _)).2, ?_⟩
  obtain ⟨g', hg, he⟩ : ∃ g', (rewrite g').2 = false ∧ (termPassModel.fix t).1 = (rewrite g').1 := by
    induction h : t.size using Nat.strongRecOn generalizing t with
    | _ n ih =>
      rw [fix_unfold]
      by_cases hc : (termPassModel.pass t).2 = true
      · simp only [hc, if_true]
        exact ih _ (by rw [← h]; exact termPassModel.decreases t hc) _ rfl
      · simp only [hc, Bool.false_eq_true, if_false]
        exact ⟨t, by simpa [termPassModel] using hc, rfl⟩
  have hid := pass_unchanged g' hg
  rw [he, hid]
  exact Prod.ext hid hg

/-- **optimize_terminates**: if every pass that reports a change strictly decreases the measure, the loop
`while True: x = pass(x); if not changed: break` stops after at most `measure g + 1` passes: the
fuel-bounded loop with that much fuel completes and agrees with the loop defined by well-founded recursion. -/
theorem optimize_terminates {G : Type} (P : PassModel G) (g : G) :
    P.iter (P.measure g + 1) g = some (P.fix g) ∧ (P.fix g).2 ≤ P.measure g + 1 :=
  fix_iter_aux P (P.measure g) g (Nat.le_refl _) _ (Nat.le_refl _)

/-- The loop ends with a pass that reported no change, and returns that pass's graph. -/
theorem optimize_fixpoint {G : Type} (P : PassModel G) (g : G) :
    ∃ g', (P.pass g').2 = false ∧ (P.fix g).1 = (P.pass g').1 := by
  induction h : P.measure g using Nat.strongRecOn generalizing g with
  | _ n ih =>
    rw [fix_unfold]
    by_cases hc : (P.pass g).2 = true
    · simp only [hc, if_true]
      exact ih _ (by rw [← h]; exact P.decreases g hc) _ rfl
    · simp only [hc, Bool.false_eq_true, if_false]
      exact ⟨g, by simpa using hc, rfl⟩

/-! ## Whole passes preserve what a graph computes (term model with evaluation semantics)

`Term.evalWith A O inputs t` runs the term over the element algebra `A` with the IR executor: every node is one
`step` (= one instruction of `IR.evalProg`, `step_iff_evalProg`) on the register file that holds the values of
its operands; the calls the patterns never inspect (`op2 f`) mean `O f` -- any partial function of the two operand
values whose results have the size their shapes say (`O.WF`).  `Term.eval A` is the instance in which they are
elementwise numpy calls executed by `Instr.ewise` (`ewiseOp`, `ewiseOp_wf`), so that the whole term is executed by
the primitive plans of IR/Prim.lean (`rewrite_sound_prim`, `optimize_sound_prim`, `rebuild_preserves_prim`).  The statements hold for every element algebra (every tensor content, every meaning of the
elementary functions), every rank, shape, permutation and every nesting of nodes.  Inputs are tensors whose
data have the size their shapes say (`hin`; the same hypothesis as in `equiv_sound`).

Soundness is stated the way the rule theorems state it: *if the original term runs* (its traced shapes are
true, every numpy call is valid), the rewritten term runs and yields the same tensor.  The converse direction
is false and not wanted: a pass may remove a call that would have raised (`concatenate([x], axis)` with an
invalid axis is removed by `SkipConcatenate`; witness below). -/

/-- **rule_sound**: one application of a pattern at the root of a term -- the pattern's own test (`Extracted.*Noop`)
and replacement (inner operand with the outer shape / with `Extracted.composePerm`) -- preserves what the term
evaluates to.  These are the rule theorems above, on the one-register file `Term.evalWith` uses. -/
theorem rule_sound {α : Type} (A : Alg α) (O : Op2 α) (hO : O.WF) (inputs : List (Tensor α))
    (hin : ∀ x ∈ inputs, x.data.length = prod x.shape) {t t' : Term} (hr : Rule t t') :
    ∀ v, t.evalWith A O inputs = .ok v → t'.evalWith A O inputs = .ok v := by
  intro v h
  cases hr with
  | reshapeNoop x s hn => exact eval_reshape_noop A O inputs hO hin _ s v (reshapeNoop_sound _ _ hn) h
  | reshapeMerge x s1 s => exact eval_reshape_merge A O inputs x x s1 s v (fun _ hw => hw) h
  | transposeNoop x p hn => exact eval_transpose_noop A O inputs hO hin _ p v (transposeNoop_sound _ _ hn) h
  | transposeMerge x p1 p2 p hc => exact eval_transpose_merge A O inputs x x p1 p2 p v hc (fun _ hw => hw) h
  | broadcastNoop x s hn => exact eval_broadcastTo_noop A O inputs hO hin _ s v (broadcastNoop_sound _ _ hn) h
  | concatNoop x axis hn => exact eval_concat1_noop A O inputs hO hin _ axis v h
  | skipCast x => rwa [eval_cast] at h

/-- **rewrites_sound**: patterns applied anywhere in a term, any number of times, in any order -- whatever the
traversal strategy and whatever is memoised -- preserve what the term evaluates to. -/
theorem rewrites_sound {α : Type} (A : Alg α) (O : Op2 α) (hO : O.WF) (inputs : List (Tensor α))
    (hin : ∀ x ∈ inputs, x.data.length = prod x.shape) {t t' : Term} (hr : Rewrites t t') :
    ∀ v, t.evalWith A O inputs = .ok v → t'.evalWith A O inputs = .ok v := by
  induction hr with
  | refl t => intro v h; exact h
  | rule hr => exact rule_sound A O hO inputs hin hr
  | trans _ _ ih1 ih2 => intro v h; exact ih2 v (ih1 v h)
  | reshape s _ ih => intro v h; exact eval_reshape_congr A O inputs inputs _ _ s v ih h
  | transpose p _ ih => intro v h; exact eval_transpose_congr A O inputs inputs _ _ p v ih h
  | broadcastTo s _ ih => intro v h; exact eval_broadcastTo_congr A O inputs inputs _ _ s v ih h
  | concat1 axis _ ih => intro v h; exact eval_concat1_congr A O inputs inputs _ _ axis v ih h
  | concat2 axis _ _ ihx ihy => intro v h; exact eval_concat2_congr A O inputs inputs _ _ _ _ axis v ihx ihy h
  | cast _ ih => intro v h; rw [eval_cast] at h ⊢; exact ih v h
  | op2 f s _ _ ihx ihy => intro v h; exact eval_op2_congr A O inputs inputs f _ _ _ _ s v ihx ihy h

/-- **rewrite_sound** (value form): whatever a term evaluates to, the term after one pass of the six patterns
evaluates to the same tensor: the pass is a strategy of the rewrite system (`rewrite_rewrites`, by induction along the
case analysis of `rewrite`). -/
theorem rewrite_sound_ok {α : Type} (A : Alg α) (O : Op2 α) (hO : O.WF) (inputs : List (Tensor α))
    (hin : ∀ x ∈ inputs, x.data.length = prod x.shape) (t : Term) :
    ∀ v, t.evalWith A O inputs = .ok v → (rewrite t).1.evalWith A O inputs = .ok v :=
  rewrites_sound A O hO inputs hin (rewrite_rewrites t)

/-- **rewrite_sound** (`pass_sound`): whenever a term runs, the term after one pass computes the same. -/
theorem rewrite_sound {α : Type} (A : Alg α) (O : Op2 α) (hO : O.WF) (inputs : List (Tensor α))
    (hin : ∀ x ∈ inputs, x.data.length = prod x.shape) (t : Term) (hrun : ∃ v, t.evalWith A O inputs = .ok v) :
    (rewrite t).1.evalWith A O inputs = t.evalWith A O inputs := by
  obtain ⟨v, hv⟩ := hrun
  rw [hv]
  exact rewrite_sound_ok A O hO inputs hin t v hv

/-- The traced shape of a term that runs is the shape of its value (so the patterns, which read traced
shapes, read the run-time shapes), and values have the size their shapes say. -/
theorem eval_shape_wf {α : Type} (A : Alg α) (O : Op2 α) (hO : O.WF) (inputs : List (Tensor α))
    (hin : ∀ x ∈ inputs, x.data.length = prod x.shape) (t : Term) (v : Tensor α) (h : t.evalWith A O inputs = .ok v) :
    v.shape = t.shape ∧ v.data.length = prod v.shape :=
  ⟨eval_shape A O inputs t v h, eval_wf A O hO inputs hin t v h⟩

/-- **optimize_sound**: the optimiser loop (passes repeated until one reports no change) returns a term that
computes the same as the term it was given. -/
theorem optimize_sound {α : Type} (A : Alg α) (O : Op2 α) (hO : O.WF) (inputs : List (Tensor α))
    (hin : ∀ x ∈ inputs, x.data.length = prod x.shape) (t : Term) (hrun : ∃ v, t.evalWith A O inputs = .ok v) :
    (termPassModel.fix t).1.evalWith A O inputs = t.evalWith A O inputs := by
  obtain ⟨v, hv⟩ := hrun
  rw [hv]
  exact fix_invariant termPassModel (fun g => g.evalWith A O inputs = .ok v)
    (fun g hg => rewrite_sound_ok A O hO inputs hin g v hg) t hv

/-- **optimize_sound_fixpoint**: the optimiser model stops after at most `size t + 1` passes at a fixed point
of the pass that computes the same function of the inputs as the original term -- for every element algebra
and all well-formed inputs on which the original runs. -/
theorem optimize_sound_fixpoint (t : Term) :
    (termPassModel.fix t).2 ≤ t.size + 1 ∧
    rewrite (termPassModel.fix t).1 = ((termPassModel.fix t).1, false) ∧
    ∀ {α : Type} (A : Alg α) (O : Op2 α), O.WF → ∀ inputs : List (Tensor α), (∀ x ∈ inputs, x.data.length = prod x.shape) →
      (∃ v, t.evalWith A O inputs = .ok v) → (termPassModel.fix t).1.evalWith A O inputs = t.evalWith A O inputs :=
  ⟨(optimize_term_fixpoint t).1, (optimize_term_fixpoint t).2,
    fun A O hO inputs hin hrun => optimize_sound A O hO inputs hin t hrun⟩

/-! ### Sharing

Real graphs are DAGs and `Optimizer._optimize` rebuilds them with the memo `id_to_newobj`: a node is rewritten
once and every consumer receives the same rewritten object.  Model: a graph is a list of let-bound terms
(`evalLets`: binding `k` is a term over `inputs ++ [values of bindings < k]`; a shared value is a binding read by
several later leaves), a memoised pass is `rewriteLets` (every binding rewritten once; consumers keep reading it by
position).  In this model patterns do not look through a binding; what the real patterns do across a shared node
(e.g. merging a reshape into a *shared* inner reshape, which duplicates the inner node's operand edge) is covered
by the tree unfolding (`unfold_rewrite_sound`): for pure nodes the unfolding computes the same values, and any
number of passes on it is sound.  Nodes that mutate their operand in place are not pure; they are outside the term
model and stay with the per-graph check (driver kind `equiv` and the node-by-node evaluator of tools/props/c05.py). -/

/-- **rebuild_preserves**: if the bindings run, the bindings after one memoised pass run and produce the same
register file: every binding -- in particular a value with two or more consumers -- is rewritten once, computes the
same tensor, and all its consumers read that tensor. -/
theorem rebuild_preserves {α : Type} (A : Alg α) (O : Op2 α) (hO : O.WF) (inputs : List (Tensor α))
    (hin : ∀ x ∈ inputs, x.data.length = prod x.shape) (bs : List Term) (regs : List (Tensor α))
    (h : evalLetsWith A O bs inputs = .ok regs) : evalLetsWith A O (rewriteLets bs).1 inputs = .ok regs :=
  evalLets_map A O hO (fun b => (rewrite b).1) (fun env henv t v hv => rewrite_sound_ok A O hO env henv t v hv) bs inputs regs hin h

/-- The memoised pass reports a change only when the total node count strictly decreased (termination of the loop
on bindings). -/
theorem rebuild_decreases (bs : List Term) :
    ((rewriteLets bs).1.map Term.size).sum ≤ (bs.map Term.size).sum ∧
      ((rewriteLets bs).2 = true → ((rewriteLets bs).1.map Term.size).sum < (bs.map Term.size).sum) :=
  rewriteLets_facts bs

/-- **optimize_lets_sound**: the optimiser loop on bindings returns bindings that produce the same register file,
after at most (total node count + 1) passes. -/
theorem optimize_lets_sound {α : Type} (A : Alg α) (O : Op2 α) (hO : O.WF) (inputs : List (Tensor α))
    (hin : ∀ x ∈ inputs, x.data.length = prod x.shape) (bs : List Term) (regs : List (Tensor α))
    (h : evalLetsWith A O bs inputs = .ok regs) :
    evalLetsWith A O (letsPassModel.fix bs).1 inputs = .ok regs ∧ (letsPassModel.fix bs).2 ≤ (bs.map Term.size).sum + 1 :=
  ⟨fix_invariant letsPassModel (fun g => evalLetsWith A O g inputs = .ok regs)
      (fun g hg => rebuild_preserves A O hO inputs hin g regs hg) bs h,
    (optimize_terminates letsPassModel bs).2⟩

/-- **unfold_sound**: sharing is invisible to pure nodes -- the tree unfolding of binding `j` (every read of an
earlier binding replaced by that binding's tree) computes, from the graph inputs alone, the value register
`inputs.length + j` holds after running the bindings. -/
theorem unfold_sound {α : Type} (A : Alg α) (O : Op2 α) (inputs : List (Tensor α)) (bs : List Term) (regs : List (Tensor α))
    (h : evalLetsWith A O bs inputs = .ok regs) (j : Nat) (t : Term) (hj : (unfoldLets inputs.length bs [])[j]? = some t) :
    ∃ v, regs[inputs.length + j]? = some v ∧ t.evalWith A O inputs = .ok v :=
  unfoldLets_sound_aux A O inputs bs [] [] regs rfl (by intro j t hj; simp at hj) (by simpa using h) j t hj

/-- **unfold_rewrite_sound**: the optimiser loop on the tree unfolding of a binding (where the patterns see through
shared nodes) still computes the value of that binding. -/
theorem unfold_rewrite_sound {α : Type} (A : Alg α) (O : Op2 α) (hO : O.WF) (inputs : List (Tensor α))
    (hin : ∀ x ∈ inputs, x.data.length = prod x.shape) (bs : List Term) (regs : List (Tensor α))
    (h : evalLetsWith A O bs inputs = .ok regs) (j : Nat) (t : Term) (hj : (unfoldLets inputs.length bs [])[j]? = some t) :
    ∃ v, regs[inputs.length + j]? = some v ∧ (termPassModel.fix t).1.evalWith A O inputs = .ok v := by
  obtain ⟨v, hv, he⟩ := unfold_sound A O inputs bs regs h j t hj
  exact ⟨v, hv, by rw [optimize_sound A O hO inputs hin t ⟨v, he⟩]; exact he⟩

/-! ### The instance executed entirely by the primitive plans (`Term.eval`, `evalLets`) -/

/-- `rewrite_sound` for terms whose `op2` nodes are elementwise numpy calls (`Instr.ewise`). -/
theorem rewrite_sound_prim {α : Type} (A : Alg α) (inputs : List (Tensor α))
    (hin : ∀ x ∈ inputs, x.data.length = prod x.shape) (t : Term) (hrun : ∃ v, t.eval A inputs = .ok v) :
    (rewrite t).1.eval A inputs = t.eval A inputs :=
  rewrite_sound A (ewiseOp A) (ewiseOp_wf A) inputs hin t hrun

/-- `optimize_sound` for that instance. -/
theorem optimize_sound_prim {α : Type} (A : Alg α) (inputs : List (Tensor α))
    (hin : ∀ x ∈ inputs, x.data.length = prod x.shape) (t : Term) (hrun : ∃ v, t.eval A inputs = .ok v) :
    (termPassModel.fix t).1.eval A inputs = t.eval A inputs :=
  optimize_sound A (ewiseOp A) (ewiseOp_wf A) inputs hin t hrun

/-- `rebuild_preserves` for that instance. -/
theorem rebuild_preserves_prim {α : Type} (A : Alg α) (inputs : List (Tensor α))
    (hin : ∀ x ∈ inputs, x.data.length = prod x.shape) (bs : List Term) (regs : List (Tensor α))
    (h : evalLets A bs inputs = .ok regs) : evalLets A (rewriteLets bs).1 inputs = .ok regs :=
  rebuild_preserves A (ewiseOp A) (ewiseOp_wf A) inputs hin bs regs h

/-! ## Symbolic equivalence of the graph before and after optimisation (driver kind `equiv`) -/

/-- **equiv_sound**: if `equivProgs` accepts the programs translated from the unoptimised and the optimised
graph, then for all integer inputs of those shapes, all interpretations of the elementary functions and
any value for out-of-range reads both programs run and their output registers are equal. -/
theorem equiv_sound (prog1 : List Instr) (outs1 : List Nat) (prog2 : List Instr) (outs2 : List Nat)
    (I : String → List Int → Int) (bad : Int) (xs : List (Tensor Int))
    (hlen : ∀ x ∈ xs, x.data.length = prod x.shape)
    (h : equivProgs prog1 outs1 prog2 outs2 (xs.map (·.shape)) = true) :
    ∃ regs1 regs2, evalProg (intAlgOf I bad) prog1 xs = .ok regs1 ∧
      evalProg (intAlgOf I bad) prog2 xs = .ok regs2 ∧
      outs1.map (fun r => regs1[r]?) = outs2.map (fun r => regs2[r]?) := by
  unfold equivProgs at h
  cases h2 : symRun prog2 (xs.map (·.shape)) outs2 with
  | error e => simp [h2] at h
  | ok exp =>
    simp only [h2] at h
    obtain ⟨regs2, r2, o2⟩ := symRun_sound prog2 outs2 exp I bad xs hlen h2
    unfold validate at h
    cases h1 : symRun prog1 (xs.map (·.shape)) outs1 with
    | error e => simp [h1] at h
    | ok res =>
      simp only [h1] at h
      have heq := tensorsBeq_eq _ _ h
      subst heq
      obtain ⟨regs1, r1, o1⟩ := symRun_sound prog1 outs1 res I bad xs hlen h1
      exact ⟨regs1, regs2, r1, r2, o1.trans o2.symm⟩

/-! ## Non-vacuity -/

/-- The extracted composition on concrete permutations of rank 3 ... -/
example : Extracted.composePerm [1, 2, 0] [0, 2, 1] = some [1, 0, 2] := by decide

/-- ... the hypotheses of `transpose_transpose` are met (rank 3, distinct non-involutive permutations) ... -/
example : isPerm [1, 2, 0] 3 = true ∧ isPerm [0, 2, 1] 3 = true := by decide

/-- ... `equivProgs` accepts the merge on a tensor whose axis lengths coincide (shape (2,2,2): shapes cannot
tell the two composition orders apart) ... -/
example : equivProgs [.transpose 0 [1, 2, 0], .transpose 1 [0, 2, 1]] [2] [.transpose 0 [1, 0, 2]] [1] [[2, 2, 2]] = true := by
  decide +kernel

/-- ... and rejects the reversed composition `perm2[p] for p in perm1` = [2, 1, 0] on the same tensor. -/
example : equivProgs [.transpose 0 [1, 2, 0], .transpose 1 [0, 2, 1]] [2] [.transpose 0 [2, 1, 0]] [1] [[2, 2, 2]] = false := by
  decide +kernel

/-- The term model on `add(transpose(transpose(x, [1,2,0]), [0,2,1]), cast(reshape(reshape(y, [6,4]), [2,3,4])))`: two passes
(the merges and the cast removal fire in the first; the second removes the reshape that has become a no-op; the third reports
unchanged), result `add(transpose(x, [1,0,2]), y)`. -/
example : termPassModel.iter 5 (.op2 "add" (.transpose (.transpose (.input 0 [2, 3, 4]) [1, 2, 0]) [0, 2, 1])
      (.cast (.reshape (.reshape (.input 1 [2, 3, 4]) [6, 4]) [2, 3, 4])) [3, 2, 4])
    = some (.op2 "add" (.transpose (.input 0 [2, 3, 4]) [1, 0, 2]) (.input 1 [2, 3, 4]) [3, 2, 4], 3) := by
  rfl

/-- A pass model that fires until a counter reaches 0: three passes fire from 3, the fourth reports unchanged. -/
example : (PassModel.fix ⟨fun n => (n - 1, decide (0 < n)), id, by intro g h; simp at h ⊢; omega⟩ 3) = (0, 4) := by
  simp [fix_unfold]

/-! ### Non-vacuity of the whole-pass theorems -/

/-- `add(transpose(transpose(x, [1,0]), [1,0]), cast(reshape(reshape(y, [6]), [2,3])))` over the integers with
`add` = sum of the arguments: the term runs on well-formed inputs (hypotheses of `rewrite_sound` met) ... -/
example : (Term.op2 "add" (.transpose (.transpose (.input 0 [2, 3]) [1, 0]) [1, 0])
      (.cast (.reshape (.reshape (.input 1 [3, 2]) [6]) [2, 3])) [2, 3]).eval (intAlgOf (fun _ args => args.sum) (-1))
      [⟨[2, 3], [1, 2, 3, 4, 5, 6]⟩, ⟨[3, 2], [10, 20, 30, 40, 50, 60]⟩]
    = .ok ⟨[2, 3], [11, 22, 33, 44, 55, 66]⟩ := by rfl

/-- ... three patterns fire in the first pass (transposes merged, cast removed, reshapes merged) ... -/
example : rewrite (Term.op2 "add" (.transpose (.transpose (.input 0 [2, 3]) [1, 0]) [1, 0])
      (.cast (.reshape (.reshape (.input 1 [3, 2]) [6]) [2, 3])) [2, 3])
    = (.op2 "add" (.transpose (.input 0 [2, 3]) [0, 1]) (.reshape (.input 1 [3, 2]) [2, 3]) [2, 3], true) := by rfl

/-- ... and the loop ends with `add(x, reshape(y, [2,3]))`, which computes the same tensor. -/
example : (termPassModel.iter 5 (Term.op2 "add" (.transpose (.transpose (.input 0 [2, 3]) [1, 0]) [1, 0])
      (.cast (.reshape (.reshape (.input 1 [3, 2]) [6]) [2, 3])) [2, 3])).map (fun r =>
        (r.1, r.1.eval (intAlgOf (fun _ args => args.sum) (-1))
          [⟨[2, 3], [1, 2, 3, 4, 5, 6]⟩, ⟨[3, 2], [10, 20, 30, 40, 50, 60]⟩]))
    = some (.op2 "add" (.input 0 [2, 3]) (.reshape (.input 1 [3, 2]) [2, 3]) [2, 3],
        .ok ⟨[2, 3], [11, 22, 33, 44, 55, 66]⟩) := by rfl

/-- The rewrite system covers what `rewrite` does not do in one pass: the merge through `_skip_id`
(`reshape(cast(reshape(x, s1)), s)` becomes `reshape(x, s)`), for every `x`. -/
example (x : Term) (s1 s : List Nat) : Rewrites (.reshape (.cast (.reshape x s1)) s) (.reshape x s) :=
  .trans (.reshape s (.rule (.skipCast _))) (.rule (.reshapeMerge x s1 s))

/-- `O.WF` is met by calls that are not elementwise, e.g. every `op2` read as `concatenate([a, b], axis=0)`. -/
example {α : Type} (A : Alg α) : Op2.WF (fun _ a b => step A [a, b] (.concat [0, 1] 0)) :=
  fun _ a b r h => (step_concat2_wf A a b 0 r h).2

/-- A transpose that is not an involution is distinguished by the semantics (the data move). -/
example : (Term.transpose (.input 0 [2, 3]) [1, 0]).eval (intAlgOf (fun _ args => args.sum) (-1))
      [⟨[2, 3], [1, 2, 3, 4, 5, 6]⟩] = .ok ⟨[3, 2], [1, 4, 2, 5, 3, 6]⟩ := by rfl

/-- The hypothesis "the original runs" is needed: `concatenate([x], axis=5)` raises, the pass removes the call. -/
example : (Term.concat1 (.input 0 [2, 3]) 5).eval (intAlgOf (fun _ args => args.sum) (-1)) [⟨[2, 3], [1, 2, 3, 4, 5, 6]⟩]
      = .error "concatenate: invalid axis" ∧
    (rewrite (Term.concat1 (.input 0 [2, 3]) 5)).1.eval (intAlgOf (fun _ args => args.sum) (-1)) [⟨[2, 3], [1, 2, 3, 4, 5, 6]⟩]
      = .ok ⟨[2, 3], [1, 2, 3, 4, 5, 6]⟩ := ⟨by rfl, by rfl⟩

/-- A term with a false traced shape does not run (the premise of `rewrite_sound` excludes it). -/
example : (Term.input 0 [3, 2]).eval (intAlgOf (fun _ args => args.sum) (-1)) [⟨[2, 3], [1, 2, 3, 4, 5, 6]⟩]
    = .error "input 0: traced shape [3, 2], actual shape [2, 3]" := by rfl

/-- Sharing: `y = reshape(reshape(x, [6]), [3,2])` is bound once (register 1) and read twice by `add(y, transpose(transpose(y)))`.
The bindings run; the memoised pass rewrites the shared binding once (merge) and its consumer once (merge to a transpose that
the next pass removes); the register file is the same. -/
example : evalLets (intAlgOf (fun _ args => args.sum) (-1))
      [.reshape (.reshape (.input 0 [2, 3]) [6]) [3, 2],
       .op2 "add" (.input 1 [3, 2]) (.transpose (.transpose (.input 1 [3, 2]) [1, 0]) [1, 0]) [3, 2]]
      [⟨[2, 3], [1, 2, 3, 4, 5, 6]⟩]
    = .ok [⟨[2, 3], [1, 2, 3, 4, 5, 6]⟩, ⟨[3, 2], [1, 2, 3, 4, 5, 6]⟩, ⟨[3, 2], [2, 4, 6, 8, 10, 12]⟩] := by rfl

example : rewriteLets [.reshape (.reshape (.input 0 [2, 3]) [6]) [3, 2],
       .op2 "add" (.input 1 [3, 2]) (.transpose (.transpose (.input 1 [3, 2]) [1, 0]) [1, 0]) [3, 2]]
    = ([.reshape (.input 0 [2, 3]) [3, 2], .op2 "add" (.input 1 [3, 2]) (.transpose (.input 1 [3, 2]) [0, 1]) [3, 2]], true) := by rfl

example : evalLets (intAlgOf (fun _ args => args.sum) (-1))
      (rewriteLets [.reshape (.reshape (.input 0 [2, 3]) [6]) [3, 2],
       .op2 "add" (.input 1 [3, 2]) (.transpose (.transpose (.input 1 [3, 2]) [1, 0]) [1, 0]) [3, 2]]).1
      [⟨[2, 3], [1, 2, 3, 4, 5, 6]⟩]
    = .ok [⟨[2, 3], [1, 2, 3, 4, 5, 6]⟩, ⟨[3, 2], [1, 2, 3, 4, 5, 6]⟩, ⟨[3, 2], [2, 4, 6, 8, 10, 12]⟩] := by rfl

/-- Its tree unfolding: the shared binding is substituted into both reads. -/
example : unfoldLets 1 [.reshape (.reshape (.input 0 [2, 3]) [6]) [3, 2],
       .op2 "add" (.input 1 [3, 2]) (.transpose (.transpose (.input 1 [3, 2]) [1, 0]) [1, 0]) [3, 2]] []
    = [.reshape (.reshape (.input 0 [2, 3]) [6]) [3, 2],
       .op2 "add" (.reshape (.reshape (.input 0 [2, 3]) [6]) [3, 2])
         (.transpose (.transpose (.reshape (.reshape (.input 0 [2, 3]) [6]) [3, 2]) [1, 0]) [1, 0]) [3, 2]] := by rfl

end Einx.Optimize
