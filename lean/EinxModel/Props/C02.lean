import EinxModel.Proofs.Solve
import EinxModel.Proofs.SolveCse
import EinxModel.Extracted.Cse
import EinxModel.Solve.Tree
/-!
C02 — axis and rank solving is sound, unambiguous and exact.

Property theorems only (helper lemmas live in `Proofs/Solve.lean`).  They are stated about the
definitions the driver executes (`propagate`, `checkSat`, `solveAll`, `checkAll`).

Arithmetic is over `Nat`, so every statement holds beyond 2^31 by construction (`sat_exact`-remark
of DESIGN section 5; an `example` below evaluates a product of 2^32 * 2^32).

Reading: `Sols inp ρ σ` (counts `ρ`, lengths `σ`) is the set of assignments satisfying all stated
constraints; a reported quantity is admissible iff `Sols ≠ ∅` and it has one value on `Sols`.
-/
namespace Einx.Solve

/-- The Boolean checker decides the specification (and demands that every variable is bound). -/
theorem checkSat_iff (sys : System) (a : Assign) :
    checkSat sys a = true ↔ (∀ x ∈ sys.allVars, (a.lookup x).isSome = true) ∧ Sat sys (toFun a) :=
  checkSat_iff' sys a

/-- The partial assignment carried by a verdict (nothing for `none`). -/
def Verdict.known : Verdict → Assign
  | .unique a => a
  | .stuck a => a
  | .none => []

/-- **Forcedness.** Every value derived by the reference solver holds in *every* satisfying
assignment (invariant of the loop: the partial assignment is contained in every solution). -/
theorem propagate_forced (sys : System) (τ : Var → Nat) (hτ : Sat sys τ) (x : Var) (v : Nat)
    (h : (propagate sys).known.lookup x = some v) : τ x = v := by
  have hg := propagate_good sys
  cases hp : propagate sys with
  | none => rw [hp] at h; simp [Verdict.known, List.lookup] at h
  | unique a => rw [hp] at hg h; exact hg.1 τ hτ x v h
  | stuck a => rw [hp] at hg h; exact hg.1 τ hτ x v h

/-- Verdict `none` ⇒ there is no satisfying assignment. -/
theorem propagate_none (sys : System) (h : propagate sys = .none) : ¬ ∃ τ, Sat sys τ := by
  have hg := propagate_good sys
  rw [h] at hg
  rintro ⟨τ, hτ⟩
  exact hg τ hτ

/-- Verdict `unique a` ⇒ `a` is a solution and every solution coincides with it on all variables
of the system: `Sols = {a}`. -/
theorem propagate_unique (sys : System) (a : Assign) (h : propagate sys = .unique a) :
    Sat sys (toFun a) ∧ ∀ τ, Sat sys τ → ∀ x ∈ sys.allVars, τ x = toFun a x := by
  have hg := propagate_good sys
  rw [h] at hg
  obtain ⟨hforced, hcheck⟩ := hg
  rw [checkSat_iff] at hcheck
  refine ⟨hcheck.2, ?_⟩
  intro τ hτ x hx
  have hsome := hcheck.1 x hx
  cases hl : a.lookup x with
  | none => simp [hl] at hsome
  | some v => simp [toFun, hl, hforced τ hτ x v hl]

/-- Verdict `stuck a` is not a disguised `unique`: some variable of the system is still unknown,
and it is a genuine fixpoint — no equation has exactly one (linear) unknown left.  (The fuel
`propagate` passes to the loop, the number of variables, is enough.) -/
theorem propagate_stuck_fixpoint (sys : System) (a : Assign) (h : propagate sys = .stuck a) :
    (∃ x ∈ sys.allVars, a.lookup x = none) ∧ scan sys a sys.eqns = .skip := by
  have hg := propagate_good sys
  rw [h] at hg
  refine ⟨hg.2, ?_⟩
  apply loop_stuck_fixpoint sys sys.allVars.length [] a _ h
  unfold unknownCount
  exact List.length_filter_le _ _

/-! ### Rank level and the two-level solver -/

/-! The rank equation of a tensor says what it should: the width polynomial evaluates to the
semantic width (number of root-level items after expansion with counts `ρ`). -/
theorem evalPoly_append (ρ : Var → Nat) (p q : Poly) :
    evalPoly ρ (p ++ q) = evalPoly ρ p + evalPoly ρ q := by
  induction p with
  | nil => simp [evalPoly]
  | cons m ms ih => simp [evalPoly, ih, Nat.add_assoc]

theorem evalPoly_under (ρ : Var → Nat) (id : Var) (p : Poly) :
    evalPoly ρ (p.map (fun m => ⟨m.coef, id :: m.vars⟩)) = ρ id * evalPoly ρ p := by
  induction p with
  | nil => simp [evalPoly]
  | cons m ms ih =>
    simp only [List.map, evalPoly, evalMono, prodVars, ih, Nat.mul_add]
    rw [Nat.mul_left_comm]

mutual
theorem widthPoly_eval (ρ : Var → Nat) : ∀ e : Expr, evalPoly ρ (widthPoly e) = width ρ e
  | .axis _ => by simp [widthPoly, width, evalPoly, evalMono, prodVars]
  | .num _ => by simp [widthPoly, width, evalPoly, evalMono, prodVars]
  | .flat _ => by simp [widthPoly, width, evalPoly, evalMono, prodVars]
  | .concat _ => by simp [widthPoly, width, evalPoly, evalMono, prodVars]
  | .brackets e => by simp only [widthPoly, width]; exact widthPoly_eval ρ e
  | .ellipsis id e => by simp only [widthPoly, width, evalPoly_under]; rw [widthPoly_eval ρ e]
  | .list cs => by simp only [widthPoly, width]; exact widthPolyL_eval ρ cs
theorem widthPolyL_eval (ρ : Var → Nat) : ∀ cs : List Expr, evalPoly ρ (widthPolyL cs) = widthL ρ cs
  | [] => by simp [widthPolyL, widthL, evalPoly]
  | c :: cs => by
    simp only [widthPolyL, widthL, evalPoly_append]
    rw [widthPoly_eval ρ c, widthPolyL_eval ρ cs]
end

/-- Counts derived at the rank level are forced: they hold in every solution. -/
theorem rank_propagate_forced (inp : Input) (ρ σ : Var → Nat) (h : Sols inp ρ σ) (id : Var) (n : Nat)
    (hk : (propagate (rankSystem true inp)).known.lookup id = some n) : ρ id = n :=
  propagate_forced _ ρ h.1 id n hk

/-- Every ellipsis id of the input is a variable of the rank system. -/
theorem ellIds_subset_allVars (b : Bool) (inp : Input) : ∀ id ∈ inp.ellIds, id ∈ (rankSystem b inp).allVars := by
  intro id hid
  unfold System.allVars rankSystem
  apply List.mem_append_left
  simp only [List.map_map, List.mem_map]
  exact ⟨id, hid, rfl⟩

/-- Unique counts: the value system of any solution is the one the solver expanded. -/
theorem rank_unique (inp : Input) (c : Assign) (h : propagate (rankSystem true inp) = .unique c) :
    Sat (rankSystem true inp) (toFun c) ∧
    ∀ ρ, Sat (rankSystem true inp) ρ →
      (∀ id ∈ inp.ellIds, ρ id = toFun c id) ∧ valueSystem inp ρ = valueSystem inp (toFun c) := by
  obtain ⟨h1, h2⟩ := propagate_unique _ c h
  refine ⟨h1, ?_⟩
  intro ρ hρ
  have hag : ∀ id ∈ inp.ellIds, ρ id = toFun c id :=
    fun id hid => h2 ρ hρ id (ellIds_subset_allVars true inp id hid)
  refine ⟨hag, ?_⟩
  unfold valueSystem tabulate
  congr 1
  apply List.map_congr_left
  intro id hid
  rw [hag id hid]

/-- The weaker rank system (what the pinned implementation derives from constraint arrays) has
the same declared variables and a subset of the equations: its verdict `unique` is a verdict about
the full system's solutions as well. -/
theorem strictRank_sound (inp : Input) (c : Assign) (h : propagate (rankSystem false inp) = .unique c)
    (ρ : Var → Nat) (hρ : Sat (rankSystem false inp) ρ) : ∀ id ∈ inp.ellIds, ρ id = toFun c id :=
  fun id hid => (propagate_unique _ c h).2 ρ hρ id (ellIds_subset_allVars false inp id hid)

/-- **Soundness of the two-level reference solver.**
* `rankNone` / `valueNone`: no assignment satisfies the stated constraints;
* `unique c v`: `(c, v)` is a solution and every solution has these counts on all ellipses and
  these lengths on all variables of the expanded system;
* `rankStuck` / `valueStuck`: every derived count / length is forced. -/
theorem solveAll_sound (inp : Input) :
    match solveAll inp with
    | .rankNone => ∀ ρ σ, ¬ Sols inp ρ σ
    | .valueNone _ => ∀ ρ σ, ¬ Sols inp ρ σ
    | .unique c v =>
        Sols inp (toFun c) (toFun v) ∧
        ∀ ρ σ, Sols inp ρ σ → (∀ id ∈ inp.ellIds, ρ id = toFun c id) ∧
          (∀ x ∈ (valueSystem inp (toFun c)).allVars, σ x = toFun v x)
    | .rankStuck c => ∀ ρ σ, Sols inp ρ σ → ∀ id n, c.lookup id = some n → ρ id = n
    | .valueStuck c v =>
        ∀ ρ σ, Sols inp ρ σ → (∀ id ∈ inp.ellIds, ρ id = toFun c id) ∧
          (∀ x n, v.lookup x = some n → σ x = n) := by
  unfold solveAll
  cases hr : propagate (rankSystem true inp) with
  | none =>
    simp only
    intro ρ σ hs
    exact propagate_none _ hr ⟨ρ, hs.1⟩
  | stuck c =>
    simp only
    intro ρ σ hs id n hl
    have := propagate_forced (rankSystem true inp) ρ hs.1 id n
    rw [hr] at this
    exact this hl
  | unique c =>
    simp only
    obtain ⟨hc1, hc2⟩ := rank_unique inp c hr
    cases hv : propagate (valueSystem inp (toFun c)) with
    | none =>
      simp only
      intro ρ σ hs
      obtain ⟨_, heq⟩ := hc2 ρ hs.1
      apply propagate_none _ hv
      exact ⟨σ, by rw [← heq]; exact hs.2⟩
    | stuck v =>
      simp only
      intro ρ σ hs
      obtain ⟨hag, heq⟩ := hc2 ρ hs.1
      refine ⟨hag, ?_⟩
      intro x n hl
      have hs2 : Sat (valueSystem inp (toFun c)) σ := by rw [← heq]; exact hs.2
      have := propagate_forced _ σ hs2 x n
      rw [hv] at this
      exact this hl
    | unique v =>
      simp only
      obtain ⟨hv1, hv2⟩ := propagate_unique _ v hv
      refine ⟨⟨hc1, hv1⟩, ?_⟩
      intro ρ σ hs
      obtain ⟨hag, heq⟩ := hc2 ρ hs.1
      refine ⟨hag, ?_⟩
      have hs2 : Sat (valueSystem inp (toFun c)) σ := by rw [← heq]; exact hs.2
      exact hv2 σ hs2

/-- The checker for complete answers accepts exactly the solutions (with all variables bound). -/
theorem checkAll_iff (inp : Input) (c v : Assign) :
    checkAll inp c v = true ↔
      ((∀ id ∈ (rankSystem true inp).allVars, (c.lookup id).isSome = true) ∧
       (∀ x ∈ (valueSystem inp (toFun c)).allVars, (v.lookup x).isSome = true)) ∧
      Sols inp (toFun c) (toFun v) := by
  unfold checkAll Sols
  rw [Bool.and_eq_true, checkSat_iff, checkSat_iff]
  constructor
  · rintro ⟨⟨a, b⟩, ⟨c', d⟩⟩; exact ⟨⟨a, c'⟩, ⟨b, d⟩⟩
  · rintro ⟨⟨a, c'⟩, ⟨b, d⟩⟩; exact ⟨⟨a, b⟩, ⟨c', d⟩⟩

/-! ### Non-vacuity: concrete systems with each verdict -/

/-- `(a b) (c + 2)` against `(6, 5)` with `a = 2`: flatten + concat, uniquely solved. -/
def exUnique : Input :=
  { tensors := [⟨.list [.flat (.list [.axis "a", .axis "b"]), .concat [.axis "c", .num 2]], some [6, 5]⟩],
    constraints := [⟨"a", [], [2]⟩] }

example : solveAll exUnique =
    .unique [] [("b", 3), ("a", 2), ("c", 3), ("#0/1", 5), ("#0/0", 6)] := by decide

example : checkAll exUnique [] [("b", 3), ("a", 2), ("c", 3), ("#0/1", 5), ("#0/0", 6)] = true := by decide

/-- D3's input: `(b 3)` against 4 has no solution — `none` by divisibility. -/
def exNone : Input := { tensors := [⟨.flat (.list [.axis "b", .num 3]), some [4]⟩], constraints := [] }

example : solveAll exNone = .valueNone [] := by decide
example : ¬ ∃ ρ σ, Sols exNone ρ σ := by
  have h := solveAll_sound exNone
  have e : solveAll exNone = .valueNone [] := by decide
  rw [e] at h
  rintro ⟨ρ, σ, hs⟩
  exact h ρ σ hs

/-- `(a b)` against 6: two unknowns in the only product — `stuck`, and indeed ambiguous. -/
def exStuck : Input := { tensors := [⟨.flat (.list [.axis "a", .axis "b"]), some [6]⟩], constraints := [] }

example : solveAll exStuck = .valueStuck [] [("#0", 6)] := by decide
example : checkAll exStuck [] [("#0", 6), ("a", 2), ("b", 3)] = true ∧
          checkAll exStuck [] [("#0", 6), ("a", 3), ("b", 2)] = true := by decide

/-- `a... b` against rank 3: one unknown count in the rank equation, solved (`a = [2, 3]`, `b = 4`). -/
def exRank : Input :=
  { tensors := [⟨.list [.ellipsis "e0" (.axis "a"), .axis "b"], some [2, 3, 4]⟩], constraints := [] }

example : solveAll exRank = .unique [("e0", 2)] [("b", 4), ("a.1", 3), ("a.0", 2)] := by decide

/-- `a... b...` against rank 3: two unknown counts — stuck at the rank level. -/
example : solveAll { tensors := [⟨.list [.ellipsis "e0" (.axis "a"), .ellipsis "e1" (.axis "b")], some [2, 3, 4]⟩],
                     constraints := [] } = .rankStuck [] := by decide

/-- Exactness beyond 2^31 / 2^63: `(a b)` with `a = b = 2^32`. -/
example : solveAll { tensors := [⟨.flat (.list [.axis "a", .axis "b"]), none⟩],
                     constraints := [⟨"a", [], [4294967296]⟩, ⟨"b", [], [4294967296]⟩] } =
    .unique [] [("#0", 18446744073709551616), ("b", 4294967296), ("a", 4294967296)] := by decide


/-! ### Common-subexpression elimination (`stage2/cse.py`) is in the proved model

`Solve/Cse.lean`: `valueRange` = `_value_range`, `hasRepeatedAxis` = `_has_repeated_axis`,
`replaceable` = the filter of `cse`; `instantiate sys' c e` = the value system before CSE when
`sys'` is the one after CSE replaced `e` by the axis `c` (`CseStep`, `Proofs/SolveCse.lean`). -/

/-- `_has_repeated_axis` is `false` exactly when no axis name occurs twice. -/
theorem hasRepeatedAxis_iff (e : VExpr) : hasRepeatedAxis e = false ↔ (axisNames e).Nodup :=
  hasDup_false_iff _

/-- **`_value_range` is exact, unbounded case.**  If `_value_range(e) = (m, True)` and no axis
repeats in `e`, the values `e` takes when its unknown axes range over all admissible lengths are
exactly the integers `>= m`. -/
theorem valueRange_spec (e : VExpr) (m : Nat) (h : valueRange e = some (m, true))
    (hrep : hasRepeatedAxis e = false) (hpos : MinPos e) (n : Nat) :
    (∃ σ, Admissible e σ ∧ evalV σ e = n) ↔ m ≤ n := by
  obtain ⟨_, hlow, hex⟩ := valueRange_spec_aux e m true h ((hasRepeatedAxis_iff e).mp hrep) hpos
  constructor
  · rintro ⟨σ, hσ, rfl⟩
    have := hlow σ hσ
    simpa [okT] using this
  · intro hn
    obtain ⟨σ, _, h2, h3⟩ := hex (fun _ => 0) n (by simpa [okT] using hn)
    exact ⟨σ, h2, h3⟩

/-- **`_value_range` is exact, single-value case**: `_value_range(e) = (m, False)` ⇒ the set of
values is `{m}`. -/
theorem valueRange_spec_fixed (e : VExpr) (m : Nat) (h : valueRange e = some (m, false))
    (hrep : hasRepeatedAxis e = false) (hpos : MinPos e) (n : Nat) :
    (∃ σ, Admissible e σ ∧ evalV σ e = n) ↔ n = m := by
  obtain ⟨_, hlow, hex⟩ := valueRange_spec_aux e m false h ((hasRepeatedAxis_iff e).mp hrep) hpos
  constructor
  · rintro ⟨σ, hσ, rfl⟩
    have := hlow σ hσ
    simpa [okT] using this
  · intro hn
    obtain ⟨σ, _, h2, h3⟩ := hex (fun _ => 0) n (by simpa [okT] using hn)
    exact ⟨σ, h2, h3⟩

/-- Surjectivity with a frame: the witness assignment changes only the unknown axes of `e`
(this is what lets a solution of the system after CSE be extended to one before CSE). -/
theorem valueRange_surj (e : VExpr) (m : Nat) (h : valueRange e = some (m, true))
    (hrep : hasRepeatedAxis e = false) (hpos : MinPos e) (σ₀ : Var → Nat) (n : Nat) (hn : m ≤ n) :
    ∃ σ, (∀ x, x ∉ freeNames e → σ x = σ₀ x) ∧ Admissible e σ ∧ evalV σ e = n := by
  obtain ⟨_, _, hex⟩ := valueRange_spec_aux e m true h ((hasRepeatedAxis_iff e).mp hrep) hpos
  exact hex σ₀ n (by simpa [okT] using hn)

/-- **CSE preserves the solution set.**  Let `sys'` be the value system after CSE replaced `e` by
the axis `c` (`CseStep`), and `instantiate sys' c e` the system before.  Then
(a) every solution before CSE is one after CSE with `c :=` value of `e`, and
(b) every solution after CSE extends to one before CSE that differs only on the unknown axes of
    `e`, whose product/sum is the value of `c`.
`c` may occur any number of times in `sys'` (the `k >= 1` occurrences of `e`, also several in one
product).  Several candidates (`cse.0`, `cse.1`, …) are handled by applying the theorem once per
candidate: distinct candidates have disjoint axes (an axis shared by two candidates would occur
outside one of them), so `CseStep.outside` holds at every step. -/
theorem cse_preserves_sols (sys' : System) (c : Var) (e : VExpr) (m : Nat) (ub : Bool)
    (hs : CseStep sys' c e m ub) :
    (∀ σ, Sat (instantiate sys' c e) σ → Sat sys' (update σ c (evalV σ e))) ∧
    (∀ σ', Sat sys' σ' → ∃ σ, (∀ x, x ∉ freeNames e → σ x = σ' x) ∧ evalV σ e = σ' c ∧
        Sat (instantiate sys' c e) σ) := by
  obtain ⟨_, hlow, hex⟩ :=
    valueRange_spec_aux e m ub hs.range ((hasRepeatedAxis_iff e).mp hs.norep) hs.minpos
  constructor
  · intro σ hσ
    obtain ⟨hb, he⟩ := hσ
    have hadm : ∀ p ∈ freeAxes e, p.2 ≤ σ p.1 := fun p hp =>
      hb p (by simp only [instantiate, List.mem_append]; exact Or.inr hp)
    have hm : m ≤ evalV σ e := by
      have := hlow σ hadm
      cases ub <;> simp [okT] at this <;> omega
    constructor
    · intro p hp
      by_cases hpc : p.1 = c
      · have := hs.only p hp hpc
        simp only [update, hpc, if_true]; omega
      · have : p ∈ (instantiate sys' c e).vars := by
          simp only [instantiate, List.mem_append, List.mem_filter]
          exact Or.inl ⟨hp, by simpa using hpc⟩
        simpa [update, hpc] using hb p this
    · intro eq heq
      have := he (substEqn c (polyOf e) eq) (by simp only [instantiate]; exact List.mem_map_of_mem heq)
      simpa [substEqn, evalPoly_substPoly, evalPoly_polyOf] using this
  · intro σ' hσ'
    obtain ⟨hb, he⟩ := hσ'
    have hm : m ≤ σ' c := hb (c, m) hs.decl
    have hok : okT (m, ub) (σ' c) := by
      cases hub : ub with
      | true => simpa [okT] using hm
      | false =>
        have := he _ (hs.fixed hub)
        simpa [okT, varConst, evalPoly, evalMono, prodVars] using this
    obtain ⟨σ, h1, h2, h3⟩ := hex σ' (σ' c) hok
    refine ⟨σ, h1, h3, ?_⟩
    have hagree : ∀ x ∈ sys'.allVars, update σ c (evalV σ e) x = σ' x := by
      intro x hx
      by_cases hxc : x = c
      · simp [update, hxc, h3]
      · simp only [update, hxc, if_false]
        exact h1 x (fun hf => hs.outside x hf hx)
    constructor
    · intro p hp
      simp only [instantiate, List.mem_append, List.mem_filter] at hp
      cases hp with
      | inl hp =>
        have hx : p.1 ∈ sys'.allVars := by
          unfold System.allVars
          exact List.mem_append_left _ (List.mem_map_of_mem hp.1)
        have hpc : p.1 ≠ c := by simpa using hp.2
        have := hagree p.1 hx
        simp only [update, hpc, if_false] at this
        rw [this]; exact hb p hp.1
      | inr hp => exact h2 p hp
    · intro eq heq
      simp only [instantiate, List.mem_map] at heq
      obtain ⟨eq', heq', rfl⟩ := heq
      simp only [substEqn, evalPoly_substPoly, evalPoly_polyOf]
      rw [evalPoly_congr (fun x hx => hagree x (mem_polyVars_allVars heq' (Or.inl hx))),
          evalPoly_congr (fun x hx => hagree x (mem_polyVars_allVars heq' (Or.inr hx)))]
      exact he eq' heq'

/-- CSE does not change the verdict: the system before is solvable iff the system after is. -/
theorem cse_solvable_iff (sys' : System) (c : Var) (e : VExpr) (m : Nat) (ub : Bool)
    (hs : CseStep sys' c e m ub) :
    (∃ σ, Sat (instantiate sys' c e) σ) ↔ (∃ σ', Sat sys' σ') := by
  obtain ⟨ha, hb⟩ := cse_preserves_sols sys' c e m ub hs
  constructor
  · rintro ⟨σ, hσ⟩; exact ⟨_, ha σ hσ⟩
  · rintro ⟨σ', hσ'⟩; obtain ⟨σ, _, _, h⟩ := hb σ' hσ'; exact ⟨σ, h⟩

/-- CSE does not change what is reported outside the replaced sub-expression: a variable `x`
other than `c` and the unknown axes of `e` (a root dimension, another axis, another node) is
forced to `v` before CSE iff it is forced to `v` after CSE. -/
theorem cse_forced_iff (sys' : System) (c : Var) (e : VExpr) (m : Nat) (ub : Bool)
    (hs : CseStep sys' c e m ub) (x : Var) (hx : x ∉ freeNames e) (hxc : x ≠ c) (v : Nat) :
    (∀ σ, Sat (instantiate sys' c e) σ → σ x = v) ↔ (∀ σ', Sat sys' σ' → σ' x = v) := by
  obtain ⟨ha, hb⟩ := cse_preserves_sols sys' c e m ub hs
  constructor
  · intro h σ' hσ'
    obtain ⟨σ, h1, _, h3⟩ := hb σ' hσ'
    rw [← h1 x hx]; exact h σ h3
  · intro h σ hσ
    have := h _ (ha σ hσ)
    simpa [update, hxc] using this

/-- The replacement axis reports the value of the sub-expression: `c` is forced to `v` after CSE
iff the value of `e` is forced to `v` before. -/
theorem cse_value_forced_iff (sys' : System) (c : Var) (e : VExpr) (m : Nat) (ub : Bool)
    (hs : CseStep sys' c e m ub) (v : Nat) :
    (∀ σ, Sat (instantiate sys' c e) σ → evalV σ e = v) ↔ (∀ σ', Sat sys' σ' → σ' c = v) := by
  obtain ⟨ha, hb⟩ := cse_preserves_sols sys' c e m ub hs
  constructor
  · intro h σ' hσ'
    obtain ⟨σ, _, h2, h3⟩ := hb σ' hσ'
    rw [← h2]; exact h σ h3
  · intro h σ hσ
    have := h _ (ha σ hσ)
    simpa [update] using this

/-- Transfer of the proved reference solver's verdicts across CSE: whatever `propagate` derives on
the system *after* CSE — unsolvability, or a forced value of a variable outside `e` — holds for
the system *before* CSE. -/
theorem cse_propagate_sound (sys' : System) (c : Var) (e : VExpr) (m : Nat) (ub : Bool)
    (hs : CseStep sys' c e m ub) :
    (propagate sys' = .none → ¬ ∃ σ, Sat (instantiate sys' c e) σ) ∧
    (∀ x v, (propagate sys').known.lookup x = some v → x ≠ c →
      ∀ σ, Sat (instantiate sys' c e) σ → σ x = v) := by
  obtain ⟨ha, _⟩ := cse_preserves_sols sys' c e m ub hs
  constructor
  · intro hn hex
    exact propagate_none sys' hn ((cse_solvable_iff sys' c e m ub hs).mp hex)
  · intro x v hk hxc σ hσ
    have := propagate_forced sys' _ (ha σ hσ) x v hk
    simpa [update, hxc] using this

/-! What CSE does **not** preserve: the unknown axes *inside* `e` are no variables of the system
after CSE.  Before CSE they may be forced (`(b 1)` against 5 forces `b = 5`) or ambiguous (`(b c)`
against 6) — after CSE neither is visible.  This is by design: `solve_axes` (which reports every
axis) runs with `cse=False`; `solve_shapes`, `matches` and the operations run with `cse=True`,
and their stage-3 trees contain the axis `cse.<n>` in place of `e`, so only quantities outside `e`
and the value of `e` itself (`cse_value_forced_iff`) are reported.  Examples below. -/

/-! #### Non-vacuity and the D3 witnesses -/

/-- `b c`, `b 3`, `a a`, `a + b` as stage-2 expressions (the literal `3` is an unnamed axis). -/
def exBC : VExpr := .list [.axis "b" none 1, .axis "c" none 1]
def exB3 : VExpr := .list [.axis "b" none 1, .axis "unnamed.0" (some 3) 1]
def exAA : VExpr := .list [.axis "a" none 1, .axis "a" none 1]
def exAplusB : VExpr := .concat [.axis "a" none 1, .axis "b" none 1]
/-- `(a + b) c d 1`: the product rule with one child of minimum 2 -/
def exMixed : VExpr :=
  .list [.flat (.concat [.axis "a" none 1, .axis "b" none 1]), .axis "c" none 1, .axis "d" none 1,
         .axis "unnamed.1" (some 1) 1]

example : valueRange exBC = some (1, true) ∧ replaceable exBC = true := by decide
example : valueRange exAplusB = some (2, true) ∧ replaceable exAplusB = true := by decide
example : valueRange exMixed = some (2, true) ∧ replaceable exMixed = true := by decide
example : valueRange (.list [.axis "u" (some 2) 1, .axis "v" (some 3) 1]) = some (6, false) := by decide
/-- two children with minimum above 1: `(a + b) (c + d)` takes no prime value -/
example : valueRange (.list [exAplusB, .concat [.axis "c" none 1, .axis "d" none 1]]) = none := by decide

/-- **D3, fixed code**: `b 3` is not replaced (`_value_range` is `None`: only multiples of 3);
`a a` is not replaced (repeated axis), although its range alone would pass. -/
example : valueRange exB3 = none ∧ replaceable exB3 = false := by decide
example : valueRange exAA = some (1, true) ∧ hasRepeatedAxis exAA = true ∧ replaceable exAA = false := by decide

/-- `valueRange_spec` applies to `(a + b) c d 1`: its values are exactly the integers `>= 2`. -/
example (n : Nat) : (∃ σ, Admissible exMixed σ ∧ evalV σ exMixed = n) ↔ 2 ≤ n :=
  valueRange_spec exMixed 2 (by decide) (by decide) (by decide) n

example (n : Nat) : (∃ σ, Admissible (.list [.axis "u" (some 2) 1, .axis "v" (some 3) 1]) σ ∧
    evalV σ (.list [.axis "u" (some 2) 1, .axis "v" (some 3) 1]) = n) ↔ n = 6 :=
  valueRange_spec_fixed _ 6 (by decide) (by decide) (by decide) n

/-- The value system of `a (cse.0), (cse.0) d` against `(2, 6), (6, 5)` — after CSE. -/
def exAfter : Input :=
  { tensors := [⟨.list [.axis "a", .flat (.axis "cse.0")], some [2, 6]⟩,
                ⟨.list [.flat (.axis "cse.0"), .axis "d"], some [6, 5]⟩],
    constraints := [] }
/-- `a (b c), (b c) d` against the same shapes — before CSE. -/
def exBefore : Input :=
  { tensors := [⟨.list [.axis "a", .flat (.list [.axis "b", .axis "c"])], some [2, 6]⟩,
                ⟨.list [.flat (.list [.axis "b", .axis "c"]), .axis "d"], some [6, 5]⟩],
    constraints := [] }

/-- `instantiate` of the model's own value system after CSE *is* (equations identical, the same
declarations) the model's own value system before CSE. -/
example : (instantiate (valueSystemA exAfter []) "cse.0" exBC).eqns = (valueSystemA exBefore []).eqns ∧
    (∀ p ∈ (instantiate (valueSystemA exAfter []) "cse.0" exBC).vars, p ∈ (valueSystemA exBefore []).vars) ∧
    (∀ p ∈ (valueSystemA exBefore []).vars, p ∈ (instantiate (valueSystemA exAfter []) "cse.0" exBC).vars) := by
  decide

/-- The hypotheses of `cse_preserves_sols` are met by this instance. -/
theorem exAfter_step : CseStep (valueSystemA exAfter []) "cse.0" exBC 1 true where
  range := by decide
  norep := by decide
  minpos := by decide
  decl := by decide
  only := by decide
  fixed := by intro h; cases h
  outside := by decide

/-- … and its conclusion is not empty: after CSE the solver reaches `unique`; before CSE every
root dimension and `a`, `d` are therefore forced to the same values, while `b`, `c` stay ambiguous
(the reference solver is `stuck` on them) — the purpose of CSE. -/
example : propagate (valueSystemA exAfter []) =
    .unique [("d", 5), ("#1/0", 6), ("cse.0", 6), ("#0/1", 6), ("a", 2)] := by decide
example : ∀ σ, Sat (instantiate (valueSystemA exAfter []) "cse.0" exBC) σ → σ "d" = 5 ∧ σ "#0/1" = 6 := by
  intro σ hσ
  have h := (cse_propagate_sound _ _ _ _ _ exAfter_step).2
  exact ⟨h "d" 5 (by decide) (by decide) σ hσ, h "#0/1" 6 (by decide) (by decide) σ hσ⟩
example : propagate (instantiate (valueSystemA exAfter []) "cse.0" exBC) =
    .stuck [("d", 5), ("#1/0", 6), ("#0/1", 6), ("a", 2)] := by decide

/-- Not preserved, other direction: `(b 1)` against 5 forces the inner axis `b = 5` before CSE;
after CSE (`(cse.0)` against 5) `b` is not a variable any more. -/
def exB1 : VExpr := .list [.axis "b" none 1, .axis "unnamed.0" (some 1) 1]
def exAfterB1 : System := valueSystemA { tensors := [⟨.flat (.axis "cse.0"), some [5]⟩], constraints := [] } []
example : replaceable exB1 = true ∧
    propagate (instantiate exAfterB1 "cse.0" exB1) = .unique [("b", 5), ("#0", 5)] ∧
    "b" ∉ exAfterB1.allVars := by decide

/-- **D3, old code** (every candidate replaced by a free axis with minimum 1) was unsound:
`(b 3)` against 4.  After the old replacement the system `(cse.0) = 4` has a solution; before it
there is none. -/
def exOldB3 : System := valueSystemA { tensors := [⟨.flat (.axis "cse.0"), some [4]⟩], constraints := [] } []
example : (∃ σ', Sat exOldB3 σ') ∧ ¬ ∃ σ, Sat (instantiate exOldB3 "cse.0" exB3) σ := by
  constructor
  · exact ⟨toFun [("cse.0", 4), ("#0", 4)], ((checkSat_iff _ _).mp (by decide)).2⟩
  · exact propagate_none _ (by decide)

/-- D3, old code, `(a a)` against 8: after the old replacement `(cse.0) = 8` has a solution; before it
`a * a = 8` has none (squareness is lost) — the reason for the `_has_repeated_axis` half of the filter. -/
def exOldAA : System := valueSystemA { tensors := [⟨.flat (.axis "cse.0"), some [8]⟩], constraints := [] } []
example : (∃ σ', Sat exOldAA σ') ∧ ¬ ∃ σ, Sat (instantiate exOldAA "cse.0" exAA) σ := by
  constructor
  · exact ⟨toFun [("cse.0", 8), ("#0", 8)], ((checkSat_iff _ _).mp (by decide)).2⟩
  · rintro ⟨σ, _, he⟩
    have e : (instantiate exOldAA "cse.0" exAA).eqns =
        [⟨[⟨1, ["#0"]⟩], [⟨1, ["a", "a"]⟩]⟩, ⟨[⟨1, ["#0"]⟩], [⟨8, []⟩]⟩] := by decide
    rw [e] at he
    have h1 := he _ (List.mem_cons_self)
    have h2 := he _ (List.mem_cons_of_mem _ List.mem_cons_self)
    simp [evalPoly, evalMono, prodVars] at h1 h2
    rw [h2] at h1
    rcases Nat.lt_or_ge (σ "a") 3 with h | h
    · have : σ "a" = 0 ∨ σ "a" = 1 ∨ σ "a" = 2 := by omega
      rcases this with h' | h' | h' <;> rw [h'] at h1 <;> omega
    · have := Nat.mul_le_mul h h
      omega

/-- D3, old code, `c (a + b)` against `(2, 1)`: replaced by a free axis with minimum 1 the system
has the solution `cse.0 = 1`; before the replacement `a + b = 1` has none.  With the recorded
minimum 2 (`min_value`, checked by stage3/solve.py) the system after CSE has none either. -/
def exOldSum (minValue : Nat) : System :=
  { vars := [("c", 1), ("cse.0", minValue)], eqns := [varConst "c" 2, varConst "cse.0" 1] }
example : (∃ σ', Sat (exOldSum 1) σ') ∧ ¬ (∃ σ, Sat (instantiate (exOldSum 1) "cse.0" exAplusB) σ) ∧
    propagate (exOldSum 2) = .none := by
  refine ⟨⟨toFun [("c", 2), ("cse.0", 1)], ((checkSat_iff _ _).mp (by decide)).2⟩, ?_, by decide⟩
  rintro ⟨σ, hb, he⟩
  have e : instantiate (exOldSum 1) "cse.0" exAplusB =
      { vars := [("c", 1), ("a", 1), ("b", 1)],
        eqns := [⟨[⟨1, ["c"]⟩], [⟨2, []⟩]⟩, ⟨[⟨1, ["a"]⟩, ⟨1, ["b"]⟩], [⟨1, []⟩]⟩] } := by decide
  rw [e] at hb he
  have h1 := hb ("a", 1) (by decide)
  have h2 := hb ("b", 1) (by decide)
  have h3 := he ⟨[⟨1, ["a"]⟩, ⟨1, ["b"]⟩], [⟨1, []⟩]⟩ (by decide)
  simp [evalPoly, evalMono, prodVars] at h1 h2 h3
  omega


/-! #### Obligations over the regenerated source facts (`Extracted/Cse.lean`, from /repo on every run) -/

/-- The `Axis` rule of `_value_range` as translated from the source is the model's. -/
theorem extracted_axis_rule (n : String) (v : Option Nat) (m : Nat) :
    valueRange (.axis n v m) = some (Extracted.Cse.valueRangeAxis v m) := by
  cases v <;> rfl

/-- The combination rule of `_value_range` (any-None guard, sum rule, product of constants, product
rule) as translated from the source is `combineRanges`, for all inputs. -/
theorem extracted_combine_eq (isConcat : Bool) (ranges : List (Option (Nat × Bool))) :
    Extracted.Cse.valueRangeCombine isConcat ranges = combineRanges isConcat ranges := by
  simp only [Extracted.Cse.valueRangeCombine, combineRanges, unboundedMins, fixedMins, beq_iff_eq]
  rfl

mutual
/-- **The model's `valueRange` is the source's `_value_range`** (as translated on this run), on
every expression. -/
theorem extracted_valueRange_eq : ∀ e : VExpr, Extracted.Cse.valueRangeX e = valueRange e
  | .axis n v m => by
    simp only [Extracted.Cse.valueRangeX]; exact (extracted_axis_rule n v m).symm
  | .flat e => by simp only [Extracted.Cse.valueRangeX, valueRange]; exact extracted_valueRange_eq e
  | .brackets e => by simp only [Extracted.Cse.valueRangeX, valueRange]; exact extracted_valueRange_eq e
  | .list cs => by
    simp only [Extracted.Cse.valueRangeX, valueRange, extracted_combine_eq]; rw [extracted_valueRanges_eq cs]
  | .concat cs => by
    simp only [Extracted.Cse.valueRangeX, valueRange, extracted_combine_eq]; rw [extracted_valueRanges_eq cs]
theorem extracted_valueRanges_eq : ∀ cs : List VExpr, Extracted.Cse.valueRangesX cs = valueRanges cs
  | [] => by simp [Extracted.Cse.valueRangesX, valueRanges]
  | c :: cs => by
    simp only [Extracted.Cse.valueRangesX, valueRanges]
    rw [extracted_valueRange_eq c, extracted_valueRanges_eq cs]
end

/-- The filter `replaceable` is in the source: `cse` keeps a candidate only if every occurrence
passes `_value_range(…) is not None and not _has_repeated_axis(…)`, nothing enlarges the candidate
list afterwards, and `_has_repeated_axis` is the duplicate test over all axis names. -/
theorem extracted_cse_filter :
    Extracted.Cse.filterPresent = true ∧ Extracted.Cse.filterFinal = true ∧
    Extracted.Cse.hasRepeatedAxisRecognised = true := by decide

/-- The `decl` / `only` / `fixed` hypotheses of `CseStep` are in the source: the replacement axis
is built with `min_value=_value_range(…)[0]` and the value of what it replaces, `stage2.Axis`
keeps `min_value` (default 1), and stage 3 rejects a value below `min_value`. -/
theorem extracted_cse_min_value :
    Extracted.Cse.replacementRecordsMin = true ∧ Extracted.Cse.replacementKeepsValue = true ∧
    Extracted.Cse.stage3ChecksMin = true ∧ Extracted.Cse.axisDefaultMin = 1 ∧
    Extracted.Cse.axisKeepsMin = true := by decide

end Einx.Solve
