import EinxModel.Proofs.Solve
import EinxModel.Solve.Tree
/-!
C02 — axis and rank solving is sound, unambiguous and exact.

Property theorems only (helper lemmas live in `Proofs/Solve.lean`).  They are stated about the
definitions the driver executes (`propagate`, `checkSat`, `solveAll`, `checkAll`).

Arithmetic is over `Nat`, so every statement holds beyond 2^31 by construction (`sat_exact`-remark
of DESIGN section 5; an `example` below evaluates a product of 2^32 * 2^32).

Reading: `Sols inp ρ σ` (counts `ρ`, lengths `σ`) is the set of assignments satisfying all stated
constraints; a reported quantity is admissible iff `Sols ≠ ∅` and it has one value on `Sols`.
-/
namespace Einx.Solve

/-- The Boolean checker decides the specification (and demands that every variable is bound). -/
theorem checkSat_iff (sys : System) (a : Assign) :
    checkSat sys a = true ↔ (∀ x ∈ sys.allVars, (a.lookup x).isSome = true) ∧ Sat sys (toFun a) :=
  checkSat_iff' sys a

/-- The partial assignment carried by a verdict (nothing for `none`). -/
def Verdict.known : Verdict → Assign
  | .unique a => a
  | .stuck a => a
  | .none => []

/-- **Forcedness.** Every value derived by the reference solver holds in *every* satisfying
assignment (invariant of the loop: the partial assignment is contained in every solution). -/
theorem propagate_forced (sys : System) (τ : Var → Nat) (hτ : Sat sys τ) (x : Var) (v : Nat)
    (h : (propagate sys).known.lookup x = some v) : τ x = v := by
  have hg := propagate_good sys
  cases hp : propagate sys with
  | none => rw [hp] at h; simp [Verdict.known, List.lookup] at h
  | unique a => rw [hp] at hg h; exact hg.1 τ hτ x v h
  | stuck a => rw [hp] at hg h; exact hg.1 τ hτ x v h

/-- Verdict `none` ⇒ there is no satisfying assignment. -/
theorem propagate_none (sys : System) (h : propagate sys = .none) : ¬ ∃ τ, Sat sys τ := by
  have hg := propagate_good sys
  rw [h] at hg
  rintro ⟨τ, hτ⟩
  exact hg τ hτ

/-- Verdict `unique a` ⇒ `a` is a solution and every solution coincides with it on all variables
of the system: `Sols = {a}`. -/
theorem propagate_unique (sys : System) (a : Assign) (h : propagate sys = .unique a) :
    Sat sys (toFun a) ∧ ∀ τ, Sat sys τ → ∀ x ∈ sys.allVars, τ x = toFun a x := by
  have hg := propagate_good sys
  rw [h] at hg
  obtain ⟨hforced, hcheck⟩ := hg
  rw [checkSat_iff] at hcheck
  refine ⟨hcheck.2, ?_⟩
  intro τ hτ x hx
  have hsome := hcheck.1 x hx
  cases hl : a.lookup x with
  | none => simp [hl] at hsome
  | some v => simp [toFun, hl, hforced τ hτ x v hl]

/-- Verdict `stuck a` is not a disguised `unique`: some variable of the system is still unknown,
and it is a genuine fixpoint — no equation has exactly one (linear) unknown left.  (The fuel
`propagate` passes to the loop, the number of variables, is enough.) -/
theorem propagate_stuck_fixpoint (sys : System) (a : Assign) (h : propagate sys = .stuck a) :
    (∃ x ∈ sys.allVars, a.lookup x = none) ∧ scan sys a sys.eqns = .skip := by
  have hg := propagate_good sys
  rw [h] at hg
  refine ⟨hg.2, ?_⟩
  apply loop_stuck_fixpoint sys sys.allVars.length [] a _ h
  unfold unknownCount
  exact List.length_filter_le _ _

/-! ### Rank level and the two-level solver -/

/-! The rank equation of a tensor says what it should: the width polynomial evaluates to the
semantic width (number of root-level items after expansion with counts `ρ`). -/
theorem evalPoly_append (ρ : Var → Nat) (p q : Poly) :
    evalPoly ρ (p ++ q) = evalPoly ρ p + evalPoly ρ q := by
  induction p with
  | nil => simp [evalPoly]
  | cons m ms ih => simp [evalPoly, ih, Nat.add_assoc]

theorem evalPoly_under (ρ : Var → Nat) (id : Var) (p : Poly) :
    evalPoly ρ (p.map (fun m => ⟨m.coef, id :: m.vars⟩)) = ρ id * evalPoly ρ p := by
  induction p with
  | nil => simp [evalPoly]
  | cons m ms ih =>
    simp only [List.map, evalPoly, evalMono, prodVars, ih, Nat.mul_add]
    rw [Nat.mul_left_comm]

mutual
theorem widthPoly_eval (ρ : Var → Nat) : ∀ e : Expr, evalPoly ρ (widthPoly e) = width ρ e
  | .axis _ => by simp [widthPoly, width, evalPoly, evalMono, prodVars]
  | .num _ => by simp [widthPoly, width, evalPoly, evalMono, prodVars]
  | .flat _ => by simp [widthPoly, width, evalPoly, evalMono, prodVars]
  | .concat _ => by simp [widthPoly, width, evalPoly, evalMono, prodVars]
  | .brackets e => by simp only [widthPoly, width]; exact widthPoly_eval ρ e
  | .ellipsis id e => by simp only [widthPoly, width, evalPoly_under]; rw [widthPoly_eval ρ e]
  | .list cs => by simp only [widthPoly, width]; exact widthPolyL_eval ρ cs
theorem widthPolyL_eval (ρ : Var → Nat) : ∀ cs : List Expr, evalPoly ρ (widthPolyL cs) = widthL ρ cs
  | [] => by simp [widthPolyL, widthL, evalPoly]
  | c :: cs => by
    simp only [widthPolyL, widthL, evalPoly_append]
    rw [widthPoly_eval ρ c, widthPolyL_eval ρ cs]
end

/-- Counts derived at the rank level are forced: they hold in every solution. -/
theorem rank_propagate_forced (inp : Input) (ρ σ : Var → Nat) (h : Sols inp ρ σ) (id : Var) (n : Nat)
    (hk : (propagate (rankSystem true inp)).known.lookup id = some n) : ρ id = n :=
  propagate_forced _ ρ h.1 id n hk

/-- Every ellipsis id of the input is a variable of the rank system. -/
theorem ellIds_subset_allVars (b : Bool) (inp : Input) : ∀ id ∈ inp.ellIds, id ∈ (rankSystem b inp).allVars := by
  intro id hid
  unfold System.allVars rankSystem
  apply List.mem_append_left
  simp only [List.map_map, List.mem_map]
  exact ⟨id, hid, rfl⟩

/-- Unique counts: the value system of any solution is the one the solver expanded. -/
theorem rank_unique (inp : Input) (c : Assign) (h : propagate (rankSystem true inp) = .unique c) :
    Sat (rankSystem true inp) (toFun c) ∧
    ∀ ρ, Sat (rankSystem true inp) ρ →
      (∀ id ∈ inp.ellIds, ρ id = toFun c id) ∧ valueSystem inp ρ = valueSystem inp (toFun c) := by
  obtain ⟨h1, h2⟩ := propagate_unique _ c h
  refine ⟨h1, ?_⟩
  intro ρ hρ
  have hag : ∀ id ∈ inp.ellIds, ρ id = toFun c id :=
    fun id hid => h2 ρ hρ id (ellIds_subset_allVars true inp id hid)
  refine ⟨hag, ?_⟩
  unfold valueSystem tabulate
  congr 1
  apply List.map_congr_left
  intro id hid
  rw [hag id hid]

/-- The weaker rank system (what the pinned implementation derives from constraint arrays) has
the same declared variables and a subset of the equations: its verdict `unique` is a verdict about
the full system's solutions as well. -/
theorem strictRank_sound (inp : Input) (c : Assign) (h : propagate (rankSystem false inp) = .unique c)
    (ρ : Var → Nat) (hρ : Sat (rankSystem false inp) ρ) : ∀ id ∈ inp.ellIds, ρ id = toFun c id :=
  fun id hid => (propagate_unique _ c h).2 ρ hρ id (ellIds_subset_allVars false inp id hid)

/-- **Soundness of the two-level reference solver.**
* `rankNone` / `valueNone`: no assignment satisfies the stated constraints;
* `unique c v`: `(c, v)` is a solution and every solution has these counts on all ellipses and
  these lengths on all variables of the expanded system;
* `rankStuck` / `valueStuck`: every derived count / length is forced. -/
theorem solveAll_sound (inp : Input) :
    match solveAll inp with
    | .rankNone => ∀ ρ σ, ¬ Sols inp ρ σ
    | .valueNone _ => ∀ ρ σ, ¬ Sols inp ρ σ
    | .unique c v =>
        Sols inp (toFun c) (toFun v) ∧
        ∀ ρ σ, Sols inp ρ σ → (∀ id ∈ inp.ellIds, ρ id = toFun c id) ∧
          (∀ x ∈ (valueSystem inp (toFun c)).allVars, σ x = toFun v x)
    | .rankStuck c => ∀ ρ σ, Sols inp ρ σ → ∀ id n, c.lookup id = some n → ρ id = n
    | .valueStuck c v =>
        ∀ ρ σ, Sols inp ρ σ → (∀ id ∈ inp.ellIds, ρ id = toFun c id) ∧
          (∀ x n, v.lookup x = some n → σ x = n) := by
  unfold solveAll
  cases hr : propagate (rankSystem true inp) with
  | none =>
    simp only
    intro ρ σ hs
    exact propagate_none _ hr ⟨ρ, hs.1⟩
  | stuck c =>
    simp only
    intro ρ σ hs id n hl
    have := propagate_forced (rankSystem true inp) ρ hs.1 id n
    rw [hr] at this
    exact this hl
  | unique c =>
    simp only
    obtain ⟨hc1, hc2⟩ := rank_unique inp c hr
    cases hv : propagate (valueSystem inp (toFun c)) with
    | none =>
      simp only
      intro ρ σ hs
      obtain ⟨_, heq⟩ := hc2 ρ hs.1
      apply propagate_none _ hv
      exact ⟨σ, by rw [← heq]; exact hs.2⟩
    | stuck v =>
      simp only
      intro ρ σ hs
      obtain ⟨hag, heq⟩ := hc2 ρ hs.1
      refine ⟨hag, ?_⟩
      intro x n hl
      have hs2 : Sat (valueSystem inp (toFun c)) σ := by rw [← heq]; exact hs.2
      have := propagate_forced _ σ hs2 x n
      rw [hv] at this
      exact this hl
    | unique v =>
      simp only
      obtain ⟨hv1, hv2⟩ := propagate_unique _ v hv
      refine ⟨⟨hc1, hv1⟩, ?_⟩
      intro ρ σ hs
      obtain ⟨hag, heq⟩ := hc2 ρ hs.1
      refine ⟨hag, ?_⟩
      have hs2 : Sat (valueSystem inp (toFun c)) σ := by rw [← heq]; exact hs.2
      exact hv2 σ hs2

/-- The checker for complete answers accepts exactly the solutions (with all variables bound). -/
theorem checkAll_iff (inp : Input) (c v : Assign) :
    checkAll inp c v = true ↔
      ((∀ id ∈ (rankSystem true inp).allVars, (c.lookup id).isSome = true) ∧
       (∀ x ∈ (valueSystem inp (toFun c)).allVars, (v.lookup x).isSome = true)) ∧
      Sols inp (toFun c) (toFun v) := by
  unfold checkAll Sols
  rw [Bool.and_eq_true, checkSat_iff, checkSat_iff]
  constructor
  · rintro ⟨⟨a, b⟩, ⟨c', d⟩⟩; exact ⟨⟨a, c'⟩, ⟨b, d⟩⟩
  · rintro ⟨⟨a, c'⟩, ⟨b, d⟩⟩; exact ⟨⟨a, b⟩, ⟨c', d⟩⟩

/-! ### Non-vacuity: concrete systems with each verdict -/

/-- `(a b) (c + 2)` against `(6, 5)` with `a = 2`: flatten + concat, uniquely solved. -/
def exUnique : Input :=
  { tensors := [⟨.list [.flat (.list [.axis "a", .axis "b"]), .concat [.axis "c", .num 2]], some [6, 5]⟩],
    constraints := [⟨"a", [], [2]⟩] }

example : solveAll exUnique =
    .unique [] [("b", 3), ("a", 2), ("c", 3), ("#0/1", 5), ("#0/0", 6)] := by decide

example : checkAll exUnique [] [("b", 3), ("a", 2), ("c", 3), ("#0/1", 5), ("#0/0", 6)] = true := by decide

/-- D3's input: `(b 3)` against 4 has no solution — `none` by divisibility. -/
def exNone : Input := { tensors := [⟨.flat (.list [.axis "b", .num 3]), some [4]⟩], constraints := [] }

example : solveAll exNone = .valueNone [] := by decide
example : ¬ ∃ ρ σ, Sols exNone ρ σ := by
  have h := solveAll_sound exNone
  have e : solveAll exNone = .valueNone [] := by decide
  rw [e] at h
  rintro ⟨ρ, σ, hs⟩
  exact h ρ σ hs

/-- `(a b)` against 6: two unknowns in the only product — `stuck`, and indeed ambiguous. -/
def exStuck : Input := { tensors := [⟨.flat (.list [.axis "a", .axis "b"]), some [6]⟩], constraints := [] }

example : solveAll exStuck = .valueStuck [] [("#0", 6)] := by decide
example : checkAll exStuck [] [("#0", 6), ("a", 2), ("b", 3)] = true ∧
          checkAll exStuck [] [("#0", 6), ("a", 3), ("b", 2)] = true := by decide

/-- `a... b` against rank 3: one unknown count in the rank equation, solved (`a = [2, 3]`, `b = 4`). -/
def exRank : Input :=
  { tensors := [⟨.list [.ellipsis "e0" (.axis "a"), .axis "b"], some [2, 3, 4]⟩], constraints := [] }

example : solveAll exRank = .unique [("e0", 2)] [("b", 4), ("a.1", 3), ("a.0", 2)] := by decide

/-- `a... b...` against rank 3: two unknown counts — stuck at the rank level. -/
example : solveAll { tensors := [⟨.list [.ellipsis "e0" (.axis "a"), .ellipsis "e1" (.axis "b")], some [2, 3, 4]⟩],
                     constraints := [] } = .rankStuck [] := by decide

/-- Exactness beyond 2^31 / 2^63: `(a b)` with `a = b = 2^32`. -/
example : solveAll { tensors := [⟨.flat (.list [.axis "a", .axis "b"]), none⟩],
                     constraints := [⟨"a", [], [4294967296]⟩, ⟨"b", [], [4294967296]⟩] } =
    .unique [] [("#0", 18446744073709551616), ("b", 4294967296), ("a", 4294967296)] := by decide

end Einx.Solve
