import EinxModel.Proofs.CseTreesSound
import EinxModel.Proofs.CseTreesFilter
/-!
C02, CSE part — **the model of the whole of `stage2/cse.py` preserves the solution set**.

`cseTrees` (`Solve/CseTrees.lean`) is the executable model of `cse()`: candidate search, all filters, selection order
and tree surgery; on every run of the check its output is compared structurally with the output of the real `cse` on
the stage-2 expressions of real calls (`tools/props/c02_cse.py`, stream (D)).  `forestSys` (`Solve/CseCheck.lean`) is the
value system stage 3 states for a list of stage-2 expressions `exprs1 ++ exprs2`.

The theorems here are about `cseTrees` itself, for *every* input that passes the decidable side conditions
`cseCheck` (well-formed trees + `traceOK` of the replacement walk).  The driver evaluates `cseCheck` on every real
input (request kind `cse_check`); on the pinned tree it fails exactly for the two inputs documented as defects of
einx in `docs/wp/cse.md` (a user axis called `cse.<n>`; a bracketed second occurrence at root level).

What `cseCheck` demands (all of it computed from the input by the model, nothing supplied by the harness):
* `wfForest`: a `ConcatenatedAxis` has at least two children, none of them a `List` (facts of stage2/tree.py);
* per replaced part `e` (`usedOK`): lower bounds positive, an unknown value has an unbounded range, and a part replaced
  at root level has one dimension.  That every replaced part passed the filter of `cse` — `_value_range(e)` is not
  `None`, no axis repeats — is **not** demanded: it is proved for every input (`cse_trees_is_cse_step`);
* per pair of events (`pairOK`): parts replaced by the same `cse.<k>` have the same shape (print alike, same unknown
  axes); parts replaced by different `cse.<k>` have disjoint unknown axes; an unknown axis that is copied to the output
  is neither inside a replaced part nor called `cse.<k>`.
-/
namespace Einx.Solve.CseT
open Einx.Solve

/-- **CSE preserves the solution set** (whole algorithm, all candidates at once).  Let `out = cseTrees opts rs` for an
input `rs = exprs1 ++ exprs2` that passes `cseCheck`.  Then
(a) every solution `σ` of the stage-3 system before CSE, extended by `cse.<k> :=` value of the part it replaces, is a
    solution of the system after CSE;
(b) every solution `σ'` after CSE comes from a solution `σ` before CSE that differs from it only on the unknown axes
    inside the replaced parts, and under which every replaced part with an unknown value has the value of its axis. -/
theorem cseTrees_preserves_sols_partial (opts : Opts) (rs out : List (Option VExpr))
    (hrun : cseTrees opts rs = .ok out) (hchk : cseCheck opts rs = true) :
    (∀ σ, Sat (forestSys rs) σ → Sat (forestSys out) (extend σ (cseEvents opts rs))) ∧
    (∀ σ', Sat (forestSys out) σ' →
      ∃ σ, Sat (forestSys rs) σ ∧ (∀ x, x ∉ innerNames (cseEvents opts rs) → σ x = σ' x) ∧
        ∀ k e len r, Ev.used k e len r ∈ cseEvents opts rs → valueOf e = none → evalV σ e = σ' (cseName k)) := by
  simp only [cseCheck, Bool.and_eq_true] at hchk
  obtain ⟨hwf, htr⟩ := hchk
  have hf := traceOK_facts htr (filt_cseEvents opts rs)
  have hrun' : replaceRoots (candidates opts rs) 0 rs = .ok out := hrun
  have hpos := evPos_of_facts hf
  obtain ⟨hdo, hdi⟩ := roots_decls (candidates opts rs) rs 0 out hrun' hpos
  constructor
  · intro σ hσ
    rw [sat_forestSys_iff] at hσ ⊢
    obtain ⟨hb, he⟩ := hσ
    have hgood := good_forward hf σ
    have hvals := roots_spec (candidates opts rs) σ _ rs 0 out hrun' hwf hgood
    refine ⟨?_, by rw [hvals]; exact he⟩
    intro p hp
    rw [hdo] at hp
    obtain ⟨ev, hev, hpe⟩ := List.mem_flatMap.mp hp
    cases ev with
    | surv n m =>
      simp only [outDecls, List.mem_singleton] at hpe
      subst hpe
      have h1 : extend σ (cseEvents opts rs) n = σ n := hgood _ hev
      show m ≤ extend σ (cseEvents opts rs) n
      rw [h1]
      exact hb (n, m) (by rw [hdi]; exact List.mem_flatMap.mpr ⟨_, hev, by simp [inDecls]⟩)
    | used k e len r =>
      obtain ⟨_, ⟨m, ub, hrange, hub⟩, hnorep, hminpos, _⟩ := usedOK_spec (hf.used _ hev) (hf.filt _ hev)
      cases hv : valueOf e with
      | some v => simp [outDecls, hv] at hpe
      | none =>
        simp only [outDecls, hv, hrange, List.mem_singleton] at hpe
        subst hpe
        have hubt := hub hv
        subst hubt
        have h1 : extend σ (cseEvents opts rs) (cseName k) = evalV σ e := (hgood _ hev).2.1 hv
        obtain ⟨_, hlow, _⟩ := valueRange_spec_aux e m true hrange ((hasDup_false_iff _).mp hnorep) hminpos
        have hadm : ∀ q ∈ freeAxes e, q.2 ≤ σ q.1 := fun q hq =>
          hb q (by rw [hdi]; exact List.mem_flatMap.mpr ⟨_, hev, by simpa [inDecls] using hq⟩)
        have := hlow σ hadm
        show m ≤ extend σ (cseEvents opts rs) (cseName k)
        rw [h1]; simpa [okT] using this
  · intro σ' hσ'
    rw [sat_forestSys_iff] at hσ'
    obtain ⟨hb, he⟩ := hσ'
    have hdecl : ∀ k e len r m ub, Ev.used k e len r ∈ cseEvents opts rs → valueOf e = none →
        valueRange e = some (m, ub) → m ≤ σ' (cseName k) := by
      intro k e len r m ub hev hv hrange
      exact hb (cseName k, m) (by rw [hdo]; exact List.mem_flatMap.mpr ⟨_, hev, by simp [outDecls, hv, hrange]⟩)
    obtain ⟨σ, hfr, hinv⟩ := build_before hf σ' hdecl (cseEvents opts rs) (fun _ h => h)
    have hgood := good_backward hf σ σ' hfr (fun k e len r h => (hinv k e len r h).1)
    have hvals := roots_spec (candidates opts rs) σ σ' rs 0 out hrun' hwf hgood
    refine ⟨σ, ?_, hfr, fun k e len r h => (hinv k e len r h).1⟩
    rw [sat_forestSys_iff]
    refine ⟨?_, by rw [← hvals]; exact he⟩
    intro p hp
    rw [hdi] at hp
    obtain ⟨ev, hev, hpe⟩ := List.mem_flatMap.mp hp
    cases ev with
    | surv n m =>
      simp only [inDecls, List.mem_singleton] at hpe
      subst hpe
      have h1 : σ' n = σ n := hgood _ hev
      show m ≤ σ n
      rw [← h1]
      exact hb (n, m) (by rw [hdo]; exact List.mem_flatMap.mpr ⟨_, hev, by simp [outDecls]⟩)
    | used k e len r => exact (hinv k e len r hev).2 p (by simpa [inDecls] using hpe)

/-- CSE does not change whether the constraints are solvable. -/
theorem cseTrees_solvable_iff_partial (opts : Opts) (rs out : List (Option VExpr))
    (hrun : cseTrees opts rs = .ok out) (hchk : cseCheck opts rs = true) :
    (∃ σ, Sat (forestSys rs) σ) ↔ (∃ σ', Sat (forestSys out) σ') := by
  obtain ⟨ha, hb⟩ := cseTrees_preserves_sols_partial opts rs out hrun hchk
  exact ⟨fun ⟨σ, h⟩ => ⟨_, ha σ h⟩, fun ⟨σ', h⟩ => let ⟨σ, hσ, _⟩ := hb σ' h; ⟨σ, hσ⟩⟩

/-- CSE does not change what is forced outside the replaced parts: an axis `x` that is copied to the output
(a `surv` event: it is neither inside a replaced part nor one of the new axes) is forced to `v` before CSE iff it is
forced to `v` after CSE. -/
theorem cseTrees_forced_iff_partial (opts : Opts) (rs out : List (Option VExpr))
    (hrun : cseTrees opts rs = .ok out) (hchk : cseCheck opts rs = true) (x : Var) (m : Nat)
    (hx : Ev.surv x m ∈ cseEvents opts rs) (v : Nat) :
    (∀ σ, Sat (forestSys rs) σ → σ x = v) ↔ (∀ σ', Sat (forestSys out) σ' → σ' x = v) := by
  obtain ⟨ha, hb⟩ := cseTrees_preserves_sols_partial opts rs out hrun hchk
  have hf := traceOK_facts (by simp only [cseCheck, Bool.and_eq_true] at hchk; exact hchk.2) (filt_cseEvents opts rs)
  constructor
  · intro h σ' hσ'
    obtain ⟨σ, hσ, hfr, _⟩ := hb σ' hσ'
    have hxn : x ∉ innerNames (cseEvents opts rs) := by
      intro hin
      obtain ⟨k, e, len, r, hu, hxe⟩ := mem_innerNames.mp hin
      have := hf.pair _ hx _ hu
      simp only [pairOK, Bool.and_eq_true, Bool.not_eq_true', List.contains_eq_mem, decide_eq_false_iff_not] at this
      exact this.2 hxe
    rw [← hfr x hxn]; exact h σ hσ
  · intro h σ hσ
    have := h _ (ha σ hσ)
    have hg : extend σ (cseEvents opts rs) x = σ x := good_forward hf σ _ hx
    rw [← hg]; exact this

/-- The new axis reports the value of what it replaces: `cse.<k>` is forced to `v` after CSE iff the value of the
replaced part `e` is forced to `v` before. -/
theorem cseTrees_value_forced_iff_partial (opts : Opts) (rs out : List (Option VExpr))
    (hrun : cseTrees opts rs = .ok out) (hchk : cseCheck opts rs = true) (k : Nat) (e : VExpr) (len : Nat) (r : Bool)
    (hu : Ev.used k e len r ∈ cseEvents opts rs) (hv : valueOf e = none) (v : Nat) :
    (∀ σ, Sat (forestSys rs) σ → evalV σ e = v) ↔ (∀ σ', Sat (forestSys out) σ' → σ' (cseName k) = v) := by
  obtain ⟨ha, hb⟩ := cseTrees_preserves_sols_partial opts rs out hrun hchk
  have hf := traceOK_facts (by simp only [cseCheck, Bool.and_eq_true] at hchk; exact hchk.2) (filt_cseEvents opts rs)
  constructor
  · intro h σ' hσ'
    obtain ⟨σ, hσ, _, hval⟩ := hb σ' hσ'
    rw [← hval k e len r hu hv]; exact h σ hσ
  · intro h σ hσ
    have := h _ (ha σ hσ)
    have hg := (good_forward hf σ _ hu).2.1 hv
    rw [← hg]; exact this

/-- **Every replacement performed by `cseTrees` satisfies the premises of `CseStep` about the filter — for every input
and both options, no side condition**: what is replaced (a node, or a run of children of a `List`) is an exprlist of a
final candidate (the two searches of `replace` find nothing else, and an exprlist consists of the nodes at its
identities), and every exprlist of a final candidate passed `_value_range(...) is not None and not
_has_repeated_axis(...)`; no later step of `cse` adds exprlists. -/
theorem cse_trees_is_cse_step (opts : Opts) (rs : List (Option VExpr)) (k : Nat) (e : VExpr) (len : Nat) (r : Bool)
    (hu : Ev.used k e len r ∈ cseEvents opts rs) :
    0 < len ∧ (∃ m ub, valueRange e = some (m, ub)) ∧ hasRepeatedAxis e = false := by
  obtain ⟨h1, h2, h3⟩ := filt_cseEvents opts rs _ hu
  refine ⟨h1, ?_, h3⟩
  cases hr : valueRange e with
  | none => simp [hr] at h2
  | some p => exact ⟨p.1, p.2, rfl⟩

/-- … and on a checked input the remaining premises of `CseStep` that concern the replaced expression hold too
(`valueRange_spec` applies to it): bounds positive, an unknown value has an unbounded range, and the new axis is
declared with the minimum `_value_range` reports. -/
theorem cse_trees_is_cse_step_partial (opts : Opts) (rs out : List (Option VExpr))
    (hrun : cseTrees opts rs = .ok out) (hchk : cseCheck opts rs = true) (k : Nat) (e : VExpr) (len : Nat) (r : Bool)
    (hu : Ev.used k e len r ∈ cseEvents opts rs) :
    ∃ m ub, valueRange e = some (m, ub) ∧ hasRepeatedAxis e = false ∧ MinPos e ∧
      (valueOf e = none → ub = true ∧ (cseName k, m) ∈ (forestSys out).vars) := by
  simp only [cseCheck, Bool.and_eq_true] at hchk
  have hf := traceOK_facts hchk.2 (filt_cseEvents opts rs)
  obtain ⟨_, ⟨m, ub, hrange, hub⟩, hnorep, hminpos, _⟩ := usedOK_spec (hf.used _ hu) (hf.filt _ hu)
  obtain ⟨hdo, _⟩ := roots_decls (candidates opts rs) rs 0 out hrun (evPos_of_facts hf)
  refine ⟨m, ub, hrange, hnorep, hminpos, fun hv => ⟨hub hv, ?_⟩⟩
  show (cseName k, m) ∈ rootDecls out
  rw [hdo]; exact List.mem_flatMap.mpr ⟨_, hu, by simp [outDecls, hv, hrange]⟩

/-! ### Non-vacuity -/

/-- `a (b c), (b c) d` against `(2, 6), (6, 5)` as `cse` receives it: `exprs1 ++ exprs2` (shapes are lists of valued
unnamed axes). -/
def exIn : List (Option VExpr) :=
  [some (.list [.axis "a" none 1, .flat (.list [.axis "b" none 1, .axis "c" none 1])]),
   some (.list [.flat (.list [.axis "b" none 1, .axis "c" none 1]), .axis "d" none 1]),
   some (.list [.axis "unnamed.0" (some 2) 1, .axis "unnamed.1" (some 6) 1]),
   some (.list [.axis "unnamed.2" (some 6) 1, .axis "unnamed.3" (some 5) 1])]

def exOut : List (Option VExpr) :=
  [some (.list [.axis "a" none 1, .axis "cse.0" none 1]),
   some (.list [.axis "cse.0" none 1, .axis "d" none 1]),
   some (.list [.axis "unnamed.0" (some 2) 1, .axis "unnamed.1" (some 6) 1]),
   some (.list [.axis "unnamed.2" (some 6) 1, .axis "unnamed.3" (some 5) 1])]

/-- the model replaces both occurrences of `(b c)` by `cse.0` (the real `cse` does the same: harness stream (D)) -/
example : cseTrees {} exIn = .ok exOut := by rfl
/-- … and the input passes the side conditions -/
example : cseCheck {} exIn = true := by decide

/-- The theorem applies and its conclusion is not empty: the system after CSE has the solution `a=2, cse.0=6, d=5`,
hence the system before CSE is solvable, and `d` is forced to 5 before CSE because it is after CSE. -/
example : ∃ σ, Sat (forestSys exIn) σ := by
  apply (cseTrees_solvable_iff_partial {} exIn exOut (by rfl) (by decide)).mpr
  refine ⟨toFun [("a", 2), ("cse.0", 6), ("d", 5)], ?_⟩
  rw [sat_forestSys_iff]
  constructor
  · decide
  · intro p hp a b hab
    simp only [exOut, List.map, rootVals, items, itemsL, List.length, List.take, List.drop,
      List.zip, List.zipWith, List.mem_cons, List.not_mem_nil, or_false] at hp
    rcases hp with rfl | rfl <;> simp only [Prod.mk.injEq, Option.some.injEq] at hab <;>
      (obtain ⟨rfl, rfl⟩ := hab; decide)

/-- `(b 3)`, `(b 3)` (D3): `b 3` takes only multiples of 3, the filter rejects it and nothing is replaced. -/
example : cseTrees {} [some (.flat (.list [.axis "b" none 1, .axis "unnamed.0" (some 3) 1])),
                       some (.flat (.list [.axis "b" none 1, .axis "unnamed.1" (some 3) 1])), none, none]
    = .ok [some (.flat (.list [.axis "b" none 1, .axis "unnamed.0" (some 3) 1])),
           some (.flat (.list [.axis "b" none 1, .axis "unnamed.1" (some 3) 1])), none, none] := by rfl

/-- The side conditions are not always true: with a user axis called `cse.0` (einx: `"(a b) cse..., (a b)"`) the new
axis collides with it, `cseCheck` is `false` — and indeed the real call fails although the constraints are solvable
(`docs/wp/cse.md`, defect 1). -/
example : cseCheck {} [some (.list [.flat (.list [.axis "a" none 1, .axis "b" none 1]), .axis "cse.0" none 1]),
                       some (.flat (.list [.axis "a" none 1, .axis "b" none 1])), none, none] = false := by decide

end Einx.Solve.CseT
