import EinxModel.Proofs.ErrorsEllipsis
import EinxModel.Errors.Classify
import EinxModel.Errors.Sites
import EinxModel.Props.C12
/-!
# C03 — ill-formed calls are rejected with documented errors, never computed

What is proved here (DESIGN.md, C03, reading (a)–(c)):

* **Error reporting cannot fail with `AssertionError`.**  `indicator_pos_in_range`: every caret position that the model of
  `ExpressionIndicator.get_pos_for_{exprs,axisnames,concat,brackets}` computes from a tree returned by the parser model on the
  caller's own description `s` — or from a sub-expression of it, or from one of the rewrites `_parse_op` applies to such a
  sub-expression (`remove brackets`, `[output.axis]`, `mark_reduced_axes`) — satisfies `0 ≤ p < s.length`, which is the test of the
  `assert` in the indicator methods and in the constructors of `SyntaxError`/`RankError`/`AxisSizeError`/`SemanticError`.
  Nodes that smart constructors create at position `-1` contribute no caret (`indicator_never_negative`).
  `get_pos_for_ellipses` (`range(end_pos - 3, end_pos)`) is covered by `indicator_ellipses_in_range`, through the additional
  invariant that every ellipsis node of parser output ends with a `...` token (`parse_tree_ellipses_ok`; the driver also
  evaluates it on every correspondence case).
* **Obligations over the extracted source facts** (`decide`): the indicator formulas and range asserts are the ones the model
  mirrors; the error-class hierarchy is as documented; every `assert`/`raise <internal type>` site of the front end is a reviewed one.
* **The classification the harness applies** is a total function whose five verdicts are exhaustive and mutually exclusive, and
  which never lets an internal exception type pass as an argument error.

`elab_total`/`accept_sound` of DESIGN.md need the elaboration model M2, which does not exist yet; clause (b) is therefore
checked behaviourally (corruptions that are ill-formed by construction), not against a model verdict.
-/
namespace Einx.Props.C03
open Einx.Notation Einx.Errors

/-! ## (i) Caret positions -/

/-- `get_pos_for_exprs` on roots that satisfy the position invariant: its `assert` holds. -/
theorem indicator_exprs_in_range {n : Nat} {roots : List Expr} (h : ∀ x ∈ roots, PosOK n x) :
    posAssert n (posForExprs roots) = true := by
  rw [posAssert_iff]
  exact flatMap_inR (fun x hx => posRange_inR (h x hx).range)

/-- `get_pos_for_axisnames`, for every list of axis names. -/
theorem indicator_axisnames_in_range {n : Nat} {roots : List (Option Expr)} (names : List Str) (h : RootsOK n roots) :
    posAssert n (posForAxisnames roots names) = true := by
  rw [posAssert_iff]
  exact flatMap_inR (fun y hy => axisnamePos_inR names (rootNodes_ok h y hy))

/-- `get_pos_for_concat` -/
theorem indicator_concat_in_range {n : Nat} {roots : List (Option Expr)} (h : RootsOK n roots) :
    posAssert n (posForConcat roots) = true := by
  rw [posAssert_iff]
  exact flatMap_inR (fun y hy => concatPos_inR (rootNodes_ok h y hy))

/-- `get_pos_for_brackets`: both carets of every bracket pair that has a source position. -/
theorem indicator_brackets_in_range {n : Nat} {roots : List (Option Expr)} (h : RootsOK n roots) :
    posAssert n (posForBrackets roots) = true := by
  rw [posAssert_iff]
  exact flatMap_inR (fun y hy => bracketsPos_inR (rootNodes_ok h y hy))

/-- `get_pos_for_ellipses` under the decidable hypothesis that every ellipsis node with a source position ends at least
    three characters into the string and inside it (true of parser output, whose ellipsis nodes end with a `...` token; not
    derived here from the parser model — the driver evaluates `ellOK` on every correspondence case). -/
theorem indicator_ellipses_in_range_partial {n : Nat} {roots : List (Option Expr)}
    (h : ∀ x, some x ∈ roots → ellOK n x = true) : posAssert n (posForEllipses roots) = true := by
  rw [posAssert_iff]
  apply flatMap_inR
  intro y hy
  simp only [rootNodes, List.mem_flatMap] at hy
  obtain ⟨r, hr, hy⟩ := hy
  cases r with
  | none => simp at hy
  | some x =>
    have := h x hr
    simp only [ellOK, List.all_eq_true] at this
    exact ellipsisPos_inR (this y hy)

/-- `get_pos_for_literal` (used for `->` and `,`): inside the string for every literal and every string. -/
theorem indicator_literal_in_range (l text : Str) : posAssert text.length (posForLiteral l text 0) = true := by
  rw [posAssert_iff]
  exact arrows_ok l text

/-- The roots `_parse_op` and the solver stages hand to the indicator: every sub-expression `y` of the parsed description, and
    the rewrites of `y` that `_parse_op` builds (implicit outputs and automatic bracket marking) satisfy the invariant. -/
theorem parse_tree_roots_ok (text : Str) (x : Expr) (h : parseOp text = .ok x) :
    ∀ y ∈ nodes x, PosOK text.length y ∧ PosOK text.length (removeBrackets y) ∧ PosOK text.length (toOutput y) ∧
      ∀ names, PosOK text.length (markAxes names y) := by
  have hx := posOK_of_exprOK x (Einx.Props.C12.parse_tree_positions_in_range text x h)
  intro y hy
  have hy' := nodes_ok x hx y hy
  exact ⟨hy', removeBrackets_ok hy', toOutput_ok hy', fun names => markAxes_ok names hy'⟩

/-- The set of trees covered: sub-expressions of the parsed description closed under the three rewrites. -/
inductive FromDescription (x : Expr) : Expr → Prop
  | node {y} : y ∈ nodes x → FromDescription x y
  | sub {y z} : FromDescription x y → z ∈ nodes y → FromDescription x z
  | removeBrackets {y} : FromDescription x y → FromDescription x (removeBrackets y)
  | toOutput {y} : FromDescription x y → FromDescription x (toOutput y)
  | markAxes {y} (names : List Str) : FromDescription x y → FromDescription x (markAxes names y)

theorem fromDescription_ok {n : Nat} {x : Expr} (hx : PosOK n x) : ∀ {y}, FromDescription x y → PosOK n y := by
  intro y hy
  induction hy with
  | node h => exact nodes_ok x hx _ h
  | sub _ hz ih => exact nodes_ok _ ih _ hz
  | removeBrackets _ ih => exact removeBrackets_ok ih
  | toOutput _ ih => exact toOutput_ok ih
  | markAxes names _ ih => exact markAxes_ok names ih

theorem fromDescription_ell {n : Nat} {x : Expr} (hx : EllP n x) : ∀ {y}, FromDescription x y → EllP n y := by
  intro y hy
  induction hy with
  | node h => exact nodes_ell x hx _ h
  | sub _ hz ih => exact nodes_ell _ ih _ hz
  | removeBrackets _ ih => exact removeBrackets_ell ih
  | toOutput _ ih => exact toOutput_ell ih
  | markAxes names _ ih => exact markAxes_ell names ih

/-- The hypothesis of `indicator_ellipses_in_range_partial` is a theorem for parser output: every `Ellipsis` node of a tree
    returned by the parser model ends with the three characters of a `...` token inside the string (tokens are as long as
    their text — carried from the lexer through the delimiter stack, `parse`, both `move_up` passes and the bracket pass). -/
theorem parse_tree_ellipses_ok (text : Str) (x : Expr) (h : parseOp text = .ok x) : ellOK text.length x = true := by
  have := parseOp_ell text
  rw [h] at this
  exact ellOK_of_EllP this

/-- `get_pos_for_ellipses` at full strength on the trees of `indicator_pos_in_range`. -/
theorem indicator_ellipses_in_range (text : Str) (x : Expr) (h : parseOp text = .ok x)
    (roots : List (Option Expr)) (hr : ∀ y, some y ∈ roots → FromDescription x y) :
    posAssert text.length (posForEllipses roots) = true := by
  have hx := parseOp_ell text
  rw [h] at hx
  exact indicator_ellipses_in_range_partial (fun y hy => ellOK_of_EllP (fromDescription_ell hx (hr y hy)))

/-- **`indicator_pos_in_range`.**  For every description `text` that the parser model accepts, and every list of roots taken
    from its tree (sub-expressions, closed under `_parse_op`'s rewrites; `none` for absent equation sides), the range `assert`
    of `get_pos_for_exprs`, `get_pos_for_axisnames` (any names), `get_pos_for_concat` and `get_pos_for_brackets` holds: no
    caret is negative or beyond the end of the caller's string, so neither these asserts nor the ones in the error
    constructors can fire for positions obtained this way. -/
theorem indicator_pos_in_range (text : Str) (x : Expr) (h : parseOp text = .ok x)
    (roots : List (Option Expr)) (hr : ∀ y, some y ∈ roots → FromDescription x y) (names : List Str) :
    posAssert text.length (posForExprs (roots.filterMap id)) = true ∧
    posAssert text.length (posForAxisnames roots names) = true ∧
    posAssert text.length (posForConcat roots) = true ∧
    posAssert text.length (posForBrackets roots) = true := by
  have hx := posOK_of_exprOK x (Einx.Props.C12.parse_tree_positions_in_range text x h)
  have hroots : RootsOK text.length roots := fun y hy => fromDescription_ok hx (hr y hy)
  refine ⟨indicator_exprs_in_range ?_, indicator_axisnames_in_range names hroots, indicator_concat_in_range hroots,
    indicator_brackets_in_range hroots⟩
  intro y hy
  simp only [List.mem_filterMap, id] at hy
  obtain ⟨a, ha, rfl⟩ := hy
  exact hroots y ha

/-- No indicator function returns a negative position (in particular never `-1`) on such trees: nodes created at the default
    position contribute nothing.  (A `-1` here would be an `AssertionError` while reporting another error.) -/
theorem indicator_never_negative {n : Nat} {roots : List (Option Expr)} (h : RootsOK n roots) (names : List Str) :
    ∀ p, (p ∈ posForAxisnames roots names ∨ p ∈ posForConcat roots ∨ p ∈ posForBrackets roots) → 0 ≤ p := by
  intro p hp
  rcases hp with hp | hp | hp
  · exact (posAssert_iff.mp (indicator_axisnames_in_range names h) p hp).1
  · exact (posAssert_iff.mp (indicator_concat_in_range h) p hp).1
  · exact (posAssert_iff.mp (indicator_brackets_in_range h) p hp).1

/-- The caret line of `create` is exactly as long as the expression, whatever the positions: a caret outside the string is
    silently dropped by `create`, which is why the constructors assert the range separately. -/
theorem create_length (text : Str) (pos : List Int) :
    (create text pos).length = 13 + text.length + 2 + 13 + text.length := by
  simp [create, lit]
  omega

/-! ## (ii) Obligations over the extracted source facts -/

/-- The indicator methods are the ones the model mirrors: node selection, `None` handling, the `begin_pos >= 0` guard and the
    expression appended to `pos`, in source order. -/
theorem indicator_formulas_are_the_models :
    Einx.Extracted.indicatorMethods =
      [⟨"get_pos_for_literal", [], false, false, false, false, ["range(i, i + len(literal))"], "pos < len(self.text)"⟩,
       ⟨"get_pos_for_exprs", [], false, false, false, false, ["range(expr.begin_pos, expr.end_pos)"], "pos < len(self.text)"⟩,
       ⟨"get_pos_for_axisnames", ["stage1.Axis", "stage2.Axis", "stage3.Axis"], true, true, false, true,
          ["range(expr.begin_pos, expr.end_pos)"], "pos < len(self.text)"⟩,
       ⟨"get_pos_for_ellipses", ["stage1.Ellipsis"], true, true, true, false, ["range(expr.end_pos - 3, expr.end_pos)"], "pos < len(self.text)"⟩,
       ⟨"get_pos_for_concat", ["stage1.ConcatenatedAxis"], true, true, true, false, ["range(expr.begin_pos, expr.end_pos)"], "pos < len(self.text)"⟩,
       ⟨"get_pos_for_brackets", ["stage1.Brackets"], true, true, true, false, ["[expr.begin_pos, expr.end_pos - 1]"], "pos < len(self.text)"⟩] := by
  decide

/-- The four constructors that take caret positions assert exactly the range `0 ≤ p < len(expression)` (`posAssert`), and the
    other classes take no positions. -/
theorem position_asserts_are_range_checks :
    Einx.Extracted.errorClasses.map (fun c => (c.name, c.posAssert)) =
      [("EinxError", ""), ("SyntaxError", "self.pos < len(expression)"), ("RankError", "self.pos < len(invocation.expression)"),
       ("AxisSizeError", "self.pos < len(invocation.expression)"), ("SemanticError", "self.pos < len(invocation.expression)"),
       ("OperationNotSupportedError", ""), ("ImportBackendError", ""), ("BackendResolutionError", ""), ("CallOperationError", "")] := by
  decide

/-- Every class the property names exists in `errors.py`, is exported to `einx.errors`, is re-exported by `einx/errors.py`, and
    derives from the library's base class `EinxError`, which derives from `Exception`. -/
theorem documented_classes_derive_from_base :
    ∀ d ∈ documentedClasses,
      (Einx.Extracted.errorClasses.any (fun c => c.name == d && c.exported) && Einx.Extracted.errorsPublic.contains d &&
        (einxMro d).contains "einx.errors.EinxError" && (einxMro d).contains "builtins.Exception") = true := by
  decide

/-- The set of exception classes of einx's own that the public API may raise, with the verdict of each: exactly the six named
    classes are `documented`; `CallOperationError` is `runtime`; the abstract base and `ImportBackendError` are not accepted. -/
theorem einx_classes_verdicts :
    Einx.Extracted.errorsPublic.map (fun c => (c, classify (raisedEinx c))) =
      [("EinxError", .undocumented), ("SyntaxError", .documented), ("RankError", .documented), ("AxisSizeError", .documented),
       ("SemanticError", .documented), ("OperationNotSupportedError", .documented), ("ImportBackendError", .undocumented),
       ("BackendResolutionError", .documented), ("CallOperationError", .runtime)] := by
  decide

/-- None of einx's own error classes inherits from an internal exception type or from `ValueError`/`TypeError`: the verdicts do
    not overlap on the library's classes. -/
theorem einx_classes_not_internal :
    ∀ c ∈ Einx.Extracted.errorClasses, (isInternal (raisedEinx c.name) || isArgType (raisedEinx c.name)) = false := by
  decide

/-- Every `assert` / `raise <internal type>` statement of the front end is a reviewed site (Errors/Sites.lean). -/
theorem front_sites_reviewed :
    (Einx.Extracted.assertSites.all (fun s => !inFront s.file || isReviewed s)) = true := by
  decide +kernel

/-! ## (iii) The classification applied by the harness -/

/-- `classify` returns the verdict whose declarative reading holds. -/
theorem classify_spec (r : Raised) : Holds r (classify r) := by
  unfold classify
  cases h1 : isDocumented r
  · cases h2 : isRuntime r
    · cases h3 : isInternal r
      · cases h4 : isArgType r
        · simp [Holds, h1, h2, h3, h4]
        · cases h5 : argAccepted r <;> simp [Holds, h1, h2, h3, h4, h5]
      · simp [Holds, h1, h2, h3]
    · simp [Holds, h1, h2]
  · simp [Holds, h1]

/-- Exhaustive and disjoint: exactly one verdict holds for every exception. -/
theorem verdicts_exhaustive_disjoint (r : Raised) : ∃ v, Holds r v ∧ ∀ w, Holds r w → w = v := by
  refine ⟨classify r, classify_spec r, ?_⟩
  intro w hw
  have hc := classify_spec r
  unfold classify at *
  cases w <;> simp only [Holds] at hw
  · simp [hw]
  · simp [hw.1, hw.2]
  · obtain ⟨h1, h2, h3, h4, h5⟩ := hw
    simp [h1, h2, h3, h4, h5]
  · simp [hw.1, hw.2.1, hw.2.2]
  · obtain ⟨h1, h2, h3, h4⟩ := hw
    rcases h4 with h4 | h4 <;> simp [h1, h2, h3, h4]

/-- An exception whose MRO contains one of the eight internal types (and no einx class) is `internal`, whatever else it inherits
    from and wherever it was raised — e.g. numpy's `AxisError(ValueError, IndexError)` cannot pass as an argument error. -/
theorem internal_never_accepted (r : Raised) (h : isInternal r = true) (hd : isDocumented r = false) (hr : isRuntime r = false) :
    classify r = .internal ∧ acceptedRejection (classify r) = false := by
  simp [classify, h, hd, hr, acceptedRejection]

/-- A `ValueError`/`TypeError` is accepted only from the interpreter's call protocol or from a `raise` statement of one of the
    listed argument-validation functions. -/
theorem argument_only_from_validation (r : Raised) (h : classify r = .argument) :
    r.origin = .caller ∨ (r.origin = .einxRaise ∧ (r.file, r.func) ∈ argSites) := by
  have := classify_spec r
  rw [h] at this
  simp only [Holds] at this
  have ha := this.2.2.2.2
  simp only [argAccepted, Bool.or_eq_true, Bool.and_eq_true, beq_iff_eq, List.contains_iff_mem] at ha
  exact ha

/-! ## Non-vacuity -/

/-- The position theorem applies to a tree with every node kind, and the positions are real: the carets under the two
    bracket pairs and under the concatenation of `"a [b c] (d + 1) [e] -> a"`. -/
example :
    (match parseOp "a [b c] (d + 1) [e] -> a".toList with
     | .ok x => (posForBrackets [some x], posForConcat [some x], posForAxisnames [some x] ["a".toList], ellOK 24 x)
     | .error _ => ([], [], [], false)) =
    ([2, 6, 16, 18], [9, 10, 11, 12, 13], [0, 23], true) := by decide +kernel

/-- Nodes at position `-1`: after `mark_reduced_axes` the new `Brackets` nodes have no source position and contribute no
    caret, while the axes inside them keep theirs. -/
example :
    (match parseOp "a b".toList with
     | .ok x => (posForBrackets [some (markAxes ["a".toList] x)], posForAxisnames [some (markAxes ["a".toList] x)] ["b".toList])
     | .error _ => ([0], [])) = ([], [2]) := by decide +kernel

/-- The ellipsis hypothesis holds on parser output with nested ellipses, and the carets are the three dots. -/
example :
    (match parseOp "b (a c)... ...".toList with
     | .ok x => (ellOK 14 x, posForEllipses [some x])
     | .error _ => (false, [])) = (true, [7, 8, 9, 11, 12, 13]) := by decide +kernel

/-- The classification separates the cases of the pinned tree: a bare `AssertionError` from `_parse_op` is internal, einx's
    `ValueError` for a wrong tensor count is an argument error, the `TypeError` about `numpy.float64` raised by
    `stage2.Axis.__init__` is not, and neither is a `ValueError` from `int()` inside `frontend/util.py`. -/
example :
    [classify ⟨["builtins.AssertionError", "builtins.Exception"], .einxOther, "adapter/einx_from_namedtensor.py", "_parse_op"⟩,
     classify ⟨["builtins.ValueError", "builtins.Exception"], .einxRaise, "adapter/einx_from_namedtensor.py", "op.inner"⟩,
     classify ⟨["builtins.TypeError", "builtins.Exception"], .einxRaise, "namedtensor/stage2/tree.py", "Axis.__init__"⟩,
     classify ⟨["builtins.ValueError", "builtins.Exception"], .einxOther, "frontend/util.py", "_exprs_to_axes.<genexpr>"⟩,
     classify ⟨["numpy.exceptions.AxisError", "builtins.ValueError", "builtins.IndexError", "builtins.Exception"], .foreign, "", ""⟩] =
    [.internal, .argument, .undocumented, .undocumented, .internal] := by decide

end Einx.Props.C03
