import EinxModel.Props.C05Dag
import EinxModel.Proofs.OptDagSingle
/-!
C05 (third file) — the side conditions of `Props/C05Dag.lean` from the INPUT graph only, and the termination measure.

* A pass preserves `Prog.topoOK` (topologically ordered store, no nested graphs) and produces `Prog.wfTop` (distinct fresh
  inputs), and keeps a single-output store single-output.  So `goodRun` / `fuelRun` (conditions on every pass of the run) follow
  from `wfTop` / `topoOK` of the input graph and the one genuinely run-dependent condition `noInlineRun` (`InlineGraph` never fires on
  the top-level graph object: a graph that is inlined away is no longer a graph).
* The measure `Prog.weight` (number of nodes of the output unfolded into a tree, `Optimize/DagMeasure.lean`; computed by the driver
  for every pass of every real run) strictly decreases in every pass that reports `changed`.  Hence the loop of the model never
  exhausts a budget of `weight + 1` passes, and the number of passes that report `changed` is at most `p.weight - q.weight`.
-/
namespace Einx.OptDag
open Einx Einx.IR

/-- **pass_preserves_wf**: one pass of the traversal on a graph over a topologically ordered store (on which `InlineGraph`
does not fire at the top) returns a graph over a topologically ordered store whose inputs are distinct fresh tracers. -/
theorem pass_preserves_wf (pats : List Pattern) (fuel : Nat) (p q : Prog) (ch : Bool) (ht : p.topoOK = true)
    (hni : noTopInline pats p = true) (hp : pass pats fuel p = .ok (q, ch)) : q.topoOK = true ∧ q.wfTop = true :=
  pass_preserves pats fuel p q ch ht hni hp

/-- **pass_preserves_measureOK**: … and keeps the side condition of the measure theorem (single-output applications). -/
theorem pass_preserves_measureOK (pats : List Pattern) (fuel : Nat) (p q : Prog) (ch : Bool) (ht : p.measureOK = true)
    (hni : noTopInline pats p = true) (hp : pass pats fuel p = .ok (q, ch)) : q.measureOK = true := by
  simp only [Prog.measureOK, Bool.and_eq_true] at ht ⊢
  exact ⟨(pass_preserves pats fuel p q ch ht.1 hni hp).1, pass_single pats fuel p q ch ht.2 hp⟩

/-- **goodRun_of_input**: the per-pass conditions of `optimizeDag_sound` follow from the input graph (`wfTop`, `topoOK`) and
`noInlineRun`. -/
theorem goodRun_of_input (pats : List Pattern) : ∀ (n : Nat) (p : Prog), p.wfTop = true → p.topoOK = true → noInlineRun pats n p = true →
    goodRun pats n p = true
  | 0, _, _, _, _ => rfl
  | n + 1, p, hw, ht, hr => by
    simp only [noInlineRun, Bool.and_eq_true] at hr
    simp only [goodRun, Bool.and_eq_true]
    refine ⟨⟨hw, hr.1⟩, ?_⟩
    split
    · rename_i q hp
      have h2 := hr.2
      rw [hp] at h2
      obtain ⟨a, b⟩ := pass_preserves pats _ p q true ht hr.1 hp
      exact goodRun_of_input pats n q b a h2
    · rfl

/-- **fuelRun_of_input**: likewise for the per-pass condition of the termination theorems. -/
theorem fuelRun_of_input (pats : List Pattern) : ∀ (n : Nat) (p : Prog), p.topoOK = true → noInlineRun pats n p = true →
    fuelRun pats n p = true
  | 0, _, _, _ => rfl
  | n + 1, p, ht, hr => by
    simp only [noInlineRun, Bool.and_eq_true] at hr
    simp only [fuelRun, Bool.and_eq_true]
    refine ⟨ht, ?_⟩
    split
    · rename_i q hp
      have h2 := hr.2
      rw [hp] at h2
      exact fuelRun_of_input pats n q (pass_preserves pats _ p q true ht hr.1 hp).1 h2
    · rfl

/-- **optimizeDag_sound_input**: `optimizeDag_sound` with conditions on the input graph only (plus `noInlineRun`): for every
element algebra, every meaning of the uninterpreted applications, the pattern list of a backend over four different functions --
the graph returned by the model of the real optimiser loop returns what the given graph returns. -/
theorem optimizeDag_sound_input {α : Type} (A : Alg α) (O : EApp (PV α) → Except String (PV α)) (fns : NpFns) (hd : fns.distinct = true)
    (n : Nat) (p q : Prog) (log : List Bool) (hw : p.wfTop = true) (ht : p.topoOK = true) (hr : noInlineRun fns.patterns n p = true)
    (h : optimizeDag fns.patterns n p = .ok (q, log))
    (inputs : List (PV α)) (r : List (RTok (PV α))) (hev : evalProgram (irSem A O fns) p inputs = .ok r) :
    evalProgram (irSem A O fns) q inputs = .ok r :=
  optimizeDag_sound A O fns hd n p q log (goodRun_of_input fns.patterns n p hw ht hr) h inputs r hev

/-- **pass_decreases_dag**: on a graph over a topologically ordered single-output store (`Prog.measureOK`, decidable) a pass
never increases the unfolded size of the output, and a pass that reports `changed` strictly decreases it. -/
theorem pass_decreases_dag (pats : List Pattern) (fuel : Nat) (p q : Prog) (ch : Bool) (ht : p.measureOK = true)
    (hni : noTopInline pats p = true) (hp : pass pats fuel p = .ok (q, ch)) : q.weight + (if ch then 1 else 0) ≤ p.weight :=
  pass_weight pats fuel p q ch ht hni hp

/-- **optimizeDag_pass_bound**: the number of passes of a run that report `changed` plus the weight of the result is at most the
weight of the input: at most `p.weight` rewriting passes, at most `p.weight + 1` passes in all. -/
theorem optimizeDag_pass_bound (pats : List Pattern) : ∀ (n : Nat) (p q : Prog) (log : List Bool), p.measureOK = true →
    noInlineRun pats n p = true → optimizeDag pats n p = .ok (q, log) →
    log.count true + q.weight ≤ p.weight ∧ log.length ≤ log.count true + 1
  | 0, p, q, log, _, _, h => by simp [optimizeDag, throw, throwThe, MonadExceptOf.throw] at h
  | n + 1, p, q, log, hm, hr, h => by
    simp only [optimizeDag] at h
    split at h
    · simp only [pure, Except.pure, Except.ok.injEq, Prod.mk.injEq] at h
      obtain ⟨rfl, rfl⟩ := h
      simp
    · obtain ⟨⟨p', ch⟩, hp, h⟩ := bind_ok.1 h
      simp only [noInlineRun, Bool.and_eq_true] at hr
      have hw := pass_weight pats _ p p' ch hm hr.1 hp
      cases ch with
      | false =>
        simp only [Bool.false_eq_true, if_false, pure, Except.pure, Except.ok.injEq, Prod.mk.injEq] at h
        obtain ⟨rfl, rfl⟩ := h
        simp at hw ⊢
        exact hw
      | true =>
        simp only [if_true] at h
        obtain ⟨⟨q', log'⟩, hq, h⟩ := bind_ok.1 h
        simp only [pure, Except.pure, Except.ok.injEq, Prod.mk.injEq] at h
        obtain ⟨rfl, rfl⟩ := h
        have h2 := hr.2
        rw [hp] at h2
        obtain ⟨b1, b2⟩ := optimizeDag_pass_bound pats n p' q' log' (pass_preserves_measureOK pats _ p p' true hm hr.1 hp) h2 hq
        simp only [List.count_cons_self, List.length_cons, if_true] at hw ⊢
        omega

/-- All of the first `n` passes can only report `changed` if `n` is at most the weight. -/
theorem allChanged_le_weight (pats : List Pattern) : ∀ (n : Nat) (p : Prog), p.measureOK = true → noInlineRun pats n p = true →
    allChanged pats n p = true → n ≤ p.weight
  | 0, _, _, _, _ => Nat.zero_le _
  | n + 1, p, hm, hr, ha => by
    simp only [noInlineRun, Bool.and_eq_true] at hr
    simp only [allChanged] at ha
    split at ha
    · rename_i p' hp
      have h2 := hr.2
      rw [hp] at h2
      have hw := pass_weight pats _ p p' true hm hr.1 hp
      have := allChanged_le_weight pats n p' (pass_preserves_measureOK pats _ p p' true hm hr.1 hp) h2 ha
      simp only [if_true] at hw
      omega
    · cases ha

/-- **optimizeDag_terminates_dag**: without a measure hypothesis -- on a graph over a topologically ordered single-output store
the loop of the model never exhausts a budget of `p.weight + 1` passes (it returns a program or the exception Python would
raise), provided `InlineGraph` does not fire on the top-level graph object during the run (decidable, computed by the driver). -/
theorem optimizeDag_terminates_dag (pats : List Pattern) (p : Prog) (hm : p.measureOK = true)
    (hr : noInlineRun pats (p.weight + 1) p = true) : optimizeDag pats (p.weight + 1) p ≠ .error .fuel := by
  intro h
  have ht : p.topoOK = true := by
    simp only [Prog.measureOK, Bool.and_eq_true] at hm
    exact hm.1
  have hall := optimizeDag_terminates_partial pats _ p (fuelRun_of_input pats _ p ht hr) h
  have := allChanged_le_weight pats _ p hm hr hall
  omega

/-! ## Non-vacuity (the example program of `Props/C05Dag.lean`) -/

example : exProg.measureOK = true ∧ exProg.wfTop = true ∧ noInlineRun npFns.patterns 10 exProg = true := by decide +kernel

/-- Unfolded size of the output of `exProg`: 37; the run `[true, true, true, false]` ends at weight 15. -/
example : exProg.weight = 37 := by decide +kernel

example : (optimizeDag npFns.patterns 10 exProg).toOption.map (fun r => r.1.weight) = some 15 := by decide +kernel

/-- The first pass: weight 37 -> 19. -/
example : ((pass npFns.patterns exProg.fuel exProg).toOption.map (fun r => (r.1.weight, r.2))) = some (19, true) := by decide +kernel

end Einx.OptDag
