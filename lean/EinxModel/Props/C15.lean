import EinxModel.Proofs.Adapt
import EinxModel.Extracted.Adapt
/-!
C15 — adapted user functions follow loop-notation semantics; their outputs are checked.

Property theorems only (helper lemmas live in `Proofs/Adapt.lean`).  `Extracted/Adapt.lean` is regenerated
from `/repo` on every run: the obligations `extracted_*` are re-checked against what `_make_iskwarg`,
`adapt_numpylike_*`, `op.inner`, `reduce.inner`/`elementwise.inner`, `_expr_to_axis` and `_ensure_output`
say now.
-/
namespace Einx.Adapt
open Einx Einx.Denote

/-! ### Source obligations -/

/-- Obligation regenerated from the source: the adapters are configured as the model assumes — option names
are exactly the keyword-only parameters (`**kwargs` is refused), the reduce adapter excludes `axis`, einx
consumes `keepdims` itself for reductions, and the bracketed positions travel as `axis=`. -/
theorem extracted_cfg :
    Einx.Extracted.Adapt.reduceCfg = reduceCfg ∧ Einx.Extracted.Adapt.elementwiseCfg = elementwiseCfg := by decide

/-- Obligation regenerated from the source: `op.inner` rejects clashing axis names before it splits, the split
loop has the two-way shape modelled by `splitKwargs`, the solver receives `parameters`, the wrapped operation
`**kwargs`; the decomposed-level adapters call the function as modelled by `reduceNodes`/`elementwiseNodes`;
`_ensure_output` traces isinstance-assert, shape-assert, cast, in that order. -/
theorem extracted_call_path :
    Einx.Extracted.Adapt.clashCheckBeforeSplit = true ∧ Einx.Extracted.Adapt.splitLoopPartitions = true
    ∧ Einx.Extracted.Adapt.solverGetsParameters = true ∧ Einx.Extracted.Adapt.opGetsOptions = true
    ∧ Einx.Extracted.Adapt.reduceCallShape = true ∧ Einx.Extracted.Adapt.reduceExpectedShape = true
    ∧ Einx.Extracted.Adapt.elementwiseCallShape = true ∧ Einx.Extracted.Adapt.elementwiseExpectedShape = true
    ∧ Einx.Extracted.Adapt.adaptersPassExpectedType = true
    ∧ Einx.Extracted.Adapt.ensureOutputChecks = ["isinstance", "shape", "cast"] := by decide

/-- Obligation regenerated from the source: the loop of `_expr_to_axis`, translated statement by statement,
computes the model's `exprToAxis` — for every flat expression. -/
theorem extracted_expr_to_axis (marks : List Bool) : Einx.Extracted.Adapt.exprToAxis marks = exprToAxis marks := by
  simp only [Einx.Extracted.Adapt.exprToAxis, exprToAxis]
  have := extracted_exprToAxis_from marks 0 []
  simpa using this

/-! ### Keyword-only options -/

/-- `split_partition`: the options forwarded to the user function followed by the parameters handed to the
solver are a permutation of the call's keywords — nothing is lost, duplicated or invented; each half keeps the
call order (it is a filter of the keyword list). -/
theorem split_partition {α : Type} (isk : String → Bool) (kwargs : List (String × α)) :
    ((splitKwargs isk kwargs).1 ++ (splitKwargs isk kwargs).2).Perm kwargs
    ∧ (splitKwargs isk kwargs).1 = kwargs.filter (fun kv => isk kv.1)
    ∧ (splitKwargs isk kwargs).2 = kwargs.filter (fun kv => !isk kv.1) := by
  rw [split_fst, split_snd]
  exact ⟨filter_not_perm _ _, rfl, rfl⟩

/-- `kwonly_never_axis`, for every adapter configuration, signature, keyword list and description: when `op.inner`
accepts the call, every call keyword whose name satisfies `iskwarg` (and is not consumed by einx itself) is among the
forwarded options with its value verbatim, and no keyword with an `iskwarg` name — whatever its value — is among the
parameters handed to the solver; and a description that uses such a name as an axis name is rejected with a
SemanticError naming it. -/
theorem kwonly_never_axis {α : Type} (cfg : Cfg) (isk : String → Bool) (used : List String) (kwargs : List (String × α)) :
    (∀ opts prms, opInner cfg isk used kwargs = .ok (opts, prms) →
        (∀ k v, (k, v) ∈ kwargs → isk k = true → cfg.reserved.contains k = false → (k, v) ∈ opts)
        ∧ (∀ k v, (k, v) ∈ prms → isk k = false)
        ∧ (∀ k v, (k, v) ∈ opts → (k, v) ∈ kwargs ∧ isk k = true)
        ∧ (∀ k, k ∈ used → isk k = false))
    ∧ (∀ k, k ∈ used → isk k = true →
        ∃ names, opInner cfg isk used kwargs = .error (.semantic names) ∧ k ∈ names) := by
  constructor
  · intro opts prms h
    simp only [opInner] at h
    split at h
    · cases h
    · rename_i hused
      simp only [Except.ok.injEq] at h
      have h1 := congrArg Prod.fst h
      have h2 := congrArg Prod.snd h
      simp only [split_fst, split_snd] at h1 h2
      subst h1 h2
      refine ⟨?_, ?_, ?_, ?_⟩
      · intro k v hm hk hr
        have hr' : ¬ k ∈ cfg.reserved := by simpa using hr
        simp [List.mem_filter, hm, hk, hr']
      · intro k v hm
        simp only [List.mem_filter] at hm
        simpa using hm.2
      · intro k v hm
        simp only [List.mem_filter] at hm
        exact ⟨hm.1.1, hm.2⟩
      · intro k hk
        cases hi : isk k with
        | false => rfl
        | true => exact absurd (List.any_eq_true.2 ⟨k, hk, hi⟩) hused
  · intro k hk hi
    refine ⟨used.filter isk, ?_, List.mem_filter.2 ⟨hk, hi⟩⟩
    simp only [opInner]
    rw [if_pos (List.any_eq_true.2 ⟨k, hk, hi⟩)]

/-- The predicate the adapters hand to `op.inner` is true exactly for the keyword-only parameters of the user
function (minus the names the adapter excludes): with the configuration extracted from the source, for the reduce
adapter every keyword-only parameter other than `axis`, for the elementwise adapter every keyword-only parameter;
and never for `axis` (reduce) or for a name that is not a keyword-only parameter. -/
theorem iskwarg_iff_kwonly (ps : List Param) :
    (∀ names, kwargNames Einx.Extracted.Adapt.reduceCfg ps = .ok names →
      ∀ n, iskwarg Einx.Extracted.Adapt.reduceCfg names n = true ↔ (n ≠ "axis" ∧ ∃ p ∈ ps, p.kind = .kwOnly ∧ p.name = n))
    ∧ (∀ names, kwargNames Einx.Extracted.Adapt.elementwiseCfg ps = .ok names →
      ∀ n, iskwarg Einx.Extracted.Adapt.elementwiseCfg names n = true ↔ (∃ p ∈ ps, p.kind = .kwOnly ∧ p.name = n)) := by
  rw [extracted_cfg.1, extracted_cfg.2]
  constructor
  · intro names h n
    rw [kwargNames_ok _ _ _ h]
    simp only [iskwarg, reduceCfg, Bool.and_eq_true, Bool.not_eq_true', List.contains_eq_mem, List.mem_map, List.mem_filter,
      decide_eq_true_eq, decide_eq_false_iff_not, List.mem_cons, List.not_mem_nil, or_false]
    constructor
    · rintro ⟨h1, p, ⟨hp, hk⟩, hn⟩
      exact ⟨h1, p, hp, by simpa using hk, hn⟩
    · rintro ⟨h1, p, hp, hk, hn⟩
      exact ⟨h1, p, ⟨hp, by simp [hk]⟩, hn⟩
  · intro names h n
    rw [kwargNames_ok _ _ _ h]
    simp only [iskwarg, elementwiseCfg, Bool.and_eq_true, Bool.not_eq_true', List.contains_eq_mem, List.mem_map, List.mem_filter,
      decide_eq_true_eq, decide_eq_false_iff_not, List.mem_cons, List.not_mem_nil, or_false, not_false_eq_true, true_and]
    constructor
    · rintro ⟨p, ⟨hp, hk⟩, hn⟩
      exact ⟨p, hp, by simpa using hk, hn⟩
    · rintro ⟨p, hp, hk, hn⟩
      exact ⟨p, ⟨hp, by simp [hk]⟩, hn⟩

/-! ### `_expr_to_axis` -/

/-- `expr_to_axis_correct`: `exprToAxis` returns exactly the positions `i` whose root dim is marked, strictly
increasing, each below the rank. -/
theorem expr_to_axis_correct (marks : List Bool) :
    (∀ i, i ∈ exprToAxis marks ↔ marks[i]? = some true)
    ∧ (exprToAxis marks).Pairwise (· < ·)
    ∧ (∀ i ∈ exprToAxis marks, i < marks.length) := by
  have hm : ∀ i, i ∈ exprToAxis marks ↔ marks[i]? = some true := by
    intro i
    simp only [exprToAxis, mem_exprToAxisFrom]
    constructor
    · rintro ⟨j, hj, rfl⟩; simpa using hj
    · intro h; exact ⟨i, h, by omega⟩
  refine ⟨hm, exprToAxisFrom_sorted 0 marks, fun i hi => ?_⟩
  have := (hm i).1 hi
  exact (List.getElem?_eq_some_iff.1 this).1

/-! ### Loop-notation semantics of the adapted reduction -/

/-- `position_interleave` (the index lemma `reduce_axis_semantics` rests on): for a flat input expression with distinct
axis names, the position that the loop notation assigns to (un-bracketed axes ↦ `ρ`, bracketed axes ↦ `τ`) is the
interleaving of `ρ` and `τ` along the marks that the tuple `_expr_to_axis(expr)` of bracketed positions determines —
i.e. "index `ρ` outside `axis`, `τ` inside `axis`" addresses the same element as the named assignment. -/
theorem position_interleave (ls : List Leaf) (hnd : (ls.map (·.name)).Nodup) (ρ τ : List Nat)
    (hρ : ρ.length = (axesOfMarked false ls).length) (hτ : τ.length = (axesOfMarked true ls).length) :
    position (ls.map Dim.axis) (((axesOfMarked false ls).map (·.1)).zip ρ ++ ((axesOfMarked true ls).map (·.1)).zip τ)
      = some (interleave (marksAt (exprToAxis (marksOf ls)) ls.length) ρ τ) := by
  have hl : ls.length = (marksOf ls).length := by simp [marksOf]
  rw [hl, marksAt_exprToAxis, axesOfMarked_names, axesOfMarked_names]
  simp only [axesOfMarked, List.length_map] at hρ hτ
  have hz := zip_get ls hnd ρ τ hρ
  exact position_interleave_of_get ls ρ τ _ hρ hτ hz.1 hz.2

/-- `reduce_axis_semantics`: let `F` be a whole-tensor function that satisfies the documented numpy-like contract with
elementary operation `Fel` (`F(x, axis=A)[ρ] = Fel(x[ρ, :])`, hypothesis `NumpyLike`).  For every flat concat-free input
expression with distinct axis names, every input tensor and every assignment `σ` of the un-bracketed axes, the value
the adapter computes (`F` on the whole aligned tensor with `axis = _expr_to_axis(expr)`) at the output position of `σ`
is the loop-notation denotation: `Fel` applied to the sub-tensor gathered over all assignments of the bracketed axes
through `Denote.position`. -/
theorem reduce_axis_semantics {α β : Type} (F : List Nat → List Nat → Flat α → Flat β) (Fel : List Nat → List α → β)
    (hF : NumpyLike F Fel) (ls : List Leaf) (hnd : (ls.map (·.name)).Nodup) (x : Flat α)
    (σ : Assign) (hσ : σ ∈ assignments (axesOfMarked false ls)) :
    ∃ po, outPosition ls σ = some po ∧ denoteReduceAt Fel ls x σ = some (adaptReduce F ls x po) := by
  rw [assignments_eq_allIdx] at hσ
  obtain ⟨ρ, hρm, rfl⟩ := List.mem_map.1 hσ
  have hρv := allIdx_valid _ ρ hρm
  have hρl : ρ.length = (axesOfMarked false ls).length := by rw [valid_length hρv]; simp
  have hl : ls.length = (marksOf ls).length := by simp [marksOf]
  have hsel : ∀ b, select b (marksAt (exprToAxis (marksOf ls)) (ls.map (·.size)).length) (ls.map (·.size))
      = (axesOfMarked b ls).map (·.2) := by
    intro b
    rw [List.length_map, hl, marksAt_exprToAxis, select_marks, axesOfMarked_sizes]
  refine ⟨ravel (reduceOutShape ls) ρ, ?_, ?_⟩
  · -- the output position of σ
    simp only [outPosition]
    have hnd' : ((ls.filter (fun l => l.marked == false)).map (·.name)).Nodup :=
      (List.Nodup.sublist ((List.filter_sublist).map _) hnd)
    have := position_axes (ls.filter (fun l => l.marked == false)) ρ ((axesOfMarked false ls).map (·.1) |>.zip ρ)
      (by simpa [axesOfMarked] using hρl)
      (by rw [axesOfMarked_names]; exact get_zip_of_nodup _ ρ hnd')
    rw [this]; rfl
  · -- the gathered sub-tensor
    simp only [denoteReduceAt, adaptReduce]
    rw [assignments_eq_allIdx, List.mapM_map]
    have hsub : ∀ τ ∈ allIdx ((axesOfMarked true ls).map (·.2)),
        ((fun τ => (position (ls.map Dim.axis) (((axesOfMarked false ls).map (·.1)).zip ρ ++ τ)).map
          (fun p => x (ravel (ls.map (·.size)) p))) ∘ fun idx => ((axesOfMarked true ls).map (·.1)).zip idx) τ
        = some (x (ravel (ls.map (·.size)) (interleave (marksAt (exprToAxis (marksOf ls)) ls.length) ρ τ))) := by
      intro τ hτ
      have hτl : τ.length = (axesOfMarked true ls).length := by rw [valid_length (allIdx_valid _ τ hτ)]; simp
      simp only [Function.comp_apply, position_interleave ls hnd ρ τ hρl hτl, Option.map_some]
    rw [mapM_eq_some_map _ _ _ hsub]
    have hc := hF (ls.map (·.size)) (exprToAxis (marksOf ls)) x ρ (by rw [hsel]; exact hρv)
    rw [hsel false] at hc
    have hro : reduceOutShape ls = (axesOfMarked false ls).map (·.2) := by rw [axesOfMarked_sizes]; rfl
    have hsel' := hsel true
    simp only [List.length_map] at hsel'
    rw [hro, hc, hsel true]
    simp only [subTensor, List.length_map, hsel']
    rfl

/-- The shape the elementwise adapter asserts on the result is defined exactly when the aligned inputs have equal rank, and is
then their pointwise maximum: at every position it bounds every input's length and is attained by one of them.  For the
broadcast-compatible inputs the adapter documents (every length is 1 or the common one) this is numpy's broadcast shape. -/
theorem elementwise_expected_shape (shapes : List (List Nat)) (out : List Nat) (h : elementwiseOutShape shapes = some out) :
    (∀ t ∈ shapes, t.length = out.length)
    ∧ ∀ i, i < out.length → (∀ t ∈ shapes, t.getD i 0 ≤ out.getD i 0) ∧ ∃ t ∈ shapes, out.getD i 0 = t.getD i 0 := by
  cases shapes with
  | nil => simp [elementwiseOutShape] at h
  | cons s ss =>
    simp only [elementwiseOutShape] at h
    split at h
    · rename_i hall
      simp only [Option.some.injEq] at h
      have hlen : ∀ t ∈ ss, t.length = s.length := by
        intro t ht
        have := List.all_eq_true.1 hall t ht
        simpa using this
      obtain ⟨h1, h2⟩ := foldl_zipWith_max s.length ss s rfl hlen
      rw [h] at h1 h2
      refine ⟨?_, fun i hi => ?_⟩
      · intro t ht
        simp only [List.mem_cons] at ht
        rcases ht with rfl | ht
        · exact h1.symm
        · rw [hlen t ht, h1]
      · obtain ⟨ha, hs, ho⟩ := h2 i (by omega)
        refine ⟨?_, ?_⟩
        · intro t ht
          simp only [List.mem_cons] at ht
          rcases ht with rfl | ht
          · exact ha
          · exact hs t ht
        · rcases ho with ho | ⟨t, ht, ho⟩
          · exact ⟨s, by simp, ho⟩
          · exact ⟨t, by simp [ht], ho⟩
    · cases h

/-! ### The result is checked (model of the graph builder) -/

/-- `adapt_result_checked` (model): the nodes the reduce adapter traces are the call of the user function on the whole
aligned tensor with `axis =` the bracketed positions and the forwarded options, then the isinstance assert, then the
assert of the shape without the bracketed positions, and only then the cast that lets the value be used as a tensor. -/
theorem adapt_result_checked {α : Type} (ls : List Leaf) (opts : List (String × α)) :
    reduceNodes ls opts =
      [.callUser [ls.map (·.size)] (some (exprToAxis (marksOf ls))) opts, .assertIsinstance,
       .assertShape ((ls.filter (fun l => l.marked == false)).map (·.size)),
       .castTensor ((ls.filter (fun l => l.marked == false)).map (·.size))] := rfl

/-- `adaptOK_sound`: a real traced graph accepted by the checker `adaptOK` (the function the driver runs on the serialised
graph of every generated adapter call) has exactly one constant node, which holds an opaque Python object (the user function);
that constant is used exactly once in the whole graph, as the function of exactly one call; the call's positional arguments are
tracers with the aligned shapes of the specification, its keywords are *equal* to `axis=<tuple of the bracketed positions>`
followed by the forwarded options (names and values, in order); the raw result is used exactly twice — by
`isinstance(result, numpy.ndarray)` and by the assert on that condition —, the asserted value exactly twice — by `.shape`
and by the assert on `tuple(shape) == <expected shape>` —, and the twice-asserted value exactly once, by the cast to a
tensor of the expected traced shape.  So nothing can consume the function's result before both asserts. -/
theorem adaptOK_sound (g : Graph) (s : Spec) (h : adaptOK g s = true) :
    ∃ k c fn args r xs1 c1 r1 xs2 c2 r2 ci r3,
      g.apps.filter isAnyConstant = [.constant (.obj k) c]
      ∧ g.apps.filter (isCallOf c) = [.call fn args s.kwargs (.ref r)] ∧ g.uses c = 1
      ∧ ArgsAre g args s.argShapes
      ∧ g.apps.filter (isAssertOn r) = [.assert_ xs1 (.ref c1) r1] ∧ IsinstanceCond g c1 r ∧ g.uses r = 2
      ∧ g.apps.filter (isAssertOn r1) = [.assert_ xs2 (.ref c2) r2] ∧ ShapeCond g c2 r1 s.outShape
      ∧ g.uses r1 = 2 ∧ g.uses r2 = 1
      ∧ g.apps.filter (isCastOf r2) = [.cast ci (.ref r3)] ∧ g.shapeOf r3 = some s.outShape := by
  unfold adaptOK at h
  split at h
  · rename_i k c hconst
    split at h
    · rename_i fn args kwargs r hcall
      simp only [Bool.and_eq_true, beq_iff_eq] at h
      obtain ⟨⟨⟨hu, ha⟩, hk⟩, h⟩ := h
      have hk' := kwBeq_eq _ _ hk
      subst hk'
      split at h
      · rename_i xs1 c1 r1 hass1
        simp only [Bool.and_eq_true, beq_iff_eq] at h
        obtain ⟨⟨hi, hur⟩, h⟩ := h
        split at h
        · rename_i xs2 c2 r2 hass2
          simp only [Bool.and_eq_true, beq_iff_eq] at h
          obtain ⟨⟨⟨hs, hur1⟩, hur2⟩, h⟩ := h
          split at h
          · rename_i ci r3 hcast
            simp only [beq_iff_eq] at h
            exact ⟨k, c, fn, args, r, xs1, c1, r1, xs2, c2, r2, ci, r3, hconst, hcall, hu, argsOK_sound g _ _ ha,
              hass1, isinstanceCond_sound g _ _ hi, hur, hass2, shapeCond_sound g _ _ _ hs, hur1, hur2, hcast, h⟩
          · cases h
        · cases h
      · cases h
    · cases h
  · cases h

/-! ### Non-vacuity -/

example : opInner reduceCfg (iskwarg reduceCfg ["scale", "axis"]) ["a", "b"] [("b", 3), ("scale", 2), ("keepdims", 1)]
    = .ok ([("scale", 2)], [("b", 3)]) := by rfl
example : opInner reduceCfg (iskwarg reduceCfg ["scale"]) ["a", "scale"] [("scale", 2)] = .error (.semantic ["scale"]) := by rfl
example : kwargNames reduceCfg [⟨"x", .posOrKw⟩, ⟨"axis", .posOrKw⟩, ⟨"scale", .kwOnly⟩] = .ok ["scale"] := by rfl
example : exprToAxis [false, true, false, true] = [1, 3] := by decide
example : elementwiseOutShape [[1, 2, 3], [4, 1, 3]] = some [4, 2, 3] := by decide


/-- The graph of `adapt_numpylike_reduce(f)("a [b] c", x, scale=2)` with `x.shape = (2, 3, 4)`, as traced by einx. -/
def exampleGraph : Graph :=
  { apps := [.import_ "numpy" 1, .constant (.obj 0) 3,
      .call (.ref 3) [.ref 0] [("axis", intsVal [1]), ("scale", .int 2)] (.ref 7),
      .builtin "isinstance" 8, .getattr (.ref 1) "ndarray" 9, .call (.ref 8) [.ref 7, .ref 9] [] (.ref 10),
      .assert_ (.ref 7) (.ref 10) 11,
      .builtin "tuple" 12, .getattr (.ref 11) "shape" 13, .call (.ref 12) [.ref 13] [] (.ref 14),
      .operator "==" [.ref 14, intsVal [2, 4]] 15, .assert_ (.ref 11) (.ref 15) 16, .cast (.ref 16) (.ref 17)],
    shapes := [(0, [2, 3, 4]), (17, [2, 4])], output := .ref 17 }

def exampleSpec : Spec := { argShapes := [[2, 3, 4]], axis := some [1], options := [("scale", .int 2)], outShape := [2, 4] }

example : adaptOK exampleGraph exampleSpec = true := by decide
/-- the same graph is refused for another option value, another axis tuple, … -/
example : adaptOK exampleGraph { exampleSpec with options := [("scale", .float "2.0")] } = false := by decide
example : adaptOK exampleGraph { exampleSpec with axis := some [2] } = false := by decide
/-- … and a graph that uses the raw result (here: returns it) is refused. -/
example : adaptOK { exampleGraph with output := .ref 7 } exampleSpec = false := by decide
/-- … as is one without the shape assert. -/
example : adaptOK { exampleGraph with apps := exampleGraph.apps.filter (fun a => !isAssertOn 11 a) } exampleSpec = false := by decide

/-- A function with the numpy-like contract (the hypothesis of `reduce_axis_semantics` is satisfiable): summation along `A`. -/
def sumAlong (shape A : List Nat) (x : Flat Nat) : Flat Nat := fun k =>
  (subTensor shape A x (unravel (select false (marksAt A shape.length) shape) k)).sum

example : NumpyLike sumAlong (fun _ sub => sub.sum) := by
  intro shape A x ρ hv
  simp only [sumAlong, unravel_ravel hv]

/-- `"a [b]"` on the 2×3 tensor `0 … 5`: the loop notation gives `3 + 4 + 5` for `a = 1`, stored at output position 1,
and that is what the adapter computes with `axis = (1,)`. -/
example : denoteReduceAt (fun _ sub => sub.sum) [⟨"a", 2, false⟩, ⟨"b", 3, true⟩] (fun k => k) [("a", 1)] = some 12
    ∧ outPosition [⟨"a", 2, false⟩, ⟨"b", 3, true⟩] [("a", 1)] = some 1
    ∧ adaptReduce sumAlong [⟨"a", 2, false⟩, ⟨"b", 3, true⟩] (fun k => k) 1 = 12
    ∧ exprToAxis (marksOf [⟨"a", 2, false⟩, ⟨"b", 3, true⟩]) = [1] := by decide

end Einx.Adapt
