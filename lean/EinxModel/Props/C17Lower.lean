import EinxModel.Proofs.StbU
/-!
C17 (lowering part, continued) — size-genericity of the pieces that the lowering models of elementwise operations
and reductions (`Generic/LowerOps.lean`) add to `_squeeze_transpose_broadcast`.

Proved for **all** flat expressions and all axis lengths:

* `stbU_size_generic`        `_squeeze_transpose_broadcast(…, broadcast_to_unitary=True)`: for two length assignments with
                             the same names and the same 1-pattern the model emits the same program up to shapes (or
                             fails with the same error), the result is in the same register, and the returned
                             expressions again have the same names and the same 1-pattern
* `expr_to_axis_size_generic` `_expr_to_axis` (the `axis=` tuple of a reduction) depends on the axis names only
* `ewise_call_skeleton`      the traced elementwise numpy call carries no size at all: the skeleton of the
                             instruction is the instruction

Not proved (stated here so that nobody reads more into the above): `lower_elementwise_size_generic` /
`lower_reduce_size_generic` for the *whole* pipelines (`lowerElementwise`, `lowerReduce`) — the remaining decisions are
the no-op tests of `reshape` after unflattening / before composing (equalities between products of lengths) and the
`_ensure_output` shape comparison; for the descriptions of `lower_elementwise_correct` / `lower_reduce_correct` their
outcome is determined (`Proofs/LowerEw.lean`: the chosen expression is the output expression without broadcast axes,
the joint shape is its shape), but the induction that carries the skeleton relation through the grouped chains is not
done.  On every run the `lower_model` stream (tools/props/lower_tie.py) compares the model's skeletons for three
length assignments with the same 1-pattern per description and compares every model program with the traced graph.
-/
namespace Einx.Generic
open Einx.IR

/-- **Size-genericity of `_squeeze_transpose_broadcast(…, broadcast_to_unitary=True)`.** -/
theorem stbU_size_generic (tag : Nat) (ein ein' eout eout' : List Ax)
    (hni : names ein = names ein') (hpi : ein.map (fun a => a.len == 1) = ein'.map (fun a => a.len == 1))
    (hno : names eout = names eout') (hpo : eout.map (fun a => a.len == 1) = eout'.map (fun a => a.len == 1)) :
    match stbU tag { reg := 0, shape := lens ein, prog := [], next := 1 } ein eout,
          stbU tag { reg := 0, shape := lens ein', prog := [], next := 1 } ein' eout' with
    | .ok r, .ok r' =>
      progSkeleton r.2.prog = progSkeleton r'.2.prog ∧ r.2.reg = r'.2.reg ∧
        names r.1 = names r'.1 ∧ r.1.map (fun a => a.len == 1) = r'.1.map (fun a => a.len == 1)
    | .error e, .error e' => e = e'
    | _, _ => False := by
  have hi := sim_of_maps ein ein' hni hpi
  have ho := sim_of_maps eout eout' hno hpo
  have hrel : Rel { reg := 0, shape := lens ein, prog := [], next := 1 } { reg := 0, shape := lens ein', prog := [], next := 1 } :=
    ⟨rfl, rfl, rfl⟩
  have h := stbU_generic tag hrel rfl rfl hi ho
  generalize stbU tag { reg := 0, shape := lens ein, prog := [], next := 1 } ein eout = r at *
  generalize stbU tag { reg := 0, shape := lens ein', prog := [], next := 1 } ein' eout' = r' at *
  cases r <;> cases r' <;> simp only [] at h ⊢
  · exact h
  · exact ⟨h.2.prog, h.2.reg, h.1.names_eq, h.1.map_eq _ _ (fun _ _ _ h1 => h1)⟩

/-- **`_expr_to_axis` is size-generic**: the `axis=` tuple of a reduction depends on the axis names only. -/
theorem expr_to_axis_size_generic (m : List String) (e e' : List Ax)
    (hn : names e = names e') (hp : e.map (fun a => a.len == 1) = e'.map (fun a => a.len == 1)) :
    exprToAxis m e = exprToAxis m e' :=
  exprToAxis_sim m (sim_of_maps e e' hn hp)

/-- The traced elementwise numpy call carries no size. -/
theorem ewise_call_skeleton (f : String) (args : List Arg) : instrSkeleton (.ewise f args) = .ewise f args := rfl

/-- Non-vacuity: aligning `b c a` with `a b d` (`b=3, c=1, a=2 | d=4`) emits `reshape; transpose; reshape` and returns
`a b 1`; scaling the non-unit lengths keeps skeleton and 1-pattern, changing the 1-pattern (`c=2`) changes the outcome
(the axis `c` can no longer be squeezed: error). -/
def exampleStbU (b c a d : Nat) : Option (List (List Nat) × List Bool) :=
  ((stbU 7 { reg := 0, shape := [b, c, a], prog := [], next := 1 } [⟨"b", b⟩, ⟨"c", c⟩, ⟨"a", a⟩]
      [⟨"a", a⟩, ⟨"b", b⟩, ⟨"d", d⟩]).map
    (fun r => ((progSkeleton r.2.prog).map (fun i => match i with
      | .reshape x s => 0 :: x :: s
      | .transpose x p => 1 :: x :: p
      | .broadcastTo x s => 2 :: x :: s
      | _ => [9]), r.1.map (fun a => a.len == 1)))).toOption

example :
    exampleStbU 3 1 2 4 = some ([[0, 0, 0, 0], [1, 1, 1, 0], [0, 2, 0, 0, 0]], [false, false, true])
      ∧ exampleStbU 3 1 2 4 = exampleStbU 21 1 1000 9
      ∧ exampleStbU 3 2 2 4 = none := by
  decide +kernel

/-- Non-vacuity of `expr_to_axis_size_generic`: `a [b] c [d]` has `axis=(1, 3)` whatever the lengths. -/
example : exprToAxis ["b", "d"] [⟨"a", 2⟩, ⟨"b", 3⟩, ⟨"c", 1⟩, ⟨"d", 5⟩] = [1, 3]
    ∧ exprToAxis ["b", "d"] [⟨"a", 7⟩, ⟨"b", 1⟩, ⟨"c", 1⟩, ⟨"d", 2⟩] = [1, 3] := by
  decide +kernel

end Einx.Generic
