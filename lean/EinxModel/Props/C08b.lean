import EinxModel.Props.C08
import EinxModel.Proofs.DenoteDefined
/-!
C08 (continued) — gaps of `Props/C08.lean` closed by work package c08.

* (a) definedness of the output-permuted operation: `denote_permute_output_defined`,
      `denote_permute_output_tensor_full`, `denote_permute_output_expr_full`, `denoteId_permute_output_full`
-/
namespace Einx.C08b
open Einx Einx.IR Einx.Denote Einx.C08

/-! ### (a) The output-permuted operation is defined whenever the original one is -/

/-- **Definedness under output permutation.**  If the `id` denotation towards the concatenation-free output view `w`
(leaf sizes consistent per name, decidable) is defined, then it is defined towards every permutation `w'` of the root
dimensions of `w`: every assignment of the permuted iteration space has an entry and every position of the permuted
output is written. -/
theorem denote_permute_output_defined (vi : List Dim) (si : List Nat) (i : Nat) (w w' : List Dim) (perm : List Nat)
    (cs : List Cell)
    (hperm : isPermOf perm w.length = true) (hw' : permuteL perm w = some w')
    (hc : Dim.concatFreeL w = true) (hcons : consistentB (Dim.leavesL w) = true)
    (h : idCells vi si i w (viewShape w) = some cs) :
    ∃ cs', idCells vi si i w' (viewShape w') = some cs' :=
  idCells_permute_output_defined hperm hw' hc (consistentB_spec hcons) h

/-- **Permuting the output expression transposes the result: whole-tensor law, from definedness of the original
operation alone.**  `C08.denote_permute_output_tensor` without its second definedness hypothesis: the permuted
operation is defined, and its result is the IR's transpose plan run on the original result. -/
theorem denote_permute_output_tensor_full (vi : List Dim) (si : List Nat) (i : Nat) (w w' : List Dim) (perm : List Nat)
    (cs : List Cell)
    (hperm : isPermOf perm w.length = true) (hw' : permuteL perm w = some w')
    (hc : Dim.concatFreeL w = true) (hcons : consistentB (Dim.leavesL w) = true)
    (h : idCells vi si i w (viewShape w) = some cs) :
    ∃ cs', idCells vi si i w' (viewShape w') = some cs' ∧
      ∃ plan, planInstr [viewShape w] (.transpose 0 perm) = .ok plan ∧
        runPlan symAlg [⟨viewShape w, cs⟩] plan = ⟨viewShape w', cs'⟩ := by
  obtain ⟨cs', h'⟩ := denote_permute_output_defined vi si i w w' perm cs hperm hw' hc hcons h
  exact ⟨cs', h', denote_permute_output_tensor vi si i w w' perm cs cs' hperm hw' hc hcons h h'⟩

/-- **The same on expressions (`denoteIdFun`).**  If `e -> eo` is defined with result `T`, and the root dimensions
of the concatenation-free `eo'` are those of `eo` permuted by `perm`, then `e -> eo'` is defined and its result is
numpy's transpose (the IR's plan) of `T`. -/
theorem denote_permute_output_expr_full (e eo eo' : Expr) (perm : List Nat) (T : Tensor Cell)
    (heo' : eo'.concatFree = true)
    (hperm : isPermOf perm (rootDims eo).length = true) (hp : permuteL perm (rootDims eo) = some (rootDims eo'))
    (hcons : consistentB (Dim.leavesL (rootDims eo)) = true)
    (h : denoteIdFun [e] [eo] = .ok [T]) :
    ∃ T', denoteIdFun [e] [eo'] = .ok [T'] ∧
      ∃ plan, planInstr [shapeOf eo] (.transpose 0 perm) = .ok plan ∧ runPlan symAlg [T] plan = T' := by
  obtain ⟨he, hc, cs, hcs, ht⟩ := denoteIdFun_single h
  obtain ⟨cs', hcs'⟩ := denote_permute_output_defined _ _ _ _ _ perm cs hperm hp (rootDims_concatFree hc) hcons hcs
  have h' : denoteIdFun [e] [eo'] = .ok [⟨shapeOf eo', cs'⟩] := by
    rw [denoteIdFun_single_eq e eo' he heo']
    have : idCells (rootDims e) (shapeOf e) 0 (rootDims eo') (shapeOf eo') = some cs' := hcs'
    rw [this]
  exact ⟨_, h', denote_permute_output_expr e eo eo' perm T _ hperm hp hcons h h'⟩

/-- **Output permutation law for the executable loop form `Denote.denoteId`, from definedness of the original
operation alone.** -/
theorem denoteId_permute_output_full (e eo eo' : Expr) (perm : List Nat) (T : Tensor Cell)
    (he : e.concatFree = true) (heo : eo.concatFree = true) (heo' : eo'.concatFree = true)
    (hperm : isPermOf perm (rootDims eo).length = true) (hp : permuteL perm (rootDims eo) = some (rootDims eo'))
    (hcons : consistentB (Dim.leavesL (rootDims eo)) = true)
    (h : okOpt (denoteId [e] [eo]) = some [T]) :
    ∃ T', okOpt (denoteId [e] [eo']) = some [T'] ∧
      ∃ plan, planInstr [shapeOf eo] (.transpose 0 perm) = .ok plan ∧ runPlan symAlg [T] plan = T' := by
  rw [denoteId_fun_agree e eo he heo] at h
  obtain ⟨T', h', hplan⟩ := denote_permute_output_expr_full e eo eo' perm T heo' hperm hp hcons (ok_of_okOpt h)
  refine ⟨T', ?_, hplan⟩
  rw [denoteId_fun_agree e eo' he heo', h']
  rfl

/-- Non-vacuity: `a (b c) d -> (d a) c b` with sizes 2, (2·1), 3 is defined; the output permuted by `[2, 0, 1]` is
`b (d a) c`.  All hypotheses of `denoteId_permute_output_full` hold, and the conclusion's tensor is the genuine
transposed result (it differs from the original one). -/
example :
    let a := Expr.axis "a" 2; let b := Expr.axis "b" 2; let c := Expr.axis "c" 1; let d := Expr.axis "d" 3
    let e := Expr.list [a, .flat (.list [b, c]), d]
    let eo := Expr.list [.flat (.list [d, a]), c, b]; let eo' := Expr.list [b, .flat (.list [d, a]), c]
    e.concatFree = true ∧ eo.concatFree = true ∧ eo'.concatFree = true ∧
    isPermOf [2, 0, 1] (rootDims eo).length = true ∧
    (permuteL [2, 0, 1] (rootDims eo)).map viewShape = some (viewShape (rootDims eo')) ∧
    consistentB (Dim.leavesL (rootDims eo)) = true ∧
    (match okOpt (denoteId [e] [eo]), okOpt (denoteId [e] [eo']) with
      | some [t], some [t'] => t.shape == [6, 1, 2] && t'.shape == [2, 6, 1] && !Cell.beqL t.data t'.data
      | _, _ => false) = true := by
  decide +kernel

example :
    let a := Expr.axis "a" 2; let b := Expr.axis "b" 2; let c := Expr.axis "c" 1; let d := Expr.axis "d" 3
    let e := Expr.list [a, .flat (.list [b, c]), d]
    let eo := Expr.list [.flat (.list [d, a]), c, b]; let eo' := Expr.list [b, .flat (.list [d, a]), c]
    ∀ T, okOpt (denoteId [e] [eo]) = some [T] →
      ∃ T', okOpt (denoteId [e] [eo']) = some [T'] ∧
        ∃ plan, planInstr [shapeOf eo] (.transpose 0 [2, 0, 1]) = .ok plan ∧ runPlan symAlg [T] plan = T' :=
  fun T h => denoteId_permute_output_full _ _ _ [2, 0, 1] T (by decide +kernel) (by decide +kernel) (by decide +kernel)
    (by decide +kernel) rfl (by decide +kernel) h

end Einx.C08b
