import EinxModel.Props.C08
import EinxModel.Proofs.DenoteDefined
import EinxModel.Proofs.DenoteReducePerm
import EinxModel.Proofs.DenoteDot
import EinxModel.Proofs.DenoteConcat
/-!
C08 (continued) — gaps of `Props/C08.lean` closed by work package c08.

* (a) definedness of the output-permuted operation: `denote_permute_output_defined`,
      `denote_permute_output_tensor_full`, `denote_permute_output_expr_full`, `denoteId_permute_output_full`
* (b) `Cell.cmp` is a linear order, `sortCells` / `mkRed` are normal forms of the multiset of cells:
      `cell_cmp_linear_order`, `sortCells_multiset_normal_form`, `mkRed_multiset`; `denote_reduce_bracket_order`
* (d) reductions (executable loop form `Denote.denoteReduce`): tie `denoteReduce_fun_agree`; input permutation
      `denote_reduce_permute_input` (+ `_sem`: every interpretation with permutation-invariant reductions), output
      permutation incl. definedness `denote_reduce_permute_output`, parentheses `denote_reduce_regroup_input/_output`;
      `denoteId_regroup_input/_output` (the regrouping laws of `C08` on expressions, loop form)
* (d) dot (executable loop form `Denote.denoteDot`): tie `denoteDot_fun_agree`; output permutation incl. definedness
      `denote_dot_permute_output`; parentheses on the output `denote_dot_regroup_output`
* (d) elementwise (loop form `Denote.denoteElementwise`): output permutation incl. definedness
      `denote_elementwise_permute_output`
* (c) concatenations: `denoteId_fun_agree_general` (loop form = functional form `Denote.denoteIdFunG` for *all* solved
      expressions), `denoteId_rename_general` (consistent renaming, concatenations included)
-/
namespace Einx.C08b
open Einx Einx.IR Einx.Denote Einx.C08
open Einx.Order.Fresh (InjOn)

/-! ### (a) The output-permuted operation is defined whenever the original one is -/

/-- **Definedness under output permutation.**  If the `id` denotation towards the concatenation-free output view `w`
(leaf sizes consistent per name, decidable) is defined, then it is defined towards every permutation `w'` of the root
dimensions of `w`: every assignment of the permuted iteration space has an entry and every position of the permuted
output is written. -/
theorem denote_permute_output_defined (vi : List Dim) (si : List Nat) (i : Nat) (w w' : List Dim) (perm : List Nat)
    (cs : List Cell)
    (hperm : isPermOf perm w.length = true) (hw' : permuteL perm w = some w')
    (hc : Dim.concatFreeL w = true) (hcons : consistentB (Dim.leavesL w) = true)
    (h : idCells vi si i w (viewShape w) = some cs) :
    ∃ cs', idCells vi si i w' (viewShape w') = some cs' :=
  idCells_permute_output_defined hperm hw' hc (consistentB_spec hcons) h

/-- **Permuting the output expression transposes the result: whole-tensor law, from definedness of the original
operation alone.**  `C08.denote_permute_output_tensor` without its second definedness hypothesis: the permuted
operation is defined, and its result is the IR's transpose plan run on the original result. -/
theorem denote_permute_output_tensor_full (vi : List Dim) (si : List Nat) (i : Nat) (w w' : List Dim) (perm : List Nat)
    (cs : List Cell)
    (hperm : isPermOf perm w.length = true) (hw' : permuteL perm w = some w')
    (hc : Dim.concatFreeL w = true) (hcons : consistentB (Dim.leavesL w) = true)
    (h : idCells vi si i w (viewShape w) = some cs) :
    ∃ cs', idCells vi si i w' (viewShape w') = some cs' ∧
      ∃ plan, planInstr [viewShape w] (.transpose 0 perm) = .ok plan ∧
        runPlan symAlg [⟨viewShape w, cs⟩] plan = ⟨viewShape w', cs'⟩ := by
  obtain ⟨cs', h'⟩ := denote_permute_output_defined vi si i w w' perm cs hperm hw' hc hcons h
  exact ⟨cs', h', denote_permute_output_tensor vi si i w w' perm cs cs' hperm hw' hc hcons h h'⟩

/-- **The same on expressions (`denoteIdFun`).**  If `e -> eo` is defined with result `T`, and the root dimensions
of the concatenation-free `eo'` are those of `eo` permuted by `perm`, then `e -> eo'` is defined and its result is
numpy's transpose (the IR's plan) of `T`. -/
theorem denote_permute_output_expr_full (e eo eo' : Expr) (perm : List Nat) (T : Tensor Cell)
    (heo' : eo'.concatFree = true)
    (hperm : isPermOf perm (rootDims eo).length = true) (hp : permuteL perm (rootDims eo) = some (rootDims eo'))
    (hcons : consistentB (Dim.leavesL (rootDims eo)) = true)
    (h : denoteIdFun [e] [eo] = .ok [T]) :
    ∃ T', denoteIdFun [e] [eo'] = .ok [T'] ∧
      ∃ plan, planInstr [shapeOf eo] (.transpose 0 perm) = .ok plan ∧ runPlan symAlg [T] plan = T' := by
  obtain ⟨he, hc, cs, hcs, ht⟩ := denoteIdFun_single h
  obtain ⟨cs', hcs'⟩ := denote_permute_output_defined _ _ _ _ _ perm cs hperm hp (rootDims_concatFree hc) hcons hcs
  have h' : denoteIdFun [e] [eo'] = .ok [⟨shapeOf eo', cs'⟩] := by
    rw [denoteIdFun_single_eq e eo' he heo']
    have : idCells (rootDims e) (shapeOf e) 0 (rootDims eo') (shapeOf eo') = some cs' := hcs'
    rw [this]
  exact ⟨_, h', denote_permute_output_expr e eo eo' perm T _ hperm hp hcons h h'⟩

/-- **Output permutation law for the executable loop form `Denote.denoteId`, from definedness of the original
operation alone.** -/
theorem denoteId_permute_output_full (e eo eo' : Expr) (perm : List Nat) (T : Tensor Cell)
    (he : e.concatFree = true) (heo : eo.concatFree = true) (heo' : eo'.concatFree = true)
    (hperm : isPermOf perm (rootDims eo).length = true) (hp : permuteL perm (rootDims eo) = some (rootDims eo'))
    (hcons : consistentB (Dim.leavesL (rootDims eo)) = true)
    (h : okOpt (denoteId [e] [eo]) = some [T]) :
    ∃ T', okOpt (denoteId [e] [eo']) = some [T'] ∧
      ∃ plan, planInstr [shapeOf eo] (.transpose 0 perm) = .ok plan ∧ runPlan symAlg [T] plan = T' := by
  rw [denoteId_fun_agree e eo he heo] at h
  obtain ⟨T', h', hplan⟩ := denote_permute_output_expr_full e eo eo' perm T heo' hperm hp hcons (ok_of_okOpt h)
  refine ⟨T', ?_, hplan⟩
  rw [denoteId_fun_agree e eo' he heo', h']
  rfl

/-- Non-vacuity: `a (b c) d -> (d a) c b` with sizes 2, (2·1), 3 is defined; the output permuted by `[2, 0, 1]` is
`b (d a) c`.  All hypotheses of `denoteId_permute_output_full` hold, and the conclusion's tensor is the genuine
transposed result (it differs from the original one). -/
example :
    let a := Expr.axis "a" 2; let b := Expr.axis "b" 2; let c := Expr.axis "c" 1; let d := Expr.axis "d" 3
    let e := Expr.list [a, .flat (.list [b, c]), d]
    let eo := Expr.list [.flat (.list [d, a]), c, b]; let eo' := Expr.list [b, .flat (.list [d, a]), c]
    e.concatFree = true ∧ eo.concatFree = true ∧ eo'.concatFree = true ∧
    isPermOf [2, 0, 1] (rootDims eo).length = true ∧
    (permuteL [2, 0, 1] (rootDims eo)).map viewShape = some (viewShape (rootDims eo')) ∧
    consistentB (Dim.leavesL (rootDims eo)) = true ∧
    (match okOpt (denoteId [e] [eo]), okOpt (denoteId [e] [eo']) with
      | some [t], some [t'] => t.shape == [6, 1, 2] && t'.shape == [2, 6, 1] && !Cell.beqL t.data t'.data
      | _, _ => false) = true := by
  decide +kernel

example :
    let a := Expr.axis "a" 2; let b := Expr.axis "b" 2; let c := Expr.axis "c" 1; let d := Expr.axis "d" 3
    let e := Expr.list [a, .flat (.list [b, c]), d]
    let eo := Expr.list [.flat (.list [d, a]), c, b]; let eo' := Expr.list [b, .flat (.list [d, a]), c]
    ∀ T, okOpt (denoteId [e] [eo]) = some [T] →
      ∃ T', okOpt (denoteId [e] [eo']) = some [T'] ∧
        ∃ plan, planInstr [shapeOf eo] (.transpose 0 [2, 0, 1]) = .ok plan ∧ runPlan symAlg [T] plan = T' :=
  fun T h => denoteId_permute_output_full _ _ _ [2, 0, 1] T (by decide +kernel) (by decide +kernel) (by decide +kernel)
    (by decide +kernel) rfl (by decide +kernel) h

/-! ### (b) `sortCells` is a normal form of the multiset of cells -/

/-- **`Cell.cmp` is a linear order on cells**: oriented, `eq` only on equal cells, and transitive (on `≤` = "not
`gt`").  Proved by mutual structural induction over cells and argument lists (`Proofs/CellOrder.lean`). -/
theorem cell_cmp_linear_order :
    (∀ a b : Cell, Cell.cmp b a = (Cell.cmp a b).swap) ∧ (∀ a b : Cell, Cell.cmp a b = .eq → a = b) ∧
    (∀ a b c : Cell, Cell.cmp a b ≠ .gt → Cell.cmp b c ≠ .gt → Cell.cmp a c ≠ .gt) :=
  ⟨Cell.cmp_swap, Cell.cmp_eq, fun _ _ _ h1 h2 => Cell.le_trans h1 h2⟩

/-- **`sortCells` depends on the multiset of cells only**, and returns a permutation of its argument. -/
theorem sortCells_multiset_normal_form (l1 l2 : List Cell) (h : l1.Perm l2) :
    sortCells l1 = sortCells l2 ∧ (sortCells l1).Perm l1 :=
  ⟨sortCells_perm h, sortCells_perm_self l1⟩

/-- **The canonical reduction cell depends on the multiset of the reduced cells only.** -/
theorem mkRed_multiset (f : String) (l1 l2 : List Cell) (h : l1.Perm l2) : mkRed f l1 = mkRed f l2 :=
  mkRed_perm f h

/-- Non-vacuity: two different orders of four distinct cells (sources, a literal, an application). -/
example :
    let l1 := [Cell.src 0 3, .app "f" [.src 1 0], .lit 2, .src 0 1]
    let l2 := [Cell.lit 2, .src 0 1, .src 0 3, .app "f" [.src 1 0]]
    l1.Perm l2 ∧ !Cell.beqL l1 l2 ∧ Cell.beqL (sortCells l1) (sortCells l2) ∧
      Cell.beq (mkRed "sum" l1) (mkRed "sum" l2) := by
  exact ⟨List.perm_append_comm (l₁ := [Cell.src 0 3, .app "f" [.src 1 0]]) (l₂ := [Cell.lit 2, .src 0 1]),
    by decide +kernel, by decide +kernel, by decide +kernel⟩

/-! ### (d) Reductions: the functional form is the loop form -/

/-- **Tie to `Denote/Expr2.lean`.**  For concatenation-free expressions the executable loop form
`Denote.denoteReduce` (the one the C01 validator uses and the driver runs) and the functional form
`Denote.denoteReduceFun` (`Denote/Fun2.lean`) succeed on the same operations with the same symbolic tensor. -/
theorem denoteReduce_fun_agree (f : String) (e eo : Expr) (he : e.concatFree = true) (heo : eo.concatFree = true) :
    okOpt (denoteReduce f e eo) = okOpt (denoteReduceFun f e eo) :=
  denoteReduce_eq_fun f e eo he heo

theorem okOpt_denoteReduce (f : String) (e eo : Expr) (he : e.concatFree = true) (heo : eo.concatFree = true) :
    okOpt (denoteReduce f e eo)
      = (reduceCells f (rootDims e) (shapeOf e) (rootDims eo) (shapeOf eo)).map (fun cs => (⟨shapeOf eo, cs⟩ : Tensor Cell)) := by
  rw [denoteReduce_fun_agree f e eo he heo]
  unfold denoteReduceFun
  simp only [he, heo, Bool.and_self, Bool.not_true, Bool.false_eq_true, if_false]
  cases reduceCells f (rootDims e) (shapeOf e) (rootDims eo) (shapeOf eo) <;> rfl

/-- Substitute the tensors `ts` into a symbolic result and sort the arguments of every reduction cell again. -/
def substResort (ts : List (Tensor Cell)) (t : Tensor Cell) : Tensor Cell :=
  t.map (fun c => Cell.resort (subst ts c))

/-- **Reordering the root dimensions of the input expression of a reduction -- bracketed or un-bracketed -- while
transposing the tensor the same way leaves the result unchanged.**  `e'` has the root dimensions of `e` permuted by
`perm`; the tensor is transposed by numpy (`planInstr [shapeOf e] (.transpose 0 perm)`).  The symbolic result of
`e' -> eo`, with the transposed tensor substituted and the reduction cells re-canonicalised (`substResort`), *equals*
the symbolic result of `e -> eo`; one fails iff the other does.  Hypotheses (decidable): concatenation-free; leaf sizes
consistent per name across input and output; no axis name both bracketed and un-bracketed in the input. -/
theorem denote_reduce_permute_input (f : String) (e e' eo : Expr) (perm : List Nat)
    (he : e.concatFree = true) (he' : e'.concatFree = true) (heo : eo.concatFree = true)
    (hperm : isPermOf perm (rootDims e).length = true) (hp : permuteL perm (rootDims e) = some (rootDims e'))
    (hcons : consistentB (Dim.leavesL (rootDims e) ++ Dim.leavesL (rootDims eo)) = true)
    (hms : markSepB (Dim.leavesL (rootDims e)) = true) :
    ∃ plan, planInstr [shapeOf e] (.transpose 0 perm) = .ok plan ∧ plan.shape = shapeOf e' ∧
      (okOpt (denoteReduce f e' eo)).map (substResort [⟨plan.shape, plan.cells⟩]) = okOpt (denoteReduce f e eo) := by
  have hlen : (viewShape (rootDims e)).length = (rootDims e).length := by simp [viewShape]
  obtain ⟨plan, hplan, hshape, _, _⟩ :=
    transpose_plan_ok [shapeOf e] 0 (viewShape (rootDims e)) perm rfl (by rw [hlen]; exact hperm)
  have hs : plan.shape = shapeOf e' := by
    have := viewShape_permute hp
    rw [hshape] at this
    exact Option.some.inj this
  refine ⟨plan, hplan, hs, ?_⟩
  rw [okOpt_denoteReduce f e' eo he' heo, okOpt_denoteReduce f e eo he heo]
  have := reduceCells_permute_input (f := f) (sw := shapeOf eo) hperm hp (rootDims_concatFree he)
    (consistentB_spec hcons) (markSepB_spec hms) hplan
  rw [shapeOf_eq e, ← this, shapeOf_eq e']
  cases reduceCells f (rootDims e') (viewShape (rootDims e')) (rootDims eo) (shapeOf eo) <;> rfl

/-- **Reordering the bracketed axes of a reduction** (`denote_reduce_bracket_order`).  For every assignment `σ` of
the output axes, the list of input elements reduced into the output element of `σ` by the permuted operation (read
from the transposed tensor) is a *permutation* of the list reduced by the original operation -- the cells are visited
in another order -- and therefore the canonical reduction cells coincide (`mkRed` sorts by the linear order
`Cell.cmp`).  Holds for every permutation of the root dimensions, in particular for those that only reorder
bracketed axes. -/
theorem denote_reduce_bracket_order (f : String) (v v' w : List Dim) (perm : List Nat) (plan : Plan) (σ : Assign)
    (hperm : isPermOf perm v.length = true) (hv' : permuteL perm v = some v')
    (hc : Dim.concatFreeL v = true) (hcons : consistentB (Dim.leavesL v ++ Dim.leavesL w) = true)
    (hms : markSepB (Dim.leavesL v) = true) (hplan : planInstr [viewShape v] (.transpose 0 perm) = .ok plan)
    (hσ : σ ∈ outAssignments w) :
    (redArgs v' (viewShape v') σ = none ∧ redArgs v (viewShape v) σ = none) ∨
      ∃ r' r, redArgs v' (viewShape v') σ = some r' ∧ redArgs v (viewShape v) σ = some r ∧
        (r'.map (subst [⟨plan.shape, plan.cells⟩])).Perm r ∧
        mkRed f (r'.map (subst [⟨plan.shape, plan.cells⟩])) = mkRed f r := by
  rcases redArgs_permute_input hperm hv' hc (consistentB_spec hcons) (markSepB_spec hms) hplan hσ with
    h | ⟨r', r, h1, h2, hp⟩
  · exact Or.inl h
  · exact Or.inr ⟨r', r, h1, h2, hp, mkRed_perm f hp⟩

/-- **The same, semantically.**  For every element algebra `A` whose reduction symbols are invariant under
permutations of their arguments (`RedInvariant`; e.g. integer `sum`, `max`) and every concrete input tensor `x`: the
permuted reduction evaluated on numpy's transpose of `x` returns the same values as the original reduction on `x`. -/
theorem denote_reduce_permute_input_sem {α : Type} (A : Alg α) (hA : RedInvariant A) (x : Tensor α)
    (f : String) (e e' eo : Expr) (perm : List Nat)
    (he : e.concatFree = true) (he' : e'.concatFree = true) (heo : eo.concatFree = true)
    (hperm : isPermOf perm (rootDims e).length = true) (hp : permuteL perm (rootDims e) = some (rootDims e'))
    (hcons : consistentB (Dim.leavesL (rootDims e) ++ Dim.leavesL (rootDims eo)) = true)
    (hms : markSepB (Dim.leavesL (rootDims e)) = true) :
    ∃ plan, planInstr [shapeOf e] (.transpose 0 perm) = .ok plan ∧
      (okOpt (denoteReduce f e' eo)).map (fun t => t.data.map (evalCell A [runPlan A [x] plan]))
        = (okOpt (denoteReduce f e eo)).map (fun t => t.data.map (evalCell A [x])) := by
  have hlen : (viewShape (rootDims e)).length = (rootDims e).length := by simp [viewShape]
  obtain ⟨plan, hplan, _, _, _⟩ :=
    transpose_plan_ok [shapeOf e] 0 (viewShape (rootDims e)) perm rfl (by rw [hlen]; exact hperm)
  refine ⟨plan, hplan, ?_⟩
  rw [okOpt_denoteReduce f e' eo he' heo, okOpt_denoteReduce f e eo he heo]
  have := reduceCells_permute_input_sem hA x (f := f) (sw := shapeOf eo) hperm hp (rootDims_concatFree he)
    (consistentB_spec hcons) (markSepB_spec hms) hplan
  simp only [Option.map_map, Function.comp_def]
  rw [shapeOf_eq e, shapeOf_eq e']
  exact this

/-- Integer interpretation with `red:sum` = sum of the arguments (every other symbol: 0). -/
def sumAlg : Alg Int := { lit := id, bad := 0, app := fun g xs => if g = "red:sum" then xs.sum else 0 }

theorem sumAlg_redInvariant : RedInvariant sumAlg := by
  intro g xs ys h
  simp only [sumAlg]
  split
  · exact h.sum_eq
  · rfl

/-- Non-vacuity of the input laws: `sum: a [b c] d -> d a` with a = b = c = 2, d = 1 (equal lengths on different axes,
a length-1 axis), the input permuted by `[3, 2, 0, 1]` to `d [c] a [b]` (bracketed axes reordered *and* moved).  All
hypotheses hold; the permuted operation yields different cells; after substituting the transposed tensor and
re-canonicalising they are the original cells, which are genuine four-element reductions. -/
example :
    let a := Expr.axis "a" 2; let b := Expr.axis "b" 2; let c := Expr.axis "c" 2; let d := Expr.axis "d" 1
    let e := Expr.list [a, .br (.list [b, c]), d]; let e' := Expr.list [d, .br c, a, .br b]
    let eo := Expr.list [d, a]
    e.concatFree = true ∧ e'.concatFree = true ∧ eo.concatFree = true ∧
    isPermOf [3, 2, 0, 1] (rootDims e).length = true ∧
    (permuteL [3, 2, 0, 1] (rootDims e)).map viewShape = some (viewShape (rootDims e')) ∧
    consistentB (Dim.leavesL (rootDims e) ++ Dim.leavesL (rootDims eo)) = true ∧
    markSepB (Dim.leavesL (rootDims e)) = true ∧
    (match planInstr [shapeOf e] (.transpose 0 [3, 2, 0, 1]), okOpt (denoteReduce "sum" e' eo),
        okOpt (denoteReduce "sum" e eo) with
      | .ok plan, some t', some t =>
        Tensor.beq (substResort [⟨plan.shape, plan.cells⟩] t') t && !Tensor.beq t' t &&
          !Tensor.beq (t'.map (subst [⟨plan.shape, plan.cells⟩])) t &&
          Cell.beqL t.data [.app "red:sum" [.src 0 0, .src 0 1, .src 0 2, .src 0 3],
            .app "red:sum" [.src 0 4, .src 0 5, .src 0 6, .src 0 7]]
      | _, _, _ => false) = true := by
  decide +kernel

example :
    let a := Expr.axis "a" 2; let b := Expr.axis "b" 2; let c := Expr.axis "c" 2; let d := Expr.axis "d" 1
    let e := Expr.list [a, .br (.list [b, c]), d]; let e' := Expr.list [d, .br c, a, .br b]
    let eo := Expr.list [d, a]
    ∃ plan, planInstr [shapeOf e] (.transpose 0 [3, 2, 0, 1]) = .ok plan ∧ plan.shape = shapeOf e' ∧
      (okOpt (denoteReduce "sum" e' eo)).map (substResort [⟨plan.shape, plan.cells⟩]) = okOpt (denoteReduce "sum" e eo) :=
  denote_reduce_permute_input "sum" _ _ _ [3, 2, 0, 1] (by decide +kernel) (by decide +kernel) (by decide +kernel)
    (by decide +kernel) rfl (by decide +kernel) (by decide +kernel)

/-- Non-vacuity of the semantic law: `sumAlg` is permutation invariant, and on the input `0..7` the two reductions
return `[6, 22]`. -/
example :
    let a := Expr.axis "a" 2; let b := Expr.axis "b" 2; let c := Expr.axis "c" 2; let d := Expr.axis "d" 1
    let e := Expr.list [a, .br (.list [b, c]), d]; let e' := Expr.list [d, .br c, a, .br b]
    let eo := Expr.list [d, a]
    let x : Tensor Int := ⟨[2, 2, 2, 1], [0, 1, 2, 3, 4, 5, 6, 7]⟩
    RedInvariant sumAlg ∧
    (match planInstr [shapeOf e] (.transpose 0 [3, 2, 0, 1]), okOpt (denoteReduce "sum" e' eo),
        okOpt (denoteReduce "sum" e eo) with
      | .ok plan, some t', some t =>
        t'.data.map (evalCell sumAlg [runPlan sumAlg [x] plan]) == [6, 22] &&
          t.data.map (evalCell sumAlg [x]) == [6, 22] && (runPlan sumAlg [x] plan).data == [0, 2, 4, 6, 1, 3, 5, 7]
      | _, _, _ => false) = true :=
  ⟨sumAlg_redInvariant, by decide +kernel⟩

/-! ### (d) Reductions: permuting the output expression -/

/-- **Reordering the axes of the output expression of a reduction permutes the result's dimensions accordingly**,
including definedness: if `e -> eo` is defined with result `T`, and the root dimensions of the concatenation-free
`eo'` are those of `eo` permuted by `perm`, then `e -> eo'` is defined and its result is the IR's plan of numpy's
`transpose(T, perm)` run on `T`. -/
theorem denote_reduce_permute_output (f : String) (e eo eo' : Expr) (perm : List Nat) (T : Tensor Cell)
    (he : e.concatFree = true) (heo : eo.concatFree = true) (heo' : eo'.concatFree = true)
    (hperm : isPermOf perm (rootDims eo).length = true) (hp : permuteL perm (rootDims eo) = some (rootDims eo'))
    (hcons : consistentB (Dim.leavesL (rootDims eo)) = true)
    (h : okOpt (denoteReduce f e eo) = some T) :
    ∃ T', okOpt (denoteReduce f e eo') = some T' ∧
      ∃ plan, planInstr [shapeOf eo] (.transpose 0 perm) = .ok plan ∧ runPlan symAlg [T] plan = T' := by
  rw [okOpt_denoteReduce f e eo he heo] at h
  rw [okOpt_denoteReduce f e eo' he heo']
  cases hcs : reduceCells f (rootDims e) (shapeOf e) (rootDims eo) (shapeOf eo) with
  | none => simp [hcs] at h
  | some cs =>
    simp only [hcs, Option.map_some, Option.some.injEq] at h
    subst h
    obtain ⟨cs', h', plan, hplan, hrun⟩ := genCells_permute_output_full (redX_getInvariant f (rootDims e) (shapeOf e))
      hperm hp (rootDims_concatFree heo) (consistentB_spec hcons) hcs
    have h'' : reduceCells f (rootDims e) (shapeOf e) (rootDims eo') (shapeOf eo') = some cs' := h'
    exact ⟨⟨shapeOf eo', cs'⟩, by rw [h'']; rfl, plan, hplan, hrun⟩

/-- Non-vacuity: `sum: a [b c] d -> d a` (sizes 2, 2, 2, 1) towards the permuted output `a d`: hypotheses hold and the
two results differ in shape. -/
example :
    let a := Expr.axis "a" 2; let b := Expr.axis "b" 2; let c := Expr.axis "c" 2; let d := Expr.axis "d" 1
    let e := Expr.list [a, .br (.list [b, c]), d]; let eo := Expr.list [d, a]; let eo' := Expr.list [a, d]
    ∀ T, okOpt (denoteReduce "sum" e eo) = some T →
      ∃ T', okOpt (denoteReduce "sum" e eo') = some T' ∧
        ∃ plan, planInstr [shapeOf eo] (.transpose 0 [1, 0]) = .ok plan ∧ runPlan symAlg [T] plan = T' :=
  fun T h => denote_reduce_permute_output "sum" _ _ _ [1, 0] T (by decide +kernel) (by decide +kernel)
    (by decide +kernel) (by decide +kernel) rfl (by decide +kernel) h

example :
    let a := Expr.axis "a" 2; let b := Expr.axis "b" 2; let c := Expr.axis "c" 2; let d := Expr.axis "d" 1
    let e := Expr.list [a, .br (.list [b, c]), d]; let eo := Expr.list [d, a]; let eo' := Expr.list [a, d]
    (match okOpt (denoteReduce "sum" e eo), okOpt (denoteReduce "sum" e eo') with
      | some t, some t' => t.shape == [1, 2] && t'.shape == [2, 1] && Cell.beqL t.data t'.data
      | _, _ => false) = true := by
  decide +kernel

/-! ### (d) Parentheses on expressions: grouping adjacent axes of an expression and reshaping the tensor -/

theorem dimsL_append (m : Bool) (a b : List Expr) : dimsL m (a ++ b) = dimsL m a ++ dimsL m b := by
  induction a with
  | nil => simp [dimsL]
  | cons x a ih => simp [dimsL, ih]

/-- The expression `pre (mid) post`: the adjacent root expressions `mid` wrapped in parentheses. -/
def grouped (pre mid post : List Expr) : Expr := .list (pre ++ [.flat (.list mid)] ++ post)
/-- The expression `pre mid post`. -/
def ungrouped (pre mid post : List Expr) : Expr := .list (pre ++ mid ++ post)

theorem rootDims_grouped (pre mid post : List Expr) :
    rootDims (grouped pre mid post) = dimsL false pre ++ [Dim.flat (dimsL false mid)] ++ dimsL false post := by
  simp [grouped, rootDims, dims, dimsL_append, dimsL]

theorem rootDims_ungrouped (pre mid post : List Expr) :
    rootDims (ungrouped pre mid post) = dimsL false pre ++ dimsL false mid ++ dimsL false post := by
  simp [ungrouped, rootDims, dims, dimsL_append]

/-- The flat sizes of `pre (mid) post` and `pre mid post` agree: the reshape between them is legal. -/
theorem prod_shapeOf_grouped (pre mid post : List Expr) :
    prod (shapeOf (grouped pre mid post)) = prod (shapeOf (ungrouped pre mid post)) := by
  rw [shapeOf_eq, shapeOf_eq, rootDims_grouped, rootDims_ungrouped]
  exact prod_viewShape_regroup _ _ _

/-- **Grouping axes of the input expression of a reduction with parentheses (and reshaping the tensor) leaves the
result unchanged.**  The reshape `pre mid post → pre (mid) post` keeps the row-major order of the elements, so the
symbolic results -- over the flat input positions -- are *equal*; `mid` may contain bracketed axes (`a [b c]` vs
`a ([b c])`). -/
theorem denote_reduce_regroup_input (f : String) (pre mid post : List Expr) (eo : Expr)
    (h1 : (grouped pre mid post).concatFree = true) (h2 : (ungrouped pre mid post).concatFree = true)
    (heo : eo.concatFree = true) :
    okOpt (denoteReduce f (grouped pre mid post) eo) = okOpt (denoteReduce f (ungrouped pre mid post) eo) := by
  rw [okOpt_denoteReduce f _ eo h1 heo, okOpt_denoteReduce f _ eo h2 heo]
  unfold reduceCells
  rw [shapeOf_eq (grouped pre mid post), shapeOf_eq (ungrouped pre mid post), rootDims_grouped, rootDims_ungrouped,
    redX_regroup_input]

/-- **Grouping axes of the output expression of a reduction with parentheses reshapes the result**: same cells in
the same row-major order, the shape is that of the grouped expression (same number of elements). -/
theorem denote_reduce_regroup_output (f : String) (e : Expr) (pre mid post : List Expr)
    (he : e.concatFree = true)
    (h1 : (grouped pre mid post).concatFree = true) (h2 : (ungrouped pre mid post).concatFree = true) :
    (okOpt (denoteReduce f e (grouped pre mid post))).map (·.data)
      = (okOpt (denoteReduce f e (ungrouped pre mid post))).map (·.data) := by
  rw [okOpt_denoteReduce f e _ he h1, okOpt_denoteReduce f e _ he h2]
  unfold reduceCells
  rw [shapeOf_eq (grouped pre mid post), shapeOf_eq (ungrouped pre mid post), rootDims_grouped, rootDims_ungrouped,
    genCells_regroup_output]
  simp only [Option.map_map, Function.comp_def]

theorem okOpt_denoteId_single (e1 e2 : Expr) (h1 : e1.concatFree = true) (h2 : e2.concatFree = true) :
    okOpt (denoteId [e1] [e2])
      = (idCells (rootDims e1) (shapeOf e1) 0 (rootDims e2) (shapeOf e2)).map (fun cs => [(⟨shapeOf e2, cs⟩ : Tensor Cell)]) := by
  rw [denoteId_fun_agree e1 e2 h1 h2, okOpt_denoteIdFun_single e1 e2 h1 h2]

/-- **Parentheses on the input expression of `id`** (executable loop form `Denote.denoteId`): `C08.denote_regroup_tensor`
on expressions. -/
theorem denoteId_regroup_input (pre mid post : List Expr) (eo : Expr)
    (h1 : (grouped pre mid post).concatFree = true) (h2 : (ungrouped pre mid post).concatFree = true)
    (heo : eo.concatFree = true) :
    okOpt (denoteId [grouped pre mid post] [eo]) = okOpt (denoteId [ungrouped pre mid post] [eo]) := by
  rw [okOpt_denoteId_single _ _ h1 heo, okOpt_denoteId_single _ _ h2 heo,
    shapeOf_eq (grouped pre mid post), shapeOf_eq (ungrouped pre mid post), rootDims_grouped, rootDims_ungrouped,
    idCells_regroup_input]

/-- **Parentheses on the output expression of `id`**: the same cells in the same order (the result is reshaped). -/
theorem denoteId_regroup_output (e : Expr) (pre mid post : List Expr) (he : e.concatFree = true)
    (h1 : (grouped pre mid post).concatFree = true) (h2 : (ungrouped pre mid post).concatFree = true) :
    (okOpt (denoteId [e] [grouped pre mid post])).map (List.map (·.data))
      = (okOpt (denoteId [e] [ungrouped pre mid post])).map (List.map (·.data)) := by
  rw [okOpt_denoteId_single _ _ he h1, okOpt_denoteId_single _ _ he h2,
    shapeOf_eq (grouped pre mid post), shapeOf_eq (ungrouped pre mid post), rootDims_grouped, rootDims_ungrouped,
    idCells_regroup_output]
  simp only [Option.map_map, Function.comp_def, List.map_cons, List.map_nil]

/-- Non-vacuity of the parenthesis laws: `sum: a [b c] d -> d a` against `sum: a ([b c]) d -> d a` (bracketed axes
inside the group) and `-> (d a)`; `id: a b c d -> d (c b) a` against `a (b c) d`; sizes a = b = c = 2, d = 1.  The
grouped and ungrouped expressions have different shapes, all results are defined, and the laws' conclusions hold. -/
example :
    let a := Expr.axis "a" 2; let b := Expr.axis "b" 2; let c := Expr.axis "c" 2; let d := Expr.axis "d" 1
    let G := grouped [a] [.br (.list [b, c])] [d]; let U := ungrouped [a] [.br (.list [b, c])] [d]
    let Go := grouped [] [d, a] []; let Uo := ungrouped [] [d, a] []
    let Gi := grouped [a] [b, c] [d]; let Ui := ungrouped [a] [b, c] [d]
    let eo := Expr.list [d, .flat (.list [c, b]), a]
    G.concatFree = true ∧ U.concatFree = true ∧ Go.concatFree = true ∧ Uo.concatFree = true ∧
    shapeOf G = [2, 4, 1] ∧ shapeOf U = [2, 2, 2, 1] ∧ shapeOf Go = [2] ∧ shapeOf Uo = [1, 2] ∧
    (match okOpt (denoteReduce "sum" G Uo), okOpt (denoteReduce "sum" U Uo), okOpt (denoteReduce "sum" U Go) with
      | some t1, some t2, some t3 => Tensor.beq t1 t2 && Cell.beqL t2.data t3.data && t3.shape == [2] && t2.shape == [1, 2]
          && t2.data.length == 2
      | _, _, _ => false) = true ∧
    (match okOpt (denoteId [Gi] [eo]), okOpt (denoteId [Ui] [eo]) with
      | some [t1], some [t2] => Tensor.beq t1 t2 && t1.data.length == 8 && !Tensor.beq t1 (symInput 0 [1, 4, 2])
      | _, _ => false) = true := by
  decide +kernel

/-! ### (d) Dot: tie, output permutation, output parentheses -/

/-- **Tie to `Denote/Expr2.lean`, dot.**  For concatenation-free expressions the executable loop form
`Denote.denoteDot` (three nested `for` loops in `Except`) and the functional form `Denote.denoteDotFun` succeed on the
same operations with the same symbolic tensor. -/
theorem denoteDot_fun_agree (exprsIn : List Expr) (eo : Expr) (hin : Expr.concatFreeL exprsIn = true)
    (heo : eo.concatFree = true) : okOpt (denoteDot exprsIn eo) = okOpt (denoteDotFun exprsIn eo) :=
  denoteDot_eq_fun exprsIn eo hin heo

theorem okOpt_denoteDot (exprsIn : List Expr) (eo : Expr) (hin : Expr.concatFreeL exprsIn = true)
    (heo : eo.concatFree = true) :
    okOpt (denoteDot exprsIn eo)
      = (dotCells (exprsIn.map (fun e => (rootDims e, shapeOf e))) (rootDims eo) (shapeOf eo)).map
          (fun cs => (⟨shapeOf eo, cs⟩ : Tensor Cell)) := by
  rw [denoteDot_fun_agree exprsIn eo hin heo]
  unfold denoteDotFun
  simp only [hin, heo, Bool.and_self, Bool.not_true, Bool.false_eq_true, if_false]
  cases dotCells (exprsIn.map (fun e => (rootDims e, shapeOf e))) (rootDims eo) (shapeOf eo) <;> rfl

/-- **Reordering the axes of the output expression of a dot permutes the result's dimensions accordingly**, including
definedness (any number of inputs, any contracted axes). -/
theorem denote_dot_permute_output (exprsIn : List Expr) (eo eo' : Expr) (perm : List Nat) (T : Tensor Cell)
    (hin : Expr.concatFreeL exprsIn = true) (heo : eo.concatFree = true) (heo' : eo'.concatFree = true)
    (hperm : isPermOf perm (rootDims eo).length = true) (hp : permuteL perm (rootDims eo) = some (rootDims eo'))
    (hcons : consistentB (Dim.leavesL (rootDims eo)) = true)
    (h : okOpt (denoteDot exprsIn eo) = some T) :
    ∃ T', okOpt (denoteDot exprsIn eo') = some T' ∧
      ∃ plan, planInstr [shapeOf eo] (.transpose 0 perm) = .ok plan ∧ runPlan symAlg [T] plan = T' := by
  rw [okOpt_denoteDot exprsIn eo hin heo] at h
  rw [okOpt_denoteDot exprsIn eo' hin heo']
  cases hcs : dotCells (exprsIn.map (fun e => (rootDims e, shapeOf e))) (rootDims eo) (shapeOf eo) with
  | none => simp [hcs] at h
  | some cs =>
    simp only [hcs, Option.map_some, Option.some.injEq] at h
    subst h
    obtain ⟨cs', h', plan, hplan, hrun⟩ := genCells_permute_output_full (dotX_getInvariant _)
      hperm hp (rootDims_concatFree heo) (consistentB_spec hcons) hcs
    have h'' : dotCells (exprsIn.map (fun e => (rootDims e, shapeOf e))) (rootDims eo') (shapeOf eo') = some cs' := h'
    exact ⟨⟨shapeOf eo', cs'⟩, by rw [h'']; rfl, plan, hplan, hrun⟩

/-- **Parentheses on the output expression of a dot** reshape the result: same cells, same row-major order. -/
theorem denote_dot_regroup_output (exprsIn : List Expr) (pre mid post : List Expr)
    (hin : Expr.concatFreeL exprsIn = true)
    (h1 : (grouped pre mid post).concatFree = true) (h2 : (ungrouped pre mid post).concatFree = true) :
    (okOpt (denoteDot exprsIn (grouped pre mid post))).map (·.data)
      = (okOpt (denoteDot exprsIn (ungrouped pre mid post))).map (·.data) := by
  rw [okOpt_denoteDot exprsIn _ hin h1, okOpt_denoteDot exprsIn _ hin h2]
  unfold dotCells
  rw [shapeOf_eq (grouped pre mid post), shapeOf_eq (ungrouped pre mid post), rootDims_grouped, rootDims_ungrouped,
    genCells_regroup_output]
  simp only [Option.map_map, Function.comp_def]

/-- Non-vacuity: `dot: a [b], [b] c d -> c a d` with a = b = c = 2, d = 1 (a contracted axis, equal lengths, a
length-1 axis); the output permuted by `[2, 0, 1]` to `d c a` and grouped to `(c a) d`.  Both forms agree, the results
are genuine sums of two products, and the laws apply. -/
example :
    let a := Expr.axis "a" 2; let b := Expr.axis "b" 2; let c := Expr.axis "c" 2; let d := Expr.axis "d" 1
    let ins := [Expr.list [a, .br b], Expr.list [.br b, c, d]]
    let eo := Expr.list [c, a, d]; let eo' := Expr.list [d, c, a]
    Expr.concatFreeL ins = true ∧ eo.concatFree = true ∧ eo'.concatFree = true ∧
    isPermOf [2, 0, 1] (rootDims eo).length = true ∧
    (permuteL [2, 0, 1] (rootDims eo)).map viewShape = some (viewShape (rootDims eo')) ∧
    consistentB (Dim.leavesL (rootDims eo)) = true ∧
    (match okOpt (denoteDot ins eo), okOpt (denoteDotFun ins eo), okOpt (denoteDot ins eo'),
        okOpt (denoteDot ins (grouped [] [c, a] [d])), okOpt (denoteDot ins (ungrouped [] [c, a] [d])) with
      | some t, some u, some t', some g, some ug =>
        Tensor.beq t u && t.shape == [2, 2, 1] && t'.shape == [1, 2, 2] && g.shape == [4, 1] && Cell.beqL g.data ug.data &&
          Cell.beqL (t.data.take 2)
            [.app "red:sum" [.app "multiply" [.src 0 0, .src 1 0], .app "multiply" [.src 0 1, .src 1 2]],
             .app "red:sum" [.app "multiply" [.src 0 2, .src 1 0], .app "multiply" [.src 0 3, .src 1 2]]]
      | _, _, _, _, _ => false) = true := by
  decide +kernel

example :
    let a := Expr.axis "a" 2; let b := Expr.axis "b" 2; let c := Expr.axis "c" 2; let d := Expr.axis "d" 1
    let ins := [Expr.list [a, .br b], Expr.list [.br b, c, d]]
    let eo := Expr.list [c, a, d]; let eo' := Expr.list [d, c, a]
    ∀ T, okOpt (denoteDot ins eo) = some T →
      ∃ T', okOpt (denoteDot ins eo') = some T' ∧
        ∃ plan, planInstr [shapeOf eo] (.transpose 0 [2, 0, 1]) = .ok plan ∧ runPlan symAlg [T] plan = T' :=
  fun T h => denote_dot_permute_output _ _ _ [2, 0, 1] T (by decide +kernel) (by decide +kernel) (by decide +kernel)
    (by decide +kernel) rfl (by decide +kernel) h

/-! ### (d) Elementwise operations: permuting the output expression -/

theorem okOpt_denoteElementwise (f : String) (exprsIn : List Expr) (eo : Expr) (hin : Expr.concatFreeL exprsIn = true)
    (heo : eo.concatFree = true) :
    okOpt (denoteElementwise f exprsIn eo)
      = (ewCells f (exprsIn.map (fun e => (rootDims e, shapeOf e))) (rootDims eo) (shapeOf eo)).map
          (fun cs => (⟨shapeOf eo, cs⟩ : Tensor Cell)) := by
  rw [denoteElementwise_fun_agree f exprsIn eo hin heo]
  unfold denoteElementwiseFun
  simp only [hin, heo, Bool.and_self, Bool.not_true, Bool.false_eq_true, if_false]
  cases ewCells f (exprsIn.map (fun e => (rootDims e, shapeOf e))) (rootDims eo) (shapeOf eo) <;> rfl

/-- **Reordering the axes of the output expression of an elementwise operation permutes the result's dimensions
accordingly**, including definedness (any number of inputs, executable loop form `Denote.denoteElementwise`). -/
theorem denote_elementwise_permute_output (f : String) (exprsIn : List Expr) (eo eo' : Expr) (perm : List Nat)
    (T : Tensor Cell)
    (hin : Expr.concatFreeL exprsIn = true) (heo : eo.concatFree = true) (heo' : eo'.concatFree = true)
    (hperm : isPermOf perm (rootDims eo).length = true) (hp : permuteL perm (rootDims eo) = some (rootDims eo'))
    (hcons : consistentB (Dim.leavesL (rootDims eo)) = true)
    (h : okOpt (denoteElementwise f exprsIn eo) = some T) :
    ∃ T', okOpt (denoteElementwise f exprsIn eo') = some T' ∧
      ∃ plan, planInstr [shapeOf eo] (.transpose 0 perm) = .ok plan ∧ runPlan symAlg [T] plan = T' := by
  rw [okOpt_denoteElementwise f exprsIn eo hin heo, ewCells_eq_genCells] at h
  rw [okOpt_denoteElementwise f exprsIn eo' hin heo', ewCells_eq_genCells]
  cases hcs : genCells (ewX f (exprsIn.map (fun e => (rootDims e, shapeOf e)))) (rootDims eo) (shapeOf eo) with
  | none => simp [hcs] at h
  | some cs =>
    simp only [hcs, Option.map_some, Option.some.injEq] at h
    subst h
    obtain ⟨cs', h', plan, hplan, hrun⟩ := genCells_permute_output_full (ewX_getInvariant f _)
      hperm hp (rootDims_concatFree heo) (consistentB_spec hcons) hcs
    have h'' : genCells (ewX f (exprsIn.map (fun e => (rootDims e, shapeOf e)))) (rootDims eo') (shapeOf eo') = some cs' := h'
    exact ⟨⟨shapeOf eo', cs'⟩, by rw [h'']; rfl, plan, hplan, hrun⟩

/-- Non-vacuity: `add: a (b c), c a -> c a b` (a = b = 2, c = 1) towards the permuted output `b c a`. -/
example :
    let a := Expr.axis "a" 2; let b := Expr.axis "b" 2; let c := Expr.axis "c" 1
    let ins := [Expr.list [a, .flat (.list [b, c])], Expr.list [c, a]]
    let eo := Expr.list [c, a, b]; let eo' := Expr.list [b, c, a]
    (match okOpt (denoteElementwise "add" ins eo), okOpt (denoteElementwise "add" ins eo') with
      | some t, some t' => t.shape == [1, 2, 2] && t'.shape == [2, 1, 2] && !Cell.beqL t.data t'.data
      | _, _ => false) = true ∧
    ∀ T, okOpt (denoteElementwise "add" ins eo) = some T →
      ∃ T', okOpt (denoteElementwise "add" ins eo') = some T' ∧
        ∃ plan, planInstr [shapeOf eo] (.transpose 0 [2, 0, 1]) = .ok plan ∧ runPlan symAlg [T] plan = T' :=
  ⟨by decide +kernel, fun T h => denote_elementwise_permute_output "add" _ _ _ [2, 0, 1] T (by decide +kernel)
    (by decide +kernel) (by decide +kernel) (by decide +kernel) rfl (by decide +kernel) h⟩

/-! ### (c) Concatenations: the tie, and consistent renaming -/

/-- **Tie to `Denote/Expr.lean` for arbitrary solved expressions, concatenations included.**  The executable loop
form `Denote.denoteId` (the one the driver runs and C01's validator compares with) equals the loop-free functional form
`Denote.denoteIdFunG` (`Denote/Fun2.lean`): enumerate the concatenation-free views of inputs and outputs in einx's
order, pair them, collect the entries of every pair and gather them per real output tensor.  No hypothesis. -/
theorem denoteId_fun_agree_general (exprsIn exprsOut : List Expr) :
    okOpt (denoteId exprsIn exprsOut) = denoteIdFunG exprsIn exprsOut :=
  denoteId_eq_denoteIdFunG exprsIn exprsOut

/-- **Consistent renaming leaves `id` unchanged, concatenations included** (executable loop form): it suffices that
`ρ` is injective on the axis names in use.  (`C08.denoteId_rename` without its concatenation-free hypotheses.) -/
theorem denoteId_rename_general {ρ : String → String} (exprsIn exprsOut : List Expr)
    (hρ : InjOn ρ (Expr.namesL exprsIn ++ Expr.namesL exprsOut)) :
    okOpt (denoteId (Expr.renameL ρ exprsIn) (Expr.renameL ρ exprsOut)) = okOpt (denoteId exprsIn exprsOut) := by
  rw [denoteId_fun_agree_general, denoteId_fun_agree_general,
    Expr.renameL_congr (ρ := ρ) (ρ' := extInj ρ (Expr.namesL exprsIn ++ Expr.namesL exprsOut)) exprsIn
      (fun n hn => (extInj_agree ρ _ (List.mem_append_left _ hn)).symm),
    Expr.renameL_congr (ρ := ρ) (ρ' := extInj ρ (Expr.namesL exprsIn ++ Expr.namesL exprsOut)) exprsOut
      (fun n hn => (extInj_agree ρ _ (List.mem_append_right _ hn)).symm)]
  exact denoteIdFunG_rename (extInj_injective hρ) exprsIn exprsOut

/-- Non-vacuity: `a (b + c) -> (b + c) a` with a = 2, b = 1, c = 2 (a concatenation on both sides, equal lengths, a
length-1 block): not concatenation-free, both forms are defined and equal, the result is a
genuine rearrangement of the 6 elements, and the renaming law applies with the non-injective `collapseNames`. -/
example :
    let a := Expr.axis "a" 2; let b := Expr.axis "b" 1; let c := Expr.axis "c" 2
    let ein := Expr.list [a, .concat [b, c]]; let eout := Expr.list [.concat [b, c], a]
    Expr.concatFreeL [ein] = false ∧
    (match okOpt (denoteId [ein] [eout]), denoteIdFunG [ein] [eout] with
      | some [t], some [u] => Tensor.beq t u && t.shape == [3, 2] &&
          Cell.beqL t.data [.src 0 0, .src 0 3, .src 0 1, .src 0 4, .src 0 2, .src 0 5]
      | _, _ => false) = true := by
  decide +kernel

example :
    let a := Expr.axis "a" 2; let b := Expr.axis "b" 1; let c := Expr.axis "c" 2
    let ein := Expr.list [a, .concat [b, c]]; let eout := Expr.list [.concat [b, c], a]
    okOpt (denoteId (Expr.renameL collapseNames [ein]) (Expr.renameL collapseNames [eout])) = okOpt (denoteId [ein] [eout]) :=
  denoteId_rename_general _ _ (by unfold InjOn; decide +kernel)

end Einx.C08b
