import EinxModel.Proofs.XlateStb
import EinxModel.Proofs.XlateDiag
import EinxModel.Extracted.Stb
/-!
C17 / C01 (tie model ↔ source by regeneration) — the hand-written model of `_squeeze_transpose_broadcast`
and of the numpy wrappers (`Generic/Stb.lean`, about which `stb_size_generic` (C17), `lower_id_correct`
(C01Lower) are proved and which the driver runs for the `stb_model` tie) **equals** the Lean definitions that
`tools/extract/stb.py` translates from the Python source of /repo on every run (`Extracted/Stb.lean`).

An edit of `einx/_src/adapter/_util.py:_squeeze_transpose_broadcast` / `_to_axis_ids` or of
`einx/_src/adapter/numpy/classical_from_numpy.py:reshape / transpose / broadcast_to` changes the regenerated
definitions and breaks the theorem below that mentions it (or, if the edit leaves the translated subset, the
extractor emits a definition under which the theorem is false and reports a lost anchor).

Reading of Python: `Basic/PyPrelude.lean`.  Model types: a flat stage-3 expression is the list of its axes
(`List Ax`), a traced tensor is the tracing state `St`; the three numpy primitives are `St.npReshape`,
`St.npTranspose`, `St.npBroadcastTo` (`Generic/StbPrims.lean`).
-/
namespace Einx.Generic
open Einx.Extracted Einx.Py

/-- `classical_from_numpy.reshape` (inner function), translated from source, is the model's `reshapeW`:
return the operand unchanged iff `tuple(x.shape) == shape`, else one traced `np.reshape`. -/
theorem extracted_reshapeW_eq (s : St) (target : List Nat) : reshapeW s target = Stb.reshape s target := rfl

/-- `classical_from_numpy.transpose` (inner function), translated from source, is the model's `transposeW`:
return the operand unchanged iff `perm == tuple(range(len(perm)))`, else one traced `np.transpose`. -/
theorem extracted_transposeW_eq (s : St) (perm : List Nat) : transposeW s perm = Stb.transpose s perm := rfl

/-- `classical_from_numpy.broadcast_to` (inner function), translated from source, is the model's `broadcastW`. -/
theorem extracted_broadcastW_eq (s : St) (target : List Nat) : broadcastW s target = Stb.broadcastTo s target := rfl

/-- The numpy adapter registers exactly these wrappers around `np.reshape`, `np.transpose`, `np.broadcast_to`
with a `to_tensor` that forwards arrays unchanged (read from `ops.__init__`). -/
theorem extracted_numpy_registration : Stb.numpyRegistration = true := by decide

/-- `_to_axis_ids` (the loop over `expr.nodes()` with the dict `counts`), translated from source, is the
model's `idsOf`: every axis name paired with the number of earlier occurrences of that name. -/
theorem extracted_idsOf_eq (e : List Ax) : idsOf (names e) = Stb.toAxisIds e := by
  have h := idsStep_fold e [] [] [] (by intro n; simp [dictGetD_nil])
  unfold Stb.toAxisIds idsOf
  simp only [List.nil_append] at h
  rw [← h]
  simp only [if_true]
  rfl

/-- **`_squeeze_transpose_broadcast`, translated from source, is the model's `stb`** (for
`broadcast_to_unitary=False`, the default and the only value `Decomposer.__call__` and `argfind` use): for every
tracing state and all flat input and output expressions the translation returns `(expr_out, tensor)` with the
state the model computes, and raises (`ValueError`) exactly when the model fails.  Covers `squeezeStep` (Python
sets vs list filters), `transposeStep` (set comparison, `list.index` never raising on the intersection),
`broadcastStep`, and through the three theorems above the no-op tests of the numpy wrappers. -/
theorem extracted_stb_eq (s : St) (ein eout : List Ax) :
    Stb.squeezeTransposeBroadcast ein s eout false
      = ((stb s ein eout).mapError (fun _ => "ValueError")).map (fun s' => (eout, s')) := by
  have hsq := squeeze_eq s ein eout
  simp only at hsq
  unfold Stb.squeezeTransposeBroadcast stb
  simp only [← extracted_reshapeW_eq, ← extracted_transposeW_eq, ← extracted_broadcastW_eq, ← extracted_idsOf_eq,
    Bool.true_and, filter_const_true, Bool.not_false, if_true, Bool.false_eq_true, if_false, hsq]
  generalize squeezeStep s ein eout = p
  obtain ⟨ein1, s1⟩ := p
  simp only [transposeStep_eq]
  split
  · rename_i h
    rw [Bool.not_eq_true'] at h
    simp only [h, Bool.false_eq_true, if_false]
    rfl
  · rename_i h
    rw [Bool.not_eq_true', Bool.not_eq_false] at h
    simp only [h, if_true, perm_eq]
    unfold broadcastStep
    simp only [names, decide_eq_true_eq]
    rfl

/-- The same statement read from the model's side: the model's result is the translation's, with the error
message forgotten. -/
theorem extracted_stb_toOption (s : St) (ein eout : List Ax) :
    (stb s ein eout).toOption = (Stb.squeezeTransposeBroadcast ein s eout false).toOption.map (·.2) := by
  rw [extracted_stb_eq]
  cases stb s ein eout <;> rfl

/-- Observable part of a result of the translation: output axis names, result register, traced shape, number
of emitted instructions. -/
def obsStb (r : Except String (List Ax × St)) : String ⊕ (List String × Nat × List Nat × Nat) :=
  match r with
  | .ok p => .inr (names p.1, p.2.reg, p.2.shape, p.2.prog.length)
  | .error e => .inl e

/-- Non-vacuity (the translation computes, it is not the conservative stand-in): `b c a -> a b d` with
lengths (3, 1, 2 | d = 4) squeezes `c`, transposes, reshapes and broadcasts (4 instructions); an input axis
of length 2 that the output does not name raises `ValueError`; and with `broadcast_to_unitary=True` (a path
the hand model does not have) the new axis stays at length 1 and is renamed. -/
example :
    obsStb (Stb.squeezeTransposeBroadcast [⟨"b", 3⟩, ⟨"c", 1⟩, ⟨"a", 2⟩] ⟨0, [3, 1, 2], [], 1⟩ [⟨"a", 2⟩, ⟨"b", 3⟩, ⟨"d", 4⟩] false)
        = .inr (["a", "b", "d"], 4, [2, 3, 4], 4)
      ∧ obsStb (Stb.squeezeTransposeBroadcast [⟨"b", 3⟩, ⟨"c", 2⟩] ⟨0, [3, 2], [], 1⟩ [⟨"b", 3⟩] false) = .inl "ValueError"
      ∧ obsStb (Stb.squeezeTransposeBroadcast [⟨"b", 3⟩] ⟨0, [3], [], 1⟩ [⟨"b", 3⟩, ⟨"d", 4⟩] true)
        = .inr (["b", "unnamed."], 1, [3, 1], 1) := by decide

/-- Non-vacuity of `extracted_idsOf_eq`: repeated names are numbered. -/
example : Stb.toAxisIds [⟨"a", 2⟩, ⟨"b", 3⟩, ⟨"a", 2⟩, ⟨"a", 5⟩] = [("a", 0), ("b", 0), ("a", 1), ("a", 2)] := by decide

/-! ### `classical_from_numpy.diagonal` (the wrapper around `np.diagonal`; area of the defect D1) -/

/-- The numpy adapter registers `diagonal` as `classical_from_numpy.diagonal(np.diagonal, self.transpose, ...)`:
keyword names `axis1`/`axis2`, `axis_always_last=False` (read from `ops.__init__`). -/
theorem extracted_numpy_diagonal_registration : Stb.numpyDiagonalRegistration = true := by decide

/-- `canon_axis` (translated from source) on a non-negative axis: the axis itself if it is below the rank,
`ValueError` otherwise (the `axis < 0` branch is not taken). -/
theorem extracted_canonAxis_nonneg (a : Nat) (x : St) :
    Stb.canonAxis (Int.ofNat a) x = if a < x.shape.length then .ok (Int.ofNat a) else .error "ValueError" := by
  unfold Stb.canonAxis
  have h0 : ¬ (Int.ofNat a < Int.ofNat 0) := by simp
  simp only [h0, decide_false, Bool.false_eq_true, if_false, Bool.false_or]
  by_cases h : a < x.shape.length
  · have : ¬ (Int.ofNat a ≥ Int.ofNat x.shape.length) := by
      intro h2; have := Int.ofNat_le.mp h2; omega
    simp only [this, decide_false, Bool.false_eq_true, if_false, h, if_true]
    rfl
  · have : (Int.ofNat a ≥ Int.ofNat x.shape.length) := Int.ofNat_le.mpr (by omega)
    simp only [this, decide_true, if_true, h, if_false]
    rfl

/-- `[canon_axis(a) for a in axes_in]` on non-negative axes. -/
theorem extracted_canonAxis_mapM (x : St) : ∀ l : List Nat,
    (l.map Int.ofNat).mapM (fun a => Stb.canonAxis a x)
      = if l.all (fun a => a < x.shape.length) then .ok (l.map Int.ofNat) else .error "ValueError"
  | [] => rfl
  | a :: l => by
    rw [List.map_cons, List.mapM_cons, extracted_canonAxis_nonneg, extracted_canonAxis_mapM x l]
    by_cases h : a < x.shape.length <;> by_cases h2 : l.all (fun a => a < x.shape.length) = true <;>
      simp [h, h2] <;> rfl

/-- The body of the translated `while len(axes_in) > 1` loop, on a list of non-negative axes with more than one
element, is one iteration of the model (`diagIter`): the two highest axes, the keyword dict, `np.diagonal`, the
new last axis. -/
theorem extracted_diag_body (s : St) (l : List Nat) (h : l.length > 1) :
    (do
      let t_2 ← getNat (slice (l.map Int.ofNat) (some (-2 : Int)) none) 0
      let t_3 ← getNat (slice (l.map Int.ofNat) (some (-2 : Int)) none) 1
      let x ← St.npDiagonalKw s (dictSet (dictSet [] "axis1" t_2) "axis2" t_3)
      (pure (x, slice (l.map Int.ofNat) none (some (-2 : Int)) ++ [Int.ofNat x.shape.length - Int.ofNat 1]) : Except String (St × List Int)))
      = (diagIter s l).map (fun p => (p.1, p.2.map Int.ofNat)) := by
  obtain ⟨a, b, hab⟩ := drop_last_two l h
  unfold diagIter
  rw [slice_suffix2, slice_prefix2, List.length_map, ← List.map_drop, ← List.map_take, hab]
  simp only [List.map_cons, List.map_nil, getNat, List.getElem?_cons_zero, List.getElem?_cons_succ, bind, Except.bind, npDiagonalKw_two]
  cases hd : s.npDiagonal a b with
  | error e => rfl
  | ok s' =>
    have := npDiagonal_rank_pos hd
    simp only [Except.map, pure, Except.pure, ofNat_sub_one _ this, List.map_append, List.map_cons, List.map_nil]

/-- **The inner function of `classical_from_numpy.diagonal`, translated from source, is the model `diagW`**
for all tracing states and all non-negative `axes_in`, `axis_out` (what `Decomposer.__call__` passes), with
identical errors: `ValueError` for an out-of-range axis or a rejected `np.diagonal`, `IndexError` for an empty
`axes_in`.  The bounded `while` never runs out of its fuel `len(axes_in)` on the model's side either
(`diagLoop` is called with the same fuel).  Together with `diag_perm_moves` this pins the D1 fix: the final
permutation is the one that moves the diagonal axis. -/
theorem extracted_diag_eq (s : St) (axesIn : List Nat) (axisOut : Nat) :
    Stb.diagonalInner s (axesIn.map Int.ofNat) (Int.ofNat axisOut) = diagW s axesIn axisOut := by
  unfold Stb.diagonalInner diagW
  simp only [extracted_canonAxis_mapM, extracted_canonAxis_nonneg]
  by_cases h1 : axesIn.all (fun a => a < s.shape.length) = true
  · by_cases h2 : axisOut < s.shape.length
    · simp only [h1, h2, if_true, Bool.not_true, Bool.false_or, decide_true, Bool.false_eq_true, if_false, ok_bind,
        sortedInt_map_ofNat, List.length_map]
      rw [whileFuel_diag _ _ (fun _ _ => rfl) (fun s l h => by dsimp only; exact extracted_diag_body s l h)]
      cases hl : diagLoop (sortedNat axesIn).length s (sortedNat axesIn) with
      | error e => rfl
      | ok p =>
        obtain ⟨s', axes⟩ := p
        cases axes with
        | nil => rfl
        | cons a rest =>
          simp only [Except.map, List.map_cons, getNat, List.getElem?_cons_zero, filter_ne_ofNat, listInsert_ofNat,
            mapM_natOfInt_ofNat, movePerm, bind, Except.bind]
          rfl
    · simp [h1, h2, bind, Except.bind]
  · simp [h1, bind, Except.bind]

/-- **The bounded reading of the `while` loop loses nothing**: with the fuel `len(axes_in)` that the translation (and the
model) uses, the loop never ends with "FuelExhausted" — every iteration shortens `axes_in` by one — so by
`extracted_diag_eq` the translated `diagonalInner` never reports exhausted fuel on non-negative axes either. -/
theorem diag_fuel_sufficient (s : St) (axesIn : List Nat) :
    diagLoop (sortedNat axesIn).length s (sortedNat axesIn) ≠ .error "FuelExhausted" :=
  diagLoop_fuel_sufficient _ _ _ (by omega)

/-- **The diagonal axis is moved, not swapped** (the defect D1 was a swap): the final permutation of the model
(equal to the translation's by `extracted_diag_eq`) has `axisIn` at position `axisOut`, and all other axes keep
their order. -/
theorem diag_perm_moves (n axisIn axisOut : Nat) (hout : axisOut ≤ ((List.range n).filter (fun i => i != axisIn)).length) :
    (movePerm n axisIn axisOut)[axisOut]? = some axisIn
      ∧ (movePerm n axisIn axisOut).eraseIdx axisOut = (List.range n).filter (fun i => i != axisIn) :=
  movePerm_spec n axisIn axisOut hout

/-- Observable part of a traced result: shape and the emitted instructions as number lists
(`1 :: x :: perm` = transpose, `3 :: x :: [a1, a2]` = diagonal). -/
def obsDiag (r : Except String St) : String ⊕ (List Nat × List (List Nat)) :=
  match r with
  | .ok s => .inr (s.shape, s.prog.map (fun i => match i with
      | .transpose x p => 1 :: x :: p
      | .diagonal x a b => [3, x, a, b]
      | _ => [9]))
  | .error e => .inl e

/-- Non-vacuity: the call of D1, `a e a d -> a d e` on shape (2, 3, 2, 4) (in-axes 0 and 2, out-axis 0): one
`np.diagonal(axis1=0, axis2=2)` to shape (3, 4, 2), then the permutation `[2, 0, 1]` that *moves* the diagonal
axis to the front (the swap of D1 would be `[2, 1, 0]`); three in-axes take two diagonals; a negative axis is
canonicalised; an out-of-range axis raises `ValueError`. -/
example :
    obsDiag (Stb.diagonalInner ⟨0, [2, 3, 2, 4], [], 1⟩ [0, 2] 0) = .inr ([2, 3, 4], [[3, 0, 0, 2], [1, 1, 2, 0, 1]])
      ∧ obsDiag (Stb.diagonalInner ⟨0, [2, 2, 5, 2], [], 1⟩ [3, 0, 1] 1) = .inr ([5, 2], [[3, 0, 1, 3], [3, 1, 0, 2]])
      ∧ obsDiag (Stb.diagonalInner ⟨0, [2, 3, 2, 4], [], 1⟩ [0, -2] 0) = .inr ([2, 3, 4], [[3, 0, 0, 2], [1, 1, 2, 0, 1]])
      ∧ obsDiag (Stb.diagonalInner ⟨0, [2, 3, 2, 4], [], 1⟩ [0, 4] 0) = .inl "ValueError" := by decide

end Einx.Generic
