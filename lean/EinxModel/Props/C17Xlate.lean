import EinxModel.Proofs.XlateStb
import EinxModel.Extracted.Stb
/-!
C17 / C01 (tie model ↔ source by regeneration) — the hand-written model of `_squeeze_transpose_broadcast`
and of the numpy wrappers (`Generic/Stb.lean`, about which `stb_size_generic` (C17), `lower_id_correct`
(C01Lower) are proved and which the driver runs for the `stb_model` tie) **equals** the Lean definitions that
`tools/extract/stb.py` translates from the Python source of /repo on every run (`Extracted/Stb.lean`).

An edit of `einx/_src/adapter/_util.py:_squeeze_transpose_broadcast` / `_to_axis_ids` or of
`einx/_src/adapter/numpy/classical_from_numpy.py:reshape / transpose / broadcast_to` changes the regenerated
definitions and breaks the theorem below that mentions it (or, if the edit leaves the translated subset, the
extractor emits a definition under which the theorem is false and reports a lost anchor).

Reading of Python: `Basic/PyPrelude.lean`.  Model types: a flat stage-3 expression is the list of its axes
(`List Ax`), a traced tensor is the tracing state `St`; the three numpy primitives are `St.npReshape`,
`St.npTranspose`, `St.npBroadcastTo` (`Generic/StbPrims.lean`).
-/
namespace Einx.Generic
open Einx.Extracted Einx.Py

/-- `classical_from_numpy.reshape` (inner function), translated from source, is the model's `reshapeW`:
return the operand unchanged iff `tuple(x.shape) == shape`, else one traced `np.reshape`. -/
theorem extracted_reshapeW_eq (s : St) (target : List Nat) : reshapeW s target = Stb.reshape s target := rfl

/-- `classical_from_numpy.transpose` (inner function), translated from source, is the model's `transposeW`:
return the operand unchanged iff `perm == tuple(range(len(perm)))`, else one traced `np.transpose`. -/
theorem extracted_transposeW_eq (s : St) (perm : List Nat) : transposeW s perm = Stb.transpose s perm := rfl

/-- `classical_from_numpy.broadcast_to` (inner function), translated from source, is the model's `broadcastW`. -/
theorem extracted_broadcastW_eq (s : St) (target : List Nat) : broadcastW s target = Stb.broadcastTo s target := rfl

/-- The numpy adapter registers exactly these wrappers around `np.reshape`, `np.transpose`, `np.broadcast_to`
with a `to_tensor` that forwards arrays unchanged (read from `ops.__init__`). -/
theorem extracted_numpy_registration : Stb.numpyRegistration = true := by decide

/-- `_to_axis_ids` (the loop over `expr.nodes()` with the dict `counts`), translated from source, is the
model's `idsOf`: every axis name paired with the number of earlier occurrences of that name. -/
theorem extracted_idsOf_eq (e : List Ax) : idsOf (names e) = Stb.toAxisIds e := by
  have h := idsStep_fold e [] [] [] (by intro n; simp [dictGetD_nil])
  unfold Stb.toAxisIds idsOf
  simp only [List.nil_append] at h
  rw [← h]
  simp only [if_true]
  rfl

/-- **`_squeeze_transpose_broadcast`, translated from source, is the model's `stb`** (for
`broadcast_to_unitary=False`, the default and the only value `Decomposer.__call__` and `argfind` use): for every
tracing state and all flat input and output expressions the translation returns `(expr_out, tensor)` with the
state the model computes, and raises (`ValueError`) exactly when the model fails.  Covers `squeezeStep` (Python
sets vs list filters), `transposeStep` (set comparison, `list.index` never raising on the intersection),
`broadcastStep`, and through the three theorems above the no-op tests of the numpy wrappers. -/
theorem extracted_stb_eq (s : St) (ein eout : List Ax) :
    Stb.squeezeTransposeBroadcast ein s eout false
      = ((stb s ein eout).mapError (fun _ => "ValueError")).map (fun s' => (eout, s')) := by
  have hsq := squeeze_eq s ein eout
  simp only at hsq
  unfold Stb.squeezeTransposeBroadcast stb
  simp only [← extracted_reshapeW_eq, ← extracted_transposeW_eq, ← extracted_broadcastW_eq, ← extracted_idsOf_eq,
    Bool.true_and, filter_const_true, Bool.not_false, if_true, Bool.false_eq_true, if_false, hsq]
  generalize squeezeStep s ein eout = p
  obtain ⟨ein1, s1⟩ := p
  simp only [transposeStep_eq]
  split
  · rename_i h
    rw [Bool.not_eq_true'] at h
    simp only [h, Bool.false_eq_true, if_false]
    rfl
  · rename_i h
    rw [Bool.not_eq_true', Bool.not_eq_false] at h
    simp only [h, if_true, perm_eq]
    unfold broadcastStep
    simp only [names, decide_eq_true_eq]
    rfl

/-- The same statement read from the model's side: the model's result is the translation's, with the error
message forgotten. -/
theorem extracted_stb_toOption (s : St) (ein eout : List Ax) :
    (stb s ein eout).toOption = (Stb.squeezeTransposeBroadcast ein s eout false).toOption.map (·.2) := by
  rw [extracted_stb_eq]
  cases stb s ein eout <;> rfl

/-- Observable part of a result of the translation: output axis names, result register, traced shape, number
of emitted instructions. -/
def obsStb (r : Except String (List Ax × St)) : String ⊕ (List String × Nat × List Nat × Nat) :=
  match r with
  | .ok p => .inr (names p.1, p.2.reg, p.2.shape, p.2.prog.length)
  | .error e => .inl e

/-- Non-vacuity (the translation computes, it is not the conservative stand-in): `b c a -> a b d` with
lengths (3, 1, 2 | d = 4) squeezes `c`, transposes, reshapes and broadcasts (4 instructions); an input axis
of length 2 that the output does not name raises `ValueError`; and with `broadcast_to_unitary=True` (a path
the hand model does not have) the new axis stays at length 1 and is renamed. -/
example :
    obsStb (Stb.squeezeTransposeBroadcast [⟨"b", 3⟩, ⟨"c", 1⟩, ⟨"a", 2⟩] ⟨0, [3, 1, 2], [], 1⟩ [⟨"a", 2⟩, ⟨"b", 3⟩, ⟨"d", 4⟩] false)
        = .inr (["a", "b", "d"], 4, [2, 3, 4], 4)
      ∧ obsStb (Stb.squeezeTransposeBroadcast [⟨"b", 3⟩, ⟨"c", 2⟩] ⟨0, [3, 2], [], 1⟩ [⟨"b", 3⟩] false) = .inl "ValueError"
      ∧ obsStb (Stb.squeezeTransposeBroadcast [⟨"b", 3⟩] ⟨0, [3], [], 1⟩ [⟨"b", 3⟩, ⟨"d", 4⟩] true)
        = .inr (["b", "unnamed."], 1, [3, 1], 1) := by decide

/-- Non-vacuity of `extracted_idsOf_eq`: repeated names are numbered. -/
example : Stb.toAxisIds [⟨"a", 2⟩, ⟨"b", 3⟩, ⟨"a", 2⟩, ⟨"a", 5⟩] = [("a", 0), ("b", 0), ("a", 1), ("a", 2)] := by decide

end Einx.Generic
