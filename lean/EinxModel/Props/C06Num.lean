import EinxModel.Proofs.CacheNumHash
/-!
C06, third property file — CPython's numeric hash.  `Cache/Hash.lean:numHash` (used by `pyHash`, hence by `pyEq_hash`,
`key_hit_iff_eq`, …) is the specification "sign · (|value| mod 2^61-1), -1 ↦ -2".  Here the algorithms CPython runs
(`Cache/NumHash.lean`: `long_hash` on 30-bit digits, `_Py_HashDouble` on the `frexp` mantissa in chunks of 28 bits, both
with the 61-bit rotation written with the C bit operations) are proved equal to it, for **all** integers and **all**
dyadic rationals of the value universe.  Tie: the driver request `numhash` evaluates `hashInt` / `hashDouble` / `numHash`
and the harness compares each with CPython's `hash` on every generated number (`tools/props/c06.py`).
-/
namespace Einx.Cache.NumHash
open Einx.Cache

/-- **`long_hash` is the specification**: for every integer `n` (any number of 30-bit digits), the digit loop with the
C rotation, the conditional subtraction, the sign and the `-1 ↦ -2` rule gives `numHash` of the value `n`. -/
theorem hashInt_eq_numHash (n : Int) : hashInt n = numHash ⟨n, 0⟩ := by
  obtain ⟨_, h⟩ := longLoop_digits n.natAbs
  have hP : hashModulus = P := rfl
  simp only [hashInt, numHash, h, hP, Nat.zero_mod, Nat.sub_zero, Nat.mod_self, Nat.pow_zero, Nat.mul_one, Nat.mod_mod]

/-- Non-vacuity / test on instances (evaluation): one, two and three digits, both signs, the `-1 ↦ -2` rule, the modulus. -/
example : hashInt 5 = 5 ∧ hashInt (-1) = -2 ∧ hashInt (2 ^ 61 - 1) = 0 ∧ hashInt (2 ^ 61) = 1 ∧ hashInt (-(2 ^ 61)) = -2 ∧
    hashInt (2 ^ 64 + 3) = 11 ∧ digits30 (2 ^ 64 + 3) = [3, 0, 16] := by
  refine ⟨?_, ?_, ?_, ?_, ?_, ?_, ?_⟩ <;> decide +kernel

/-- **`_Py_HashDouble` is the specification**: for every dyadic rational `d.num / 2^d.exp` of the value universe (every
finite double is one), `frexp`, the 28-bit mantissa loop, the final rotation by `e mod 61` (with CPython's case split for
negative `e`), the sign and the `-1 ↦ -2` rule give `numHash d`.  No hypothesis: also values whose numerator has more than
53 bits (not doubles) satisfy the equation. -/
theorem hashDouble_eq_numHash (d : Dy) : hashDouble d = numHash d := by
  have ha := lt_two_pow_bitLen d.num.natAbs
  obtain ⟨h1, h2⟩ := dblLoop_spec (bitLen d.num.natAbs) d.num.natAbs 0 ((bitLen d.num.natAbs : Int) - (d.exp : Int)) ha P_pos
  have hk : finalShift (dblLoop d.num.natAbs (bitLen d.num.natAbs) 0 ((bitLen d.num.natAbs : Int) - (d.exp : Int))).2 ≤ 61 := by
    rw [finalShift_eq]; omega
  obtain ⟨_, r2⟩ := rotl_spec _ _ h1 hk
  have hx : rotl (dblLoop d.num.natAbs (bitLen d.num.natAbs) 0 ((bitLen d.num.natAbs : Int) - (d.exp : Int))).1
      (finalShift (dblLoop d.num.natAbs (bitLen d.num.natAbs) 0 ((bitLen d.num.natAbs : Int) - (d.exp : Int))).2)
      = (d.num.natAbs % hashModulus * 2 ^ ((61 - d.exp % 61) % 61)) % hashModulus := by
    rw [r2, finalShift_eq]
    have e1 : (bitLen d.num.natAbs : Int) - (d.exp : Int) - (bitLen d.num.natAbs : Int) = -(d.exp : Int) := by omega
    have e2 : ((-(d.exp : Int)) % 61).toNat = (61 - d.exp % 61) % 61 := by omega
    rw [e1, Nat.zero_mul, Nat.zero_add] at h2
    have h3 : (dblLoop d.num.natAbs (bitLen d.num.natAbs) 0 ((bitLen d.num.natAbs : Int) - (d.exp : Int))).1 *
        2 ^ ((dblLoop d.num.natAbs (bitLen d.num.natAbs) 0 ((bitLen d.num.natAbs : Int) - (d.exp : Int))).2 % 61).toNat
        ≡ d.num.natAbs * 2 ^ ((61 - d.exp % 61) % 61) [MOD P] := by
      have := h2
      unfold pw at this
      rw [e2] at this
      exact this
    have hP : hashModulus = P := rfl
    rw [hP, Nat.mod_mul_mod]
    exact h3
  simp only [hashDouble, numHash, hx]

/-- **`hash(n) == hash(float(n))`** for every integer `n` – in particular for `|n| < 2^53`, where `float(n)` is exact in
IEEE double precision: the two different algorithms CPython runs for `int` and `float` agree on integral values. -/
theorem int_float_hash_agree (n : Int) : hashInt n = hashDouble (ofInt n) := by
  rw [hashInt_eq_numHash, hashDouble_eq_numHash]; rfl

theorem fix_ne (s : Int) : (if (s == -1) = true then (-2 : Int) else s) ≠ -1 := by
  split
  · decide
  · rename_i h; intro h2; rw [h2] at h; exact h (by decide)

/-- `-1` is reserved for errors: no number hashes to it, and `hash(-1) == hash(-1.0) == -2`. -/
theorem hash_never_minus_one (n : Int) (d : Dy) : hashInt n ≠ -1 ∧ hashDouble d ≠ -1 ∧ hashInt (-1) = -2 ∧ hashDouble (ofInt (-1)) = -2 := by
  refine ⟨?_, ?_, by decide +kernel, by rw [← int_float_hash_agree]; decide +kernel⟩
  · unfold hashInt; exact fix_ne _
  · unfold hashDouble; exact fix_ne _

/-- **The hash CPython computes for a number of any kind is `numHash`** (what `pyHash`, and with it `pyEq_hash`, use):
`int` / `bool` / numpy integer kinds through `long_hash`, floating kinds through `_Py_HashDouble`. -/
theorem hashNum_eq_numHash (k : NumKind) (d : Dy) : hashNum k d = numHash d := by
  unfold hashNum
  split
  · exact hashDouble_eq_numHash d
  · split
    · rename_i h
      obtain ⟨n, e⟩ := d
      simp only at h
      subst h
      exact hashInt_eq_numHash n
    · exact hashDouble_eq_numHash d

/-- Non-vacuity / test on instances (evaluation): `0.5`, `-2.5`, `2^61` as a float, a 53-bit odd integer, `3/8`. -/
example : hashDouble ⟨1, 1⟩ = 2 ^ 60 ∧ hashDouble ⟨-5, 1⟩ = -(2 ^ 60 + 2) ∧ hashDouble ⟨2 ^ 61, 0⟩ = 1 ∧
    hashDouble ⟨2 ^ 53 - 1, 0⟩ = 2 ^ 53 - 1 ∧ hashDouble ⟨3, 3⟩ = 3 * 2 ^ 58 ∧ hashInt (2 ^ 53 - 1) = hashDouble (ofInt (2 ^ 53 - 1)) := by
  refine ⟨?_, ?_, ?_, ?_, ?_, ?_⟩ <;> decide +kernel

end Einx.Cache.NumHash
