import EinxModel.Proofs.CacheNumHash
/-!
C06, third property file — CPython's numeric hash.  `Cache/Hash.lean:numHash` (used by `pyHash`, hence by `pyEq_hash`,
`key_hit_iff_eq`, …) is the specification "sign · (|value| mod 2^61-1), -1 ↦ -2".  Here the algorithms CPython runs
(`Cache/NumHash.lean`: `long_hash` on 30-bit digits, `_Py_HashDouble` on the `frexp` mantissa in chunks of 28 bits, both
with the 61-bit rotation written with the C bit operations) are proved equal to it, for **all** integers and **all**
dyadic rationals of the value universe.  Tie: the driver request `numhash` evaluates `hashInt` / `hashDouble` / `numHash`
and the harness compares each with CPython's `hash` on every generated number (`tools/props/c06.py`).
-/
namespace Einx.Cache.NumHash
open Einx.Cache

/-- **`long_hash` is the specification**: for every integer `n` (any number of 30-bit digits), the digit loop with the
C rotation, the conditional subtraction, the sign and the `-1 ↦ -2` rule gives `numHash` of the value `n`. -/
theorem hashInt_eq_numHash (n : Int) : hashInt n = numHash ⟨n, 0⟩ := by
  obtain ⟨_, h⟩ := longLoop_digits n.natAbs
  have hP : hashModulus = P := rfl
  simp only [hashInt, numHash, h, hP, Nat.zero_mod, Nat.sub_zero, Nat.mod_self, Nat.pow_zero, Nat.mul_one, Nat.mod_mod]

/-- Non-vacuity / test on instances (evaluation): one, two and three digits, both signs, the `-1 ↦ -2` rule, the modulus. -/
example : hashInt 5 = 5 ∧ hashInt (-1) = -2 ∧ hashInt (2 ^ 61 - 1) = 0 ∧ hashInt (2 ^ 61) = 1 ∧ hashInt (-(2 ^ 61)) = -2 ∧
    hashInt (2 ^ 64 + 3) = 11 ∧ digits30 (2 ^ 64 + 3) = [3, 0, 16] := by
  refine ⟨?_, ?_, ?_, ?_, ?_, ?_, ?_⟩ <;> decide +kernel

end Einx.Cache.NumHash
