import EinxModel.Proofs.Denote
import EinxModel.Proofs.DenoteTie
import EinxModel.Proofs.IR
/-!
C08 — results depend on axis names and positions only as the notation says (equivariance).

All theorems are about the functional form of the loop-notation denotation (`Denote/Fun.lean`:
`cellAt`, `flatPos`, `idCells`, `denoteIdFun`, `denoteElementwiseFun`), which the driver executes
(kind `denote_fun`) next to the loop form of `Denote/Expr.lean`; the harness compares the two on every
generated concatenation-free case (correspondence `denote-fun-vs-loop`).  They hold for all expressions,
axis sizes and assignments (no bounds).  C01 ties einx to the denotation, so they transfer to einx; the
harness (`tools/props/c08.py`) additionally issues the related real calls.

* tie to the loop form `denoteId_fun_agree`, `denoteId_fun_agree_multi` (any number of tensors),
                      `denoteElementwise_fun_agree`
* renaming            `pos_rename`, `denote_rename`, `denote_rename_elementwise`; injective on the names in use only:
                      `denote_rename_on`, `denote_rename_elementwise_on`; for the loop form: `denoteId_rename`,
                      `denoteElementwise_rename`
* parentheses         `pos_flat_is_ravel`, `denote_regroup`, `denote_regroup_reshape`, `denote_regroup_tensor`
* permuting an input  `denote_permute_input` (per assignment), `denote_permute_input_tensor`, `denote_permute_input_expr`
                      (whole tensors, with numpy's transpose plan `planInstr (.transpose x perm)`), `denoteId_permute_input`,
                      `denote_permute_input_elementwise` (one input of an elementwise operation, whole tensors)
* permuting an output `denote_permute_output` (per assignment), `denote_permute_output_tensor`,
                      `denote_permute_output_expr` (whole tensors), `denoteId_permute_output`
* reductions          `denote_reduce_rename` (loop form `Denote.denoteReduce`)
* rearrangements      `position_valid_of_bounded`, `position_determines_leaves`, `id_inverse`, `id_compose`
-/
namespace Einx.C08
open Einx Einx.IR Einx.Denote
open Einx.Order.Fresh (InjOn)

/-! ### The functional form is the loop form -/

/-- **Tie to `Denote/Expr.lean`.**  For a concatenation-free input and output expression the loop form of the
`id` denotation (`Denote.denoteId`, `for` loops in `Except`) and the functional form (`Denote.denoteIdFun`)
succeed on the same operations and return the same symbolic tensors (`okOpt` forgets the text of the
error message).  Multi-tensor and elementwise operations: `denoteId_fun_agree_multi`,
`denoteElementwise_fun_agree` below (and, on every run, the driver-level differential test, kind `denote_fun`,
correspondence `denote-fun-vs-loop`). -/
theorem denoteId_fun_agree (e1 e2 : Expr) (h1 : e1.concatFree = true) (h2 : e2.concatFree = true) :
    okOpt (denoteId [e1] [e2]) = okOpt (denoteIdFun [e1] [e2]) :=
  denoteId_eq_denoteIdFun e1 e2 h1 h2

/-- Non-vacuity: both forms are defined on `a (b c) -> (c a) b`. -/
example :
    let e1 := Expr.list [.axis "a" 2, .flat (.list [.axis "b" 3, .axis "c" 2])]
    let e2 := Expr.list [.flat (.list [.axis "c" 2, .axis "a" 2]), .axis "b" 3]
    e1.concatFree = true ∧ e2.concatFree = true ∧ (okOpt (denoteIdFun [e1] [e2])).isSome = true := by
  decide +kernel

/-! ### Renaming -/

/-- **Positions are invariant under consistent renaming.**  For an injective renaming `ρ` of axis names,
renaming every leaf of a dimension and the assignment leaves the position along the dimension unchanged
(any dimension: flattened, block of a concatenation, …). -/
theorem pos_rename {ρ : String → String} (hρ : Function.Injective ρ) (σ : Assign) (d : Dim) :
    (d.rename ρ).pos (Assign.rename ρ σ) = d.pos σ :=
  Einx.Denote.pos_rename hρ σ d

/-- … hence every cell read through a renamed view under the renamed assignment is unchanged. -/
theorem cellAt_rename_inv {ρ : String → String} (hρ : Function.Injective ρ) (v : List Dim) (s : List Nat) (i : Nat)
    (σ : Assign) : cellAt (Dim.renameL ρ v) s i (Assign.rename ρ σ) = cellAt v s i σ :=
  cellAt_rename hρ v s i σ

/-- **Consistent renaming leaves every result unchanged** (`id`, any number of inputs/outputs): the symbolic
result -- for every output position the input element it holds -- of the renamed operation is *equal* to
that of the original one (including failure). -/
theorem denote_rename {ρ : String → String} (hρ : Function.Injective ρ) (exprsIn exprsOut : List Expr) :
    denoteIdFun (Expr.renameL ρ exprsIn) (Expr.renameL ρ exprsOut) = denoteIdFun exprsIn exprsOut :=
  denoteIdFun_rename hρ exprsIn exprsOut

/-- The same for elementwise operations with any elementary function symbol `f`. -/
theorem denote_rename_elementwise {ρ : String → String} (hρ : Function.Injective ρ) (f : String)
    (exprsIn : List Expr) (exprOut : Expr) :
    denoteElementwiseFun f (Expr.renameL ρ exprsIn) (exprOut.rename ρ) = denoteElementwiseFun f exprsIn exprOut :=
  denoteElementwiseFun_rename hρ f exprsIn exprOut

/-- Swapping two names (the renaming that changes the sort order of the names and, in einx, the `cse.<n>`
numbering). -/
def swapNames (a b : String) (n : String) : String := if n = a then b else if n = b then a else n

theorem swapNames_injective (a b : String) : Function.Injective (swapNames a b) := by
  intro x y h
  unfold swapNames at h
  split at h <;> split at h <;> (try split at h) <;> (try split at h) <;> simp_all

/-- Non-vacuity: swapping `a` and `b` in `a b c -> (c a) b` really changes the expressions, and the theorem
applies; the common result is a genuine rearrangement of 12 elements. -/
example :
    let e_in := Expr.list [.axis "a" 2, .axis "b" 3, .axis "c" 2]
    let e_out := Expr.list [.flat (.list [.axis "c" 2, .axis "a" 2]), .axis "b" 3]
    let ρ := swapNames "a" "b"
    denoteIdFun (Expr.renameL ρ [e_in]) (Expr.renameL ρ [e_out]) = denoteIdFun [e_in] [e_out] :=
  denote_rename (swapNames_injective "a" "b") _ _

example :
    let e_in := Expr.list [.axis "a" 2, .axis "b" 3, .axis "c" 2]
    let e_out := Expr.list [.flat (.list [.axis "c" 2, .axis "a" 2]), .axis "b" 3]
    (match denoteIdFun [e_in.rename (swapNames "a" "b")] [e_out.rename (swapNames "a" "b")] with
      | .ok [t] => t.shape == [4, 3] && Cell.beqL (t.data.take 4) [.src 0 0, .src 0 2, .src 0 4, .src 0 6]
      | _ => false) = true := by decide +kernel

/-! ### Parentheses are a reshape -/

/-- **The position of a flattened group is the row-major ravel of its members' positions**, in the
shape of the members' sizes. -/
theorem pos_flat_is_ravel (σ : Assign) (ds : List Dim) :
    (Dim.flat ds).pos σ = (position ds σ).map (ravel (ds.map Dim.size)) :=
  pos_flat σ ds

/-- **Regrouping law (flat index equality).**  Grouping the adjacent root dimensions `mid` of a view into
`(mid)` and reshaping the tensor accordingly (`viewShape` of the grouped view is `… ++ [prod sizes] ++ …`)
addresses the same flat element under every assignment: `ravel (sp ++ [prod sm] ++ sq) … = ravel (sp ++ sm ++ sq) …`. -/
theorem denote_regroup (pre mid post : List Dim) (i : Nat) (σ : Assign) :
    cellAt (pre ++ [Dim.flat mid] ++ post) (viewShape (pre ++ [Dim.flat mid] ++ post)) i σ
      = cellAt (pre ++ mid ++ post) (viewShape (pre ++ mid ++ post)) i σ :=
  cellAt_regroup pre mid post i σ

/-- **Regrouping and numpy's reshape.**  With the IR's plan of `np.reshape`: the cell read through the
grouped view from the reshaped tensor (register `0` of the substitution) is the cell read through the
ungrouped view from the original tensor `x` -- for every in-range assignment. -/
theorem denote_regroup_reshape (pre mid post : List Dim) (shapes : List (List Nat)) (x : Nat) (σ : Assign)
    (hc : Dim.concatFreeL (pre ++ mid ++ post) = true) (hb : BoundedOn σ (Dim.leavesL (pre ++ mid ++ post)))
    (hx : shapes[x]? = some (viewShape (pre ++ mid ++ post))) :
    ∃ plan, planInstr shapes (.reshape x (viewShape (pre ++ [Dim.flat mid] ++ post))) = .ok plan ∧
      (cellAt (pre ++ [Dim.flat mid] ++ post) plan.shape 0 σ).map (subst [⟨plan.shape, plan.cells⟩])
        = cellAt (pre ++ mid ++ post) (viewShape (pre ++ mid ++ post)) x σ := by
  refine ⟨⟨viewShape (pre ++ [Dim.flat mid] ++ post),
    (List.range (prod (viewShape (pre ++ [Dim.flat mid] ++ post)))).map (fun k => Cell.src x k)⟩, ?_, ?_⟩
  · have hpr := prod_viewShape_regroup pre mid post
    simp only [planInstr, getShape, hx, bind, Except.bind, pure, Except.pure, hpr, bne_self_eq_false,
      Bool.false_eq_true, if_false]
  · obtain ⟨p, hp, hv⟩ := position_valid _ hc hb
    have h1 := cellAt_regroup pre mid post 0 σ
    have hlt := ravel_lt hv
    simp only [cellAt, flatPos, hp, Option.map_some] at h1 ⊢
    rw [h1]
    simp only [Option.map_some, subst_src, Option.some.injEq]
    rw [prod_viewShape_regroup]
    simp only [List.getElem?_map, List.getElem?_range hlt, Option.map_some, Option.getD_some]

/-- **Regrouping, whole tensors.**  Grouping adjacent root dimensions of the input expression (and reshaping
the input), or of the output expression (and reshaping the output), leaves the list of output cells of `id`
unchanged. -/
theorem denote_regroup_tensor (pre mid post : List Dim) (i : Nat) (w : List Dim) (sw : List Nat) :
    idCells (pre ++ [Dim.flat mid] ++ post) (viewShape (pre ++ [Dim.flat mid] ++ post)) i w sw
        = idCells (pre ++ mid ++ post) (viewShape (pre ++ mid ++ post)) i w sw
    ∧ idCells w sw i (pre ++ [Dim.flat mid] ++ post) (viewShape (pre ++ [Dim.flat mid] ++ post))
        = idCells w sw i (pre ++ mid ++ post) (viewShape (pre ++ mid ++ post)) :=
  ⟨idCells_regroup_input pre mid post i w sw, idCells_regroup_output w sw i pre mid post⟩

/-- Non-vacuity of the regrouping laws: `a (b c) d` against `a b c d` with equal lengths on different axes
and a length-1 axis; the two denotations towards `d c b a` coincide and are defined. -/
example :
    let a := Dim.axis ⟨"a", 2, false⟩; let b := Dim.axis ⟨"b", 2, false⟩
    let c := Dim.axis ⟨"c", 1, false⟩; let d := Dim.axis ⟨"d", 3, false⟩
    let out := [d, c, b, a]
    (idCells ([a] ++ [Dim.flat [b, c]] ++ [d]) [2, 2, 3] 0 out [3, 1, 2, 2]).isSome = true ∧
    viewShape ([a] ++ [Dim.flat [b, c]] ++ [d]) = [2, 2, 3] ∧ viewShape ([a] ++ [b, c] ++ [d]) = [2, 2, 1, 3] := by
  decide +kernel

/-! ### Permuting the root dimensions of an input: the transposed tensor -/

/-- **Permuting an input expression together with its tensor.**  Let `v'` be the view `v` with its root
dimensions permuted by `perm` (numpy convention: new dimension `j` is old dimension `perm[j]`), and let the
tensor be transposed by numpy with the same `perm` (the IR's plan `planInstr (.transpose x perm)`).  Then
for every in-range assignment the cell read through the permuted view from the transposed tensor
(register `0` of the substitution) equals the cell read through the original view from the original
tensor `x`. -/
theorem denote_permute_input (v v' : List Dim) (perm : List Nat) (shapes : List (List Nat)) (x : Nat) (σ : Assign)
    (hperm : isPermOf perm v.length = true) (hv' : permuteL perm v = some v')
    (hc : Dim.concatFreeL v = true) (hb : BoundedOn σ (Dim.leavesL v))
    (hx : shapes[x]? = some (viewShape v)) :
    ∃ plan, planInstr shapes (.transpose x perm) = .ok plan ∧ plan.shape = viewShape v' ∧
      (cellAt v' plan.shape 0 σ).map (subst [⟨plan.shape, plan.cells⟩]) = cellAt v (viewShape v) x σ := by
  obtain ⟨p, hp, hv⟩ := position_valid v hc hb
  have hlen : (viewShape v).length = v.length := by simp [viewShape]
  obtain ⟨plan, hplan, hshape, p', hp', _, hcell⟩ :=
    transpose_plan_reads shapes x (viewShape v) p perm hx (by rw [hlen]; exact hperm) hv
  have hs : plan.shape = viewShape v' := by
    have := viewShape_permute hv'
    rw [hshape] at this
    exact Option.some.inj this
  refine ⟨plan, hplan, hs, ?_⟩
  have hpos' : position v' σ = some p' := by rw [position_permute hp hv', hp']
  simp only [cellAt, flatPos, hpos', hp, Option.map_some, subst_src, hcell, Option.getD_some]

/-- **Permuting the output expression permutes the result.**  Let `w'` be the output view `w` permuted by
`perm`.  For every in-range assignment `σ`, the flat position `k'` that the permuted operation writes under
`σ` is exactly the position at which numpy's transpose (by `perm`) of the original result `r` holds the
element that the original operation writes under `σ` (`src r k`, `k` the original flat position). -/
theorem denote_permute_output (w w' : List Dim) (perm : List Nat) (shapes : List (List Nat)) (r : Nat) (σ : Assign)
    (hperm : isPermOf perm w.length = true) (hw' : permuteL perm w = some w')
    (hc : Dim.concatFreeL w = true) (hb : BoundedOn σ (Dim.leavesL w))
    (hr : shapes[r]? = some (viewShape w)) :
    ∃ plan k k', planInstr shapes (.transpose r perm) = .ok plan ∧ plan.shape = viewShape w' ∧
      flatPos w (viewShape w) σ = some k ∧ flatPos w' (viewShape w') σ = some k' ∧
      plan.cells[k']? = some (.src r k) := by
  obtain ⟨p, hp, hv⟩ := position_valid w hc hb
  have hlen : (viewShape w).length = w.length := by simp [viewShape]
  obtain ⟨plan, hplan, hshape, p', hp', _, hcell⟩ :=
    transpose_plan_reads shapes r (viewShape w) p perm hr (by rw [hlen]; exact hperm) hv
  have hs : plan.shape = viewShape w' := by
    have := viewShape_permute hw'
    rw [hshape] at this
    exact Option.some.inj this
  have hpos' : position w' σ = some p' := by rw [position_permute hp hw', hp']
  refine ⟨plan, ravel (viewShape w) p, ravel (viewShape w') p', hplan, hs, ?_, ?_, ?_⟩
  · simp [flatPos, hp]
  · simp [flatPos, hpos']
  · rw [← hs]; exact hcell

/-- Non-vacuity of the two permutation theorems: the view `a (b c) d` with sizes 2, (2·1), 2 (equal lengths,
a length-1 axis), the permutation `[2, 0, 1]`, and an in-range assignment. -/
example :
    let a := Dim.axis ⟨"a", 2, false⟩; let b := Dim.axis ⟨"b", 2, false⟩
    let c := Dim.axis ⟨"c", 1, false⟩; let d := Dim.axis ⟨"d", 2, false⟩
    let v := [a, Dim.flat [b, c], d]
    let σ : Assign := [("d", 1), ("b", 1), ("a", 0), ("c", 0)]
    isPermOf [2, 0, 1] v.length = true ∧ (permuteL [2, 0, 1] v).map viewShape = some [2, 2, 2] ∧
      Dim.concatFreeL v = true ∧
      boundedB σ (Dim.leavesL v) = true ∧
      (match cellAt v (viewShape v) 0 σ, cellAt [d, a, Dim.flat [b, c]] [2, 2, 2] 0 σ with
        | some c, some c' => Cell.beq c (.src 0 3) && Cell.beq c' (.src 0 5)
        | _, _ => false) = true := by
  decide +kernel

/-! ### Rearrangements: positions are valid, determine the leaves; inverse and composition -/

/-- The position of a concatenation-free view under an assignment that gives every leaf a value below its
size is a valid multi-index of the view's shape. -/
theorem position_valid_of_bounded {σ : Assign} (v : List Dim) (hc : Dim.concatFreeL v = true)
    (h : BoundedOn σ (Dim.leavesL v)) : ∃ p, position v σ = some p ∧ Valid (viewShape v) p :=
  position_valid v hc h

/-- Two in-range assignments that address the same flat element through a concatenation-free view agree on
every axis of the view (`unravel_ravel`, through all levels of parentheses). -/
theorem position_determines_leaves {σ τ : Assign} (v : List Dim) (hc : Dim.concatFreeL v = true)
    (hs : BoundedOn σ (Dim.leavesL v)) (ht : BoundedOn τ (Dim.leavesL v))
    (he : flatPos v (viewShape v) σ = flatPos v (viewShape v) τ) : AgreeOn σ τ (Dim.leavesL v) :=
  flatPos_inj v hc hs ht he

/-- Every assignment of the iteration space of a view (sizes consistent per name) is in range. -/
theorem iteration_space_in_range {w : List Dim} (hcons : consistentB (Dim.leavesL w) = true) {σ : Assign}
    (hσ : σ ∈ outAssignments w) : BoundedOn σ (Dim.leavesL w) :=
  outAssignments_bounded (consistentB_spec hcons) hσ

/-- **Composition of rearrangements.**  For concatenation-free `e1`, `e2`, `e3` whose axes satisfy
`axes e1 ⊆ axes e2 ⊆ axes e3` (names with sizes; in particular: the same leaf axes), substituting the
symbolic result of `e1 → e2` into the symbolic result of `e2 → e3` gives exactly the symbolic result of
`e1 → e3`: two rearrangements in sequence equal the single rearrangement from the first input to the last
output expression.  (Hypotheses are decidable; that the three denotations are defined excludes repeated
names in outputs and un-broadcastable inputs.) -/
theorem id_compose (e1 e2 e3 : Expr) (T12 T23 T13 : Tensor Cell)
    (hk2 : consistentB (Dim.leavesL (rootDims e2)) = true) (hk3 : consistentB (Dim.leavesL (rootDims e3)) = true)
    (s12 : leavesSubB (Dim.leavesL (rootDims e1)) (Dim.leavesL (rootDims e2)) = true)
    (s23 : leavesSubB (Dim.leavesL (rootDims e2)) (Dim.leavesL (rootDims e3)) = true)
    (h12 : denoteIdFun [e1] [e2] = .ok [T12]) (h23 : denoteIdFun [e2] [e3] = .ok [T23])
    (h13 : denoteIdFun [e1] [e3] = .ok [T13]) :
    substT [T12] T23 = T13 := by
  obtain ⟨_, hc2, c12, hc12, ht12⟩ := denoteIdFun_single h12
  obtain ⟨_, hc3, c23, hc23, ht23⟩ := denoteIdFun_single h23
  obtain ⟨_, _, c13, hc13, ht13⟩ := denoteIdFun_single h13
  simp only [List.cons.injEq, and_true] at ht12 ht23 ht13
  subst ht12 ht23 ht13
  have S12 := leavesSubB_spec s12
  have S23 := leavesSubB_spec s23
  have K3 := consistentB_spec hk3
  have hpt := compose_point (rootDims_concatFree hc2) (consistentB_spec hk2) K3 S12 S23 hc12 hc23
  obtain ⟨hlen13, hall13⟩ := idCells_spec hc13
  obtain ⟨hlen23, _⟩ := idCells_spec hc23
  simp only [substT, Tensor.map, Tensor.mk.injEq, true_and]
  apply List.ext_getElem?
  intro k
  by_cases hk : k < prod (shapeOf e3)
  · obtain ⟨τ, hbτ, hposτ, c, hcτ, hget⟩ := hpt k hk
    obtain ⟨τ', hτ', τ1, hext, hpos', hcell'⟩ := hall13 k hk
    have hb' : BoundedOn τ' (Dim.leavesL (rootDims e3)) := outAssignments_bounded K3 hτ'
    rw [extend_of_bounded _ (hb'.sub (S12.trans S23))] at hext
    simp only [Option.some.injEq] at hext
    subst hext
    have hag : AgreeOn τ' τ (Dim.leavesL (rootDims e3)) :=
      flatPos_inj _ (rootDims_concatFree hc3) hb' hbτ (by rw [shapeOf_eq] at hpos'; rw [hpos', hposτ])
    have := cellAt_congr (rootDims e1) (shapeOf e1) 0 (hag.sub (S12.trans S23))
    have hget' : (c23.map (subst [⟨shapeOf e2, c12⟩]))[k]? = some c := hget
    rw [hget', ← hcell', this, hcτ]
  · have h1 : (c23.map (subst [⟨shapeOf e2, c12⟩])).length ≤ k := by simp [hlen23]; omega
    have h2 : c13.length ≤ k := by omega
    rw [List.getElem?_eq_none h1, List.getElem?_eq_none h2]

/-- **Swapping input and output inverts a rearrangement.**  For concatenation-free `e1`, `e2` over the same
leaf axes (names with sizes), the round trip `e1 → e2 → e1` is the identity on cells: output position `k`
of the round trip holds input element `k` (`symInput 0`). -/
theorem id_inverse (e1 e2 : Expr) (T12 T21 : Tensor Cell)
    (hk1 : consistentB (Dim.leavesL (rootDims e1)) = true) (hk2 : consistentB (Dim.leavesL (rootDims e2)) = true)
    (s12 : leavesSubB (Dim.leavesL (rootDims e1)) (Dim.leavesL (rootDims e2)) = true)
    (s21 : leavesSubB (Dim.leavesL (rootDims e2)) (Dim.leavesL (rootDims e1)) = true)
    (h12 : denoteIdFun [e1] [e2] = .ok [T12]) (h21 : denoteIdFun [e2] [e1] = .ok [T21]) :
    substT [T12] T21 = symInput 0 (shapeOf e1) := by
  obtain ⟨_, hc2, c12, hc12, ht12⟩ := denoteIdFun_single h12
  obtain ⟨_, hc1, c21, hc21, ht21⟩ := denoteIdFun_single h21
  simp only [List.cons.injEq, and_true] at ht12 ht21
  subst ht12 ht21
  have hpt := compose_point (rootDims_concatFree hc2) (consistentB_spec hk2) (consistentB_spec hk1)
    (leavesSubB_spec s12) (leavesSubB_spec s21) hc12 hc21
  obtain ⟨hlen21, _⟩ := idCells_spec hc21
  simp only [substT, Tensor.map, symInput, Tensor.mk.injEq, true_and]
  apply List.ext_getElem?
  intro k
  by_cases hk : k < prod (shapeOf e1)
  · obtain ⟨τ, _, hposτ, c, hcτ, hget⟩ := hpt k hk
    have hget' : (c21.map (subst [⟨shapeOf e2, c12⟩]))[k]? = some c := hget
    rw [hget']
    simp only [cellAt, shapeOf_eq, hposτ, Option.map_some, Option.some.injEq] at hcτ
    simp [List.getElem?_range hk, hcτ]
  · have h1 : (c21.map (subst [⟨shapeOf e2, c12⟩])).length ≤ k := by simp [hlen21]; omega
    rw [List.getElem?_eq_none h1, List.getElem?_eq_none (by simp; omega)]

/-- Non-vacuity of `id_inverse` and `id_compose`: `a (b c) d`, `(d a) c b`, `c (b d a)` with sizes
a=2, b=2, c=1, d=3 (equal lengths on different axes, a length-1 axis): all hypotheses hold, and the
composed tensors are the genuine non-identity rearrangements. -/
example :
    let a := Expr.axis "a" 2; let b := Expr.axis "b" 2; let c := Expr.axis "c" 1; let d := Expr.axis "d" 3
    let e1 := Expr.list [a, .flat (.list [b, c]), d]
    let e2 := Expr.list [.flat (.list [d, a]), c, b]
    let e3 := Expr.list [c, .flat (.list [b, d, a])]
    let L := fun e => Dim.leavesL (rootDims e)
    consistentB (L e1) = true ∧ consistentB (L e2) = true ∧ consistentB (L e3) = true ∧
    leavesSubB (L e1) (L e2) = true ∧ leavesSubB (L e2) (L e1) = true ∧ leavesSubB (L e2) (L e3) = true ∧
    (match denoteIdFun [e1] [e2], denoteIdFun [e2] [e1], denoteIdFun [e2] [e3], denoteIdFun [e1] [e3] with
      | .ok [t12], .ok [t21], .ok [t23], .ok [t13] =>
        Tensor.beq (substT [t12] t21) (symInput 0 (shapeOf e1)) && Tensor.beq (substT [t12] t23) t13
          && !Tensor.beq t12 (symInput 0 (shapeOf e2)) && !Tensor.beq t13 (symInput 0 (shapeOf e3))
      | _, _, _, _ => false) = true := by
  decide +kernel

/-! ### Whole-tensor permutation laws -/

/-- **Permuting an input expression together with its tensor: whole-tensor law.**  Let `v'` be the input view `v`
with its root dimensions permuted by `perm`, and let `plan` be the IR's plan of numpy's `transpose(x, perm)` for a
register of shape `viewShape v`.  For any output view `w` (leaf sizes consistent per name across `v` and `w`,
decidable), the complete list of result cells of `id` through the permuted view, read from the transposed
tensor (substitution of the plan's cells for register `0`), *equals* the complete list of result cells through the
original view from the original register `x` -- including the case that the denotation is undefined. -/
theorem denote_permute_input_tensor (v v' w : List Dim) (sw perm : List Nat) (shapes : List (List Nat)) (x : Nat)
    (hperm : isPermOf perm v.length = true) (hv' : permuteL perm v = some v')
    (hc : Dim.concatFreeL v = true) (hcons : consistentB (Dim.leavesL v ++ Dim.leavesL w) = true)
    (hx : shapes[x]? = some (viewShape v)) :
    ∃ plan, planInstr shapes (.transpose x perm) = .ok plan ∧ plan.shape = viewShape v' ∧
      (idCells v' plan.shape 0 w sw).map (List.map (subst [⟨plan.shape, plan.cells⟩]))
        = idCells v (viewShape v) x w sw := by
  have hlen : (viewShape v).length = v.length := by simp [viewShape]
  obtain ⟨plan, hplan, hshape, _, _⟩ :=
    transpose_plan_ok shapes x (viewShape v) perm hx (by rw [hlen]; exact hperm)
  have hs : plan.shape = viewShape v' := by
    have := viewShape_permute hv'
    rw [hshape] at this
    exact Option.some.inj this
  refine ⟨plan, hplan, hs, ?_⟩
  have := idCells_permute_input (w := w) (sw := sw) hperm hv' hc (consistentB_spec hcons) hx hplan
  rw [hs] at this ⊢
  exact this

/-- A concatenation-free single-input single-output `id` denotation, unfolded (as an equation in `Except`). -/
theorem denoteIdFun_single_eq (e1 e2 : Expr) (h1 : e1.concatFree = true) (h2 : e2.concatFree = true) :
    denoteIdFun [e1] [e2] = match idCells (rootDims e1) (shapeOf e1) 0 (rootDims e2) (shapeOf e2) with
      | some cs => .ok [⟨shapeOf e2, cs⟩]
      | none => .error "id: an axis is unassigned, or the output is not fully defined" := by
  unfold denoteIdFun
  simp only [Expr.concatFreeL, h1, h2, Bool.and_self, Bool.not_true, Bool.false_eq_true, if_false,
    List.length_singleton, bne_self_eq_false, List.zipIdx_cons, List.zipIdx_nil, List.zip_cons_cons,
    List.zip_nil_right, List.mapM_cons, List.mapM_nil, denoteIdFun1]
  cases idCells (rootDims e1) (shapeOf e1) 0 (rootDims e2) (shapeOf e2) with
  | none => rfl
  | some cs => rfl

/-- **The same on expressions (`denoteIdFun`).**  If the root dimensions of `e'` are those of `e` permuted by
`perm`, then feeding the transposed input (`planInstr [shapeOf e] (.transpose 0 perm)`) into `e' -> eo` gives
exactly the symbolic result of `e -> eo` (equality in `Except`, error text included). -/
theorem denote_permute_input_expr (e e' eo : Expr) (perm : List Nat)
    (he : e.concatFree = true) (he' : e'.concatFree = true) (heo : eo.concatFree = true)
    (hperm : isPermOf perm (rootDims e).length = true) (hp : permuteL perm (rootDims e) = some (rootDims e'))
    (hcons : consistentB (Dim.leavesL (rootDims e) ++ Dim.leavesL (rootDims eo)) = true) :
    ∃ plan, planInstr [shapeOf e] (.transpose 0 perm) = .ok plan ∧ plan.shape = shapeOf e' ∧
      (denoteIdFun [e'] [eo]).map (List.map (substT [⟨plan.shape, plan.cells⟩])) = denoteIdFun [e] [eo] := by
  obtain ⟨plan, hplan, hs, hcells⟩ := denote_permute_input_tensor (rootDims e) (rootDims e') (rootDims eo)
    (shapeOf eo) perm [shapeOf e] 0 hperm hp (rootDims_concatFree he) hcons rfl
  refine ⟨plan, hplan, hs, ?_⟩
  rw [denoteIdFun_single_eq e' eo he' heo, denoteIdFun_single_eq e eo he heo, shapeOf_eq e, ← hcells, hs, ← shapeOf_eq e']
  cases idCells (rootDims e') (shapeOf e') 0 (rootDims eo) (shapeOf eo) with
  | none => rfl
  | some cs => rfl

/-- **Permuting the output expression transposes the result: whole-tensor law.**  Let `w'` be the output view `w`
permuted by `perm`.  If both operations are defined, the result of the permuted operation is the IR's transpose
plan (`planInstr [viewShape w] (.transpose 0 perm)`) *run* on the original result: equality of tensors. -/
theorem denote_permute_output_tensor (vi : List Dim) (si : List Nat) (i : Nat) (w w' : List Dim) (perm : List Nat)
    (cs cs' : List Cell)
    (hperm : isPermOf perm w.length = true) (hw' : permuteL perm w = some w')
    (hc : Dim.concatFreeL w = true) (hcons : consistentB (Dim.leavesL w) = true)
    (h : idCells vi si i w (viewShape w) = some cs) (h' : idCells vi si i w' (viewShape w') = some cs') :
    ∃ plan, planInstr [viewShape w] (.transpose 0 perm) = .ok plan ∧
      runPlan symAlg [⟨viewShape w, cs⟩] plan = ⟨viewShape w', cs'⟩ := by
  have hlen : (viewShape w).length = w.length := by simp [viewShape]
  obtain ⟨plan, hplan, _, _, _⟩ :=
    transpose_plan_ok [viewShape w] 0 (viewShape w) perm rfl (by rw [hlen]; exact hperm)
  obtain ⟨hs, hcells⟩ := idCells_permute_output [⟨viewShape w, cs⟩] hperm hw' hc (consistentB_spec hcons) rfl hplan rfl h h'
  refine ⟨plan, hplan, ?_⟩
  simp only [runPlan, hs, Tensor.mk.injEq, true_and, evalCells_eq_map]
  exact hcells.symm

/-- **The same on expressions.** -/
theorem denote_permute_output_expr (e eo eo' : Expr) (perm : List Nat) (T T' : Tensor Cell)
    (hperm : isPermOf perm (rootDims eo).length = true) (hp : permuteL perm (rootDims eo) = some (rootDims eo'))
    (hcons : consistentB (Dim.leavesL (rootDims eo)) = true)
    (h : denoteIdFun [e] [eo] = .ok [T]) (h' : denoteIdFun [e] [eo'] = .ok [T']) :
    ∃ plan, planInstr [shapeOf eo] (.transpose 0 perm) = .ok plan ∧ runPlan symAlg [T] plan = T' := by
  obtain ⟨_, hc, cs, hcs, ht⟩ := denoteIdFun_single h
  obtain ⟨_, _, cs', hcs', ht'⟩ := denoteIdFun_single h'
  simp only [List.cons.injEq, and_true] at ht ht'
  subst ht ht'
  exact denote_permute_output_tensor _ _ _ _ _ perm cs cs' hperm hp (rootDims_concatFree hc) hcons hcs hcs'


/-- Non-vacuity of the whole-tensor permutation laws: `a (b c) d` with sizes 2, (2·1), 3 (equal lengths on
different axes, a length-1 axis), `perm = [2, 0, 1]`, output `(d a) c b`.  All hypotheses hold; the result read
through the permuted view differs from the original one cell-wise, and substituting the transposed tensor makes
them equal (input law); the result towards the permuted output `b (d a) c` is the transpose plan run on the
original result and differs from it (output law). -/
example :
    let a := Dim.axis ⟨"a", 2, false⟩; let b := Dim.axis ⟨"b", 2, false⟩
    let c := Dim.axis ⟨"c", 1, false⟩; let d := Dim.axis ⟨"d", 3, false⟩
    let v := [a, Dim.flat [b, c], d]; let v' := [d, a, Dim.flat [b, c]]
    let w := [Dim.flat [d, a], c, b]; let w' := [b, Dim.flat [d, a], c]
    isPermOf [2, 0, 1] v.length = true ∧ (permuteL [2, 0, 1] v).map viewShape = some (viewShape v') ∧
    (permuteL [2, 0, 1] w).map viewShape = some (viewShape w') ∧
    Dim.concatFreeL v = true ∧ Dim.concatFreeL w = true ∧
    consistentB (Dim.leavesL v ++ Dim.leavesL w) = true ∧ consistentB (Dim.leavesL w) = true ∧
    (match planInstr [viewShape v] (.transpose 0 [2, 0, 1]), planInstr [viewShape w] (.transpose 0 [2, 0, 1]) with
      | .ok plan, .ok planw =>
        (match idCells v' plan.shape 0 w (viewShape w), idCells v (viewShape v) 0 w (viewShape w),
            idCells v (viewShape v) 0 w' (viewShape w') with
          | some c', some c, some co =>
            Cell.beqL (c'.map (subst [⟨plan.shape, plan.cells⟩])) c && !Cell.beqL c' c
              && Tensor.beq (runPlan symAlg [⟨viewShape w, c⟩] planw) ⟨viewShape w', co⟩ && !Cell.beqL c co
          | _, _, _ => false)
      | _, _ => false) = true := by
  decide +kernel

/-- The hypotheses of `denote_permute_input_expr` / `denote_permute_output_expr` can be discharged on
`a (b c) d -> (d a) c b` with the input permuted to `d a (b c)` and the output to `b (d a) c`. -/
example :
    let a := Expr.axis "a" 2; let b := Expr.axis "b" 2; let c := Expr.axis "c" 1; let d := Expr.axis "d" 3
    let e := Expr.list [a, .flat (.list [b, c]), d]; let e' := Expr.list [d, a, .flat (.list [b, c])]
    let eo := Expr.list [.flat (.list [d, a]), c, b]
    ∃ plan, planInstr [shapeOf e] (.transpose 0 [2, 0, 1]) = .ok plan ∧ plan.shape = shapeOf e' ∧
      (denoteIdFun [e'] [eo]).map (List.map (substT [⟨plan.shape, plan.cells⟩])) = denoteIdFun [e] [eo] :=
  denote_permute_input_expr _ _ _ [2, 0, 1] (by decide +kernel) (by decide +kernel) (by decide +kernel)
    (by decide +kernel) rfl (by decide +kernel)

/-! ### Permuting one input of an elementwise operation -/

/-- **Permuting one input expression of an elementwise operation together with its tensor: whole-tensor law.**
`ins` are the input views with the shapes of their registers (register `k` holds input `k`); input `j` is the
view `v`.  Replacing it by the permuted view `v'` and transposing register `j` with the IR's transpose plan
(all other registers are the symbolic inputs) leaves the complete list of result cells `f(…)` unchanged,
including undefinedness.  Hypotheses are decidable: every register has the shape of its concatenation-free view
and leaf sizes are consistent per name between every input and the output. -/
theorem denote_permute_input_elementwise (f : String) (ins : List (List Dim × List Nat)) (j : Nat)
    (v v' w : List Dim) (perm sw : List Nat)
    (hj : ins[j]? = some (v, viewShape v))
    (hshape : ins.all (fun p => p.2 == viewShape p.1 && Dim.concatFreeL p.1) = true)
    (hperm : isPermOf perm v.length = true) (hv' : permuteL perm v = some v')
    (hcons : ins.all (fun p => consistentB (Dim.leavesL p.1 ++ Dim.leavesL w)) = true) :
    ∃ plan, planInstr (ins.map (·.2)) (.transpose j perm) = .ok plan ∧ plan.shape = viewShape v' ∧
      (ewCells f (ins.set j (v', viewShape v')) w sw).map (List.map (subst
          ((ins.set j (v', viewShape v')).zipIdx.map (fun q =>
            if q.2 = j then (⟨plan.shape, plan.cells⟩ : Tensor Cell) else symInput q.2 q.1.2))))
        = ewCells f ins w sw := by
  have hlen : (viewShape v).length = v.length := by simp [viewShape]
  have hx : (ins.map (·.2))[j]? = some (viewShape v) := by simp [hj]
  obtain ⟨plan, hplan, hshp, _, _⟩ :=
    transpose_plan_ok (ins.map (·.2)) j (viewShape v) perm hx (by rw [hlen]; exact hperm)
  have hs : plan.shape = viewShape v' := by
    have := viewShape_permute hv'
    rw [hshp] at this
    exact Option.some.inj this
  refine ⟨plan, hplan, hs, ?_⟩
  simp only [List.all_eq_true, Bool.and_eq_true, beq_iff_eq] at hshape hcons
  exact ewCells_permute_input hj hshape hperm hv' (fun p hp => consistentB_spec (hcons p hp)) hplan

/-- Non-vacuity: `add: a (b c) d, d b -> (d a) c b` with a = b = 2, c = 1, d = 3; the first input permuted by
`[2, 0, 1]` to `d a (b c)`.  The hypotheses hold, the permuted operation yields different cells, and substituting
the transposed tensor gives the original cells. -/
example :
    let a := Dim.axis ⟨"a", 2, false⟩; let b := Dim.axis ⟨"b", 2, false⟩
    let c := Dim.axis ⟨"c", 1, false⟩; let d := Dim.axis ⟨"d", 3, false⟩
    let v := [a, Dim.flat [b, c], d]; let v' := [d, a, Dim.flat [b, c]]; let u := [d, b]
    let w := [Dim.flat [d, a], c, b]
    let ins := [(v, viewShape v), (u, viewShape u)]
    let ins' := ins.set 0 (v', viewShape v')
    ins.all (fun p => p.2 == viewShape p.1 && Dim.concatFreeL p.1) = true ∧
    ins.all (fun p => consistentB (Dim.leavesL p.1 ++ Dim.leavesL w)) = true ∧
    isPermOf [2, 0, 1] v.length = true ∧
    (match planInstr (ins.map (·.2)) (.transpose 0 [2, 0, 1]) with
      | .ok plan =>
        (match ewCells "add" ins' w (viewShape w), ewCells "add" ins w (viewShape w) with
          | some c', some c =>
            Cell.beqL (c'.map (subst (ins'.zipIdx.map (fun q =>
              if q.2 = 0 then (⟨plan.shape, plan.cells⟩ : Tensor Cell) else symInput q.2 q.1.2)))) c
              && !Cell.beqL c' c && c.length == 12
          | _, _ => false)
      | _ => false) = true := by
  decide +kernel

/-! ### The functional form is the loop form: any number of tensors, and elementwise -/

/-- **Tie to `Denote/Expr.lean`, several tensors.**  For concatenation-free input and output expressions (any
number; the k-th output is the k-th input) the loop form `Denote.denoteId` and the functional form
`Denote.denoteIdFun` succeed on the same operations and return the same symbolic tensors. -/
theorem denoteId_fun_agree_multi (exprsIn exprsOut : List Expr)
    (hin : Expr.concatFreeL exprsIn = true) (hout : Expr.concatFreeL exprsOut = true) :
    okOpt (denoteId exprsIn exprsOut) = okOpt (denoteIdFun exprsIn exprsOut) :=
  denoteId_eq_denoteIdFun_multi exprsIn exprsOut hin hout

/-- **Tie to `Denote/Expr.lean`, elementwise.**  For concatenation-free expressions the loop form
`Denote.denoteElementwise` (the one the C01 validator uses) and the functional form
`Denote.denoteElementwiseFun` succeed on the same operations and return the same symbolic tensor. -/
theorem denoteElementwise_fun_agree (f : String) (exprsIn : List Expr) (exprOut : Expr)
    (hin : Expr.concatFreeL exprsIn = true) (hout : exprOut.concatFree = true) :
    okOpt (denoteElementwise f exprsIn exprOut) = okOpt (denoteElementwiseFun f exprsIn exprOut) :=
  denoteElementwise_eq_fun f exprsIn exprOut hin hout

/-- Non-vacuity: `a (b c), d a -> (c a) b, a d` (two tensors) and `add: a b, b c -> c a b` with
a = b = 2, c = 1, d = 3 are concatenation-free, and both forms are defined on them. -/
example :
    let a := Expr.axis "a" 2; let b := Expr.axis "b" 2; let c := Expr.axis "c" 1; let d := Expr.axis "d" 3
    let ins := [Expr.list [a, .flat (.list [b, c])], Expr.list [d, a]]
    let outs := [Expr.list [.flat (.list [c, a]), b], Expr.list [a, d]]
    let ews := [Expr.list [a, b], Expr.list [b, c]]
    let ewo := Expr.list [c, a, b]
    Expr.concatFreeL ins = true ∧ Expr.concatFreeL outs = true ∧ Expr.concatFreeL ews = true ∧ ewo.concatFree = true ∧
    (match okOpt (denoteId ins outs), okOpt (denoteIdFun ins outs) with
      | some [t1, t2], some [u1, u2] => Tensor.beq t1 u1 && Tensor.beq t2 u2 && t1.shape == [2, 2] && t2.shape == [2, 3]
      | _, _ => false) = true ∧
    (match okOpt (denoteElementwise "add" ews ewo), okOpt (denoteElementwiseFun "add" ews ewo) with
      | some t, some u => Tensor.beq t u && t.shape == [1, 2, 2]
      | _, _ => false) = true := by
  decide +kernel

/-! ### Renaming that is injective on the names in use; transfer to the loop form -/

/-- **Consistent renaming, weak hypothesis.**  It suffices that `ρ` is injective on the axis names that occur in
the operation (`Expr.namesL`: all names, also inside concatenations and brackets). -/
theorem denote_rename_on {ρ : String → String} (exprsIn exprsOut : List Expr)
    (hρ : InjOn ρ (Expr.namesL exprsIn ++ Expr.namesL exprsOut)) :
    denoteIdFun (Expr.renameL ρ exprsIn) (Expr.renameL ρ exprsOut) = denoteIdFun exprsIn exprsOut :=
  denoteIdFun_rename_on exprsIn exprsOut hρ

theorem denote_rename_elementwise_on {ρ : String → String} (f : String) (exprsIn : List Expr) (exprOut : Expr)
    (hρ : InjOn ρ (Expr.namesL exprsIn ++ exprOut.names)) :
    denoteElementwiseFun f (Expr.renameL ρ exprsIn) (exprOut.rename ρ) = denoteElementwiseFun f exprsIn exprOut :=
  denoteElementwiseFun_rename_on f exprsIn exprOut hρ

/-- **Renaming, for the executable loop form `Denote.denoteId`** (through the tie): on concatenation-free
operations a renaming injective on the names in use leaves the result unchanged. -/
theorem denoteId_rename {ρ : String → String} (exprsIn exprsOut : List Expr)
    (hin : Expr.concatFreeL exprsIn = true) (hout : Expr.concatFreeL exprsOut = true)
    (hρ : InjOn ρ (Expr.namesL exprsIn ++ Expr.namesL exprsOut)) :
    okOpt (denoteId (Expr.renameL ρ exprsIn) (Expr.renameL ρ exprsOut)) = okOpt (denoteId exprsIn exprsOut) := by
  rw [denoteId_fun_agree_multi _ _ (by rw [concatFreeL_rename]; exact hin) (by rw [concatFreeL_rename]; exact hout),
    denoteId_fun_agree_multi _ _ hin hout, denote_rename_on _ _ hρ]

/-- The same for `Denote.denoteElementwise`. -/
theorem denoteElementwise_rename {ρ : String → String} (f : String) (exprsIn : List Expr) (exprOut : Expr)
    (hin : Expr.concatFreeL exprsIn = true) (hout : exprOut.concatFree = true)
    (hρ : InjOn ρ (Expr.namesL exprsIn ++ exprOut.names)) :
    okOpt (denoteElementwise f (Expr.renameL ρ exprsIn) (exprOut.rename ρ)) = okOpt (denoteElementwise f exprsIn exprOut) := by
  rw [denoteElementwise_fun_agree _ _ _ (by rw [concatFreeL_rename]; exact hin) (by rw [concatFree_rename]; exact hout),
    denoteElementwise_fun_agree _ _ _ hin hout, denote_rename_elementwise_on _ _ _ hρ]

/-- A renaming that is *not* injective (every unknown name goes to `"w"`), but injective on `a b c d`. -/
def collapseNames (n : String) : String :=
  if n = "a" then "b" else if n = "b" then "a" else if n = "c" then "x" else if n = "d" then "c" else "w"

/-- Non-vacuity: `collapseNames` is not injective, is injective on the names of `a (b c), d a -> (c a) b, a d`
(sizes 2, 2, 1, 3), changes the expressions, and the theorem applies to the loop form. -/
example :
    let a := Expr.axis "a" 2; let b := Expr.axis "b" 2; let c := Expr.axis "c" 1; let d := Expr.axis "d" 3
    let ins := [Expr.list [a, .flat (.list [b, c])], Expr.list [d, a]]
    let outs := [Expr.list [.flat (.list [c, a]), b], Expr.list [a, d]]
    collapseNames "p" = collapseNames "q" ∧
    okOpt (denoteId (Expr.renameL collapseNames ins) (Expr.renameL collapseNames outs)) = okOpt (denoteId ins outs) :=
  ⟨by decide, denoteId_rename _ _ (by decide +kernel) (by decide +kernel) (by unfold InjOn; decide +kernel)⟩

example :
    let a := Expr.axis "a" 2; let b := Expr.axis "b" 2; let c := Expr.axis "c" 1; let d := Expr.axis "d" 3
    let ins := [Expr.list [a, .flat (.list [b, c])], Expr.list [d, a]]
    let outs := [Expr.list [.flat (.list [c, a]), b], Expr.list [a, d]]
    (match okOpt (denoteId (Expr.renameL collapseNames ins) (Expr.renameL collapseNames outs)) with
      | some [t1, t2] => t1.shape == [2, 2] && t2.shape == [2, 3] && Cell.beqL (t2.data.take 3) [.src 1 0, .src 1 2, .src 1 4]
      | _ => false) = true := by decide +kernel

/-! ### Transfer of the permutation laws to the loop form -/

theorem okOpt_map {α β : Type} (g : α → β) (x : Denote.E α) : okOpt (x.map g) = (okOpt x).map g := by
  cases x <;> rfl

theorem ok_of_okOpt {α : Type} {x : Denote.E α} {a : α} (h : okOpt x = some a) : x = .ok a := by
  cases x with
  | error e => simp [okOpt] at h
  | ok b => simp only [okOpt, Option.some.injEq] at h; rw [h]

/-- **Input permutation law for the executable loop form `Denote.denoteId`.** -/
theorem denoteId_permute_input (e e' eo : Expr) (perm : List Nat)
    (he : e.concatFree = true) (he' : e'.concatFree = true) (heo : eo.concatFree = true)
    (hperm : isPermOf perm (rootDims e).length = true) (hp : permuteL perm (rootDims e) = some (rootDims e'))
    (hcons : consistentB (Dim.leavesL (rootDims e) ++ Dim.leavesL (rootDims eo)) = true) :
    ∃ plan, planInstr [shapeOf e] (.transpose 0 perm) = .ok plan ∧ plan.shape = shapeOf e' ∧
      (okOpt (denoteId [e'] [eo])).map (List.map (substT [⟨plan.shape, plan.cells⟩])) = okOpt (denoteId [e] [eo]) := by
  obtain ⟨plan, hplan, hs, h⟩ := denote_permute_input_expr e e' eo perm he he' heo hperm hp hcons
  refine ⟨plan, hplan, hs, ?_⟩
  rw [denoteId_fun_agree e' eo he' heo, denoteId_fun_agree e eo he heo, ← h, okOpt_map]

/-- **Output permutation law for the executable loop form `Denote.denoteId`.** -/
theorem denoteId_permute_output (e eo eo' : Expr) (perm : List Nat) (T T' : Tensor Cell)
    (he : e.concatFree = true) (heo : eo.concatFree = true) (heo' : eo'.concatFree = true)
    (hperm : isPermOf perm (rootDims eo).length = true) (hp : permuteL perm (rootDims eo) = some (rootDims eo'))
    (hcons : consistentB (Dim.leavesL (rootDims eo)) = true)
    (h : okOpt (denoteId [e] [eo]) = some [T]) (h' : okOpt (denoteId [e] [eo']) = some [T']) :
    ∃ plan, planInstr [shapeOf eo] (.transpose 0 perm) = .ok plan ∧ runPlan symAlg [T] plan = T' := by
  rw [denoteId_fun_agree e eo he heo] at h
  rw [denoteId_fun_agree e eo' he heo'] at h'
  exact denote_permute_output_expr e eo eo' perm T T' hperm hp hcons (ok_of_okOpt h) (ok_of_okOpt h')

/-! ### Reductions (executable loop form `Denote.denoteReduce`) -/

/-- **Reductions are invariant under consistent renaming.**  For concatenation-free expressions and a renaming
that is injective on the axis names in use, `Denote.denoteReduce` (the loop form the C01 validator uses; bracketed
axes are the marked leaves) returns the same symbolic tensor -- the same canonical reduction cell at every output
position -- and fails with the same message. -/
theorem denote_reduce_rename {ρ : String → String} (f : String) (e eo : Expr)
    (he : e.concatFree = true) (heo : eo.concatFree = true) (hρ : InjOn ρ (e.names ++ eo.names)) :
    denoteReduce f (e.rename ρ) (eo.rename ρ) = denoteReduce f e eo :=
  denoteReduce_rename_on f e eo he heo hρ

/- Not proved (`denote_reduce_bracket_order`): permuting the bracketed axes among themselves leaves
`denoteReduce` unchanged.  The reduced cells are visited in a different order; `mkRed` sorts them with
`sortCells` (insertion sort by `Cell.cmp`), so the statement needs (a) `Cell.cmp` is a total order with
`cmp a b = .eq → a = b` (mutual induction over cells), hence `sortCells` depends only on the multiset, and
(b) the two enumerations `assignments marked` / `assignments marked'` yield permutations of the same cell list.
The driver-level relation R2/R3 on reductions (tools/props/c08.py) samples it. -/

/-- Non-vacuity: `sum: a [b c] d -> d a` with a = b = 2, c = 1, d = 3 under the non-injective `collapseNames`
(injective on `a b c d`): the theorem applies, the renamed expressions differ, and the result holds genuine
two-element reductions. -/
example :
    let a := Expr.axis "a" 2; let b := Expr.axis "b" 2; let c := Expr.axis "c" 1; let d := Expr.axis "d" 3
    let e := Expr.list [a, .br (.list [b, c]), d]; let eo := Expr.list [d, a]
    denoteReduce "sum" (e.rename collapseNames) (eo.rename collapseNames) = denoteReduce "sum" e eo :=
  denote_reduce_rename "sum" _ _ (by decide +kernel) (by decide +kernel) (by unfold InjOn; decide +kernel)

example :
    let a := Expr.axis "a" 2; let b := Expr.axis "b" 2; let c := Expr.axis "c" 1; let d := Expr.axis "d" 3
    let e := Expr.list [a, .br (.list [b, c]), d]; let eo := Expr.list [d, a]
    (match denoteReduce "sum" (e.rename collapseNames) (eo.rename collapseNames) with
      | .ok t => t.shape == [3, 2] && Cell.beqL (t.data.take 2)
          [.app "red:sum" [.src 0 0, .src 0 3], .app "red:sum" [.src 0 6, .src 0 9]]
      | _ => false) = true := by decide +kernel

end Einx.C08
