import EinxModel.Proofs.XlateUnravel
import EinxModel.Proofs.Peel
import EinxModel.Extracted.Unravel
/-!
C01 (tie model ↔ source by regeneration) — the coordinate form of the argmax/argmin denotation
(`Denote/Expr3.lean`: `peel`, `peelCells`; `peel_eq_unravel`, `argfind_coordinates_meaning` in `Props/C01.lean`)
is what `einx/_src/adapter/_util.py:_unravel` computes: `Extracted/Unravel.lean` is the translation of that
function (one element of the index tensor; `classical.divmod` = `(/, %)`), regenerated from /repo by
`tools/extract/unravel.py` on every run.
-/
namespace Einx.Denote
open Einx.Py Einx.Extracted

/-- **`_unravel`, translated from source, is the model's `peel`** on every flat index and every list of sizes,
under the guard the front end establishes (a stacking position is given, or exactly one axis is bracketed — with
several bracketed axes and no bracketed output axis `argfind` is never reached): the loop
`for i, s in reversed(list(enumerate(ravel_shape))): tensor, out[i] = divmod(tensor, s)` never raises (every
position of `out_indices` is assigned exactly once) and yields the coordinates that the denotation writes (`peel`);
one bracketed axis takes the 1-D shortcut. -/
theorem extracted_unravel_eq (k : Nat) (sizes : List Nat) (axis : Option Nat) (hax : axis.isSome = true ∨ sizes.length = 1) :
    Unravel.unravelKernel k sizes axis = .ok (peel sizes k) := by
  unfold Unravel.unravelKernel
  by_cases h1 : sizes.length = 1
  · match sizes, h1 with
    | [a], _ => simp [peel]; rfl
  · have hb : (sizes.length == 1) = false := by simpa using h1
    have hs : axis.isNone = false := by
      rcases hax with h | h
      · cases axis <;> simp_all
      · exact absurd h h1
    simp only [hb, Bool.false_eq_true, if_false, hs]
    obtain ⟨q, hq⟩ := unravel_fold sizes.reverse k []
    simp only [List.reverse_reverse, List.append_nil] at hq
    have hp : peel sizes k = revPeel sizes k := by
      unfold peel revPeel
      match sizes, h1 with
      | [], _ => rfl
      | [a], h => exact absurd rfl h
      | a :: b :: t, _ => rfl
    rw [hp]
    have hstep : (fun (x : Nat × List (Option Nat)) (x_1 : Nat × Nat) => (do
        let out_indices ← listSet x.snd (Int.ofNat x_1.fst) (some (x.fst % x_1.snd))
        pure (x.fst / x_1.snd, out_indices) : Except String (Nat × List (Option Nat)))) = unravelStep := rfl
    rw [hstep, hq]
    exact allSome_map_some _

/-- Outside that guard (several sizes, `axis=None`) the source raises: `_stack` evaluates `axis < 0` on `None`. -/
theorem extracted_unravel_none (k : Nat) (sizes : List Nat) (h : sizes.length ≠ 1) :
    Unravel.unravelKernel k sizes none = .error "TypeError" := by
  unfold Unravel.unravelKernel
  have hb : (sizes.length == 1) = false := by simpa using h
  obtain ⟨q, hq⟩ := unravel_fold sizes.reverse k []
  simp only [List.reverse_reverse, List.append_nil] at hq
  have hstep : (fun (x : Nat × List (Option Nat)) (x_1 : Nat × Nat) => (do
      let out_indices ← listSet x.snd (Int.ofNat x_1.fst) (some (x.fst % x_1.snd))
      pure (x.fst / x_1.snd, out_indices) : Except String (Nat × List (Option Nat)))) = unravelStep := rfl
  simp only [hb, Bool.false_eq_true, if_false, Option.isNone_none, if_true]
  rw [hstep, hq]
  rfl

/-- With `peel_eq_unravel`: inside the block, the source computes the row-major multi-index. -/
theorem extracted_unravel_is_unravel (k : Nat) (sizes : List Nat) (axis : Option Nat)
    (hax : axis.isSome = true ∨ sizes.length = 1) (h : k < prod sizes) :
    Unravel.unravelKernel k sizes axis = .ok (unravel sizes k) := by
  rw [extracted_unravel_eq k sizes axis hax, peel_eq_unravel sizes k h]

/-- Non-vacuity: flat index 17 in a block of sizes (2, 3, 4) has coordinates (1, 1, 1); a single size keeps the
index; the translation is not the conservative stand-in. -/
example : Unravel.unravelKernel 17 [2, 3, 4] (some 0) = .ok [1, 1, 1] ∧ Unravel.unravelKernel 5 [7] none = .ok [5] := by
  constructor <;> rfl

end Einx.Denote
