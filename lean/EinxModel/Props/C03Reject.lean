import EinxModel.Proofs.RejectConcat
/-!
# C03 (parser) — ill-formed descriptions are rejected with `SyntaxError`, never a tree, never an internal error

All statements are about `Einx.Notation.parseOp` / `parseArgs` / `parseArg` (model M1 of
`einx/_src/namedtensor/stage1/parse.py`, the definitions the driver executes; tied to the real parser by the C12
correspondence — exhaustive short strings and random strings: tree, raise site, carets — and by stream R of
`tools/props/c03.py`, which generates descriptions having each defect below and compares class and raise site).

The defects are stated on the *string* (no token, no tree): `alphabetChar`, `balanced`/`delimRun` (Proofs/RejectLex.lean).

* `parse_no_internal` — every string yields a tree or a `SyntaxError`; none of the five internal outcomes that
  `parse_total_cases` (C12) leaves open is reachable with the constants of the source as extracted on this run.
* `parse_rejects_bad_char` — a character outside the token alphabet: `SyntaxError` "The expression '…' is not allowed" (l.73).
* `parse_rejects_unwrapped_concat` — a `+` outside every pair of delimiters (`atDepth0 '+'`): `SyntaxError` ("Concatenated axes
  must be wrapped in parentheses" l.216, or an earlier one), never a tree.
* `parse_rejects_unbalanced` — delimiters `( ) [ ]` not properly nested: `SyntaxError`; if every token is valid, exactly
  "closing … not opened" (l.118) for a closer that does not match and "opening … not closed" (l.128) for leftover openers;
  conversely the delimiter stack accepts every balanced string (`stack_accepts_iff_balanced`).
-/
namespace Einx.Props.C03Reject
open Einx.Notation

/-! ## Obligations over the extracted constants -/

/-- The characters of the literals and operators: exactly `- > , + space ( [ ) ] .` -/
theorem literal_characters_exact : litChars.eraseDups = "->,+ ([)].".toList := by decide

/-- Every operator of `_nary_ops` has a handler in `parse` (no `raise AssertionError()` fall-through, D5 `a | a`). -/
theorem every_operator_handled : ∀ op ∈ naryOps, op ∈ modelHandled := naryOps_handled

/-- The characters the token validation accepts as digits are exactly those `int()` accepts (no `ValueError` for `²`). -/
theorem digits_are_decimal : Einx.Extracted.digitRanges = Einx.Extracted.decimalRanges := digit_ranges_decimal

/-! ## Totality without internal outcomes -/

/-- **`parse_no_internal`**: `parse_op` returns a tree or raises `SyntaxError` — for every string. -/
theorem parse_no_internal (text : Str) :
    (∃ x, parseOp text = .ok x) ∨ (∃ k pos alts, parseOp text = .error (.syntax k pos alts)) := by
  have h := parseOp_noint text
  cases hp : parseOp text with
  | ok x => exact Or.inl ⟨x, rfl⟩
  | error err =>
    rw [hp] at h
    rcases err with ⟨k, pos, alts⟩ | ⟨k⟩
    · exact Or.inr ⟨k, pos, alts, rfl⟩
    · exact h.elim

/-- A string that is not accepted is rejected with a `SyntaxError` whose carets lie inside the string. -/
theorem parse_rejected_is_syntax_error (text : Str) (h : ∀ x, parseOp text ≠ .ok x) :
    ∃ k pos alts, parseOp text = .error (.syntax k pos alts) ∧ ∀ p ∈ pos, 0 ≤ p ∧ p < text.length := by
  rcases parse_no_internal text with ⟨x, hx⟩ | ⟨k, pos, alts, he⟩
  · exact absurd hx (h x)
  · refine ⟨k, pos, alts, he, ?_⟩
    have := parseOp_ok text
    rw [he] at this
    exact this.1

/-- **`parse_root_shape`**: every tree `parse_op` returns is `Op[Args(…)]` or `Op[Args(…), Args(…)]` — what `_parse_op`
    (`op.children[0].children`, `op.children[1].children`) and `parse_args` (`assert isinstance(op.children[0], Args)`) rely on. -/
theorem parse_root_shape (text : Str) (x : Expr) (h : parseOp text = .ok x) :
    (∃ ins b1 e1 b e, x = .op [.args ins b1 e1] b e) ∨
    (∃ ins b1 e1 outs b2 e2 b e, x = .op [.args ins b1 e1, .args outs b2 e2] b e) := parseOp_root text x h

/-- `parse_args` returns an `Args` tree or raises `SyntaxError` (its `assert` cannot fire); a description with an arrow is
    the `SyntaxError` "must not contain a '->' operator". -/
theorem parse_args_no_internal (text : Str) :
    (∃ cs b e, parseArgs text = .ok (.args cs b e)) ∨ (∃ k pos alts, parseArgs text = .error (.syntax k pos alts)) := by
  unfold parseArgs
  rcases parse_no_internal text with ⟨x, hx⟩ | ⟨k, pos, alts, he⟩
  · rw [hx]
    rcases parse_root_shape text x hx with ⟨ins, b1, e1, b, e, rfl⟩ | ⟨ins, b1, e1, outs, b2, e2, b, e, rfl⟩
    · left; exact ⟨ins, b1, e1, rfl⟩
    · right; exact ⟨_, _, _, rfl⟩
  · rw [he]; right; exact ⟨k, pos, alts, rfl⟩

/-- `parse_arg` returns one expression or raises `SyntaxError`. -/
theorem parse_arg_no_internal (text : Str) :
    (∃ x, parseArg text = .ok x) ∨ (∃ k pos alts, parseArg text = .error (.syntax k pos alts)) := by
  unfold parseArg
  rcases parse_args_no_internal text with ⟨cs, b, e, h⟩ | ⟨k, pos, alts, h⟩
  · rw [h]
    simp only [Expr.children]
    match cs with
    | [c] => left; exact ⟨c, rfl⟩
    | [] => right; exact ⟨_, _, _, rfl⟩
    | _ :: _ :: _ => right; exact ⟨_, _, _, rfl⟩
  · rw [h]; right; exact ⟨k, pos, alts, rfl⟩

/-! ## Characters outside the alphabet -/

/-- **`parse_rejects_bad_char`**: a string that contains a character which is neither a name character `[a-zA-Z0-9_]`, a digit
    nor a character of a literal is rejected by the lexer with the `SyntaxError` of l.73 — whatever else the string contains. -/
theorem parse_rejects_bad_char (text : Str) (c : Char) (hc : c ∈ text) (hbad : alphabetChar c = false) :
    ∃ pos, parseOp text = .error (.syntax .invalidToken pos []) := by
  obtain ⟨pos, h⟩ := lex_bad_char text c hc hbad
  exact ⟨pos, by unfold parseOp; rw [h]⟩

/-- The same through `parse_args` / `parse_arg` (used by `solve_axes`, `matches`, …). -/
theorem parse_arg_rejects_bad_char (text : Str) (c : Char) (hc : c ∈ text) (hbad : alphabetChar c = false) :
    (∃ pos, parseArgs text = .error (.syntax .invalidToken pos [])) ∧ (∃ pos, parseArg text = .error (.syntax .invalidToken pos [])) := by
  obtain ⟨pos, h⟩ := parse_rejects_bad_char text c hc hbad
  exact ⟨⟨pos, by unfold parseArgs; rw [h]⟩, ⟨pos, by unfold parseArg parseArgs; rw [h]⟩⟩

/-! ## Unbalanced delimiters -/

/-- After a successful lexer pass the kind of imbalance decides the error: a closing delimiter that does not match the innermost
    open one (or with nothing open) is "closing … not opened"; delimiters left open at the end are "opening … not closed". -/
theorem parse_unbalanced_kind (text : Str) (toks : List Token) (hl : lex text = .ok toks) :
    (delimRun text [] = none → ∃ pos, parseOp text = .error (.syntax .closingNotOpened pos [])) ∧
    (∀ c st, delimRun text [] = some (c :: st) → ∃ pos, parseOp text = .error (.syntax .openingNotClosed pos [])) := by
  have hs := stack_scan text toks hl
  constructor
  · intro h
    rw [h] at hs
    obtain ⟨pos, hp⟩ := hs
    exact ⟨pos, by unfold parseOp; rw [hl]; simp only; rw [hp]⟩
  · intro c st h
    rw [h] at hs
    obtain ⟨pos, hp⟩ := hs
    exact ⟨pos, by unfold parseOp; rw [hl]; simp only; rw [hp]⟩

/-- **`parse_rejects_unbalanced`**: a string whose delimiters `( ) [ ]` are not properly nested and closed is rejected with a
    `SyntaxError` raised by the lexer or the delimiter stack — never a tree, never an internal error. -/
theorem parse_rejects_unbalanced (text : Str) (h : balanced text = false) :
    ∃ k pos, parseOp text = .error (.syntax k pos []) ∧ (k = .invalidToken ∨ k = .closingNotOpened ∨ k = .openingNotClosed) := by
  cases hl : lex text with
  | error err =>
    unfold lex at hl
    dsimp only at hl
    split at hl
    · cases hl
      exact ⟨_, _, by unfold parseOp lex; dsimp only; rename_i t ht; rw [ht], Or.inl rfl⟩
    · cases hl
  | ok toks =>
    have hk := parse_unbalanced_kind text toks hl
    cases hr : delimRun text [] with
    | none =>
      obtain ⟨pos, hp⟩ := hk.1 hr
      exact ⟨_, pos, hp, Or.inr (Or.inl rfl)⟩
    | some st =>
      cases st with
      | nil => simp [balanced, hr] at h
      | cons c st =>
        obtain ⟨pos, hp⟩ := hk.2 c st hr
        exact ⟨_, pos, hp, Or.inr (Or.inr rfl)⟩

/-- Converse for the first two stages: with valid tokens, the delimiter stack builds a token tree iff the string is balanced. -/
theorem stack_accepts_iff_balanced (text : Str) (toks : List Token) (hl : lex text = .ok toks) :
    (∃ tree, buildTree (dedupSpaces toks false) [] [] = .ok tree) ↔ balanced text = true := by
  have hs := stack_scan text toks hl
  constructor
  · rintro ⟨tree, ht⟩
    rw [ht] at hs
    cases hr : delimRun text [] with
    | none => rw [hr] at hs; obtain ⟨_, hp⟩ := hs; cases hp
    | some st =>
      cases st with
      | nil => simp [balanced, hr]
      | cons c st => rw [hr] at hs; obtain ⟨_, hp⟩ := hs; cases hp
  · intro hb
    have : delimRun text [] = some [] := by simpa [balanced] using hb
    rw [this] at hs
    exact hs

/-! ## Operator misuse: concatenation outside parentheses -/

/-- **`parse_rejects_unwrapped_concat`**: a string with a `+` that stands outside every pair of delimiters (`atDepth0 '+' text []`:
    the bracket scan has an empty stack at that position) is rejected with a `SyntaxError` — the rule "Concatenated axes must be
    wrapped in parentheses" (l.216) for *every* such string, whatever the rest of it looks like (another syntax error may be
    reported first; the carets are inside the string). -/
theorem parse_rejects_unwrapped_concat (text : Str) (h : atDepth0 '+' text [] = true) :
    ∃ k pos alts, parseOp text = .error (.syntax k pos alts) ∧ ∀ p ∈ pos, 0 ≤ p ∧ p < text.length :=
  parse_rejected_is_syntax_error text (parseOp_plus_depth0 text h)

/-- An accepted description is balanced and consists of alphabet characters only (necessary conditions of `parse_op`'s domain). -/
theorem parse_ok_necessary (text : Str) (x : Expr) (h : parseOp text = .ok x) :
    balanced text = true ∧ ∀ c ∈ text, alphabetChar c = true := by
  constructor
  · cases hb : balanced text with
    | true => rfl
    | false =>
      obtain ⟨k, pos, hp, _⟩ := parse_rejects_unbalanced text hb
      rw [h] at hp; cases hp
  · intro c hc
    cases ha : alphabetChar c with
    | true => rfl
    | false =>
      obtain ⟨pos, hp⟩ := parse_rejects_bad_char text c hc ha
      rw [h] at hp; cases hp

/-! ## Non-vacuity -/

def errOf : Res Expr → Option Err
  | .ok _ => none
  | .error err => some err

/-- The defects exist and the reported sites are the ones stated: a non-ASCII letter, a stray `|`, a superscript digit;
    a closer without opener, a mismatching closer, an opener left open. -/
example :
    [errOf (parseOp "a é -> a".toList), errOf (parseOp "a | a".toList), errOf (parseOp "a ² b".toList),
     errOf (parseOp "a ) b".toList), errOf (parseOp "a (b] c".toList), errOf (parseOp "a [b (c".toList)] =
    [some (.syntax .invalidToken [2] []), some (.syntax .invalidToken [2] []), some (.syntax .invalidToken [2] []),
     some (.syntax .closingNotOpened [2] []), some (.syntax .closingNotOpened [4] []), some (.syntax .openingNotClosed [5] [])] := by
  decide +kernel

example : alphabetChar 'é' = false ∧ alphabetChar '|' = false ∧ alphabetChar '²' = false ∧ alphabetChar 'a' = true ∧ alphabetChar '.' = true := by
  decide

example : balanced "a (b] c".toList = false ∧ balanced "a [b (c".toList = false ∧ balanced "a [b (c)] ()".toList = true ∧
    delimRun "a (b] c".toList [] = none ∧ delimRun "a [b (c".toList [] = some [')', ']'] := by decide

/-- `parse_rejects_bad_char` / `parse_rejects_unbalanced` instantiated. -/
example : ∃ pos, parseOp "a é -> a".toList = .error (.syntax .invalidToken pos []) :=
  parse_rejects_bad_char _ 'é' (by decide) (by decide)

example : ∃ k pos, parseOp "a [b (c".toList = .error (.syntax k pos []) ∧ (k = .invalidToken ∨ k = .closingNotOpened ∨ k = .openingNotClosed) :=
  parse_rejects_unbalanced _ (by decide)

/-- Unwrapped concatenations: the defect predicate on examples, the reported sites, and the theorem instantiated. -/
example : atDepth0 '+' "a + b".toList [] = true ∧ atDepth0 '+' "a, b + c -> d".toList [] = true ∧ atDepth0 '+' "(a + b) c".toList [] = false ∧
    atDepth0 '+' "[a + b]".toList [] = false := by decide

example :
    [errOf (parseOp "a + b".toList), errOf (parseOp "a, b + c -> d".toList), errOf (parseOp "a + [b]".toList), errOf (parseOp "(a + b) c".toList)] =
    [some (.syntax .concatNotWrapped [0, 1, 2, 3, 4] []), some (.syntax .concatNotWrapped [3, 4, 5, 6, 7] []),
     some (.syntax .concatOperand [4, 5, 6, 2] []), none] := by decide +kernel

example : ∃ k pos alts, parseOp "a, b + c -> d".toList = .error (.syntax k pos alts) ∧ ∀ p ∈ pos, 0 ≤ p ∧ p < 13 :=
  parse_rejects_unwrapped_concat _ (by decide)

/-- `parse_no_internal` has both branches inhabited. -/
example : errOf (parseOp "a [b c]... (d + 1) -> a".toList) = none ∧ errOf (parseOp "a -> b -> c".toList) = some (.syntax .multipleArrows [2, 3, 7, 8] []) := by
  decide +kernel

end Einx.Props.C03Reject
