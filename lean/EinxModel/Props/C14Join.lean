import EinxModel.Props.C14
import EinxModel.Props.C16
import EinxModel.Update.Desc
/-!
C14 / C01 / C16 (work package "join") — the lowering of indexed updates and of `get_at` as a function of the
description alone.

`AtLower.lowerUpdate` / `AtLower.lowerGetAt` (Update/LowerProg.lean) emit the complete instruction sequence from
einx's solved expressions; the iteration space of an update is computed by the C16 model of `_join_exprs`
(`AtLower.intermediate`).  They are tied to the code by the stream `at_model` (tools/props/at_tie.py: instruction by
instruction against the traced graph).  `AtDesc.descOp` / `descGetOp` (Update/Desc.lean) build, from the same
description and the same `intermediate`, the solved operation `Update.Op` that the denotation and the value-level
lowering of `Props/C14.lean` speak about.

Proved here, for **all** descriptions, coordinate / update / target contents (duplicate addresses included):
  * `intermediate_spec`: `_join_exprs` never raises on the operands of an update and returns every un-bracketed axis of
    length ≠ 1 exactly once — so `lowerUpdate` and `descOp` have an iteration space, whatever the description;
  * `lower_update_correct_partial`: the value-level lowering with the regenerated kernel / registrations computes the
    denotation of `descOp`'s operation; hypothesis `coveredB op` (decidable, recomputed by the driver for every traced
    call: every joined axis occurs in a coordinate, target or update expression and no length is 0);
  * `lower_get_at_correct` / `extracted_get_at_correct`: `np.take` of the flat target at the ravelled index is the
    `get_at` denotation `Update.getAt` of `descGetOp`'s operation.
Not proved universally (recomputed per traced call by the proved validator, `idx_instance` / `upd_instance` /
`instance` of the driver kind `lower_at`): that the *instruction sequence* `lowerUpdate` emits evaluates to the
value-level `Update.lower` of `descOp`, and `coveredB` as a consequence of the domain.  See docs/wp/join.md (b).
-/
namespace Einx.AtDesc
open Einx.Generic Einx.AtLower Einx.Update

theorem coveredB_iff (op : Op) : coveredB op = true ↔ op.covered := by
  simp only [coveredB, Bool.and_eq_true, List.all_eq_true, decide_eq_true_eq, List.mem_range, Bool.or_eq_true,
    List.contains_iff_mem, Op.covered]

/-- **`_join_exprs` inside the update lowering** (C16's model used by C14's): for every target, coordinate and update
expression the intermediate expression exists, names every axis once, and its names are exactly the un-bracketed
axes of length ≠ 1 of the prepared operands. -/
theorem intermediate_spec (tgt : In) (coords : List In) (upd : In) :
    ∃ inter, intermediate tgt coords upd = .ok inter ∧ (names inter).Nodup ∧
      ∀ x, x ∈ names inter ↔ x ∈ (Einx.Order.Join.nonUnit
        (coords.map (fun i => joinArg (squeezedExpr i.marked i.e) i.marked)
          ++ [joinArg (squeezedExpr upd.marked upd.e) upd.marked, joinArg (squeezedExpr tgt.marked tgt.e) tgt.marked])).flatten := by
  obtain ⟨r, _, hr, _, _, hnd, hm⟩ := Einx.Order.join_exprs_order_invariant Einx.Order.Join.enumFirst Einx.Order.Join.enumFirst
    Einx.Order.Join.enumFirst_ok Einx.Order.Join.enumFirst_ok
    (coords.map (fun i => joinArg (squeezedExpr i.marked i.e) i.marked)
      ++ [joinArg (squeezedExpr upd.marked upd.e) upd.marked, joinArg (squeezedExpr tgt.marked tgt.e) tgt.marked])
  refine ⟨r.map (fun (n, v) => ⟨n, v⟩), ?_, ?_, ?_⟩
  · simp only [intermediate, hr]; rfl
  · have : names (r.map (fun (n, v) => (⟨n, v⟩ : Ax))) = r.map (·.1) := by
      simp [names, List.map_map, Function.comp_def]
    rw [this]; exact hnd
  · intro x
    have : names (r.map (fun (n, v) => (⟨n, v⟩ : Ax))) = r.map (·.1) := by
      simp [names, List.map_map, Function.comp_def]
    rw [this]; exact hm x

/-- **The lowering of an update computes the denotation, as a function of the description** (value level).  For every
mode, every description (target, coordinates, updates as the decomposer receives them), all coordinate and update
contents and every target: if the solved operation of the description (`descOp`: iteration space by the C16 model of
`_join_exprs`) is covered and its denotation is defined (coordinates in range), then ravelling with the kernel
regenerated from `_ravel`, broadcasting as the regenerated registrations say and the numpy primitive of the mode on the
flat target produce exactly the denotation — duplicate addresses included (`add_at_sum`, `set_at_one_of` say what that
is).  Partial: `coveredB op` is a decidable hypothesis (recomputed per traced call), not yet derived from the domain. -/
theorem lower_update_correct_partial (m : Mode) (tgt : In) (coords : List In) (upd : In) (cdata : List (List Nat))
    (udata : List Int) (op : Op) (t r : List Int)
    (hop : descOp tgt coords upd cdata udata = some op) (hc : coveredB op = true)
    (hd : denote m op t = some r) : lower Einx.Extracted.updateLowering m op t = some r := by
  have _ := hop
  exact extracted_lowering_sound m op t r ((coveredB_iff op).1 hc) hd

/-- **`get_at`: reading the flat target at the ravelled index is the denotation** (value level), for every index kernel
that is the row-major formula. -/
theorem lower_get_at_correct (kernel : List Nat → List Nat → List Nat)
    (hk : ∀ shape idx : List Nat, idx.length = shape.length → (kernel idx shape).sum = ravel shape idx)
    (op : Op) (t r : List Int) (h : getAt op t = some r) : lowerGet kernel op t = some r := by
  have := mapOpt_map_of (f := readLowered kernel op t) (h := id) h (by
    intro σ _ c hg
    simp only [id]
    cases hts : targetShape op.axes op.tdims with
    | none => simp [hts] at hg
    | some tshape =>
      cases hti : op.tidxAt σ with
      | none => simp [hts, hti] at hg
      | some tidx =>
        simp only [hts, hti, readAt] at hg
        split at hg
        case isFalse => simp at hg
        case isTrue hv =>
          have hlen := valid_length (validb_iff.mp hv)
          simp only [readLowered, addrLowered, hts, hti, hk tshape tidx hlen]
          exact hg)
  simpa [lowerGet] using this

/-- … for the kernel the source tree defines now, and the operation of a description. -/
theorem extracted_get_at_correct (tgt : In) (coords : List In) (eout : List G) (cdata : List (List Nat)) (op : Op)
    (t r : List Int) (hop : descGetOp tgt coords eout cdata = some op) (h : getAt op t = some r) :
    lowerGet Einx.Extracted.ravelKernel op t = some r := by
  have _ := hop
  exact lower_get_at_correct _ (fun shape idx hl => ravel_index_correct shape idx hl) op t r h

/-! ### Non-vacuity -/

/-- `set_at("a [b c], a p [2], p -> a [b c]")` with `a = 2, b = 3, c = 4, p = 2`: the description alone gives the
iteration space `a p` (C16 model), the operation is covered, the denotation is defined (duplicate address for `a = 0`),
and the conclusion of `lower_update_correct_partial` is the expected tensor. -/
example :
    let tgt : In := ⟨0, [.ax ⟨"a", 2⟩, .ax ⟨"b", 3⟩, .ax ⟨"c", 4⟩], ["b", "c"]⟩
    let co : In := ⟨1, [.ax ⟨"a", 2⟩, .ax ⟨"p", 2⟩, .ax ⟨"u", 2⟩], ["u"]⟩
    let up : In := ⟨2, [.ax ⟨"p", 2⟩], []⟩
    (intermediate tgt [co] up).toOption = some [⟨"a", 2⟩, ⟨"p", 2⟩]
    ∧ ∃ op, descOp tgt [co] up [[0, 1, 0, 1, 2, 3, 0, 0]] [5, 7] = some op ∧ coveredB op = true
      ∧ denote .add op (List.replicate 24 0) = lower Einx.Extracted.updateLowering .add op (List.replicate 24 0)
      ∧ (denote .add op (List.replicate 24 0)).map (fun l => (l[1]?, l[23]?, l[12]?)) = some (some 12, some 5, some 7) := by
  refine ⟨by decide, _, rfl, by decide, by decide, by decide⟩

/-- `get_at("a [b], p -> p a")`: the operation of the description, a defined denotation and the lowered value. -/
example :
    let tgt : In := ⟨0, [.ax ⟨"a", 2⟩, .ax ⟨"b", 3⟩], ["b"]⟩
    let co : In := ⟨1, [.ax ⟨"p", 2⟩], []⟩
    ∃ op, descGetOp tgt [co] [.ax ⟨"p", 2⟩, .ax ⟨"a", 2⟩] [[2, 0]] = some op
      ∧ getAt op [10, 11, 12, 20, 21, 22] = some [12, 22, 10, 20]
      ∧ lowerGet Einx.Extracted.ravelKernel op [10, 11, 12, 20, 21, 22] = some [12, 22, 10, 20] := by
  refine ⟨_, rfl, by decide, by decide⟩

end Einx.AtDesc
