import EinxModel.Props.C13
import EinxModel.Props.C04
import EinxModel.Proofs.ExecCall
import EinxModel.Proofs.ExecSemFactory
/-!
# C13 with C04 — the named hypothesis `Exec` is discharged for compiled graphs

`Props/C13.lean:checker_sound` assumes `Exec g sched`: the compiled function evaluates every application reachable from the
output exactly once, and nothing else.  Here that hypothesis is *proved* for the program the code generator emits.

* `Exec/View.lean:toFactory` translates the C04 graph (the object `compile` is applied to) into the C13 graph type; the driver
  (`Driver/Exec.lean`, kind `exec_check`) runs `factoryOK` on the translated graph of every captured call and compares it with
  the directly decoded one.
* `exec_from_compile`: for every `Graph.WF` graph of the supported node language (`Exec.Supported`, decidable, evaluated by the
  harness on every captured graph: the compiled object is a graph, no operand mentions a nested graph, application outputs
  are pytrees of tracers) whose translation is serialisation-sane (`Factory.wf`, part of `factoryOK`), if `compile` succeeds
  then the schedule induced by the emitted program — the applications in the order in which the generator defines them,
  `appsOf comp.order` — satisfies `Exec`: no repetition (`visitOrder_nodup`), and it contains exactly the applications the
  C13 backward pass `reachable` marks.
* `checker_sound_compiled`: `checker_sound` without the hypothesis.
* `factory_called_once_compiled`: for an accepted graph, the compiled program contains exactly one statement for the factory's
  call node (`emit_once_wf`), and its event trace — which is the trace of the node-by-node reference evaluation of the graph
  (`compile_correct_wf`) — contains exactly one event produced by a node that calls (a cast of) the factory input: a call
  event with one positional argument (the node's, which is the solved shape) and exactly the keyword names of the model.

* `factory_call_value_compiled` (value level): under two further decidable premises (`rootStable fg`: the fuel of
  `Factory.root` suffices; `castsPlain g fg t`: a `Cast` of a tracer denoting input `t` yields a tracer), the event trace of the
  emitted program contains exactly one call event whose *function term is the object passed as input `t`* (`inAtom t`), with one
  positional argument and the model's keyword names; no other call event calls that object.  Proof: an invariant on the memo of
  the reference evaluation (`Proofs/ExecSem.lean`: a value is a tracked atom iff its tracer is a cast of `t`).

What is *not* proved here: that `conv` leaves the literal shape tuple unchanged (the positional argument is known by count in
the event and by value on the node); graphs with nested sub-graphs (none among the captured graphs; `vmap`-style adapters
cannot run here).
-/
namespace Einx.Props.C13
open Einx.Factory Einx.Compile Einx.Exec

/-- **exec_from_compile**: the schedule of the emitted program is an execution in the sense of `Exec`. -/
theorem exec_from_compile (cfg : UCfg) (fc : FCfg) (g : Compile.Graph) (aux : List TAux) (fg : Factory.Graph) (comp : Compiled)
    (hwf : g.WF = true) (hsup : Supported g = true) (hfg : toFactory g aux = some fg) (hfwf : Factory.wf fg = true)
    (h : compile cfg fc g = .ok comp) : Exec fg (appsOf comp.order) := by
  obtain ⟨_, _, ho, _, _⟩ := compile_parts cfg fc g comp h
  refine ⟨appsOf_nodup _ (visitOrder_nodup g hwf comp.order ho), fun i => ?_⟩
  rw [mem_appsOf, visitOrder_reach g aux fg hwf hsup hfg hfwf comp.order ho i, mem_reachable_iff fg hfwf i]

/-- **Soundness of the checker, for compiled graphs** (`checker_sound` without `Exec`): if `factoryOK` accepts the translated
graph then, in the schedule of the emitted program, exactly one evaluated node is a call of (a cast of) the factory at input
`p`; its positional arguments are exactly the tuple `solved`, its keyword names exactly the model's. -/
theorem checker_sound_compiled (cfg : UCfg) (fc : FCfg) (g : Compile.Graph) (aux : List TAux) (fg : Factory.Graph)
    (comp : Compiled) (d : Descr) (hwf : g.WF = true) (hsup : Supported g = true) (hfg : toFactory g aux = some fg)
    (hc : compile cfg fc g = .ok comp) (hok : factoryOK fg d = true)
    (p : Nat) (ad : ArgD) (sig : Sig) (t : Nat)
    (hd : d.args[p]? = some ad) (hf : ad.factory = some sig) (ht : fg.inputs[p]? = some t) :
    ∃ i fn args kwargs deps out,
      (appsOf comp.order).filter (callsInput fg t) = [i] ∧
      fg.apps[i]? = some ⟨GNode.call fn args kwargs deps, out⟩ ∧
      args.map V.asShape? = [some ad.solved] ∧
      kwargs.map (·.1) = (passed d.ctx ad.argIndex sig).map (·.1) := by
  have hfwf : Factory.wf fg = true := by
    unfold factoryOK at hok
    simp only [Bool.and_eq_true] at hok
    exact hok.1.1
  exact checker_sound fg d hok _ (exec_from_compile cfg fc g aux fg comp hwf hsup hfg hfwf hc) p ad sig t hd hf ht

/-- **factory_called_once_compiled**: for a compiled graph accepted by the checker and every factory position `p` (graph
input `t`, signature `sig`, solved shape `solved`):
  * exactly one application `i` of the schedule calls (a cast of) `t`; its positional arguments are the tuple `solved`;
  * the emitted program contains exactly one statement for it;
  * the tagged event trace of the emitted program is its event trace, which is the event trace of the reference evaluation
    `evalGraph` of the graph, and it contains exactly one event produced by a node that calls (a cast of) `t`: the event of
    node `i`, a call `f(a, k₁=…, …)` with one positional argument and exactly the keyword names the model passes. -/
theorem factory_called_once_compiled (cfg : UCfg) (fc : FCfg) (g : Compile.Graph) (aux : List TAux) (fg : Factory.Graph)
    (comp : Compiled) (d : Descr) (hwf : g.WF = true) (hsup : Supported g = true) (hfg : toFactory g aux = some fg)
    (hc : compile cfg fc g = .ok comp) (hok : factoryOK fg d = true)
    (p : Nat) (ad : ArgD) (sig : Sig) (t : Nat)
    (hd : d.args[p]? = some ad) (hf : ad.factory = some sig) (ht : fg.inputs[p]? = some t) :
    ∃ i fn args kwargs deps out f as ks r,
      (appsOf comp.order).filter (callsInput fg t) = [i] ∧
      fg.apps[i]? = some ⟨GNode.call fn args kwargs deps, out⟩ ∧ args.map V.asShape? = [some ad.solved] ∧
      comp.st.srcs.count i = 1 ∧
      evalGraph g cfg.unaryParens comp.order = .ok r ∧
      (taggedTrace { env := unbound } (sstmts comp.st)).map (·.2) = r.trace ∧
      (taggedTrace { env := unbound } (sstmts comp.st)).filter (byCallerOf fg t) = [(some i, .call (E.mk .call (f :: as ++ ks)))] ∧
      as.length = 1 ∧ ks.map kwName = (passed d.ctx ad.argIndex sig).map (fun kv => some kv.1) := by
  have hfwf : Factory.wf fg = true := by
    unfold factoryOK at hok
    simp only [Bool.and_eq_true] at hok
    exact hok.1.1
  obtain ⟨i, fn, args, kwargs, deps, out, hfilt, hnode, hargs, hkw⟩ :=
    checker_sound_compiled cfg fc g aux fg comp d hwf hsup hfg hc hok p ad sig t hd hf ht
  obtain ⟨S, _⟩ := supported_setup g aux fg hwf hsup hfg
  -- node `i` of the C04 graph
  obtain ⟨a, ha, hta⟩ := S.app_inv i _ hnode
  obtain ⟨fn', args', kwargs', deps', o, rfl, hfn, hargs', hkwargs'⟩ := toGApp_call_inv a fn args kwargs deps out hta.symm
  have himem : i ∈ (appsOf comp.order).filter (callsInput fg t) := by rw [hfilt]; simp
  obtain ⟨hisched, hicalls⟩ := List.mem_filter.1 himem
  have hivis : Visit.app i ∈ comp.order := (mem_appsOf _ i).1 hisched
  -- it calls (a cast of) input `t`, hence no allow-listed builtin
  have htin : t ∈ fg.inputs := List.mem_of_getElem? ht
  have hnot : isAllowInline g fn' = false := by
    simp only [callsInput, hnode] at hicalls
    cases hfnv : fn with
    | ref f =>
      rw [hfnv] at hicalls hfn
      exact not_allowInline_of_callsInput g aux fg hfg hfwf t htin fn' f hfn.symm (by simpa using hicalls)
    | _ => rw [hfnv] at hicalls; simp at hicalls
  -- exactly one statement
  obtain ⟨scopes, st, ho, he, hb⟩ := compile_parts cfg fc g comp hc
  have hcount : comp.st.srcs.count i = 1 := by
    rw [srcs_of_body st comp.st hb]
    have := emit_once_wf (ctxOf cfg g scopes) hwf comp.order ho st he i _ ha (by show (!isAllowInline g fn') = true; rw [hnot]; rfl)
    simpa [hivis] using this
  -- the trace
  obtain ⟨r, hr, htr, _⟩ := compile_correct_wf cfg fc g comp hwf hc
  have hprog : comp.st.program = (sstmts comp.st).map (·.stmt) := by simp [GState.program, sstmts]
  have htrace : (taggedTrace { env := unbound } (sstmts comp.st)).map (·.2) = r.trace := by
    rw [htr, hprog, taggedTrace_events]
    simp
  -- the event of node `i`
  obtain ⟨f, as, ks, hev, hlen, hnames⟩ :=
    call_node_event cfg fc g comp hwf hc i fn' args' kwargs' deps' o ha hnot hivis { env := unbound }
  refine ⟨i, fn, args, kwargs, deps, out, f, as, ks, r, hfilt, hnode, hargs, hcount, hr, htrace, ?_, ?_, ?_⟩
  · rw [← hev]
    apply List.filter_congr
    intro q hq
    simp only [byCallerOf, isTag]
    cases hq1 : q.1 with
    | none => simp
    | some j =>
      have hjvis := tagged_src_visited cfg fc g comp hc _ q hq j hq1
      cases hcj : callsInput fg t j with
      | true =>
        have : j ∈ (appsOf comp.order).filter (callsInput fg t) :=
          List.mem_filter.2 ⟨(mem_appsOf _ j).2 hjvis, hcj⟩
        rw [hfilt] at this
        simp only [List.mem_singleton] at this
        subst this
        simp [hcj]
      | false =>
        have : j ≠ i := by
          intro hji
          rw [hji, hicalls] at hcj
          cases hcj
        simp [hcj, this]
  · have : args.length = 1 := by
      have := congrArg List.length hargs
      simpa using this
    rw [hlen, ← this, hargs', List.length_map]
  · rw [hnames]
    have h1 : kwargs.map (·.1) = kwargs'.map (·.1) := by rw [hkwargs']; simp [List.map_map, Function.comp_def]
    rw [h1] at hkw
    have := congrArg (List.map some) hkw
    simpa [List.map_map, Function.comp_def] using this

/-- **factory_call_value_compiled** (value level): for a compiled graph accepted by the checker, under the two further decidable
premises `rootStable fg` (the fuel of `Factory.root` suffices) and `castsPlain g fg t` (a `Cast` of a tracer denoting input `t`
yields a tracer), both
evaluated by the harness on every captured graph: for every factory position `p` (graph input `t`), the event trace of the
emitted program contains **exactly one call event whose function term is the object passed as input `t`** (`inAtom t`) — with one
positional argument and exactly the keyword names the model passes.  No other call event of the program, whatever node produced
it, calls that object. -/
theorem factory_call_value_compiled (cfg : UCfg) (fc : FCfg) (g : Compile.Graph) (aux : List TAux) (fg : Factory.Graph)
    (comp : Compiled) (d : Descr) (hwf : g.WF = true) (hsup : Supported g = true) (hfg : toFactory g aux = some fg)
    (hstable : rootStable fg = true)
    (hc : compile cfg fc g = .ok comp) (hok : factoryOK fg d = true)
    (p : Nat) (ad : ArgD) (sig : Sig) (t : Nat) (hplain : castsPlain g fg t = true)
    (hd : d.args[p]? = some ad) (hf : ad.factory = some sig) (ht : fg.inputs[p]? = some t) :
    ∃ as ks,
      (execBlock { env := unbound } comp.st.program).trace.filter (trackedCall (isInAtom t)) =
        [.call (E.mk .call (inAtom t :: as ++ ks))] ∧
      as.length = 1 ∧ ks.map kwName = (passed d.ctx ad.argIndex sig).map (fun kv => some kv.1) := by
  have hfwf : Factory.wf fg = true := by
    unfold factoryOK at hok
    simp only [Bool.and_eq_true] at hok
    exact hok.1.1
  obtain ⟨i, fn, args, kwargs, deps, out, hfilt, hnode, hargs, hkw⟩ :=
    checker_sound_compiled cfg fc g aux fg comp d hwf hsup hfg hc hok p ad sig t hd hf ht
  obtain ⟨i', _, _, hcu, _, _, _⟩ := checker_guard fg d hok p ad sig t hd hf ht
  obtain ⟨S, _⟩ := supported_setup g aux fg hwf hsup hfg
  obtain ⟨a, ha, hta⟩ := S.app_inv i _ hnode
  obtain ⟨fn', args', kwargs', deps', o, rfl, hfn, hargs', hkwargs'⟩ := toGApp_call_inv a fn args kwargs deps out hta.symm
  have himem : i ∈ (appsOf comp.order).filter (callsInput fg t) := by rw [hfilt]; simp
  obtain ⟨hisched, hicalls⟩ := List.mem_filter.1 himem
  have hivis : Visit.app i ∈ comp.order := (mem_appsOf _ i).1 hisched
  have hii : i = i' := by
    have := callsInput_mem_classUsers fg t i hicalls
    rw [hcu] at this
    simpa using this
  subst hii
  have htin : t ∈ fg.inputs := List.mem_of_getElem? ht
  -- the function operand is a tracer in the class of `t`
  obtain ⟨f0, hf0, hroot⟩ : ∃ f0, fn = .ref f0 ∧ root fg f0 = t := by
    simp only [callsInput, hnode] at hicalls
    cases hfnv : fn with
    | ref f => rw [hfnv] at hicalls; exact ⟨f, rfl, by simpa using hicalls⟩
    | _ => rw [hfnv] at hicalls; simp at hicalls
  have hfn' : fn' = .var f0 := toV_ref_inv fn' f0 (by rw [← hfn, hf0])
  subst hfn'
  have hnot : isAllowInline g (.var f0) = false :=
    not_allowInline_of_callsInput g aux fg hfg hfwf t htin (.var f0) f0 (by simp [toV]) hroot
  obtain ⟨_, _, ho, _, _⟩ := compile_parts cfg fc g comp hc
  obtain ⟨rr, hr, htr, _⟩ := compile_correct_wf cfg fc g comp hwf hc
  have T := track_input g aux fg hwf hsup hfg hfwf hstable t hplain htin i hcu fn args kwargs deps out hnode
  obtain ⟨f, as, ks, hfl, hqf, hlen, hnames⟩ := tracked_call_once (isInAtom_qok t) T cfg.unaryParens comp.order rr hr
    (visitOrder_nodup g hwf comp.order ho) (fun k' hk' => visitOrder_enters g aux fg hwf hsup hfg comp.order ho k' hk')
    i f0 args' kwargs' deps' o ha hroot hnot hivis (by
      intro v hv ⟨j, y, args2, kwargs2, deps2, out2, hvj, hj, hy⟩
      subst hvj
      have hfa := S.app j _ hj
      have hcj : callsInput fg t j = true := by
        simp [callsInput, hfa, toGApp, toNode, toV, hy]
      have : j ∈ (appsOf comp.order).filter (callsInput fg t) := List.mem_filter.2 ⟨(mem_appsOf _ j).2 hv, hcj⟩
      rw [hfilt] at this
      simp only [List.mem_singleton] at this
      rw [this])
  rw [isInAtom_iff] at hqf
  subst hqf
  refine ⟨as, ks, by rw [← htr]; exact hfl, ?_, ?_⟩
  · have : args.length = 1 := by
      have := congrArg List.length hargs
      simpa using this
    rw [hlen, ← this, hargs', List.length_map]
  · rw [hnames]
    have h1 : kwargs.map (·.1) = kwargs'.map (·.1) := by rw [hkwargs']; simp [List.map_map, Function.comp_def]
    rw [h1] at hkw
    have := congrArg (List.map some) hkw
    simpa [List.map_map, Function.comp_def] using this

/-! ## Non-vacuity -/

/-- The graph of `Props/C13.lean:realGraph` (`einx.add("a b, b -> a b", np.zeros((2, 3)), f)` with `def f(shape, name=None)`)
as the C04 graph type, exactly as `Driver/Compile.lean` decodes the captured JSON. -/
def realCGraph : Compile.Graph :=
  { apps := [
      .import_ "numpy" none (some "np") 2,
      .getattr (.var 2) "add" 3,
      .getattr (.var 2) "reshape" 4,
      .cast (.var 1) (.var 5),
      .call (.var 5) [E.mk .tuple [.lit "3"]] [("name", .lit "\"add\"")] [.var 0, .var 1] 6,
      .builtin "isinstance" 7,
      .getattr (.var 2) "ndarray" 8,
      .call (.var 7) [.var 6, .var 8] [] [.var 0, .var 1] 9,
      .assert_ (.var 6) (.var 9) (some "Invalid type as output of tensor factory") (.var 10),
      .builtin "tuple" 11,
      .getattr (.var 10) "shape" 12,
      .call (.var 11) [.var 12] [] [.var 0, .var 1] 13,
      .operator "==" [.var 13, E.mk .tuple [.lit "3"]] 14,
      .assert_ (.var 10) (.var 14) (some "Expected shape (3,) as output of tensor factory") (.var 15),
      .cast (.var 15) (.var 16),
      .call (.var 4) [.var 16, E.mk .tuple [.lit "1", .lit "3"]] [] [.var 0, .var 1] 17,
      .cast (.var 17) (.var 18),
      .call (.var 3) [.var 0, .var 18] [] [.var 0, .var 1] 19,
      .cast (.var 19) (.var 20)],
    origin := [none, none, some 0, some 1, some 2, some 3, some 4, some 5, some 6, some 7, some 8, some 9, some 10,
               some 11, some 12, some 13, some 14, some 15, some 16, some 17, some 18],
    graphs := [{ inputs := [0, 1], output := .var 20, name := some "op" }],
    top := .gref 0 }

def realAux : List TAux :=
  [⟨"tensor", some [2, 3], ""⟩, ⟨"convertible", none, "function"⟩, {}, {}, {}, ⟨"convertible", some [3], "function"⟩, {}, {},
   {}, {}, {}, {}, {}, {}, {}, {}, ⟨"tensor", some [3], ""⟩, {}, ⟨"tensor", some [1, 3], ""⟩, {}, ⟨"tensor", some [2, 3], ""⟩]

def fixedCfg : UCfg := { countFirst := true, outputsRecursed := false, aliasForward := true, forceInlineWins := true,
                         unaryParens := true, attrForceInline := true }

/-- The hypotheses of `exec_from_compile` / `factory_called_once_compiled` are met by a captured graph: it is well-formed and
supported, its translation is accepted by the checker, and `compile` succeeds; the induced schedule has 19 applications. -/
example : realCGraph.WF = true ∧ Supported realCGraph = true := by decide +kernel

example : (match toFactory realCGraph realAux with
    | some fg => some (factoryOK fg realDescr, Factory.wf fg, (reachable fg).length)
    | none => none) = some (true, true, 19) := by decide +kernel

example : (match compile fixedCfg { checkLater := true, checkBlock := true, bindResult := true } realCGraph, toFactory realCGraph realAux with
    | .ok c, some fg => some (execOK fg (appsOf c.order), (appsOf c.order).filter (callsInput fg 1), c.st.srcs.count 4)
    | _, _ => none) = some (true, [4], 1) := by decide +kernel

/-- The tagged trace of the compiled program: four events (the factory call, two asserts, … ), exactly one of them produced
by a caller of input 1: `in1((3,), name="add")`, tagged with node 4. -/
example : (match compile fixedCfg { checkLater := true, checkBlock := true, bindResult := true } realCGraph, toFactory realCGraph realAux with
    | .ok c, some fg =>
      some (((taggedTrace { env := unbound } (sstmts c.st)).filter (byCallerOf fg 1)).map
        (fun p => (p.1, (callShape p.2).map (fun s => (s.2.1.length, s.2.2)))))
    | _, _ => none) = some [(some 4, some (1, ["name"]))] := by decide +kernel

/-- Value level on the captured graph: the further premises hold, and the compiled program has exactly one call event whose
function is the object of input 1: `in1((3,), name="add")`. -/
example : (match toFactory realCGraph realAux with
    | some fg => rootStable fg && castsPlain realCGraph fg 1
    | none => false) = true := by decide +kernel

example : (match compile fixedCfg { checkLater := true, checkBlock := true, bindResult := true } realCGraph with
    | .ok c =>
      ((execBlock { env := unbound } c.st.program).trace.filter (trackedCall (isInAtom 1))).map
        (fun ev => (callShape ev).map (fun s => (decide (s.1 = inAtom 1), s.2.1.length, s.2.2)))
    | _ => []) = [some (true, 1, ["name"])] := by decide +kernel

/-- `Supported` is not vacuous either way: an application that consumes a nested graph is outside the node language. -/
example : Supported { apps := [.call (.lit "f") [.gref 1] [] [] 0], origin := [some 0],
                      graphs := [{ inputs := [], output := .var 0, name := none }, { inputs := [], output := .lit "1", name := none }],
                      top := .gref 0 } = false := by decide

/-- The translated graph is the graph `Props/C13.lean` uses (`realGraph`), up to the literal text of tracer annotations. -/
example : (toFactory realCGraph realAux).map (fun fg => (fg.inputs, fg.apps.length, reachable fg)) =
    some (realGraph.inputs, realGraph.apps.length, reachable realGraph) := by decide +kernel

end Einx.Props.C13
