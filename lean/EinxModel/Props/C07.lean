import EinxModel.Proofs.Elab
import EinxModel.Props.C12
/-!
# C07 — documented shorthand forms mean exactly their documented expansions

The statements are about `Einx.Elab.parseOpTree` / `parseOpModel` (model M2a of `_to_el_expr` and `_parse_op`, tree mode of the
elementary signature) and the M1 parser `Einx.Notation.parseOp` -- the definitions the driver executes.  They quantify over
*all stage-1 trees* (a superset of the parser's outputs), so no parser invariant is assumed.  `parseOpTree mode fam fl kd ins outs`
is `_parse_op` after `stage1.parse_op(description)`: `ins` are the input expressions, `outs = none` means "no `->`".
The flags `fl` of the theorems are instantiated by the obligations `flags_*` (extracted from the source on every run).

What lives below this level (solved sizes and generated code: a number is a fresh axis *with that length*, an ellipsis equals its
repetition, a scalar constraint equals the repeated tuple, `([x])` equals `[x]` for a one-dimensional bracket, `[a] [b]` equals
`[a b]` for the backend call, a unit coordinate axis) is left to the behavioural tie of tools/props/c07.py (pairs of real calls).
-/
namespace Einx.Props.C07
open Einx.Notation Einx.Elab

/-! ## Obligations over the facts extracted from /repo on every run -/

/-- `einx.rearrange` returns `einx.id(description, *tensors, backend=backend, **parameters)`: the call in its `return` statement goes
    to `frontend/ops.py:id`, passes exactly the wrapper's own parameters, and the only other statement is the deprecation warning.
    (That `einx.rearrange` / `einx.id` are these two functions is checked on the imported package by the harness.) -/
theorem rearrange_is_id :
    Einx.Extracted.rearrangeTarget = ".ops.id" ∧ Einx.Extracted.rearrangeForwardsAllArguments = true ∧
      Einx.Extracted.rearrangeOtherStatements = ["warnings.warn"] := by decide

/-- The flags with which the wrappers call `op(...)` (the instances of `fl` in the theorems below). -/
theorem flags_reduce : flagsOf .reduce = some { implicit := .bijective, allowConcat := false, markReduced := true, addKeepdims := true, allowDupEl := true, noElPermute := false } := by decide
theorem flags_dot : flagsOf .dot = some { implicit := .bijective, allowConcat := false, markReduced := true, addKeepdims := false, allowDupEl := false, noElPermute := false } := by decide
theorem flags_elementwise : flagsOf .elementwise = some { implicit := .bijective, allowConcat := false, markReduced := false, addKeepdims := false, allowDupEl := true, noElPermute := false } := by decide
theorem flags_id : flagsOf .id = some { implicit := .bijective, allowConcat := true, markReduced := false, addKeepdims := false, allowDupEl := true, noElPermute := false } := by decide
theorem flags_get_at : flagsOf .getAt = some { implicit := .bijective, allowConcat := false, markReduced := false, addKeepdims := false, allowDupEl := true, noElPermute := false } := by decide
theorem flags_update_at : flagsOf .updateAt = some { implicit := .index 0, allowConcat := false, markReduced := false, addKeepdims := false, allowDupEl := true, noElPermute := true } := by decide
theorem flags_argfind : flagsOf .argfind = some { implicit := .bijective, allowConcat := false, markReduced := false, addKeepdims := false, allowDupEl := true, noElPermute := false } := by decide
theorem flags_preserve_shape : flagsOf .preserveShape = some { implicit := .bijective, allowConcat := false, markReduced := false, addKeepdims := false, allowDupEl := true, noElPermute := true } := by decide

/-- `_parse_op`'s own defaults (what a wrapper that does not pass a flag gets) are the ones `flagsOf` assumes. -/
theorem parse_op_defaults :
    Einx.Extracted.parseOpDefaults = [("allow_concat", "False"), ("allow_duplicate_el_axes", "True"), ("implicit_output", "None"),
      ("keepdims", "False"), ("mark_reduced_axes", "False")] := by decide

/-- The `el_op` builders are the ones `elOpText` / `elOpTree` were written against (source text of every builder). -/
theorem el_op_builders_pinned :
    Einx.Extracted.elOpSources.map (fun p => (p.1, p.2.length)) =
      [("id", 272), ("elementwise", 132), ("dot", 48), ("reduce", 60), ("get_at", 86), ("update_at", 122), ("argfind", 214), ("preserve_shape", 89)] ∧
    (Einx.Extracted.elOpSources.lookup "reduce") = some "def el_op(op):\n    return f'{op.children[0].children[0]} ->'" ∧
    (Einx.Extracted.elOpSources.lookup "dot") = some "def el_op(op):\n    return f'{op.children[0]} ->'" ∧
    (Einx.Extracted.elOpSources.lookup "preserve_shape") = some "def el_op(op):\n    return f'{op.children[0].children[0]} -> {op.children[0].children[0]}'" ∧
    (Einx.Extracted.elOpSources.lookup "update_at") =
      some "def el_op(op):\n    return ', '.join((str(c) for c in op.children[0].children[:-1])) + f', -> {op.children[0].children[0]}'" := by decide +kernel

/-- The implicit arg-operation output axis and the anonymous ellipsis axis have fixed names that no caller can write
    (neither is an axis name, a number or a literal), so they cannot collide with an axis of the description. -/
theorem generated_names_not_writable :
    Einx.Extracted.outputAxisName = "output.axis" ∧ validToken outputAxisName = false ∧
    Einx.Extracted.anonymousVariableName = ".anonymous_ellipsis_axis" ∧ validToken anonName = false := by decide

/-! ## Omitted output = the per-operation default output -/

theorem all_scalar_empties (xs : List Expr) : ((xs.map (fun _ => emptyList)) ++ [emptyList]).all isScalar = true := by
  simp [isScalar, emptyList, Expr.ndim, ndimSum]


/-- `implicit_output_superset` (element-wise operations, two or more inputs): if exactly one input expression contains the axis names
    (other than 1s) of all others -- the code's `len(valid_parents) == 1` --, the description without `->` elaborates exactly like the
    description with that input written as output: same trees or same error. -/
theorem implicit_output_superset (fl : Flags) (kd : Bool) (ins : List Expr) (p : Expr)
    (hfl : fl.implicit = .bijective) (hlen : ins.length ≠ 1) (hp : validParents ins = [p]) :
    parseOpTree .tree .elementwise fl kd ins none = parseOpTree .tree .elementwise fl kd ins (some [p]) := by
  have hmem : p ∈ ins := validParents_mem (by rw [hp]; simp)
  apply implicit_eq_explicit
  · simp [elOpTree]
  · simp only [implicitOut, hfl, elOpTree, List.length_map, List.length_singleton]
    have h1 : (ins.length == 1) = false := by simpa using hlen
    simp only [h1, Bool.false_and, Bool.and_true, Bool.false_eq_true, if_false, all_scalar_empties, if_true]
    match ins, hlen, hp with
    | [], _, hp => simp [validParents, dedupPy, dedupPyAux] at hp
    | [x], hlen, _ => simp at hlen
    | x :: y :: r, _, hp => simp [hp]
  · simp [elOpTree]
  · intro h; simp only [List.any_cons, List.any_nil, Bool.or_false] at h; exact List.any_eq_true.mpr ⟨p, hmem, h⟩
  · intro h; simp only [List.any_cons, List.any_nil, Bool.or_false] at h; exact Or.inl (List.any_eq_true.mpr ⟨p, hmem, h⟩)

theorem pyEq_emptyList : pyEq emptyList emptyList = true := by simp [emptyList, pyEq, pyEqL]


/-- `implicit_output_elementwise_single`: a single-input `id` / element-wise description without `->` is the description with the input
    replicated as output. -/
theorem implicit_output_elementwise_single (fam : Family) (hfam : fam = .id ∨ fam = .elementwise) (fl : Flags) (kd : Bool) (x : Expr)
    (hfl : fl.implicit = .bijective) :
    parseOpTree .tree fam fl kd [x] none = parseOpTree .tree fam fl kd [x] (some [x]) := by
  apply implicit_eq_explicit
  · rcases hfam with rfl | rfl <;> simp [elOpTree]
  · rcases hfam with rfl | rfl <;> simp [implicitOut, hfl, elOpTree, pyEqL, pyEq_emptyList]
  · rcases hfam with rfl | rfl <;> simp [elOpTree]
  · exact id
  · exact Or.inl


/-- `implicit_output_same` (shape-preserving operations): without `->` the output is the input expression -- provided the bracketed part
    contains no number: the code re-parses the printed signature, two parses of a number are different axes, and `sort("a [2]")`
    then takes the arg-operation rule instead (`a [output.axis]`); the hypothesis is exactly the code's `el_in == el_out`. -/
theorem implicit_output_same (fl : Flags) (kd : Bool) (x : Expr) (hfl : fl.implicit = .bijective)
    (hnum : pyEq (toEl x) (refreshUnnamed (toEl x)) = true) :
    parseOpTree .tree .preserveShape fl kd [x] none = parseOpTree .tree .preserveShape fl kd [x] (some [x]) := by
  apply implicit_eq_explicit
  · simp [elOpTree]
  · simp [implicitOut, hfl, elOpTree, pyEqL, hnum]
  · simp [elOpTree]
  · exact id
  · exact Or.inl


/-- `implicit_output_update` (`implicit_output=0`): without `->` the output is the first input expression. -/
theorem implicit_output_update (fl : Flags) (kd : Bool) (x : Expr) (rest : List Expr) (hfl : fl.implicit = .index 0) :
    parseOpTree .tree .updateAt fl kd (x :: rest) none = parseOpTree .tree .updateAt fl kd (x :: rest) (some [x]) := by
  apply implicit_eq_explicit
  · simp [elOpTree]
  · simp [implicitOut, hfl]
  · simp [elOpTree]
  · intro h; simp only [List.any_cons, List.any_nil, Bool.or_false] at h; simp [h]
  · intro h; simp only [List.any_cons, List.any_nil, Bool.or_false] at h; exact Or.inl (by simp [h])


/-- `implicit_output_reduce` and `keepdims`: a reduction whose input has a (non-scalar) bracketed part and no `->` elaborates exactly
    like the description with the output written out: the input with every bracket removed (`keepdims=False`), or with every bracket
    replaced by `()` (`keepdims=True`). -/
theorem implicit_output_reduce (fl : Flags) (kd : Bool) (x : Expr) (hfl : fl.implicit = .bijective) (hcat : fl.allowConcat = false)
    (hbr : isScalar (toEl x) = false) :
    parseOpTree .tree .reduce fl kd [x] none =
      parseOpTree .tree .reduce fl kd [x] (some [if kd then keepdimsBr x else removeBr x]) := by
  have hne : pyEq (toEl x) emptyList = false := by
    cases h : pyEq (toEl x) emptyList
    · rfl
    · rw [pyEq_emptyList_scalar h] at hbr; cases hbr
  have key : ∀ y, (y = keepdimsBr x ∨ y = removeBr x) → hasConcat y = true → hasConcat x = true := by
    intro y hy h
    cases hx : hasConcat x
    · rcases hy with rfl | rfl
      · rw [keepdimsBr_noConcat hx] at h; cases h
      · rw [removeBr_noConcat hx] at h; cases h
    · rfl
  have hy : (if kd then keepdimsBr x else removeBr x) = keepdimsBr x ∨ (if kd then keepdimsBr x else removeBr x) = removeBr x := by
    cases kd <;> simp
  apply implicit_eq_explicit
  · simp [elOpTree]
  · simp only [implicitOut, hfl, elOpTree, List.map_cons, List.map_nil, List.headD_cons, List.length_singleton, pyEqL, hne]
    have : isScalar emptyList = true := by simp [isScalar, emptyList, Expr.ndim, ndimSum]
    cases kd <;> simp [this]
  · simp [elOpTree]
  · intro h
    simp only [List.any_cons, List.any_nil, Bool.or_false] at h ⊢
    exact key _ hy h
  · intro h
    simp only [List.any_cons, List.any_nil, Bool.or_false] at h ⊢
    refine Or.inr ⟨hcat, key _ hy ?_⟩
    cases hc : hasConcat (if kd then keepdimsBr x else removeBr x)
    · rw [noConcat_noTouch false _ hc] at h; cases h
    · rfl


/-- `keepdims_is_parenthesised`, output side: the implicit output of the description with every bracket wrapped in parentheses
    (`[x]` ↦ `([x])`, what the deprecation message of `keepdims` tells the caller to write) is the `keepdims=True` output of the
    original description.  That `([x])` and `[x]` denote the same *input* (for a one-dimensional bracket) is below this level. -/
theorem keepdims_is_parenthesised (x : Expr) : removeBr (wrapBr x) = keepdimsBr x := removeBr_wrapBr x

/-! ## Un-bracketed reduction / dot = brackets around the axes missing from the output -/

/-- `auto_brackets`: for `reduce` and `dot` (`mark_reduced_axes=True`), a description with an explicit output, no brackets in any input
    and no axis name twice in one input elaborates exactly like the description in which every input axis that does not occur in the
    output is wrapped in its own bracket (`markAxes`), whenever at least one axis is missing (otherwise the two descriptions coincide).
    `hnc`: reductions and dot products reject concatenations anyway. -/
theorem auto_brackets (fam : Family) (hfam : fam = .reduce ∨ fam = .dot) (fl : Flags) (kd : Bool) (ins : List Expr) (out : Expr)
    (hmark : fl.markReduced = true) (hnb : ins.any hasBrackets = false) (hnd : ∀ x ∈ ins, hasDup (axisNames x) = false)
    (hnc : (ins ++ [out]).any hasConcat = false)
    (hsome : (ins.map (markAxes (axisNames out))).any hasBrackets = true) :
    parseOpTree .tree fam fl kd ins (some [out]) =
      parseOpTree .tree fam fl kd (ins.map (markAxes (axisNames out))) (some [out]) := by
  have hnc1 : ins.any hasConcat = false := by
    simp only [List.any_append, Bool.or_eq_false_iff] at hnc; exact hnc.1
  have hnco : [out].any hasConcat = false := by
    simp only [List.any_append, Bool.or_eq_false_iff] at hnc; exact hnc.2
  have hnc' : (ins.map (markAxes (axisNames out)) ++ [out]).any hasConcat = false := by
    simp only [List.any_append, Bool.or_eq_false_iff]
    exact ⟨any_map_markAxes_noConcat _ _ hnc1, hnco⟩
  unfold parseOpTree
  simp only [Option.getD_some, hnc, hnc', Bool.and_false, Bool.false_eq_true, if_false, any_touch_of_noConcat _ hnc, any_touch_of_noConcat _ hnc',
    elOp, Option.map_some, List.length_map]
  rcases hfam with rfl | rfl
  · -- reduce: the signature is the first elementary input
    simp only [elOpTree, List.length_singleton, List.length_map]
    by_cases hlen : ins.length = 1
    · match ins, hlen with
      | [x], _ =>
        simp only [List.length_singleton, bne_self_eq_false, Bool.false_eq_true, if_false, List.map_cons, List.map_nil, List.headD_cons]
        exact finish_auto fl _ _ [x] out hmark hnb hnd hsome rfl (bracketCheck_self _ _ _) (bracketCheck_self _ _ _)
    · have : (1 != ins.length) = true := by simpa using fun h => hlen h.symm
      simp [this]
  · -- dot: the signature is the list of elementary inputs
    simp only [elOpTree, List.length_map, List.length_singleton, bne_self_eq_false, Bool.false_eq_true, if_false]
    exact finish_auto fl _ _ ins out hmark hnb hnd hsome rfl (bracketCheck_self _ _ _) (bracketCheck_self _ _ _)


/-! ## Adjacent brackets -/

/-- `[a] [b]` and `[a b]` (two adjacent bracketed axes vs one bracket around both) inside any list: the same elementary
    expression, the same implicit reduction output, and the same marked axes in the same order. -/
theorem adjacent_brackets_merge (pre post : List Expr) (n1 n2 : Str) (v1 v2 : Option Nat) (b1 e1 b2 e2 b3 e3 b4 e4 b5 e5 b6 e6 b e : Int) :
    let a1 := Expr.axis n1 v1 b1 e1
    let a2 := Expr.axis n2 v2 b2 e2
    let short := Expr.list (pre ++ [.brackets a1 b3 e3, .brackets a2 b4 e4] ++ post) b e
    let long := Expr.list (pre ++ [.brackets (.list [a1, a2] b5 e5) b6 e6] ++ post) b e
    toEl short = toEl long ∧ removeBr short = removeBr long ∧ axisOccs false short = axisOccs false long := by
  intro a1 a2 short long
  refine ⟨?_, ?_, ?_⟩
  · simp only [short, long, toEl, toElKeep_append, mkList, flattenAll_append]
    simp [toElKeep, toEl, a1, a2, Expr.ndim, ndimSum, flattenAll, flattenOne]
  · simp only [short, long, removeBr, mapExpr, removeBrF, Option.getD_none, mapExprL_append, mkList, flattenAll_append]
    simp [mapExprL, mapExpr, removeBrF, flattenAll, flattenOne, emptyList]
  · simp only [short, long, axisOccs, axisOccsL_append]
    simp [axisOccsL, axisOccs, a1, a2]


/-! ## Numbers and anonymous ellipses (tree level) -/

/-- `number_is_fresh_axis`, tree level: a number token becomes an axis with that value and the name `unnamed.<id>` with an id that is
    unique per token (its position; the code draws a uuid) ... -/
theorem number_is_fresh_axis (t : Token) (h1 : isDigitStr t.text = true) (h2 : t.text.all isDecimalChar = true) :
    parseAxis t = .ok (.axis (unnamedName t.b) (some (intOfDecimals t.text)) t.b t.e) := by
  simp [parseAxis, h1, h2]

/-- ... and that name cannot be written by a caller, so it is fresh with respect to every named axis. -/
theorem unnamed_not_writable (k : Nat) : isAxisName (unnamedName k) = false := by
  simp [unnamedName, lit, isAxisName, isNameCont, isNameStart, isAsciiLetter, isAsciiDigit]

/-! ## Spaces (from C12) -/

/-- `spaces_irrelevant`, token level (C12): `_parse_op` sees the description only through `parseOp`, whose token sequence does not depend on
    the number of adjacent spaces; leading spaces are invisible.  The lift to trees up to positions is checked by the search. -/
theorem spaces_irrelevant_tokens (xs ys : List Token) (s s' : Token) (hs : s.isSpace = true) (hs' : s'.isSpace = true) (f : Bool) :
    dedupSpaces (xs ++ s :: s' :: ys) f = dedupSpaces (xs ++ s :: ys) f :=
  Einx.Props.C12.dedup_adjacent_space xs ys s s' hs hs' f

theorem parseOpModel_depends_on_parse_only (mode : ElMode) (fam : Family) (kd : Bool) (d1 d2 : Str) (h : parseOp d1 = parseOp d2) :
    parseOpModel mode fam kd d1 = parseOpModel mode fam kd d2 := by
  unfold parseOpModel; rw [h]

/-! ## Nested `->` and `,` — tested on the parser model (a `decide` on samples is a test, not a theorem) -/

def sameStructure (a b : String) : Bool :=
  match parseOp a.toList, parseOp b.toList with
  | .ok x, .ok y => x.shape.beq y.shape
  | _, _ => false

/-- The tutorial's examples and variations: the nested form parses to the structure of its top-level distribution. -/
theorem nested_arrow_comma_samples :
    ([("a [b -> c]", "a [b] -> a [c]"), ("b p [i,->]", "b p [i], b p -> b p"), ("(a -> b) c", "(a) c -> (b) c"), ("a (b, c) -> a b c", "a (b), a (c) -> a b c"),
      ("a [b c -> 2] d", "a [b c] d -> a [2] d"), ("x (a b -> b a)...", "x (a b)... -> x (b a)..."), ("[k] (a, c) -> a c", "[k] (a), [k] (c) -> a c"),
      ("a [b, c -> d]", "a [b], a [c] -> a [d]")].all (fun p => sameStructure p.1 p.2)) = true := by decide +kernel

/-! ## Non-vacuity -/

def render (r : PRes (List Expr × List Expr)) : Option (List String × List String) :=
  match r with
  | .ok (i, o) => some (i.map (fun x => String.ofList x.print), o.map (fun x => String.ofList x.print))
  | .error _ => none

def A (n : String) : Expr := .axis n.toList none 0 0
def L (cs : List Expr) : Expr := .list cs 0 0
def B (x : Expr) : Expr := .brackets x 0 0
def FL : Flags := { implicit := .bijective, allowConcat := false, markReduced := true, addKeepdims := true, allowDupEl := true, noElPermute := false }

/-- superset: `a b, a` has the unique parent `a b`; both sides elaborate to `a b, a -> a b`. -/
example : parseOpTree .tree .elementwise FL false [L [A "a", A "b"], A "a"] none =
    parseOpTree .tree .elementwise FL false [L [A "a", A "b"], A "a"] (some [L [A "a", A "b"]]) :=
  implicit_output_superset FL false _ _ rfl (by decide) rfl
example : render (parseOpTree .tree .elementwise FL false [L [A "a", A "b"], A "a"] none) = some (["a b", "a"], ["a b"]) := by decide +kernel

/-- reduce: `a [b c]` ≡ `a [b c] -> a`; with keepdims ≡ `a [b c] -> a ()`. -/
example : parseOpTree .tree .reduce FL false [L [A "a", B (L [A "b", A "c"])]] none =
    parseOpTree .tree .reduce FL false [L [A "a", B (L [A "b", A "c"])]] (some [A "a"]) :=
  implicit_output_reduce FL false _ rfl rfl (by decide +kernel)
example : render (parseOpTree .tree .reduce FL true [L [A "a", B (L [A "b", A "c"])]] none) = some (["a [b c]"], ["a ()"]) := by decide +kernel
example : String.ofList (removeBr (wrapBr (L [A "a", B (A "b")]))).print = "a ()" ∧ String.ofList (wrapBr (L [A "a", B (A "b")])).print = "a ([b])" := by decide +kernel

/-- auto brackets: `a b c -> a` ≡ `a [b] [c] -> a` (hypotheses hold, result non-trivial). -/
example : parseOpTree .tree .reduce FL false [L [A "a", A "b", A "c"]] (some [A "a"]) =
    parseOpTree .tree .reduce FL false ([L [A "a", A "b", A "c"]].map (markAxes (axisNames (A "a")))) (some [A "a"]) :=
  auto_brackets .reduce (Or.inl rfl) FL false _ _ rfl (by decide +kernel) (by decide +kernel) (by decide +kernel) (by decide +kernel)
example : render (parseOpTree .tree .reduce FL false [L [A "a", A "b", A "c"]] (some [A "a"])) = some (["a [b] [c]"], ["a"]) := by decide +kernel
example : render (parseOpTree .tree .dot { FL with allowDupEl := false } false [L [A "a", A "b"], L [A "b", A "c"]] (some [L [A "a", A "c"]])) =
    some (["a [b]", "[b] c"], ["a c"]) := by decide +kernel

/-- single input / same / update. -/
example : render (parseOpTree .tree .id { FL with allowConcat := true, markReduced := false } false [L [A "a", A "b"]] none) = some (["a b"], ["a b"]) := by decide +kernel
example : render (parseOpTree .tree .preserveShape { FL with markReduced := false } false [L [A "a", B (A "b")]] none) = some (["a [b]"], ["a [b]"]) := by decide +kernel
example : pyEq (toEl (L [A "a", B (A "b")])) (refreshUnnamed (toEl (L [A "a", B (A "b")]))) = true := by decide +kernel
example : render (parseOpTree .tree .updateAt { FL with implicit := .index 0, markReduced := false } false [L [A "p", B (A "h")], A "p", A "p"] none) =
    some (["p [h]", "p", "p"], ["p [h]"]) := by decide +kernel

/-- description level: the model on real descriptions (both modes), including the arg-operation rule and a D11 description where
    the two modes differ (string mode: the printed signature `{a b}... ->` does not parse again). -/
example : render (parseOpModel .string .reduce false "a b c -> a".toList) = some (["a [b] [c]"], ["a"]) ∧
    render (parseOpModel .tree .argfind false "a [b c]".toList) = some (["a [b c]"], ["a [output.axis]"]) ∧
    render (parseOpModel .string .elementwise false "a b, a".toList) = some (["a b", "a"], ["a b"]) := by decide +kernel
example : Einx.Extracted.ellipsisOpen = "{" →
    render (parseOpModel .string .reduce false "[a b]...".toList) = none ∧ render (parseOpModel .tree .reduce false "[a b]...".toList) = some (["[a b]..."], [""]) := by
  decide +kernel

end Einx.Props.C07
