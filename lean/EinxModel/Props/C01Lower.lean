import EinxModel.Proofs.Lower
import EinxModel.Props.C01
/-!
C01 (lowering algorithm) — the decomposer's lowering of `einx.id` computes the loop-notation meaning, for
**all** descriptions in the model's domain and **all** axis lengths.

`Props/C01.lean` proves `validate_sound` and the harness applies the validator to every *traced* call.
Here the validator's acceptance is proved once and for all for the *algorithm*: `Generic.lowerId`
(`Generic/Stb.lean`) is the line-by-line model of `Decomposer.__call__` around the identity for one input and
one output (`_decompose_single`: unflatten parenthesised groups with reshapes, remove unit axes;
`_squeeze_transpose_broadcast`: align axes by name — transpose, insert unit dimensions, `broadcast_to`;
`_compose_next`: reshape to the grouped output shape), with the no-op tests of the numpy wrappers.  The model
is tied to the real traced graphs of `einx.id` on every run (driver kind `stb_model`, `tools/props/c17.py`).

Domain: input and output are arbitrary nestings of parenthesised groups over named axes (`Generic.G`); any
permutation; unit axes anywhere (removed from the input, inserted into the output); output axes that the input
does not have (broadcast); zero-length axes.  Not in the domain: concatenation, repeated axis names (the
model rejects a repeated name in the input itself; a repeated name in the output and inconsistent lengths are
excluded by the two decidable hypotheses — einx's solver never produces them for `id`).

* `lower_id_correct`      run on the symbolic input = `Denote.denoteId` of the corresponding stage-3 expressions
* `lower_id_validates`    … equivalently: the validator of C01 accepts, for every such description
* `lower_id_all_inputs`   … hence (by `validate_sound`) for all integer tensor contents and interpretations
* `theorem_instance_holds` the instance the driver recomputes on every traced call of the `stb_model` stream

The conversion `rootExpr : List G → Denote.Expr` and the hypotheses live in `Generic/StbDenote.lean`.  The driver
builds `G` from einx's solved stage-3 tree by flattening nested lists (`Driver/Generic.lean:toG`), exactly as
`Denote.dims` does, so `dims false` of einx's tree and of `rootExpr` coincide: the denotation in the theorem is
the denotation C01 validates traced calls against.
-/
namespace Einx.Lower
open Einx Einx.IR Einx.Generic Einx.Denote

/-- **Correctness of the lowering algorithm for `id`.**  For every input expression `gi` and output expression
`go` (flat or grouped to any depth, unit axes, broadcast output axes, any permutation, any axis lengths) whose
output names are pairwise different and whose lengths are consistent: if the model of einx's decomposer returns
a program `s.prog` with result register `s.reg`, then

* the loop-notation denotation of `id` for the corresponding stage-3 expressions is defined, and
* running the program on the symbolic input of shape `gShape gi` succeeds and leaves in `s.reg` exactly the
  denotation: the same shape and, for every output position, the same input element. -/
theorem lower_id_correct (gi go : List G) (s : St)
    (hout : noDup (names (G.leavesL go)) = true)
    (hcons : consistentLens (G.leavesL gi) (G.leavesL go) = true)
    (h : lowerId gi go = .ok s) :
    ∃ T, denoteId [rootExpr gi] [rootExpr go] = .ok [T] ∧
      T.shape = gShape go ∧
      symRun s.prog [gShape gi] [s.reg] = .ok [T] := by
  obtain ⟨regs, cs, hev, hreg, hcs⟩ := lower_core hout hcons h
  refine ⟨⟨gShape go, cs⟩, ?_, rfl, symRun_single hev hreg⟩
  have := denoteId_of_idCells (concatFree_rootExpr gi) (concatFree_rootExpr go)
    (cs := cs) (by rw [rootDims_rootExpr, rootDims_rootExpr, shapeOf_rootExpr, shapeOf_rootExpr]; exact hcs)
  rw [shapeOf_rootExpr] at this
  exact this

/-- **The validator accepts the lowering of every description.**  The check that C01 performs per traced
call (`validate` of the traced program against `denoteId`) succeeds for every program the lowering model
emits. -/
theorem lower_id_validates (gi go : List G) (s : St)
    (hout : noDup (names (G.leavesL go)) = true)
    (hcons : consistentLens (G.leavesL gi) (G.leavesL go) = true)
    (h : lowerId gi go = .ok s) :
    ∃ exp, denoteId [rootExpr gi] [rootExpr go] = .ok exp ∧
      validate s.prog [gShape gi] [s.reg] exp = true := by
  obtain ⟨T, hd, _, hrun⟩ := lower_id_correct gi go s hout hcons h
  exact ⟨[T], hd, by simp [validate, hrun, tensorsBeq_refl]⟩

/-- **For all tensor contents.**  By `validate_sound`: for every integer tensor `x` of the input shape, every
interpretation of the elementary function symbols and any value for out-of-range reads, the lowered program
runs on `x` and its result register holds the loop-notation denotation evaluated on `x`. -/
theorem lower_id_all_inputs (gi go : List G) (s : St)
    (hout : noDup (names (G.leavesL go)) = true)
    (hcons : consistentLens (G.leavesL gi) (G.leavesL go) = true)
    (h : lowerId gi go = .ok s)
    (I : String → List Int → Int) (bad : Int) (x : Tensor Int)
    (hx : x.shape = gShape gi) (hlen : x.data.length = prod x.shape) :
    ∃ T regs, denoteId [rootExpr gi] [rootExpr go] = .ok [T] ∧
      evalProg (intAlgOf I bad) s.prog [x] = .ok regs ∧
      regs[s.reg]? = some (T.map (evalCell (intAlgOf I bad) [x])) := by
  obtain ⟨T, hd, _, hrun⟩ := lower_id_correct gi go s hout hcons h
  have hv : validate s.prog ([x].map (·.shape)) [s.reg] [T] = true := by
    simp [validate, hx, hrun, tensorsBeq_refl]
  obtain ⟨regs, hev, hout'⟩ := validate_sound s.prog [s.reg] [T] I bad [x] (by simpa using hlen) hv
  exact ⟨T, regs, hd, hev, by simpa using hout'⟩

/-- The instance of the theorem that the driver computes on every traced `einx.id` call of the `stb_model`
stream (`Generic/StbDenote.lean`: `inTheoremDomain`, `theoremInstance`) is `true` whenever the hypotheses
hold and the lowering succeeds; the harness reports how many traced calls are in the domain. -/
theorem theorem_instance_holds (gi go : List G) (s : St) (hd : inTheoremDomain gi go = true)
    (h : lowerId gi go = .ok s) : theoremInstance gi go = true := by
  simp only [inTheoremDomain, Bool.and_eq_true] at hd
  obtain ⟨exp, hden, hv⟩ := lower_id_validates gi go s hd.1 hd.2 h
  simp only [theoremInstance, h, hden, hv]

/-! ### Non-vacuity -/

/-- `a (b c) -> c 1 (a b) d` with `a=2, b=3, c=2`, a unit axis and a broadcast axis `d=2`. -/
def exIn : List G := [.ax ⟨"a", 2⟩, .grp [.ax ⟨"b", 3⟩, .ax ⟨"c", 2⟩]]
def exOut : List G := [.ax ⟨"c", 2⟩, .ax ⟨"u", 1⟩, .grp [.ax ⟨"a", 2⟩, .ax ⟨"b", 3⟩], .ax ⟨"d", 2⟩]

/-- Primitive, operand register and shape/permutation of every instruction (for comparing programs). -/
def instrCode : Instr → List Nat
  | .reshape x s => 0 :: x :: s
  | .transpose x p => 1 :: x :: p
  | .broadcastTo x s => 2 :: x :: s
  | _ => [9]

/-- The hypotheses hold, the lowering succeeds with the five-instruction program
`reshape (2,3,2); transpose (2,0,1); reshape (2,1,2,3,1); broadcast_to (2,1,2,3,2); reshape (2,1,6,2)`,
and the validator accepts it against the denotation (which is not the identity rearrangement). -/
example :
    noDup (names (G.leavesL exOut)) = true ∧ consistentLens (G.leavesL exIn) (G.leavesL exOut) = true ∧
    (match lowerId exIn exOut, denoteId [rootExpr exIn] [rootExpr exOut] with
      | .ok s, .ok exp =>
        s.prog.map instrCode == [[0, 0, 2, 3, 2], [1, 1, 2, 0, 1], [0, 2, 2, 1, 2, 3, 1], [2, 3, 2, 1, 2, 3, 2], [0, 4, 2, 1, 6, 2]]
          && s.reg == 5 && validate s.prog [gShape exIn] [s.reg] exp
          && !tensorsBeq exp [symInput 0 [2, 1, 6, 2]]
      | _, _ => false) = true := by
  decide +kernel

/-- The theorem applied to the example. -/
example : ∃ s exp, lowerId exIn exOut = .ok s ∧ denoteId [rootExpr exIn] [rootExpr exOut] = .ok exp ∧
    validate s.prog [gShape exIn] [s.reg] exp = true := by
  have hok : (match lowerId exIn exOut with | .ok _ => true | .error _ => false) = true := by decide +kernel
  cases h : lowerId exIn exOut with
  | error e => simp [h] at hok
  | ok s =>
    obtain ⟨exp, hd, hv⟩ := lower_id_validates exIn exOut s (by decide +kernel) (by decide +kernel) h
    exact ⟨s, exp, rfl, hd, hv⟩

/-- The hypotheses are needed: with a repeated output name (`a -> a a`, `a=2`) the model emits
`reshape (2,2)` of a 2-element tensor, which does not run, and the denotation is undefined. -/
example :
    (match lowerId [.ax ⟨"a", 2⟩] [.ax ⟨"a", 2⟩, .ax ⟨"a", 2⟩] with
      | .ok s => (match symRun s.prog [[2]] [s.reg] with | .ok _ => false | .error _ => true)
      | .error _ => false) = true
    ∧ (match denoteId [rootExpr [.ax ⟨"a", 2⟩]] [rootExpr [.ax ⟨"a", 2⟩, .ax ⟨"a", 2⟩]] with
      | .ok _ => false | .error _ => true) = true := by
  decide +kernel

end Einx.Lower
