import EinxModel.Props.C08b
import EinxModel.Proofs.DenoteDotPerm
import EinxModel.Proofs.DenoteConcatLaws
import EinxModel.Proofs.DenoteViewOK
/-!
C08 (continued) — the open issues of work package c08, closed by work package c08c.  All laws are about the executable
loop forms `Denote.denoteDot`, `Denote.denoteElementwise`, `Denote.denoteId` (the functions the driver runs and the
harness compares with einx on every related call).

* (i) dot operands: `denote_dot_permute_input` (reorder the root dimensions of one operand -- contracted or not -- and
      transpose its tensor), `denote_dot_permute_input_sem` (the same for every interpretation with a permutation
      invariant `red:sum`), `denote_dot_regroup_input` (parentheses on one operand)
* (iii) elementwise, n-ary, loop form: `denote_elementwise_permute_input`
* (ii) concatenations: see the second half of this file.
-/
namespace Einx.C08c
open Einx Einx.IR Einx.Denote Einx.C08 Einx.C08b

/-! ### bookkeeping: operands as (view, shape) pairs -/

/-- The operands of an operation as (root dimensions, shape) pairs. -/
def opViews (exprsIn : List Expr) : List (List Dim × List Nat) := exprsIn.map (fun e => (rootDims e, shapeOf e))

theorem opViews_set (exprsIn : List Expr) (j : Nat) (e' : Expr) :
    opViews (exprsIn.set j e') = (opViews exprsIn).set j (rootDims e', viewShape (rootDims e')) := by
  simp [opViews, List.map_set, shapeOf_eq]

theorem opViews_get {exprsIn : List Expr} {j : Nat} {e : Expr} (hj : exprsIn[j]? = some e) :
    (opViews exprsIn)[j]? = some (rootDims e, viewShape (rootDims e)) := by
  simp [opViews, hj, shapeOf_eq]

theorem opViews_shapes (exprsIn : List Expr) : (opViews exprsIn).map (·.2) = exprsIn.map shapeOf := by
  simp [opViews]

theorem concatFreeL_set : ∀ (exprsIn : List Expr) (j : Nat) (e' : Expr), Expr.concatFreeL exprsIn = true →
    e'.concatFree = true → Expr.concatFreeL (exprsIn.set j e') = true := by
  intro exprsIn
  induction exprsIn with
  | nil => intro j e' h _; exact h
  | cons x xs ih =>
    intro j e' h he'
    simp only [Expr.concatFreeL, Bool.and_eq_true] at h
    cases j with
    | zero => simp [Expr.concatFreeL, he', h.2]
    | succ j => simp [Expr.concatFreeL, h.1, ih j e' h.2 he']

theorem concatFreeL_mem : ∀ (exprsIn : List Expr), Expr.concatFreeL exprsIn = true → ∀ e ∈ exprsIn, e.concatFree = true := by
  intro exprsIn
  induction exprsIn with
  | nil => intro _ e he; simp at he
  | cons x xs ih =>
    intro h e he
    simp only [Expr.concatFreeL, Bool.and_eq_true] at h
    rcases List.mem_cons.mp he with rfl | hm
    · exact h.1
    · exact ih h.2 e hm

/-- The registers an operation reads after operand `j` was transposed: the transposed symbolic tensor in register `j`,
the symbolic inputs (`symInput k shape_k`) elsewhere.  `exprsIn'` are the operand expressions after the change. -/
def regsAfter (exprsIn' : List Expr) (j : Nat) (plan : Plan) : List (Tensor Cell) := permRegs (opViews exprsIn') j plan

/-! ### (i) dot: reordering the root dimensions of one operand -/

/-- Decidable side conditions of the dot input laws: no axis name is both bracketed and un-bracketed *within one
operand* (einx rejects such an operand), and leaf sizes are consistent per name across all operands and the output. -/
def dotSideB (exprsIn : List Expr) (eo : Expr) : Bool :=
  exprsIn.all (fun e => markSepB (Dim.leavesL (rootDims e))) &&
    consistentB (exprsIn.flatMap (fun e => Dim.leavesL (rootDims e)) ++ Dim.leavesL (rootDims eo))

theorem dotOK_of_side {exprsIn : List Expr} {eo : Expr} (hin : Expr.concatFreeL exprsIn = true)
    (h : dotSideB exprsIn eo = true) : DotOK (opViews exprsIn) (rootDims eo) := by
  simp only [dotSideB, Bool.and_eq_true, List.all_eq_true] at h
  refine ⟨?_, ?_, ?_⟩
  · intro p hp
    obtain ⟨e, he, rfl⟩ := List.mem_map.mp hp
    exact ⟨shapeOf_eq e, rootDims_concatFree (concatFreeL_mem _ hin e he)⟩
  · intro p hp
    obtain ⟨e, he, rfl⟩ := List.mem_map.mp hp
    exact markSepB_spec (h.1 e he)
  · have : (opViews exprsIn).flatMap (fun p => Dim.leavesL p.1) = exprsIn.flatMap (fun e => Dim.leavesL (rootDims e)) := by
      simp [opViews, List.flatMap_map]
    rw [this]
    exact consistentB_spec h.2

/-- Substitute the registers into a symbolic result and sort the terms of every sum again. -/
def substResortSum (ts : List (Tensor Cell)) (t : Tensor Cell) : Tensor Cell :=
  t.map (fun c => Cell.resortAt "red:sum" (subst ts c))

/-- **Reordering the root dimensions of one operand of a dot -- contracted (bracketed) or not -- while transposing that
operand's tensor the same way leaves the result unchanged.**  Operand `j` is `e`; `e'` has the root dimensions of `e`
permuted by `perm`; register `j` is transposed by numpy (`planInstr shapes (.transpose j perm)`), the other registers
are the symbolic inputs (`regsAfter`).  The symbolic result of the changed operation, with the registers substituted
and the terms of every `red:sum` re-sorted (`substResortSum`; a product `multiply […]` is left alone and keeps its
operand order), *equals* the symbolic result of the original operation; one fails iff the other does.  Any number of
operands, any contracted axes (the contracted axes are enumerated in order of first occurrence, so the order of the
terms does change).  Hypotheses are decidable: concatenation-free, `dotSideB`. -/
theorem denote_dot_permute_input (exprsIn : List Expr) (j : Nat) (e e' eo : Expr) (perm : List Nat)
    (hj : exprsIn[j]? = some e)
    (hin : Expr.concatFreeL exprsIn = true) (he' : e'.concatFree = true) (heo : eo.concatFree = true)
    (hperm : isPermOf perm (rootDims e).length = true) (hp : permuteL perm (rootDims e) = some (rootDims e'))
    (hside : dotSideB exprsIn eo = true) :
    ∃ plan, planInstr (exprsIn.map shapeOf) (.transpose j perm) = .ok plan ∧ plan.shape = shapeOf e' ∧
      (okOpt (denoteDot (exprsIn.set j e') eo)).map (substResortSum (regsAfter (exprsIn.set j e') j plan))
        = okOpt (denoteDot exprsIn eo) := by
  have hlen : (viewShape (rootDims e)).length = (rootDims e).length := by simp [viewShape]
  have hx : (exprsIn.map shapeOf)[j]? = some (viewShape (rootDims e)) := by simp [hj, shapeOf_eq]
  obtain ⟨plan, hplan, hshape, _, _⟩ :=
    transpose_plan_ok (exprsIn.map shapeOf) j (viewShape (rootDims e)) perm hx (by rw [hlen]; exact hperm)
  have hs : plan.shape = shapeOf e' := by
    have := viewShape_permute hp
    rw [hshape] at this
    exact Option.some.inj this
  refine ⟨plan, hplan, hs, ?_⟩
  rw [okOpt_denoteDot _ eo (concatFreeL_set _ j e' hin he') heo, okOpt_denoteDot exprsIn eo hin heo]
  have hcore := dotCells_permute_input (sw := shapeOf eo) (opViews_get hj) (dotOK_of_side hin hside) hperm hp
    (by rw [opViews_shapes]; exact hplan)
  have e1 : (exprsIn.set j e').map (fun e => (rootDims e, shapeOf e)) = opViews (exprsIn.set j e') := rfl
  have e2 : exprsIn.map (fun e => (rootDims e, shapeOf e)) = opViews exprsIn := rfl
  rw [e1, e2, ← hcore, regsAfter, opViews_set]
  cases dotCells ((opViews exprsIn).set j (rootDims e', viewShape (rootDims e'))) (rootDims eo) (shapeOf eo) <;> rfl

/-- **The same, semantically.**  For every element algebra `A` whose reduction symbols are invariant under permutations
of their arguments (`RedInvariant`, e.g. integer sum; *no* assumption on `multiply`, whose operand order is untouched)
and all concrete input tensors `xs`: evaluating the changed operation over the registers `regsAfter …` evaluated on
`xs` (register `j` is then `runPlan A xs plan`, numpy's transpose of `xs[j]`; see `evalRegs_transposed`) gives the same
values as the original operation on `xs`. -/
theorem denote_dot_permute_input_sem {α : Type} (A : Alg α) (hA : RedInvariant A) (xs : List (Tensor α))
    (exprsIn : List Expr) (j : Nat) (e e' eo : Expr) (perm : List Nat)
    (hj : exprsIn[j]? = some e)
    (hin : Expr.concatFreeL exprsIn = true) (he' : e'.concatFree = true) (heo : eo.concatFree = true)
    (hperm : isPermOf perm (rootDims e).length = true) (hp : permuteL perm (rootDims e) = some (rootDims e'))
    (hside : dotSideB exprsIn eo = true) :
    ∃ plan, planInstr (exprsIn.map shapeOf) (.transpose j perm) = .ok plan ∧
      (okOpt (denoteDot (exprsIn.set j e') eo)).map (fun t => t.data.map
          (evalCell A ((regsAfter (exprsIn.set j e') j plan).map (Tensor.map (evalCell A xs)))))
        = (okOpt (denoteDot exprsIn eo)).map (fun t => t.data.map (evalCell A xs)) := by
  have hlen : (viewShape (rootDims e)).length = (rootDims e).length := by simp [viewShape]
  have hx : (exprsIn.map shapeOf)[j]? = some (viewShape (rootDims e)) := by simp [hj, shapeOf_eq]
  obtain ⟨plan, hplan, _, _, _⟩ :=
    transpose_plan_ok (exprsIn.map shapeOf) j (viewShape (rootDims e)) perm hx (by rw [hlen]; exact hperm)
  refine ⟨plan, hplan, ?_⟩
  rw [okOpt_denoteDot _ eo (concatFreeL_set _ j e' hin he') heo, okOpt_denoteDot exprsIn eo hin heo]
  have e1 : (exprsIn.set j e').map (fun e => (rootDims e, shapeOf e)) = opViews (exprsIn.set j e') := rfl
  have e2 : exprsIn.map (fun e => (rootDims e, shapeOf e)) = opViews exprsIn := rfl
  rw [e1, e2, regsAfter, opViews_set]
  have hok := dotOK_of_side hin hside
  have hplan' : planInstr ((opViews exprsIn).map (·.2)) (.transpose j perm) = .ok plan := by
    rw [opViews_shapes]; exact hplan
  generalize hregs : permRegs ((opViews exprsIn).set j (rootDims e', viewShape (rootDims e'))) j plan = regs
  cases hcs' : dotCells ((opViews exprsIn).set j (rootDims e', viewShape (rootDims e'))) (rootDims eo) (shapeOf eo) with
  | none =>
    have hcore := dotCells_permute_input (sw := shapeOf eo) (opViews_get hj) hok hperm hp hplan'
    rw [hcs'] at hcore
    rw [← hcore]; rfl
  | some cs' =>
    have hcore := dotCells_permute_input (sw := shapeOf eo) (opViews_get hj) hok hperm hp hplan'
    rw [hcs', hregs] at hcore
    rw [← hcore]
    simp only [Option.map_some, Option.some.injEq, List.map_map]
    apply List.map_congr_left
    intro c' hc'
    obtain ⟨k, hk, hget⟩ := List.getElem_of_mem hc'
    obtain ⟨_, hlen', hall⟩ := genCells_spec hcs'
    obtain ⟨σ, hσ, _, hX⟩ := hall k (by rw [← hlen']; exact hk)
    rw [List.getElem?_eq_getElem hk, hget] at hX
    unfold dotX at hX
    rcases dotArgs_permute_input (opViews_get hj) hok hperm hp hplan' hσ with ⟨e1, _⟩ | ⟨r', r, e1, e2, hpm⟩
    · rw [e1] at hX; simp at hX
    · rw [e1] at hX
      simp only [Option.map_some, Option.some.injEq] at hX
      subst hX
      rw [hregs] at hpm
      simp only [Function.comp]
      have hrs : Cell.resortAt "red:sum" (subst regs (mkRed "sum" r')) = mkRed "sum" r :=
        resortAt_subst_mkRed regs "sum" hpm (dotArgs_resort "sum" e2)
      rw [hrs]
      apply eval_mkRed_perm hA
      have := hpm.map (evalCell A xs)
      rw [List.map_map] at this
      have hfun : (evalCell A xs ∘ subst regs) = evalCell A (regs.map (Tensor.map (evalCell A xs))) := by
        funext c; simp only [Function.comp, eval_subst]
      rw [hfun] at this
      exact this

/-- What the evaluated registers are: register `j` is the IR's transpose plan run on the concrete inputs. -/
theorem evalRegs_transposed {α : Type} (A : Alg α) (xs : List (Tensor α)) (exprsIn' : List Expr) (j : Nat) (plan : Plan)
    (hj : j < exprsIn'.length) :
    ((regsAfter exprsIn' j plan).map (Tensor.map (evalCell A xs)))[j]? = some (runPlan A xs plan) := by
  simp [regsAfter, permRegs, opViews, List.getElem?_zipIdx, hj, runPlan, Tensor.map, evalCells_eq_map]

/-- The other registers are the inputs themselves whenever input `k` has the shape of its expression. -/
theorem evalRegs_fixed {α : Type} (A : Alg α) (xs : List (Tensor α)) (exprsIn' : List Expr) (j k : Nat) (plan : Plan)
    (e : Expr) (x : Tensor α) (hk : exprsIn'[k]? = some e) (hkj : k ≠ j) (hx : xs[k]? = some x)
    (hshape : x.shape = shapeOf e) (hdata : x.data.length = prod (shapeOf e)) :
    ((regsAfter exprsIn' j plan).map (Tensor.map (evalCell A xs)))[k]? = some x := by
  have hlt : k < exprsIn'.length := by
    rcases Nat.lt_or_ge k exprsIn'.length with h | h
    · exact h
    · rw [List.getElem?_eq_none h] at hk; simp at hk
  have hget : exprsIn'[k] = e := by
    rw [List.getElem?_eq_getElem hlt] at hk; exact Option.some.inj hk
  simp only [regsAfter, permRegs, opViews, List.getElem?_map, List.getElem?_zipIdx, Nat.zero_add,
    List.getElem?_eq_getElem hlt, Option.map_some, hkj, if_false, hget, Option.some.injEq]
  obtain ⟨xshape, xdata⟩ := x
  simp only at hshape hdata
  subst hshape
  simp only [symInput, Tensor.map, Tensor.mk.injEq, true_and, List.map_map]
  apply List.ext_getElem
  · simp [hdata]
  · intro i h1 h2
    simp only [List.getElem_map, List.getElem_range, Function.comp, evalCell, readReg, hx]
    simp [h2]

/-! ### (i) dot: parentheses on one operand -/

/-- **Grouping adjacent axes of one operand of a dot with parentheses (and reshaping its tensor) leaves the result
unchanged.**  The reshape `pre mid post → pre (mid) post` keeps the row-major order, so the symbolic results -- over
the flat positions of the operands -- are *equal*; `mid` may contain contracted axes. -/
theorem denote_dot_regroup_input (exprsIn : List Expr) (j : Nat) (pre mid post : List Expr) (eo : Expr)
    (h1 : Expr.concatFreeL (exprsIn.set j (grouped pre mid post)) = true)
    (h2 : Expr.concatFreeL (exprsIn.set j (ungrouped pre mid post)) = true) (heo : eo.concatFree = true) :
    okOpt (denoteDot (exprsIn.set j (grouped pre mid post)) eo)
      = okOpt (denoteDot (exprsIn.set j (ungrouped pre mid post)) eo) := by
  rw [okOpt_denoteDot _ eo h1 heo, okOpt_denoteDot _ eo h2 heo]
  have e1 : ∀ x, (exprsIn.set j x).map (fun e => (rootDims e, shapeOf e)) = opViews (exprsIn.set j x) := fun _ => rfl
  rw [e1, e1, opViews_set, opViews_set, rootDims_grouped, rootDims_ungrouped, dotCells_regroup_input]

/-- Non-vacuity of the dot input laws: `dot: a [b] [c], [c] d [b] e -> e a d` with a = b = c = 2, d = 3, e = 1 (two
contracted axes of equal length, a length-1 axis), the *second* operand permuted by `[2, 3, 0, 1]` to `[b] e [c] d`
(the order of first occurrence of the contracted axes stays `b c`) and the *first* operand permuted by `[2, 1, 0]` to
`[c] [b] a` (the contracted axes are now enumerated as `c b`: the terms of every sum change their order).  All
hypotheses hold; the changed operations yield different cells; plain substitution of the transposed tensor is *not*
enough in the second case, substitution and re-sorting the sum gives the original cells, which are genuine sums of four
products. -/
example :
    let a := Expr.axis "a" 2; let b := Expr.axis "b" 2; let c := Expr.axis "c" 2; let d := Expr.axis "d" 3
    let e := Expr.axis "e" 1
    let x := Expr.list [a, .br b, .br c]; let y := Expr.list [.br c, d, .br b, e]
    let y' := Expr.list [.br b, e, .br c, d]; let x' := Expr.list [.br c, .br b, a]
    let eo := Expr.list [e, a, d]
    Expr.concatFreeL [x, y] = true ∧ y'.concatFree = true ∧ x'.concatFree = true ∧ eo.concatFree = true ∧
    isPermOf [2, 3, 0, 1] (rootDims y).length = true ∧ isPermOf [2, 1, 0] (rootDims x).length = true ∧
    (permuteL [2, 3, 0, 1] (rootDims y)).map viewShape = some (viewShape (rootDims y')) ∧
    (permuteL [2, 1, 0] (rootDims x)).map viewShape = some (viewShape (rootDims x')) ∧
    dotSideB [x, y] eo = true ∧
    (match planInstr [shapeOf x, shapeOf y] (.transpose 1 [2, 3, 0, 1]), planInstr [shapeOf x, shapeOf y] (.transpose 0 [2, 1, 0]),
        okOpt (denoteDot [x, y'] eo), okOpt (denoteDot [x', y] eo), okOpt (denoteDot [x, y] eo) with
      | .ok p1, .ok p0, some t1, some t0, some t =>
        Tensor.beq (substResortSum (regsAfter [x, y'] 1 p1) t1) t && !Tensor.beq t1 t &&
        Tensor.beq (substResortSum (regsAfter [x', y] 0 p0) t0) t && !Tensor.beq t0 t &&
        !Tensor.beq (t0.map (subst (regsAfter [x', y] 0 p0))) t &&
        t.shape == [1, 2, 3] &&
        Cell.beqL (t.data.take 1)
          [.app "red:sum" [.app "multiply" [.src 0 0, .src 1 0], .app "multiply" [.src 0 1, .src 1 6],
                           .app "multiply" [.src 0 2, .src 1 1], .app "multiply" [.src 0 3, .src 1 7]]]
      | _, _, _, _, _ => false) = true := by
  decide +kernel

example :
    let a := Expr.axis "a" 2; let b := Expr.axis "b" 2; let c := Expr.axis "c" 2; let d := Expr.axis "d" 3
    let e := Expr.axis "e" 1
    let x := Expr.list [a, .br b, .br c]; let y := Expr.list [.br c, d, .br b, e]
    let x' := Expr.list [.br c, .br b, a]
    let eo := Expr.list [e, a, d]
    ∃ plan, planInstr ([x, y].map shapeOf) (.transpose 0 [2, 1, 0]) = .ok plan ∧ plan.shape = shapeOf x' ∧
      (okOpt (denoteDot ([x, y].set 0 x') eo)).map (substResortSum (regsAfter ([x, y].set 0 x') 0 plan))
        = okOpt (denoteDot [x, y] eo) :=
  denote_dot_permute_input _ 0 _ _ _ [2, 1, 0] rfl (by decide +kernel) (by decide +kernel) (by decide +kernel)
    (by decide +kernel) rfl (by decide +kernel)

/-- Non-vacuity of the semantic law and of the regrouping law: integer sums of products (`sumProdAlg`: `red:sum` adds,
`multiply` multiplies) on `x = 0..7`, `y = 1..12`; both sides evaluate to the same six numbers, which are not all equal;
`[c] (d [b]) e` against `[c] d [b] e` for the second operand. -/
def sumProdAlg : Alg Int :=
  { lit := id, bad := 0,
    app := fun g xs => if g = "red:sum" then xs.sum else if g = "multiply" then xs.foldl (· * ·) 1 else 0 }

theorem sumProdAlg_redInvariant : RedInvariant sumProdAlg := by
  intro g xs ys h
  have hne : ("red:" ++ g = "multiply") = False := by
    apply eq_false
    intro e
    have := congrArg (fun s => s.toList.head?) e
    simp at this
  simp only [sumProdAlg, hne, if_false]
  split
  · exact h.sum_eq
  · rfl

example :
    let a := Expr.axis "a" 2; let b := Expr.axis "b" 2; let c := Expr.axis "c" 2; let d := Expr.axis "d" 3
    let e := Expr.axis "e" 1
    let x := Expr.list [a, .br b, .br c]; let y := Expr.list [.br c, d, .br b, e]
    let x' := Expr.list [.br c, .br b, a]
    let eo := Expr.list [e, a, d]
    let xs : List (Tensor Int) := [⟨[2, 2, 2], (List.range 8).map Int.ofNat⟩, ⟨[2, 3, 2, 1], (List.range 12).map (fun i => Int.ofNat (i + 1))⟩]
    RedInvariant sumProdAlg ∧
    (match planInstr ([x, y].map shapeOf) (.transpose 0 [2, 1, 0]), okOpt (denoteDot [x', y] eo), okOpt (denoteDot [x, y] eo),
        okOpt (denoteDot [x, grouped [.br c] [d, .br b] [e]] eo), okOpt (denoteDot [x, ungrouped [.br c] [d, .br b] [e]] eo) with
      | .ok plan, some t', some t, some g, some u =>
        t'.data.map (evalCell sumProdAlg ((regsAfter [x', y] 0 plan).map (Tensor.map (evalCell sumProdAlg xs))))
            == t.data.map (evalCell sumProdAlg xs) &&
          t.data.map (evalCell sumProdAlg xs) == [35, 47, 59, 107, 151, 195] &&
          (runPlan sumProdAlg xs plan).data == [0, 4, 2, 6, 1, 5, 3, 7] &&
          Tensor.beq g u && Tensor.beq u t && shapeOf (grouped [.br c] [d, .br b] [e]) == [2, 6, 1]
      | _, _, _, _, _ => false) = true :=
  ⟨sumProdAlg_redInvariant, by decide +kernel⟩

/-! ### (iii) elementwise, any number of operands, executable loop form -/

/-- **Reordering the root dimensions of one operand of an n-ary elementwise operation while transposing that operand's
tensor leaves the result unchanged** -- for the executable loop form `Denote.denoteElementwise`
(`C08.denote_permute_input_elementwise` is the same law on the functional form over views).  Operand `j` is `e`; `e'`
has its root dimensions permuted by `perm`; the registers are `regsAfter` (transposed tensor in register `j`, symbolic
inputs elsewhere).  Plain substitution suffices: the argument order of `f` is the operand order and does not change.
Hypotheses (decidable): concatenation-free; per operand, leaf sizes consistent with the output. -/
theorem denote_elementwise_permute_input (f : String) (exprsIn : List Expr) (j : Nat) (e e' eo : Expr) (perm : List Nat)
    (hj : exprsIn[j]? = some e)
    (hin : Expr.concatFreeL exprsIn = true) (he' : e'.concatFree = true) (heo : eo.concatFree = true)
    (hperm : isPermOf perm (rootDims e).length = true) (hp : permuteL perm (rootDims e) = some (rootDims e'))
    (hcons : exprsIn.all (fun x => consistentB (Dim.leavesL (rootDims x) ++ Dim.leavesL (rootDims eo))) = true) :
    ∃ plan, planInstr (exprsIn.map shapeOf) (.transpose j perm) = .ok plan ∧ plan.shape = shapeOf e' ∧
      (okOpt (denoteElementwise f (exprsIn.set j e') eo)).map (substT (regsAfter (exprsIn.set j e') j plan))
        = okOpt (denoteElementwise f exprsIn eo) := by
  have hshape : (opViews exprsIn).all (fun p => p.2 == viewShape p.1 && Dim.concatFreeL p.1) = true := by
    simp only [List.all_eq_true, Bool.and_eq_true, beq_iff_eq]
    intro p hp'
    obtain ⟨x, hx, rfl⟩ := List.mem_map.mp hp'
    exact ⟨shapeOf_eq x, rootDims_concatFree (concatFreeL_mem _ hin x hx)⟩
  have hcons' : (opViews exprsIn).all (fun p => consistentB (Dim.leavesL p.1 ++ Dim.leavesL (rootDims eo))) = true := by
    simp only [List.all_eq_true] at hcons ⊢
    intro p hp'
    obtain ⟨x, hx, rfl⟩ := List.mem_map.mp hp'
    exact hcons x hx
  obtain ⟨plan, hplan, hs, hcells⟩ := denote_permute_input_elementwise f (opViews exprsIn) j (rootDims e) (rootDims e')
    (rootDims eo) perm (shapeOf eo) (opViews_get hj) hshape hperm hp hcons'
  rw [opViews_shapes] at hplan
  refine ⟨plan, hplan, hs, ?_⟩
  rw [okOpt_denoteElementwise f _ eo (concatFreeL_set _ j e' hin he') heo, okOpt_denoteElementwise f exprsIn eo hin heo]
  have e1 : (exprsIn.set j e').map (fun e => (rootDims e, shapeOf e)) = opViews (exprsIn.set j e') := rfl
  have e2 : exprsIn.map (fun e => (rootDims e, shapeOf e)) = opViews exprsIn := rfl
  rw [e1, e2, ← hcells, regsAfter, permRegs, opViews_set]
  cases ewCells f ((opViews exprsIn).set j (rootDims e', viewShape (rootDims e'))) (rootDims eo) (shapeOf eo) <;> rfl

/-- Non-vacuity: `where`-like ternary operation `f: a (b c) d, d b, c a -> (d a) c b` with a = b = 2, c = 1, d = 3; the
first operand permuted by `[2, 0, 1]` to `d a (b c)`.  Hypotheses hold, the permuted operation yields different
cells, the conclusion's left side is the original result with 12 genuine ternary applications. -/
example :
    let a := Expr.axis "a" 2; let b := Expr.axis "b" 2; let c := Expr.axis "c" 1; let d := Expr.axis "d" 3
    let x := Expr.list [a, .flat (.list [b, c]), d]; let x' := Expr.list [d, a, .flat (.list [b, c])]
    let ins := [x, Expr.list [d, b], Expr.list [c, a]]
    let eo := Expr.list [.flat (.list [d, a]), c, b]
    (match planInstr (ins.map shapeOf) (.transpose 0 [2, 0, 1]), okOpt (denoteElementwise "where" (ins.set 0 x') eo),
        okOpt (denoteElementwise "where" ins eo) with
      | .ok plan, some t', some t =>
        Tensor.beq (substT (regsAfter (ins.set 0 x') 0 plan) t') t && !Tensor.beq t' t && t.data.length == 12 &&
          Cell.beqL (t.data.take 2) [.app "where" [.src 0 0, .src 1 0, .src 2 0], .app "where" [.src 0 3, .src 1 1, .src 2 0]]
      | _, _, _ => false) = true ∧
    ∃ plan, planInstr (ins.map shapeOf) (.transpose 0 [2, 0, 1]) = .ok plan ∧ plan.shape = shapeOf x' ∧
      (okOpt (denoteElementwise "where" (ins.set 0 x') eo)).map (substT (regsAfter (ins.set 0 x') 0 plan))
        = okOpt (denoteElementwise "where" ins eo) :=
  ⟨by decide +kernel, denote_elementwise_permute_input "where" _ 0 _ _ _ [2, 0, 1] rfl (by decide +kernel)
    (by decide +kernel) (by decide +kernel) (by decide +kernel) rfl (by decide +kernel)⟩

/-! ### (ii) concatenations: parentheses -/

theorem map_entries_id (x : Option (List (Nat × Cell))) : x.map (List.map (fun e => (e.1, id e.2))) = x := by
  cases x with
  | none => rfl
  | some l => simp

theorem map_tensors_id (x : Option (List (Tensor Cell))) : x.map (List.map (Tensor.map id)) = x := by
  have : (Tensor.map id : Tensor Cell → Tensor Cell) = id := by
    funext t; cases t; simp [Tensor.map]
  cases x with
  | none => rfl
  | some l => simp [this]

/-- **Grouping adjacent axes of an input expression of `id` with parentheses (and reshaping its tensor) leaves the
results unchanged -- for arbitrary solved expressions, concatenations included** (in `pre`, `mid`, `post`, in the other
inputs and in the outputs; any number of tensors).  The enumeration of the virtual tensors commutes with grouping
(`viewsFuel_regroup`: the leftmost concatenation is the same one, depth first), every virtual tensor has the shape of
the real one (`views_viewShape`), and reading a regrouped view from the reshaped tensor is reading the original view
from the original tensor (`cellAt_regroup`, valid for chosen blocks of concatenations as well).  No hypothesis. -/
theorem denoteId_regroup_input_concat (exprsIn exprsOut : List Expr) (j : Nat) (pre mid post : List Expr) :
    okOpt (denoteId (exprsIn.set j (grouped pre mid post)) exprsOut)
      = okOpt (denoteId (exprsIn.set j (ungrouped pre mid post)) exprsOut) := by
  rw [denoteId_fun_agree_general, denoteId_fun_agree_general]
  have key := denoteIdFunG_congr_in id (exprsIn.set j (grouped pre mid post)) (exprsIn.set j (ungrouped pre mid post))
    exprsOut ?_
  · rw [map_tensors_id] at key; exact key
  · unfold idVin
    apply forall₂_flatMap₂ _ _ (forall₂_zipIdx_set exprsIn j _ _)
    rintro ⟨x, i⟩ ⟨y, i'⟩ ⟨hi, hxy⟩
    simp only at hi hxy
    subst hi
    rcases hxy with rfl | ⟨rfl, rfl⟩
    · apply List.forall₂_same.mpr
      intro a _ z _
      exact map_entries_id _
    · rw [List.forall₂_map_left_iff, List.forall₂_map_right_iff]
      refine (views_regroup pre mid post).imp ?_
      rintro g u ⟨⟨P, M, Q, rfl, rfl⟩, hg, hu⟩ z _
      rw [map_entries_id]
      have h1 : shapeOf (grouped pre mid post) = viewShape (P ++ [Dim.flat M] ++ Q) := by
        rw [shapeOf_eq, rootDims_grouped, hg]
      have h2 : shapeOf (ungrouped pre mid post) = viewShape (P ++ M ++ Q) := by
        rw [shapeOf_eq, rootDims_ungrouped, hu]
      simp only [h1, h2]
      exact idPairEntries_regroup_in exprsOut P M Q i z

/-- Non-vacuity: `id: a (b + c) d, e -> (a (b + c) d + e)`-like operation with a concatenation *inside* the group:
`a ((b + c) d) -> ((b + c) d) a` against `a (b + c) d -> ((b + c) d) a`, a = 2, b = 1, c = 2, d = 2.  Neither side is
concatenation-free, both are defined, the shapes of the inputs differ, the results are equal and a genuine
rearrangement of 12 elements. -/
example :
    let a := Expr.axis "a" 2; let b := Expr.axis "b" 1; let c := Expr.axis "c" 2; let d := Expr.axis "d" 2
    let G := grouped [a] [.concat [b, c], d] []; let U := ungrouped [a] [.concat [b, c], d] []
    let eo := Expr.list [.flat (.list [.concat [b, c], d]), a]
    Expr.concatFreeL [G] = false ∧ shapeOf G = [2, 6] ∧ shapeOf U = [2, 3, 2] ∧
    (match okOpt (denoteId [G] [eo]), okOpt (denoteId [U] [eo]) with
      | some [t1], some [t2] => Tensor.beq t1 t2 && t1.shape == [6, 2] &&
          Cell.beqL (t1.data.take 4) [.src 0 0, .src 0 6, .src 0 1, .src 0 7]
      | _, _ => false) = true ∧
    okOpt (denoteId ([G].set 0 G) [eo]) = okOpt (denoteId ([G].set 0 U) [eo]) :=
  ⟨by decide +kernel, by decide +kernel, by decide +kernel, by decide +kernel,
    denoteId_regroup_input_concat _ _ 0 _ _ _⟩

/-! ### (ii) concatenations: reordering the root dimensions of the input -/

/-- Decidable side condition: every virtual tensor of `e` is well formed (a chosen block of a concatenation fits into
the concatenation) and its leaf sizes are consistent per name with every virtual output. -/
def viewsSideB (e : Expr) (exprsOut : List Expr) : Bool :=
  (views e).all (fun v => Dim.viewOKL v &&
    (idVout exprsOut).all (fun z => consistentB (Dim.leavesL v ++ Dim.leavesL z.1)))

theorem forall2_of_map_eq {α β : Type} (f : α → Option β) : ∀ (l1 : List α) (l2 : List β),
    l1.map f = l2.map some → List.Forall₂ (fun b a => f a = some b) l2 l1 := by
  intro l1
  induction l1 with
  | nil => intro l2 h; cases l2 with
    | nil => exact List.Forall₂.nil
    | cons _ _ => simp at h
  | cons a l1 ih =>
    intro l2 h
    cases l2 with
    | nil => simp at h
    | cons b l2 =>
      simp only [List.map_cons, List.cons.injEq] at h
      exact List.Forall₂.cons h.1 (ih l2 h.2)

/-- **Reordering the root dimensions of the input expression of `id` together with the tensor, concatenations
included -- partial.**  One input `e` (concatenations allowed anywhere in it), any outputs (e.g. the split
`a (b + c) d -> a b d, a c d`, or a concatenation on both sides).  `e'` has the root dimensions of `e` permuted by `perm`
and the tensor is transposed by numpy.  Then the results of `e' -> outs`, with the transposed tensor substituted, are the
results of `e -> outs`; one fails iff the other does.
Partial because of the hypothesis `hviews`: the enumeration of the virtual tensors of `e'` is the enumeration of those of
`e`, each permuted by `perm`.  This holds whenever the root dimensions that contain concatenations keep their relative
order (einx pairs the blocks of inputs and outputs by position, leftmost concatenation first; if two such dimensions
are swapped the law is *false*); it is a closed equation for concrete expressions (`rfl` in the example below), but the
general characterisation is not proved.  The other hypotheses are decidable. -/
theorem denoteId_permute_input_concat_partial (e e' : Expr) (exprsOut : List Expr) (perm : List Nat)
    (hperm : isPermOf perm (rootDims e).length = true) (hp : permuteL perm (rootDims e) = some (rootDims e'))
    (hviews : (views e).map (permuteL perm) = (views e').map some)
    (hside : viewsSideB e exprsOut = true) :
    ∃ plan, planInstr [shapeOf e] (.transpose 0 perm) = .ok plan ∧ plan.shape = shapeOf e' ∧
      (okOpt (denoteId [e'] exprsOut)).map (List.map (substT [⟨plan.shape, plan.cells⟩]))
        = okOpt (denoteId [e] exprsOut) := by
  have hlen : (viewShape (rootDims e)).length = (rootDims e).length := by simp [viewShape]
  obtain ⟨plan, hplan, hshape, _, _⟩ :=
    transpose_plan_ok [shapeOf e] 0 (viewShape (rootDims e)) perm rfl (by rw [hlen]; exact hperm)
  have hs : plan.shape = shapeOf e' := by
    have := viewShape_permute hp
    rw [hshape] at this
    exact Option.some.inj this
  refine ⟨plan, hplan, hs, ?_⟩
  rw [denoteId_fun_agree_general, denoteId_fun_agree_general]
  refine denoteIdFunG_congr_in (subst [⟨plan.shape, plan.cells⟩]) [e'] [e] exprsOut ?_
  simp only [idVin, List.zipIdx_cons, List.zipIdx_nil, List.flatMap_cons, List.flatMap_nil, List.append_nil]
  rw [List.forall₂_map_left_iff, List.forall₂_map_right_iff]
  refine (forall₂_and_mem (forall2_of_map_eq _ _ _ hviews)).imp ?_
  rintro v' v ⟨hv', hmem', hmem⟩ z hz
  have hsv : viewShape v = shapeOf e := views_viewShape e v hmem
  have hsv' : viewShape v' = shapeOf e' := views_viewShape e' v' hmem'
  have hvlen : v.length = (rootDims e).length := by
    have := congrArg List.length hsv
    simpa [viewShape, shapeOf, rootDims] using this
  simp only [viewsSideB, List.all_eq_true, Bool.and_eq_true] at hside
  obtain ⟨hok, hcons⟩ := hside v hmem
  have := idPairEntries_permute_in exprsOut z (by rw [hvlen]; exact hperm) hv' hok (consistentB_spec (hcons z hz))
    (by rw [hsv]; exact hplan)
  rw [hsv, hsv'] at this
  exact this

/-- Non-vacuity: the split `a (b + c) d -> a b d, d c a` with a = 2, b = 1, c = 2, d = 2 (a concatenation in the input,
two outputs, equal lengths on different axes, a length-1 block); the input permuted by `[2, 0, 1]` to `d a (b + c)` (the
siblings of the concatenation move, the concatenation itself moves too).  All hypotheses hold (`hviews` by `rfl`), the
permuted operation yields different cells, and substituting the transposed tensor gives the original results. -/
example :
    let a := Expr.axis "a" 2; let b := Expr.axis "b" 1; let c := Expr.axis "c" 2; let d := Expr.axis "d" 2
    let e := Expr.list [a, .concat [b, c], d]; let e' := Expr.list [d, a, .concat [b, c]]
    let outs := [Expr.list [a, b, d], Expr.list [d, c, a]]
    Expr.concatFreeL [e] = false ∧ isPermOf [2, 0, 1] (rootDims e).length = true ∧ viewsSideB e outs = true ∧
    (match planInstr [shapeOf e] (.transpose 0 [2, 0, 1]), okOpt (denoteId [e'] outs), okOpt (denoteId [e] outs) with
      | .ok plan, some [t1', t2'], some [t1, t2] =>
        Tensor.beq (substT [⟨plan.shape, plan.cells⟩] t1') t1 && Tensor.beq (substT [⟨plan.shape, plan.cells⟩] t2') t2 &&
          !Tensor.beq t2' t2 && t1.shape == [2, 1, 2] && t2.shape == [2, 2, 2] &&
          Cell.beqL (t2.data.take 4) [.src 0 2, .src 0 8, .src 0 4, .src 0 10]
      | _, _, _ => false) = true := by
  decide +kernel

example :
    let a := Expr.axis "a" 2; let b := Expr.axis "b" 1; let c := Expr.axis "c" 2; let d := Expr.axis "d" 2
    let e := Expr.list [a, .concat [b, c], d]; let e' := Expr.list [d, a, .concat [b, c]]
    let outs := [Expr.list [a, b, d], Expr.list [d, c, a]]
    ∃ plan, planInstr [shapeOf e] (.transpose 0 [2, 0, 1]) = .ok plan ∧ plan.shape = shapeOf e' ∧
      (okOpt (denoteId [e'] outs)).map (List.map (substT [⟨plan.shape, plan.cells⟩])) = okOpt (denoteId [e] outs) :=
  denoteId_permute_input_concat_partial _ _ _ [2, 0, 1] (by decide +kernel) rfl rfl (by decide +kernel)

/-- **Every virtual tensor enumerated for a solved expression is well formed** (a chosen block `off o d t` of a
concatenation fits: `o + d.size ≤ t`, also for nested concatenations): the `viewOKL` conjunct of `viewsSideB` always holds;
what remains of `viewsSideB` is the consistency of leaf sizes. -/
theorem views_wellformed (e : Expr) : (views e).all Dim.viewOKL = true := by
  simp only [List.all_eq_true]
  exact views_viewOK e

/-- Non-vacuity: `a ((b + (c + d)) e)` has three virtual tensors (a nested concatenation inside a group), none of them
concatenation-free in the sense of `Dim.concatFreeL` (they contain chosen blocks), all of them well formed. -/
example :
    let e := Expr.list [.axis "a" 2, .flat (.list [.concat [.axis "b" 1, .concat [.axis "c" 2, .axis "d" 3]], .axis "e" 2])]
    (views e).length = 3 ∧ (views e).all (fun v => !Dim.concatFreeL v) = true ∧ (views e).all Dim.viewOKL = true := by
  decide +kernel

end Einx.C08c
