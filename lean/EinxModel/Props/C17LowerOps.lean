import EinxModel.Proofs.LowerGenericB
/-!
C17 (lowering part, whole pipelines) — the program that the decomposer emits for an elementwise operation or a
reduction is size-generic: its skeleton depends only on the description and on which axis lengths are 1.

`Generic.lowerElementwise` / `Generic.lowerReduce` (`Generic/LowerOps.lean`) are the line-by-line models of
`Decomposer.__call__` around `decomposednamedtensor_from_classical.elementwise` / `reduce` for the numpy backend, tied
to the real traced graphs on every run (driver kind `lower_model`, `tools/props/lower_tie.py`).  `Generic.gsimL`
(`Generic/LowerSim.lean`, decidable) relates two solved expressions that are the same description — same nesting of
parenthesised groups, same axis names — under two length assignments that agree on which lengths are 1.
`progSkeleton` / `progSkeletonX` keep primitive, registers, permutations, axes and ranks and abstract shapes.

* `reshape_noop_test_generic`        the no-op test `tuple(x.shape) == shape` of a reshape between a grouped shape and the
                                     list of its members (products of lengths against lengths; with empty groups `()` the
                                     two lists can have the same rank) depends only on which members are 1 — for all
                                     naturals, zero included
* `lower_elementwise_size_generic`   for **every** operation, any number of operands, **every** pair of descriptions of
                                     `ewDomain` related by `gsimLL` / `gsimL`: if the model lowers both, the two programs
                                     have the same skeleton and the same result register
* `lower_reduce_size_generic`        the same for reductions (`redDomain`), over the extended instruction set
* `lower_elementwise_zero_length_witness`  what is *not* size-generic: whether the lowering is defined.  With a
                                     zero-length axis that only some operands have, `np.argmax` over the aligned lengths
                                     `{0, 1}` chooses the unit axis and `_ensure_output` raises, while the same description
                                     with length 2 is lowered (same 1-pattern).  Not reachable in einx: the solver rejects
                                     zero lengths (`AxisSizeError`), see docs/wp/lower2.md.
-/
namespace Einx.Lower
open Einx Einx.IR Einx.Generic Einx.Denote

/-- **The reshape no-op test between a grouped shape and its members is size-generic.**  `Gs` lists, per root dimension,
the lengths of its members; `Gs.map lprod` is the grouped shape, `Gs.flatten` the shape after `_decompose_single`'s
step (or, read backwards, before `_compose_next`'s reshape).  If `Gs` and `Gs'` have the same structure and agree on
which members are 1, the test `Gs.map lprod == Gs.flatten` has the same outcome. -/
theorem reshape_noop_test_generic (Gs Gs' : List (List Nat)) (h : Gs.map pat1 = Gs'.map pat1) :
    (Gs.map lprod == Gs.flatten) = (Gs'.map lprod == Gs'.flatten) :=
  groups_cmp_generic Gs Gs' h

/-- Non-vacuity: `(a b) () -> a b` is a no-op exactly when `b = 1` (also for `a = 0`), and the hypothesis is needed
(`[[2, 1], []]` vs `[[2, 3], []]`). -/
example : ([[2, 1], []].map lprod == [[2, 1], []].flatten) = true
    ∧ ([[7, 1], []].map lprod == [[7, 1], []].flatten) = true
    ∧ ([[0, 1], []].map lprod == [[0, 1], []].flatten) = true
    ∧ ([[2, 3], []].map lprod == [[2, 3], []].flatten) = false
    ∧ [[2, 1], []].map pat1 = [[7, 1], []].map pat1
    ∧ [[2, 1], []].map pat1 ≠ [[2, 3], []].map pat1 := by decide

/-- **Size-genericity of the lowering of elementwise operations.**  For every operation name `f`, input expressions
`ins`, `ins'` and output expressions `go`, `go'` such that both descriptions satisfy the decidable hypotheses of
`lower_elementwise_correct` (`ewDomain`: output names pairwise different, lengths consistent per name) and are the same
description under two length assignments with the same 1-pattern (`gsimLL`, `gsimL`): if the model of einx's decomposer
lowers both, the emitted programs are equal up to shapes — the same primitives on the same registers with the same
permutations, operands and ranks — and the results are in the same register.  Every decision of the pipeline
(`_decompose_single`'s and `_compose_next`'s reshape no-op tests, the removal of unit axes, the squeeze / transpose /
unit-dimension steps of `_squeeze_transpose_broadcast`, the `np.argmax` choice of the output axes, `broadcast_to`) is
thereby a function of the description and of the `== 1` tests. -/
theorem lower_elementwise_size_generic (f : String) (ins ins' : List (List G)) (go go' : List G) (s s' : St)
    (hd : ewDomain ins go = true) (hd' : ewDomain ins' go' = true)
    (hi : gsimLL ins ins' = true) (ho : gsimL go go' = true)
    (h : lowerElementwise f ins go = .ok s) (h' : lowerElementwise f ins' go' = .ok s') :
    progSkeleton s.prog = progSkeleton s'.prog ∧ s.reg = s'.reg := by
  have := lowerElementwise_generic hd hd' hi ho h h'
  exact ⟨this.prog, this.reg⟩

/-- **Size-genericity of the lowering of reductions.**  The same for `Generic.lowerReduce` (bracketed axes named by `m`;
`redDomain`: additionally no output name is bracketed): the programs over the extended instruction set — reshapes, the
one `np.f(x, axis=…)` call with its `axis` tuple, transpose, `broadcast_to` — are equal up to shapes. -/
theorem lower_reduce_size_generic (f : String) (m : List String) (gi gi' go go' : List G) (l l' : LX)
    (hd : redDomain m gi go = true) (hd' : redDomain m gi' go' = true)
    (hi : gsimL gi gi' = true) (ho : gsimL go go' = true)
    (h : lowerReduce f m gi go = .ok l) (h' : lowerReduce f m gi' go' = .ok l') :
    progSkeletonX l.prog = progSkeletonX l'.prog ∧ l.reg = l'.reg :=
  lowerReduce_generic hd hd' hi ho h h'

/-! ### Non-vacuity -/

/-- `a (b c), c a 1, b -> b a c d` under the assignment `a, b, c, d`. -/
def sgIn (a b c : Nat) : List (List G) :=
  [[.ax ⟨"a", a⟩, .grp [.ax ⟨"b", b⟩, .ax ⟨"c", c⟩]], [.ax ⟨"c", c⟩, .ax ⟨"a", a⟩, .ax ⟨"u", 1⟩], [.ax ⟨"b", b⟩]]
def sgOut (a b c d : Nat) : List G := [.ax ⟨"b", b⟩, .ax ⟨"a", a⟩, .ax ⟨"c", c⟩, .ax ⟨"d", d⟩]

/-- Primitive, operand registers and shape/permutation of every instruction (for comparing programs). -/
def sgCode : Instr → List Nat
  | .reshape x s => 0 :: x :: s
  | .transpose x p => 1 :: x :: p
  | .broadcastTo x s => 2 :: x :: s
  | .ewise _ args => 3 :: args.map (fun a => match a with | .reg r => r | .lit _ => 999)
  | _ => [9]

def sgCodeX : InstrX → List Nat
  | .base i => sgCode i
  | .reduce _ x axes k => 4 :: x :: (if k then 1 else 0) :: axes
  | _ => [9]

def skelOf (r : Except String St) : Option (List (List Nat)) :=
  match r with
  | .ok s => some ((progSkeleton s.prog).map sgCode)
  | .error _ => none

/-- The hypotheses are met by `(a, b, c, d) = (2, 2, 3, 4)` and `(5, 7, 2, 9)`: both in the domain, related, both lowered
(ten instructions), equal skeletons; and the hypothesis on the 1-pattern is needed: with `b = 1` the program is another. -/
example :
    ewDomain (sgIn 2 2 3) (sgOut 2 2 3 4) = true ∧ ewDomain (sgIn 5 7 2) (sgOut 5 7 2 9) = true
      ∧ gsimLL (sgIn 2 2 3) (sgIn 5 7 2) = true ∧ gsimL (sgOut 2 2 3 4) (sgOut 5 7 2 9) = true
      ∧ (skelOf (lowerElementwise "add" (sgIn 2 2 3) (sgOut 2 2 3 4))).map List.length = some 10
      ∧ skelOf (lowerElementwise "add" (sgIn 2 2 3) (sgOut 2 2 3 4)) = skelOf (lowerElementwise "add" (sgIn 5 7 2) (sgOut 5 7 2 9))
      ∧ gsimLL (sgIn 2 2 3) (sgIn 2 1 3) = false
      ∧ skelOf (lowerElementwise "add" (sgIn 2 2 3) (sgOut 2 2 3 4)) ≠ skelOf (lowerElementwise "add" (sgIn 2 1 3) (sgOut 2 1 3 4)) := by
  decide +kernel

/-- Empty groups: `exp("(a b) () -> a b")`.  With `b = 1` the reshape of `_decompose_single` is skipped (`(a, 1)` is
already the shape of the members) — for `a = 2` and for `a = 3` alike; with `b = 3` it is emitted. -/
def egIn (a b : Nat) : List (List G) := [[.grp [.ax ⟨"a", a⟩, .ax ⟨"b", b⟩], .grp []]]
def egOut (a b : Nat) : List G := [.ax ⟨"a", a⟩, .ax ⟨"b", b⟩]

example :
    ewDomain (egIn 2 1) (egOut 2 1) = true ∧ gsimLL (egIn 2 1) (egIn 3 1) = true
      ∧ skelOf (lowerElementwise "exp" (egIn 2 1) (egOut 2 1)) = skelOf (lowerElementwise "exp" (egIn 3 1) (egOut 3 1))
      ∧ (skelOf (lowerElementwise "exp" (egIn 2 1) (egOut 2 1))).map List.length = some 3
      ∧ (skelOf (lowerElementwise "exp" (egIn 2 3) (egOut 2 3))).map List.length = some 2 := by
  decide +kernel

/-- **What is not size-generic: definedness with a zero length.**  `add("a, b -> a b")` with `a = 2` is lowered; with
`a = 0` — the same 1-pattern, both in `ewDomain` — the model (like the code: `np.argmax([0, 1])` chooses the unnamed
unit axis of the second operand, then `_ensure_output` compares the shapes `(0, b)` and `(1, b)`) fails.  So
`lower_elementwise_size_generic` cannot be strengthened to "defined for one assignment iff defined for the other"
without excluding zero lengths (`posLens`).  einx's solver excludes them. -/
theorem lower_elementwise_zero_length_witness :
    let ins (a : Nat) : List (List G) := [[.ax ⟨"a", a⟩], [.ax ⟨"b", 3⟩]]
    let out (a : Nat) : List G := [.ax ⟨"a", a⟩, .ax ⟨"b", 3⟩]
    ewDomain (ins 2) (out 2) = true ∧ ewDomain (ins 0) (out 0) = true
      ∧ gsimLL (ins 2) (ins 0) = true ∧ gsimL (out 2) (out 0) = true
      ∧ (skelOf (lowerElementwise "add" (ins 2) (out 2))).isSome = true
      ∧ (skelOf (lowerElementwise "add" (ins 0) (out 0))).isSome = false
      ∧ (ins 0).all posLens = false := by
  decide +kernel

/-- Reductions: `a [b] (c [d]) 1 -> c a 1`. -/
def sgRedIn (a b c d : Nat) : List G := [.ax ⟨"a", a⟩, .ax ⟨"b", b⟩, .grp [.ax ⟨"c", c⟩, .ax ⟨"d", d⟩], .ax ⟨"u", 1⟩]
def sgRedOut (a c : Nat) : List G := [.ax ⟨"c", c⟩, .ax ⟨"a", a⟩, .ax ⟨"v", 1⟩]

def skelOfX (r : Except String LX) : Option (List (List Nat)) :=
  match r with
  | .ok l => some ((progSkeletonX l.prog).map sgCodeX)
  | .error _ => none

example :
    redDomain ["b", "d"] (sgRedIn 2 3 2 2) (sgRedOut 2 2) = true ∧ redDomain ["b", "d"] (sgRedIn 5 4 3 7) (sgRedOut 5 3) = true
      ∧ gsimL (sgRedIn 2 3 2 2) (sgRedIn 5 4 3 7) = true ∧ gsimL (sgRedOut 2 2) (sgRedOut 5 3) = true
      ∧ skelOfX (lowerReduce "sum" ["b", "d"] (sgRedIn 2 3 2 2) (sgRedOut 2 2))
          = some [[0, 0, 0, 0, 0, 0, 0], [0, 1, 0, 0, 0, 0], [4, 2, 0, 1, 3], [1, 3, 1, 0], [0, 4, 0, 0, 0]]
      ∧ skelOfX (lowerReduce "sum" ["b", "d"] (sgRedIn 2 3 2 2) (sgRedOut 2 2))
          = skelOfX (lowerReduce "sum" ["b", "d"] (sgRedIn 5 4 3 7) (sgRedOut 5 3))
      ∧ skelOfX (lowerReduce "sum" ["b", "d"] (sgRedIn 2 3 2 2) (sgRedOut 2 2))
          ≠ skelOfX (lowerReduce "sum" ["b", "d"] (sgRedIn 1 3 2 2) (sgRedOut 1 2)) := by
  decide +kernel

end Einx.Lower
