import EinxModel.Proofs.Registry
import EinxModel.Proofs.RegistryOrder
import EinxModel.Proofs.RegistryLazy
import EinxModel.Proofs.RegistryDiscipline
import EinxModel.Extracted.Registry
/-!
C11 — backend selection follows the documented precedence and is stable.

Property theorems only (helper lemmas live in `Proofs/Registry.lean`).  `Extracted.registryCfg`
is regenerated from `/repo` on every run, so `extracted_register_clears_memo` is re-checked
against what `BackendRegistryState._register` says now.
-/
namespace Einx.Registry

/-- Obligation regenerated from the source: `_register` drops the tensor-type memo. -/
theorem extracted_register_clears_memo : Einx.Extracted.registryCfg.registerClearsMemo = true := by decide

/-- A backend object given as `backend=` is used as given, whatever the state. -/
theorem get_object (cfg : Cfg) (s : State) (mods : List String) (b : Backend) (tys : List Nat) :
    s.get cfg mods (.obj b) tys = .ok (s, b) := rfl

/-- A registered name wins over the `with` stack and the argument types. -/
theorem get_registered_name (cfg : Cfg) (s : State) (mods : List String) (n : String) (b : Backend)
    (tys : List Nat) (h : dictGet s.names n = some b) :
    s.get cfg mods (.name n) tys = .ok (s, b) := by
  simp [State.get, State.getByName, h]

/-- Whatever `get` returns for a name is registered under that name afterwards. -/
theorem get_name_result_registered (cfg : Cfg) (s s' : State) (mods : List String) (n : String) (b : Backend)
    (tys : List Nat) (h : s.get cfg mods (.name n) tys = .ok (s', b)) : dictGet s'.names n = some b := by
  simp only [State.get, State.getByName] at h
  cases hn : dictGet s.names n with
  | some b0 => simp [hn] at h; obtain ⟨rfl, rfl⟩ := h; exact hn
  | none =>
    simp only [hn] at h
    generalize s.checkNewImports cfg mods false = r at h
    obtain ⟨s1, changed, ch⟩ := r
    simp only at h
    by_cases hc : changed
    · simp only [hc, Bool.not_true, Bool.false_eq_true, ↓reduceIte] at h
      cases hn1 : dictGet s1.names n with
      | some b1 => simp [hn1] at h; obtain ⟨rfl, rfl⟩ := h; exact hn1
      | none => simp [hn1] at h
    · simp [hc] at h

/-- Without an explicit backend, the innermost active `with backend:` block decides. -/
theorem get_with_stack (cfg : Cfg) (s : State) (mods : List String) (arg : BackendArg) (b : Backend)
    (tys : List Nat) (harg : arg = .none ∨ arg = .other) (h : s.stack.getLast? = some b) :
    s.get cfg mods arg tys = .ok (s, b) := by
  rcases harg with rfl | rfl <;> simp [State.get, h]

/-- Any other non-`None` backend argument is a `ValueError` (outside a `with` block). -/
theorem get_other_invalid (cfg : Cfg) (s : State) (mods : List String) (tys : List Nat)
    (h : s.stack = []) : s.get cfg mods .other tys = .error .value := by
  simp [State.get, h]

/-- **Selection is a function of the state's backends, names and stack** once no lazily registered
factory is waiting for an already imported module: the implementation's `get` (memo, import
checks and all) returns exactly `specGet`, leaves backends/names/stack untouched and keeps the
memo sound. -/
theorem get_quiet_spec (cfg : Cfg) (s : State) (mods : List String) (arg : BackendArg) (tys : List Nat)
    (q : Quiet s mods) (ok : MemoOK s) :
    (match s.get cfg mods arg tys with
      | .ok (s', b) => specGet s arg tys = .ok b ∧ Same s s' ∧ MemoOK s' ∧ Quiet s' mods
      | .error e => specGet s arg tys = .error e) :=
  get_quiet cfg s mods arg tys q ok

/-- Registering a backend always leaves a sound memo (given the extracted fact that `_register`
clears it), and cannot wake up a waiting factory. -/
theorem register_memoOK (cfg : Cfg) (hc : cfg.registerClearsMemo = true) (s : State) (b : Backend) :
    MemoOK (s.register cfg b) := by
  intro e he; simp [State.register, hc] at he

theorem register_quiet (cfg : Cfg) (s : State) (mods : List String) (b : Backend) (q : Quiet s mods) :
    Quiet (s.register cfg b) mods := q

/-- Lookups do not influence later lookups: after any sequence of `get`s from a quiet state with a
sound memo, a lookup returns what `specGet` says about the *initial* state. -/
theorem lookups_history_independent (cfg : Cfg) (mods : List String)
    (hist : List (BackendArg × List Nat)) (s : State) (q : Quiet s mods) (ok : MemoOK s)
    (arg : BackendArg) (tys : List Nat) :
    let s' := hist.foldl (fun s (c : BackendArg × List Nat) =>
      match s.get cfg mods c.1 c.2 with
      | .ok (s', _) => s'
      | .error _ => s) s
    (s'.get cfg mods arg tys).map (·.2) = specGet s arg tys := by
  induction hist generalizing s with
  | nil =>
    have := get_quiet_spec cfg s mods arg tys q ok
    simp only [List.foldl_nil]
    cases h : s.get cfg mods arg tys with
    | ok r => obtain ⟨s', b⟩ := r; simp [h] at this; simp [Except.map, this.1]
    | error e => simp [h] at this; simp [Except.map, this]
  | cons c hist ih =>
    simp only [List.foldl_cons]
    have h1 := get_quiet_spec cfg s mods c.1 c.2 q ok
    cases h : s.get cfg mods c.1 c.2 with
    | ok r =>
      obtain ⟨s1, b⟩ := r
      simp [h] at h1
      have := ih s1 h1.2.2.2 h1.2.2.1
      simp only at this ⊢
      rw [this]
      simp [specGet, h1.2.1.names, h1.2.1.stack, select, candidates, h1.2.1.backends]
    | error e => simpa using ih s q ok

/-- A failed factory (an `InvalidBackend`) is never a candidate for any argument type. -/
theorem failing_factory_isolated (bs : List Backend) (b : Backend) (ty : Nat) (h : b.invalid = true) :
    supporting (bs ++ [b]) ty = supporting bs ty := by
  simp [supporting, List.filter_append, h]

/-- Python scalars alone select the backend registered as "numpy". -/
theorem scalars_select_numpy (s : State) (tys : List Nat) (nb : Backend)
    (hs : tys.all isScalarTy = true) (hn : dictGet s.names "numpy" = some nb) : select s tys = [nb] := by
  simp [select, candidates, hs, hn, keepMax]

/-- Priority filter: a strictly highest-priority candidate is the unique choice. -/
theorem keepMax_two (a b : Backend) (h : a.priority > b.priority) : keepMax [a, b] = [a] ∧ keepMax [b, a] = [a] := by
  have h1 : max a.priority b.priority = a.priority := by omega
  have h2 : max b.priority a.priority = a.priority := by omega
  have hne : ¬ b.priority = a.priority := by omega
  constructor <;> simp [keepMax, maxPriority, h1, h2, hne]

/-- With the priorities read from `impl/numpy.py`, numpy arrays select "numpy" over the specialised backends. -/
theorem real_config_default :
    (Einx.Extracted.realPriorities.lookup "numpy").isSome = true ∧
    ∀ p ∈ Einx.Extracted.realPriorities, p.1 ≠ "numpy" →
      (Einx.Extracted.realPriorities.lookup "numpy").getD 0 > p.2 := by decide

/-- Non-vacuity: a quiet state with a sound, non-empty memo and two candidate backends. -/
example :
    let np : Backend := { uid := 1, name := "numpy", priority := -1, accepts := [3], invalid := false }
    let sp : Backend := { uid := 2, name := "numpy.numpylike", priority := -5, accepts := [3], invalid := false }
    let s : State := { backends := [np, sp], names := [("numpy", np), ("numpy.numpylike", sp)], memo := [([3], np)] }
    Quiet s ["numpy"] ∧ MemoOK s ∧ specGet s .none [3] = .ok np := by
  intro np sp s
  refine ⟨?_, ?_, ?_⟩
  · intro m _; rfl
  · intro e he
    have : e = ([3], np) := by simpa [s] using he
    subst this; decide
  · rfl

/-! ## Order and history independence

"The choice does not depend on registration order or earlier lookups", for all sets of distinctly named
registered backends, all registration orders, all sequences of lookups / module imports / nested `with` blocks. -/

/-- Outcomes are compared up to the enumeration order of an ambiguous candidate set (`OutEq`: the same
backend, the same error, or "several candidates" with a permutation of the same uids).  It is an equivalence
relation, and on every outcome other than "several candidates" it is equality. -/
theorem outEq_equivalence : Equivalence OutEq := ⟨OutEq.refl, OutEq.symm, OutEq.trans⟩

theorem outEq_ok (x : Except Err Backend) (b : Backend) : OutEq x (.ok b) ↔ x = .ok b := outEq_ok_iff

/-- **What is selected, as a set**: among the registered backends with distinct uids, exactly the valid ones
that accept one of the (non-scalar) argument types and have the highest priority among those.  Nothing in
this description refers to an order. -/
theorem select_is_max_priority_set (s : State) (hU : (s.backends.map (·.uid)).Nodup) (tys : List Nat)
    (hsc : tys.all isScalarTy = false) (x : Backend) :
    x ∈ select s tys ↔
      (x ∈ s.backends ∧ x.invalid = false ∧ ∃ ty ∈ tys, ty ∈ x.accepts) ∧
      ∀ y, (y ∈ s.backends ∧ y.invalid = false ∧ ∃ ty ∈ tys, ty ∈ y.accepts) → y.priority ≤ x.priority :=
  mem_select (uidInj_of_nodup _ hU) hsc x

/-- The selected list never contains a backend twice. -/
theorem select_nodup (s : State) (tys : List Nat) : (select s tys).Nodup :=
  nodup_of_nodup_uid (nodup_uid_select s tys)

/-- **Selection does not depend on the order of `backends`**: two states with the same set of backends
(distinct uids) and the same name map select permutations of the same list, for every tuple of argument
types – the same members, the same number, the same unique choice. -/
theorem select_order_independent (s t : State) (hmem : ∀ b, b ∈ s.backends ↔ b ∈ t.backends)
    (hs : (s.backends.map (·.uid)).Nodup) (ht : (t.backends.map (·.uid)).Nodup)
    (hnames : ∀ n, dictGet s.names n = dictGet t.names n) (tys : List Nat) :
    (select s tys).Perm (select t tys) ∧ (∀ b, b ∈ select s tys ↔ b ∈ select t tys) ∧
      (select s tys).length = (select t tys).length ∧ (∀ b, select s tys = [b] ↔ select t tys = [b]) := by
  have hp : (select s tys).Perm (select t tys) :=
    select_perm (t := { t with stack := s.stack }) ⟨hmem, uidInj_of_nodup _ hs, uidInj_of_nodup _ ht, hnames, rfl⟩ tys
  refine ⟨hp, fun b => hp.mem_iff, hp.length_eq, fun b => ⟨fun e => ?_, fun e => ?_⟩⟩
  · rw [e] at hp; exact (List.singleton_perm.1 hp).symm
  · rw [e] at hp; exact List.perm_singleton.1 hp

/-- … hence the specified outcome of a lookup – precedence chain included – is the same. -/
theorem specGet_order_independent (s t : State) (h : SameSet s t) (arg : BackendArg) (tys : List Nat) :
    OutEq (specGet s arg tys) (specGet t arg tys) := specGet_outEq h arg tys

/-- **Registration order**: registering two permutations of a list of distinctly named backends with distinct
uids (from the empty registry) leads to states with the same set of backends and the same name map; both are
quiet for every `sys.modules` and have a sound memo. -/
theorem register_order_independent (cfg : Cfg) (bs bs' : List Backend) (hp : bs.Perm bs')
    (hn : (bs.map (·.name)).Nodup) (hu : (bs.map (·.uid)).Nodup) (mods : List String) :
    SameSet (registerAll cfg {} bs) (registerAll cfg {} bs') ∧
      Quiet (registerAll cfg {} bs) mods ∧ MemoOK (registerAll cfg {} bs) ∧
      (registerAll cfg {} bs).backends = bs ∧ ∀ b ∈ bs, dictGet (registerAll cfg {} bs).names b.name = some b :=
  ⟨registerAll_sameSet cfg hp hn hu, registerAll_quiet cfg bs mods, registerAll_memoOK cfg bs,
    by simpa using (registerAll_fields cfg bs {}).1, registerAll_names_mem cfg bs {} hn⟩

/-- **The implementation's lookup does not depend on the registration order** – nor on the lookups made in
between: after registering `bs` resp. a permutation `bs'` and then *any two* sequences of lookups, `get`
(memo, import checks and all) returns `OutEq`-equal outcomes. -/
theorem get_registration_order_independent (cfg : Cfg) (mods : List String) (bs bs' : List Backend)
    (hp : bs.Perm bs') (hn : (bs.map (·.name)).Nodup) (hu : (bs.map (·.uid)).Nodup)
    (hist hist' : List (BackendArg × List Nat)) (arg : BackendArg) (tys : List Nat) :
    let run := fun (s : State) (h : List (BackendArg × List Nat)) =>
      h.foldl (fun s (c : BackendArg × List Nat) =>
        match s.get cfg mods c.1 c.2 with
        | .ok (s', _) => s'
        | .error _ => s) s
    OutEq (((run (registerAll cfg {} bs) hist).get cfg mods arg tys).map (·.2))
      (((run (registerAll cfg {} bs') hist').get cfg mods arg tys).map (·.2)) := by
  intro run
  have h1 := lookups_history_independent cfg mods hist (registerAll cfg {} bs)
    (registerAll_quiet cfg bs mods) (registerAll_memoOK cfg bs) arg tys
  have h2 := lookups_history_independent cfg mods hist' (registerAll cfg {} bs')
    (registerAll_quiet cfg bs' mods) (registerAll_memoOK cfg bs') arg tys
  simp only at h1 h2
  simp only [run, h1, h2]
  exact specGet_outEq (registerAll_sameSet cfg hp hn hu) arg tys

/-- The specification state of a history (`specState`: registrations append, `with` blocks push and pop,
everything else is ignored) consists of exactly the registered backends in registration order, each found
under its name (later registrations of a name win), no memo, no waiting factory. -/
theorem specState_fields (ops : List Op) :
    (specState ops).backends = regsOf ops ∧
    (specState ops).names = (regsOf ops).foldl (fun d b => dictSet d b.name b) [] ∧
    (specState ops).uninit = [] ∧ (specState ops).memo = [] := by
  have h := foldl_specStep_fields ops {}
  exact ⟨by simpa [specState] using h.1, h.2.1, h.2.2.1, h.2.2.2.1⟩

/-- … and it is not moved by lookups and module imports anywhere in the history. -/
theorem specState_ignores_lookups (ops : List Op) :
    specState ops = specState (ops.filter (fun o => !Op.isLookup o)) := foldl_specStep_filter ops {}

/-- **History independence**: after *any* sequence of `register`, `get`, `get_by_name`, `enter`, `exit`
(balanced or not; failing calls included) and module imports – no lazy registration – on a fresh
`BackendRegistry`, a lookup returns exactly what the pure specification says about the state that has the
registered backends and the current `with` stack: earlier lookups, their memo entries and their import checks
never influence it.  (`cfg.registerClearsMemo` is the extracted fact `extracted_register_clears_memo`.) -/
theorem history_independent (cfg : Cfg) (hc : cfg.registerClearsMemo = true) (mods₀ : List String)
    (ops : List Op) (he : ∀ op ∈ ops, op.isEager = true) (arg : BackendArg) (tys : List Nat) :
    let w := (runOps cfg { st := {}, mods := mods₀ } ops).1
    (w.st.get cfg w.mods arg tys).map (·.2) = specGet (specState ops) arg tys := by
  intro w
  have inv : EagerInv w.st (specState ops) := runOps_eagerInv cfg hc ops _ _ he eagerInv_empty
  have h := get_quiet cfg w.st w.mods arg tys (inv.quiet _) inv.memo
  rw [← specGet_congr inv.same]
  cases hg : w.st.get cfg w.mods arg tys with
  | ok r => obtain ⟨s', b⟩ := r; rw [hg] at h; simp [Except.map, h.1]
  | error e => rw [hg] at h; simp [Except.map, h]

/-- **Registration order and history together**: two histories without lazy registration that registered the
same distinctly named backends *in any order*, interleaved with *any* lookups, and are at the same `with`
nesting, answer a lookup with `OutEq`-equal outcomes. -/
theorem history_order_independent (cfg : Cfg) (hc : cfg.registerClearsMemo = true) (mods₀ mods₀' : List String)
    (ops ops' : List Op) (he : ∀ op ∈ ops, op.isEager = true) (he' : ∀ op ∈ ops', op.isEager = true)
    (hp : (regsOf ops).Perm (regsOf ops'))
    (hn : ((regsOf ops).map (·.name)).Nodup) (hu : ((regsOf ops).map (·.uid)).Nodup)
    (hst : (specState ops).stack = (specState ops').stack) (arg : BackendArg) (tys : List Nat) :
    let w := (runOps cfg { st := {}, mods := mods₀ } ops).1
    let w' := (runOps cfg { st := {}, mods := mods₀' } ops').1
    OutEq ((w.st.get cfg w.mods arg tys).map (·.2)) ((w'.st.get cfg w'.mods arg tys).map (·.2)) := by
  intro w w'
  have h1 := history_independent cfg hc mods₀ ops he arg tys
  have h2 := history_independent cfg hc mods₀' ops' he' arg tys
  simp only at h1 h2
  simp only [w, w', h1, h2]
  exact specGet_outEq (specState_sameSet hp hn hu hst) arg tys

section NonVacuity
private def ba : Backend := { uid := 1, name := "a", priority := 0, accepts := [3], invalid := false }
private def bb : Backend := { uid := 2, name := "b", priority := 0, accepts := [3, 4], invalid := false }
private def bc : Backend := { uid := 3, name := "c", priority := -1, accepts := [4, 5], invalid := false }
private def bd : Backend := { uid := 4, name := "numpy", priority := -1, accepts := [5], invalid := false }

/-- Non-vacuity of `select_order_independent` / `register_order_independent` /
`get_registration_order_independent`: two registration orders of four backends with equal and different
priorities.  The hypotheses hold; the outcomes are a unique choice by priority (`[4]`), a unique choice among
equal priorities by acceptance (`[5, 4]`), an ambiguity whose uid list *is* enumerated differently (`[3]`),
no match (`[7]`), scalars, and a name. -/
example :
    [ba, bb, bc, bd].Perm [bd, bc, ba, bb] ∧ ([ba, bb, bc, bd].map (·.name)).Nodup ∧ ([ba, bb, bc, bd].map (·.uid)).Nodup ∧
    specGet (registerAll ⟨true⟩ {} [ba, bb, bc, bd]) .none [4] = .ok bb ∧
    specGet (registerAll ⟨true⟩ {} [bd, bc, ba, bb]) .none [4] = .ok bb ∧
    specGet (registerAll ⟨true⟩ {} [ba, bb, bc, bd]) .none [3] = .error (.multiple [1, 2]) ∧
    specGet (registerAll ⟨true⟩ {} [bd, bb, bc, ba]) .none [3] = .error (.multiple [2, 1]) ∧
    specGet (registerAll ⟨true⟩ {} [ba, bb, bc, bd]) .none [5] = .error (.multiple [3, 4]) ∧
    specGet (registerAll ⟨true⟩ {} [bd, bc, ba, bb]) .none [5] = .error (.multiple [4, 3]) ∧
    specGet (registerAll ⟨true⟩ {} [bd, bc, ba, bb]) .none [7] = .error .nomatch ∧
    specGet (registerAll ⟨true⟩ {} [bd, bc, ba, bb]) .none [0, 1] = .ok bd ∧
    specGet (registerAll ⟨true⟩ {} [bd, bc, ba, bb]) (.name "c") [3] = .ok bc :=
  ⟨by decide, by decide, by decide, rfl, rfl, rfl, rfl, rfl, rfl, rfl, rfl, rfl⟩

/-- Non-vacuity of `history_independent` / `history_order_independent`: two histories with different
registration orders, different lookups in between (one of them failing, one inside a `with` block, an
unbalanced `exit`), the same final `with` nesting. -/
example :
    let ops := [Op.register ba, .get .none [3], .register bb, .get .none [3], .enter bc, .get .none [4], .exit bc,
      .importModule "jax", .register bc, .get (.name "zzz") [], .exit ba]
    let ops' := [Op.register bc, .register bb, .get .none [4], .getByName "c", .register ba]
    (∀ op ∈ ops, op.isEager = true) ∧ (∀ op ∈ ops', op.isEager = true) ∧
    (regsOf ops).Perm (regsOf ops') ∧ regsOf ops = [ba, bb, bc] ∧ regsOf ops' = [bc, bb, ba] ∧
    ((regsOf ops).map (·.name)).Nodup ∧ ((regsOf ops).map (·.uid)).Nodup ∧
    (specState ops).stack = (specState ops').stack ∧
    (runOps ⟨true⟩ {} ops).2 = [.unit, .backend 1, .unit, .error (.multiple [1, 2]), .unit, .backend 3, .unit,
      .unit, .unit, .error .value, .error .assertion] ∧
    specGet (specState ops) .none [4] = .ok bb ∧ specGet (specState ops') .none [4] = .ok bb ∧
    specGet (specState ops) .none [3] = .error (.multiple [1, 2]) ∧
    specGet (specState ops') .none [3] = .error (.multiple [2, 1]) := by
  intro ops ops'
  refine ⟨by decide, by decide, by decide, rfl, rfl, by decide, by decide, rfl, rfl, rfl, rfl, rfl, rfl⟩

/-- Without distinct names the name map *does* depend on the order (later registrations win), so the
hypothesis of `register_order_independent` cannot be dropped. -/
example :
    let x : Backend := { uid := 1, name := "n", priority := 0, accepts := [3], invalid := false }
    let y : Backend := { uid := 2, name := "n", priority := 0, accepts := [4], invalid := false }
    specGet (registerAll ⟨true⟩ {} [x, y]) (.name "n") [] = .ok y ∧
    specGet (registerAll ⟨true⟩ {} [y, x]) (.name "n") [] = .ok x := ⟨rfl, rfl⟩
end NonVacuity

/-! ## Lazy registration (`register_on_import`)

With factories waiting for an already imported module the choice *is* history dependent in general
(`lazy_mix_history_dependent` below).  Under the discipline einx's own registrations follow it is not. -/

/-- Every world reachable from a fresh registry – by any operations, lazy registration and imports included – is
well formed: seen modules are imported and have no waiting factory. -/
theorem runOps_wellFormed (cfg : Cfg) (mods₀ : List String) (ops : List Op) :
    WellFormed (runOps cfg { st := {}, mods := mods₀ } ops).1 :=
  wfs_runOps cfg ops _ ⟨fun _ h => (by cases h), fun _ h => (by cases h)⟩

/-- The effective state is quiet: running the import check twice changes nothing more. -/
theorem flush_is_quiet (cfg : Cfg) (mods₀ : List String) (ops : List Op) :
    let w := (runOps cfg { st := {}, mods := mods₀ } ops).1
    Quiet (w.st.flush cfg w.mods) w.mods ∧ (w.st.flush cfg w.mods).stack = w.st.stack :=
  ⟨flush_quiet cfg _ _ (runOps_wellFormed cfg mods₀ ops).2, flush_stack cfg _ _⟩

/-- **Lookup with waiting factories**: after *any* history (eager and lazy registrations, imports, lookups, `with`
blocks), if the state satisfies `LazyDiscipline` for the argument types – decidable, see its definition – the
lookup returns what the pure specification says about the *effective* state, in which every factory registered
for a module that is imported by now has been run.  In particular it does not matter whether, when and by which
lookup the import check happened. -/
theorem get_lazy_spec (cfg : Cfg) (mods₀ : List String) (ops : List Op) (arg : BackendArg) (tys : List Nat) :
    let w := (runOps cfg { st := {}, mods := mods₀ } ops).1
    LazyDiscipline cfg w.st w.mods tys →
      (w.st.get cfg w.mods arg tys).map (·.2) = specGet (w.st.flush cfg w.mods) arg tys :=
  fun d => get_pending cfg _ _ arg tys (runOps_wellFormed cfg mods₀ ops).2 d

/-- `get_lazy_spec` generalises `get_quiet_spec`: in a quiet state the discipline is the soundness of the memo and
the effective state is the state itself (up to `seen`). -/
theorem lazyDiscipline_quiet (cfg : Cfg) (s : State) (mods : List String) (tys : List Nat)
    (q : Quiet s mods) (ok : MemoOK s) :
    LazyDiscipline cfg s mods tys ∧ Same s (s.flush cfg mods) :=
  ⟨lazyDiscipline_of_quiet cfg s mods tys q ok, (flush_of_quiet cfg s mods q).1⟩

/-- **Histories with lazy registration under einx's discipline** (`disciplined`, a `Bool` computed from the
operation sequence alone: new names; tensor types of a lazily registered backend are accepted by no eagerly
registered backend and by no lazily registered backend of another module; a lookup never involves a type that a
factory waiting for a *not yet imported* module accepts).  After any such history – registrations of both kinds,
imports, lookups (failing ones included), `with` blocks, in any interleaving – every disciplined state satisfies
`LazyDiscipline` for every tuple of argument types, so a lookup returns exactly what the pure specification says
about the effective state: it does not matter which earlier lookups happened, what they memoised, and whether one
of them already ran the import check. -/
theorem lazy_history_spec (cfg : Cfg) (hc : cfg.registerClearsMemo = true) (mods₀ : List String) (ops : List Op)
    (hd : disciplined { mods := mods₀ } ops = true) (arg : BackendArg) (tys : List Nat) :
    let w := (runOps cfg { st := {}, mods := mods₀ } ops).1
    LazyDiscipline cfg w.st w.mods tys ∧
      (w.st.get cfg w.mods arg tys).map (·.2) = specGet (w.st.flush cfg w.mods) arg tys := by
  intro w
  obtain ⟨ci, ti⟩ := run_ci cfg hc ops { st := {}, mods := mods₀ } { mods := mods₀ } (ci_empty mods₀) (ti_empty mods₀) hd
  have d := ci_discipline cfg ci ti tys
  exact ⟨d, get_pending cfg _ _ arg tys ci.wf.2 d⟩

/-- **The effective state, without reference to the implementation**: after a disciplined history its backends
are – as a set – the backends registered eagerly together with the products of the factories registered lazily for
a module that is imported by now (`Track.effective`, computed from the operation sequence alone); a name finds
exactly the backend of that name among them; the `with` stack is that of the specification state; and it is quiet. -/
theorem lazy_effective_state (cfg : Cfg) (hc : cfg.registerClearsMemo = true) (mods₀ : List String) (ops : List Op)
    (hd : disciplined { mods := mods₀ } ops = true) :
    let w := (runOps cfg { st := {}, mods := mods₀ } ops).1
    let e := w.st.flush cfg w.mods
    (∀ x, x ∈ e.backends ↔ x ∈ (trackOf mods₀ ops).effective) ∧
    (∀ n x, dictGet e.names n = some x ↔ x ∈ (trackOf mods₀ ops).effective ∧ x.name = n) ∧
    e.stack = (specState ops).stack ∧ Quiet e w.mods := by
  intro w e
  obtain ⟨ci, ri, ti, hst⟩ := run_all cfg hc ops { st := {}, mods := mods₀ } { mods := mods₀ } {}
    (ci_empty mods₀) (ri_empty mods₀) (ti_empty mods₀) rfl hd
  refine ⟨effective_mem cfg ci ri ti, fun n x => ?_, (flush_stack cfg _ _).trans hst, flush_quiet cfg _ _ ci.wf.2⟩
  rw [effective_names cfg ci ri ti n x, effective_mem cfg ci ri ti x]
  rfl

/-- **Order and history independence with lazy registration**: two disciplined histories – different registration
orders, eager in one and lazy in the other, different lookups and imports in between, different moments at which
the import check ran – that have *effectively* registered the same set of backends (uid determines the backend)
and are at the same `with` nesting answer every lookup with `OutEq`-equal outcomes. -/
theorem lazy_history_independent (cfg : Cfg) (hc : cfg.registerClearsMemo = true) (mods₀ mods₀' : List String)
    (ops ops' : List Op) (hd : disciplined { mods := mods₀ } ops = true) (hd' : disciplined { mods := mods₀' } ops' = true)
    (heff : ∀ x, x ∈ (trackOf mods₀ ops).effective ↔ x ∈ (trackOf mods₀' ops').effective)
    (hinj : UidInj (trackOf mods₀ ops).effective)
    (hst : (specState ops).stack = (specState ops').stack) (arg : BackendArg) (tys : List Nat) :
    let w := (runOps cfg { st := {}, mods := mods₀ } ops).1
    let w' := (runOps cfg { st := {}, mods := mods₀' } ops').1
    OutEq ((w.st.get cfg w.mods arg tys).map (·.2)) ((w'.st.get cfg w'.mods arg tys).map (·.2)) := by
  intro w w'
  have h1 := (lazy_history_spec cfg hc mods₀ ops hd arg tys).2
  have h2 := (lazy_history_spec cfg hc mods₀' ops' hd' arg tys).2
  obtain ⟨m1, n1, s1, _⟩ := lazy_effective_state cfg hc mods₀ ops hd
  obtain ⟨m2, n2, s2, _⟩ := lazy_effective_state cfg hc mods₀' ops' hd'
  simp only [w, w', h1, h2]
  apply specGet_outEq
  refine ⟨fun b => by rw [m1, m2]; exact heff b, fun x hx y hy => hinj x ((m1 x).1 hx) y ((m1 y).1 hy),
    fun x hx y hy => hinj x ((heff x).2 ((m2 x).1 hx)) y ((heff y).2 ((m2 y).1 hy)), fun n => ?_, by rw [s1, s2, hst]⟩
  cases h : dictGet ((runOps cfg { st := {}, mods := mods₀ } ops).1.st.flush cfg (runOps cfg { st := {}, mods := mods₀ } ops).1.mods).names n with
  | some x =>
    have := (n1 n x).1 h
    exact ((n2 n x).2 ⟨(heff x).1 this.1, this.2⟩).symm
  | none =>
    cases h' : dictGet ((runOps cfg { st := {}, mods := mods₀' } ops').1.st.flush cfg (runOps cfg { st := {}, mods := mods₀' } ops').1.mods).names n with
    | none => rfl
    | some y =>
      have := (n2 n y).1 h'
      rw [(n1 n y).2 ⟨(heff y).2 this.1, this.2⟩] at h
      cases h

section NonVacuityLazy
private def fj : Factory := { name := "jax", produces := { uid := 10, name := "jax", priority := 0, accepts := [6], invalid := false } }
private def fj2 : Factory := { name := "jax.x", produces := { uid := 11, name := "jax.x", priority := -5, accepts := [6], invalid := false } }
private def ft : Factory := { name := "torch", produces := { uid := 12, name := "torch", priority := 0, accepts := [7], invalid := true } }

/-- Non-vacuity of `get_lazy_spec`: factories wait for "jax" (imported meanwhile, not yet seen) and "torch" (not
imported); a numpy lookup has been memoised before.  The discipline holds for jax arrays, numpy arrays and their
mix; the state is *not* quiet; the lookups answer from the effective state. -/
example :
    let ops := [Op.register ba, .registerOnImport "jax" fj, .registerOnImport "jax" fj2, .registerOnImport "torch" ft,
      .get .none [3], .importModule "jax"]
    let w := (runOps ⟨true⟩ {} ops).1
    ¬ Quiet w.st w.mods ∧ w.st.memo = [([3], ba)] ∧
    LazyDiscipline ⟨true⟩ w.st w.mods [6] ∧ LazyDiscipline ⟨true⟩ w.st w.mods [3] ∧
    LazyDiscipline ⟨true⟩ w.st w.mods [3, 6] ∧
    (w.st.flush ⟨true⟩ w.mods).backends = [ba, fj.produces, fj2.produces] ∧
    (w.st.get ⟨true⟩ w.mods .none [6]).map (·.2) = .ok fj.produces ∧
    (w.st.get ⟨true⟩ w.mods .none [3]).map (·.2) = .ok ba ∧
    (w.st.get ⟨true⟩ w.mods .none [3, 6]).map (·.2) = .error (.multiple [1, 10]) ∧
    (w.st.get ⟨true⟩ w.mods (.name "jax.x") []).map (·.2) = .ok fj2.produces := by
  intro ops w
  refine ⟨fun q => ?_, rfl, by decide, by decide, by decide, rfl, rfl, rfl, rfl, rfl⟩
  have := q "jax" (by decide)
  exact absurd this (by decide)

private def fnp : Factory := { name := "numpy", produces := { uid := 30, name := "numpy", priority := -1, accepts := [3], invalid := false } }
private def fj3 : Factory := { name := "jax.y", produces := { uid := 13, name := "jax.y", priority := 0, accepts := [6], invalid := false } }

/-- Non-vacuity of `lazy_history_spec` / `lazy_effective_state` / `lazy_history_independent`: in the first history
numpy is imported from the start (its backend is registered eagerly), the jax factories are registered lazily,
lookups happen before and after `import jax`; in the second everything is imported first and registered eagerly in
another order.  Both are disciplined, effectively register the same three backends, and answer `[3]` with numpy,
`[6]` with an ambiguity enumerated in a different order, scalars with numpy. -/
example :
    let ops := [Op.registerOnImport "numpy" fnp, .registerOnImport "jax" fj, .registerOnImport "jax" fj3,
      .get .none [3], .get .none [0, 1], .importModule "jax", .get .none [3], .enter ba, .exit ba]
    let ops' := [Op.registerOnImport "jax" fj3, .registerOnImport "numpy" fnp, .registerOnImport "jax" fj, .get (.name "jax") []]
    let w := (runOps ⟨true⟩ { st := {}, mods := ["numpy"] } ops).1
    let w' := (runOps ⟨true⟩ { st := {}, mods := ["numpy", "jax"] } ops').1
    disciplined { mods := ["numpy"] } ops = true ∧ disciplined { mods := ["numpy", "jax"] } ops' = true ∧
    (∀ x, x ∈ (trackOf ["numpy"] ops).effective ↔ x ∈ (trackOf ["numpy", "jax"] ops').effective) ∧
    UidInj (trackOf ["numpy"] ops).effective ∧ (specState ops).stack = (specState ops').stack ∧
    (trackOf ["numpy"] ops).effective = [fnp.produces, fj.produces, fj3.produces] ∧
    (runOps ⟨true⟩ { st := {}, mods := ["numpy"] } ops).2 =
      [.unit, .unit, .unit, .backend 30, .backend 30, .unit, .backend 30, .unit, .unit] ∧
    ¬ Quiet w.st w.mods ∧
    (w.st.get ⟨true⟩ w.mods .none [6]).map (·.2) = .error (.multiple [10, 13]) ∧
    (w'.st.get ⟨true⟩ w'.mods .none [6]).map (·.2) = .error (.multiple [13, 10]) ∧
    (w.st.get ⟨true⟩ w.mods .none [3]).map (·.2) = .ok fnp.produces ∧
    (w'.st.get ⟨true⟩ w'.mods .none [3]).map (·.2) = .ok fnp.produces := by
  intro ops ops' w w'
  refine ⟨by decide, by decide, fun x => List.Perm.mem_iff (by decide), uidInj_of_nodup _ (by decide), rfl, rfl, rfl,
    fun q => ?_, rfl, rfl, rfl, rfl⟩
  exact absurd (q "jax" (by decide)) (by decide)

/-- **The discipline cannot be dropped**: a backend registered eagerly and a factory registered lazily for the same
tensor type.  After the module is imported the lookup still answers with the eager backend (no import check
happens because a supporting backend exists), although the effective state selects the higher-priority lazy one;
a lookup by name in between (which does run the import check) changes the answer.  (Not reachable with einx's own registrations.) -/
theorem lazy_mix_history_dependent :
    let hi : Factory := { name := "hi", produces := { uid := 20, name := "hi", priority := 5, accepts := [3], invalid := false } }
    let ops := [Op.register ba, .registerOnImport "m" hi, .importModule "m"]
    let w := (runOps ⟨true⟩ {} ops).1
    let w' := (runOps ⟨true⟩ {} (ops ++ [.getByName "hi"])).1
    (w.st.get ⟨true⟩ w.mods .none [3]).map (·.2) = .ok ba ∧
    specGet (w.st.flush ⟨true⟩ w.mods) .none [3] = .ok hi.produces ∧
    (w'.st.get ⟨true⟩ w'.mods .none [3]).map (·.2) = .ok hi.produces ∧
    ¬ LazyDiscipline ⟨true⟩ w.st w.mods [3] ∧ disciplined {} ops = false := by
  intro hi ops w w'
  exact ⟨rfl, rfl, rfl, by decide, rfl⟩

private def fhi : Factory := { name := "hi", produces := { uid := 20, name := "hi", priority := 5, accepts := [8], invalid := false } }
private def earlyOps : List Op := [.register ba, .registerOnImport "m" fhi, .get .none [3, 8], .importModule "m"]

/-- … nor can "tensors of a framework only exist after its module is imported": type ownership is respected here,
but a lookup involves the lazily registered framework's tensor type before the import; its memo entry survives the
import (which registers nothing by itself) and the next identical lookup answers from it, although the effective
state selects the now available higher-priority backend
(`earlyOps = [register a, register_on_import("m", hi), get [3, 8], import m]`). -/
theorem lazy_early_tensor_history_dependent :
    (((runOps ⟨true⟩ {} earlyOps).1.st.get ⟨true⟩ (runOps ⟨true⟩ {} earlyOps).1.mods .none [3, 8]).map (·.2) = .ok ba) ∧
    specGet ((runOps ⟨true⟩ {} earlyOps).1.st.flush ⟨true⟩ (runOps ⟨true⟩ {} earlyOps).1.mods) .none [3, 8] = .ok fhi.produces ∧
    disciplined {} [Op.register ba, .registerOnImport "m" fhi] = true ∧ disciplined {} earlyOps = false :=
  ⟨rfl, rfl, rfl, rfl⟩
end NonVacuityLazy

end Einx.Registry
