import EinxModel.Proofs.Registry
import EinxModel.Extracted.Registry
/-!
C11 — backend selection follows the documented precedence and is stable.

Property theorems only (helper lemmas live in `Proofs/Registry.lean`).  `Extracted.registryCfg`
is regenerated from `/repo` on every run, so `extracted_register_clears_memo` is re-checked
against what `BackendRegistryState._register` says now.
-/
namespace Einx.Registry

/-- Obligation regenerated from the source: `_register` drops the tensor-type memo. -/
theorem extracted_register_clears_memo : Einx.Extracted.registryCfg.registerClearsMemo = true := by decide

/-- A backend object given as `backend=` is used as given, whatever the state. -/
theorem get_object (cfg : Cfg) (s : State) (mods : List String) (b : Backend) (tys : List Nat) :
    s.get cfg mods (.obj b) tys = .ok (s, b) := rfl

/-- A registered name wins over the `with` stack and the argument types. -/
theorem get_registered_name (cfg : Cfg) (s : State) (mods : List String) (n : String) (b : Backend)
    (tys : List Nat) (h : dictGet s.names n = some b) :
    s.get cfg mods (.name n) tys = .ok (s, b) := by
  simp [State.get, State.getByName, h]

/-- Whatever `get` returns for a name is registered under that name afterwards. -/
theorem get_name_result_registered (cfg : Cfg) (s s' : State) (mods : List String) (n : String) (b : Backend)
    (tys : List Nat) (h : s.get cfg mods (.name n) tys = .ok (s', b)) : dictGet s'.names n = some b := by
  simp only [State.get, State.getByName] at h
  cases hn : dictGet s.names n with
  | some b0 => simp [hn] at h; obtain ⟨rfl, rfl⟩ := h; exact hn
  | none =>
    simp only [hn] at h
    generalize s.checkNewImports cfg mods false = r at h
    obtain ⟨s1, changed, ch⟩ := r
    simp only at h
    by_cases hc : changed
    · simp only [hc, Bool.not_true, Bool.false_eq_true, ↓reduceIte] at h
      cases hn1 : dictGet s1.names n with
      | some b1 => simp [hn1] at h; obtain ⟨rfl, rfl⟩ := h; exact hn1
      | none => simp [hn1] at h
    · simp [hc] at h

/-- Without an explicit backend, the innermost active `with backend:` block decides. -/
theorem get_with_stack (cfg : Cfg) (s : State) (mods : List String) (arg : BackendArg) (b : Backend)
    (tys : List Nat) (harg : arg = .none ∨ arg = .other) (h : s.stack.getLast? = some b) :
    s.get cfg mods arg tys = .ok (s, b) := by
  rcases harg with rfl | rfl <;> simp [State.get, h]

/-- Any other non-`None` backend argument is a `ValueError` (outside a `with` block). -/
theorem get_other_invalid (cfg : Cfg) (s : State) (mods : List String) (tys : List Nat)
    (h : s.stack = []) : s.get cfg mods .other tys = .error .value := by
  simp [State.get, h]

/-- **Selection is a function of the state's backends, names and stack** once no lazily registered
factory is waiting for an already imported module: the implementation's `get` (memo, import
checks and all) returns exactly `specGet`, leaves backends/names/stack untouched and keeps the
memo sound. -/
theorem get_quiet_spec (cfg : Cfg) (s : State) (mods : List String) (arg : BackendArg) (tys : List Nat)
    (q : Quiet s mods) (ok : MemoOK s) :
    (match s.get cfg mods arg tys with
      | .ok (s', b) => specGet s arg tys = .ok b ∧ Same s s' ∧ MemoOK s' ∧ Quiet s' mods
      | .error e => specGet s arg tys = .error e) := by
  cases arg with
  | obj b => simp [State.get, specGet, Same.refl, ok, q]
  | name n =>
    have hn := getByName_quiet cfg s mods false n q
    cases hd : dictGet s.names n with
    | some b => simp [State.get, specGet, hn.1 b hd, hd, Same.refl, ok, q]
    | none => simp [State.get, specGet, hn.2 hd, hd]
  | none =>
    cases hs : s.stack.getLast? with
    | some b => simp [State.get, specGet, hs, Same.refl, ok, q]
    | none =>
      have hg := getByTensors_quiet cfg s mods tys q ok
      simp only [State.get, specGet, hs]
      by_cases hbad : tys.all isScalarTy = true ∧ dictGet s.names "numpy" = none ∧ (s.memo.find? (·.1 == tys)).isNone
      · simp [hg.1 hbad, hbad.1, hbad.2.1]
      · obtain ⟨s', he, hsame, hok⟩ := hg.2 hbad
        have hcond : (tys.all isScalarTy && (dictGet s.names "numpy").isNone) = false := by
          by_cases h1 : tys.all isScalarTy = true
          · cases h2 : dictGet s.names "numpy" with
            | some _ => simp
            | none =>
              -- then the memo must have hit; a sound memo entry contradicts an empty candidate list
              have h3 : (s.memo.find? (·.1 == tys)).isNone = false := by
                cases h4 : (s.memo.find? (·.1 == tys)).isNone with
                | false => rfl
                | true => exact absurd ⟨h1, h2, h4⟩ hbad
              cases h5 : s.memo.find? (·.1 == tys) with
              | none => simp [h5] at h3
              | some e =>
                have hm := find_memo h5
                have := ok e hm.1
                rw [hm.2] at this
                simp [select, candidates, h1, h2, keepMax] at this
          · simp [h1]
        simp only [he, hcond]
        have q' : Quiet s' mods := quiet_congr hsame q
        cases hsel : select s tys with
        | nil => simp
        | cons b rest =>
          cases rest with
          | nil => simp [hsame, hok, q']
          | cons c rest' => simp
  | other =>
    cases hs : s.stack.getLast? with
    | some b => simp [State.get, specGet, hs, Same.refl, ok, q]
    | none => simp [State.get, specGet, hs]

/-- Registering a backend always leaves a sound memo (given the extracted fact that `_register`
clears it), and cannot wake up a waiting factory. -/
theorem register_memoOK (cfg : Cfg) (hc : cfg.registerClearsMemo = true) (s : State) (b : Backend) :
    MemoOK (s.register cfg b) := by
  intro e he; simp [State.register, hc] at he

theorem register_quiet (cfg : Cfg) (s : State) (mods : List String) (b : Backend) (q : Quiet s mods) :
    Quiet (s.register cfg b) mods := q

/-- Lookups do not influence later lookups: after any sequence of `get`s from a quiet state with a
sound memo, a lookup returns what `specGet` says about the *initial* state. -/
theorem lookups_history_independent (cfg : Cfg) (mods : List String)
    (hist : List (BackendArg × List Nat)) (s : State) (q : Quiet s mods) (ok : MemoOK s)
    (arg : BackendArg) (tys : List Nat) :
    let s' := hist.foldl (fun s (c : BackendArg × List Nat) =>
      match s.get cfg mods c.1 c.2 with
      | .ok (s', _) => s'
      | .error _ => s) s
    (s'.get cfg mods arg tys).map (·.2) = specGet s arg tys := by
  induction hist generalizing s with
  | nil =>
    have := get_quiet_spec cfg s mods arg tys q ok
    simp only [List.foldl_nil]
    cases h : s.get cfg mods arg tys with
    | ok r => obtain ⟨s', b⟩ := r; simp [h] at this; simp [Except.map, this.1]
    | error e => simp [h] at this; simp [Except.map, this]
  | cons c hist ih =>
    simp only [List.foldl_cons]
    have h1 := get_quiet_spec cfg s mods c.1 c.2 q ok
    cases h : s.get cfg mods c.1 c.2 with
    | ok r =>
      obtain ⟨s1, b⟩ := r
      simp [h] at h1
      have := ih s1 h1.2.2.2 h1.2.2.1
      simp only at this ⊢
      rw [this]
      simp [specGet, h1.2.1.names, h1.2.1.stack, select, candidates, h1.2.1.backends]
    | error e => simpa using ih s q ok

/-- A failed factory (an `InvalidBackend`) is never a candidate for any argument type. -/
theorem failing_factory_isolated (bs : List Backend) (b : Backend) (ty : Nat) (h : b.invalid = true) :
    supporting (bs ++ [b]) ty = supporting bs ty := by
  simp [supporting, List.filter_append, h]

/-- Python scalars alone select the backend registered as "numpy". -/
theorem scalars_select_numpy (s : State) (tys : List Nat) (nb : Backend)
    (hs : tys.all isScalarTy = true) (hn : dictGet s.names "numpy" = some nb) : select s tys = [nb] := by
  simp [select, candidates, hs, hn, keepMax]

/-- Priority filter: a strictly highest-priority candidate is the unique choice. -/
theorem keepMax_two (a b : Backend) (h : a.priority > b.priority) : keepMax [a, b] = [a] ∧ keepMax [b, a] = [a] := by
  have h1 : max a.priority b.priority = a.priority := by omega
  have h2 : max b.priority a.priority = a.priority := by omega
  have hne : ¬ b.priority = a.priority := by omega
  constructor <;> simp [keepMax, maxPriority, h1, h2, hne]

/-- With the priorities read from `impl/numpy.py`, numpy arrays select "numpy" over the specialised backends. -/
theorem real_config_default :
    (Einx.Extracted.realPriorities.lookup "numpy").isSome = true ∧
    ∀ p ∈ Einx.Extracted.realPriorities, p.1 ≠ "numpy" →
      (Einx.Extracted.realPriorities.lookup "numpy").getD 0 > p.2 := by decide

/-- Non-vacuity: a quiet state with a sound, non-empty memo and two candidate backends. -/
example :
    let np : Backend := { uid := 1, name := "numpy", priority := -1, accepts := [3], invalid := false }
    let sp : Backend := { uid := 2, name := "numpy.numpylike", priority := -5, accepts := [3], invalid := false }
    let s : State := { backends := [np, sp], names := [("numpy", np), ("numpy.numpylike", sp)], memo := [([3], np)] }
    Quiet s ["numpy"] ∧ MemoOK s ∧ specGet s .none [3] = .ok np := by
  intro np sp s
  refine ⟨?_, ?_, ?_⟩
  · intro m _; rfl
  · intro e he
    have : e = ([3], np) := by simpa [s] using he
    subst this; decide
  · rfl

end Einx.Registry
