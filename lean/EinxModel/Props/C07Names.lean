import EinxModel.Props.C07Stage2
import EinxModel.Proofs.SolveNamesParse
/-!
C07 / C02, name hygiene of the solving model as a theorem (continues `Props/C07Stage2.lean`).

The stage-2/3 shorthand theorems assumed the decidable side conditions `namesOK`, `freshVars`,
`renOK` (evaluated per case by the driver).  They are consequences of a purely syntactic condition on
the axis names the user wrote (`Solve/Names.lean`):

* `plainName s` — `s` contains no `#` and does not end in `.digits`; every identifier
  `[a-zA-Z_][a-zA-Z0-9_]*` is plain (`ident_name_plain`) and so is the anonymous ellipsis axis
  (`anonymous_name_plain`), and these are the only names the stage-1 parser model gives a named axis
  (`parser_names_plain`);
* `plainNames inp` — every axis name occurring in an expression of `inp` is plain.

The proofs (`Proofs/SolveNamesChars.lean`, `Proofs/SolveNames.lean`) are a unique-decoding argument
for the strings the model generates: node variables `#t/k(+/k….i.j` and axis variables `name.i.j`.
-/
namespace Einx.Solve

/-! ### The generated variable names decode uniquely -/

/-- **Node variables never collide** — for every input and all counts, with no condition on the axis
names: two different flattened / concatenated nodes (or two repetitions of one node) get different
variables `#t/k(….i.j`. -/
theorem node_variables_distinct (inp : Input) (ρ : Var → Nat) : (inp.nodeKeys ρ).Nodup :=
  inputNodeKeys_nodup inp ρ

/-- Every node variable contains `#`; an axis variable `name.i.j` contains one only if `name` does. -/
theorem node_variables_have_hash (inp : Input) (ρ : Var → Nat) : ∀ k ∈ inp.nodeKeys ρ, '#' ∈ k.toList :=
  inputNodeKeys_hash inp ρ

/-- **`namesOK` holds** as soon as no axis name contains `#`; the written-out long form of such an
input is hygienic too (its names `a.0.1` are no longer plain, but still free of `#`). -/
theorem names_ok_of_hash_free (inp : Input) (ρ ρ' : Var → Nat) (h : hashFree inp = true) :
    namesOK inp ρ = true ∧ namesOK (unrollInput inp ρ) ρ' = true :=
  ⟨namesOK_of_hashFree inp ρ h, namesOK_unroll_of_hashFree inp ρ ρ' h⟩

/-- **Expanded axis variables decode uniquely**: with plain names, `name.i.j` determines the name and
the indices. -/
theorem axis_variables_decode (inp : Input) (ρ : Var → Nat) (h : plainNames inp = true)
    (a b : String × List Nat × Var) (ha : a ∈ inp.axes ρ) (hb : b ∈ inp.axes ρ) (he : a.2.2 = b.2.2) :
    a.1 = b.1 ∧ a.2.1 = b.2.1 :=
  axisVar_inj h ha hb he

/-- **All three side conditions hold for plain names**: `namesOK`, `freshVars` for every name, and
`renOK` for every renaming that is injective on the axis names and maps them to plain names. -/
theorem side_conditions_of_plain_names (inp : Input) (ρ : Var → Nat) (h : plainNames inp = true) :
    namesOK inp ρ = true ∧ (∀ n, freshVars inp ρ n = true) ∧
    (∀ f : String → String, (∀ n ∈ inp.axisNames, plainName (f n) = true) →
      (∀ a ∈ inp.axisNames, ∀ b ∈ inp.axisNames, f a = f b → a = b) → renOK f inp ρ = true) :=
  ⟨namesOK_of_hashFree inp ρ (hashFree_of_plainNames h), fun n => freshVars_of_plainNames inp ρ n h,
    fun f hf hinj => renOK_of_plainNames f inp ρ h hf hinj⟩

/-- Every identifier `[a-zA-Z_][a-zA-Z0-9_]*` is a plain name. -/
theorem ident_name_plain (s : String) (h : identName s = true) : plainName s = true := identChars_plain h

/-- `identName` is the parser model's `isAxisName` (the pattern `_axis_name` of `stage1/parse.py`,
pinned by C12's `axis_name_pattern_exact`). -/
theorem ident_name_is_axis_name (s : String) : identName s = Einx.Notation.isAxisName s.toList :=
  identChars_eq_isAxisName s.toList

/-- T-src: the axis-name pattern of the pinned source (regenerated on every run) is the identifier
pattern `identName` decides. -/
theorem axis_name_pattern_is_ident : Einx.Extracted.axisNamePattern = "[a-zA-Z_][a-zA-Z0-9_]*" := by decide

/-- The anonymous ellipsis axis of the pinned source (regenerated on every run) is a plain name. -/
theorem anonymous_name_plain : plainName anonAxis = true := by decide

/-- **The parser model produces plain names only**: for every description `text` that
`Notation.parseOp` accepts, every input whose tensor expressions are operands of the result
(converted by `toSolve`, the Lean counterpart of `tools/props/c02.py:tree_json`) satisfies `plainNames`
— whatever shapes and constraints are attached.  (By the grammar of `parseOp`'s results,
`NF.parseOp_NRoot`: a named axis is an identifier or, directly under an ellipsis, the anonymous name.) -/
theorem parser_names_plain (text : Einx.Notation.Str) (t : Einx.Notation.Expr)
    (h : Einx.Notation.parseOp text = .ok t) (inp : Input)
    (hts : ∀ tn ∈ inp.tensors, tn.expr ∈ operandExprs t) : plainNames inp = true :=
  parseOp_plainNames text t h inp hts

/-- Non-vacuity / sharpness: the names of the examples are plain; `#0` (imitates a node variable) and
`b.0` (imitates an expanded axis) are not; with the axis `#0` next to a flattened axis `namesOK` fails,
so the condition cannot be dropped. -/
example : plainNames exEll = true ∧ plainNames exNum = true ∧ plainNames exAnon = true ∧
    plainName "#0" = false ∧ plainName "b.0" = false ∧ plainName "a1" = true ∧ identName "a1" = true ∧
    identName "1a" = false ∧
    namesOK ⟨[⟨.list [.flat (.axis "a"), .axis "#0/0"], none⟩], []⟩ (toFun []) = false := by decide +kernel

/-- Non-vacuity of `parser_names_plain`: the parser model accepts `"(a b)... c, ... -> b"`; its operand
expressions, converted, are the trees below (three tensors), and they contain the anonymous name. -/
example : (Einx.Notation.parseOp "(a b)... c, ... -> b".toList).toOption.map (fun t => (operandExprs t).map Expr.render) =
    some ["{(a b)}... c", "{.anonymous_ellipsis_axis}...", "b"] := by decide +kernel

/-! ### The shorthand theorems without per-case premises -/

/-- `value_system_complete` for hash-free names. -/
theorem value_system_complete_plain (inp : Input) (ρ τ : Var → Nat) (hp : hashFree inp = true)
    (h : SemSat inp ρ τ) :
    ∃ σ, Sat (valueSystem inp ρ) σ ∧ (∀ a ∈ inp.axes ρ, σ a.2.2 = τ a.2.2) ∧
      shapesOf inp ρ σ = semShapes inp ρ τ :=
  value_system_complete inp ρ τ (namesOK_of_hashFree inp ρ hp) h

/-- **Ellipsis = written-out repetition**, without name premises: for an input whose axis names
contain no `#` (in particular: plain names, parser output), counts `ρ` admitted by the rank system and
well-formed constraint arrays, the solutions of `inp` with counts `ρ` and the solutions of the long
form `unrollInput inp ρ` correspond one to one on all axis variables, with the same tensor shapes. -/
theorem ellipsis_unroll_plain (inp : Input) (ρ : Var → Nat) (hp : hashFree inp = true)
    (hρ : Sat (rankSystem true inp) ρ)
    (hwf : ∀ c ∈ inp.constraints, c.vals.length = c.shape.foldr (· * ·) 1) :
    (unrollInput inp ρ).ellIds = [] ∧
    (∀ ρ', Sat (rankSystem true (unrollInput inp ρ)) ρ') ∧
    (∀ σ ρ', Sols inp ρ σ →
        ∃ σ', Sols (unrollInput inp ρ) ρ' σ' ∧ (∀ a ∈ inp.axes ρ, σ' a.2.2 = σ a.2.2) ∧
          shapesOf (unrollInput inp ρ) ρ' σ' = shapesOf inp ρ σ) ∧
    (∀ σ' ρ', Sols (unrollInput inp ρ) ρ' σ' →
        ∃ σ, Sols inp ρ σ ∧ (∀ a ∈ inp.axes ρ, σ a.2.2 = σ' a.2.2) ∧
          shapesOf inp ρ σ = shapesOf (unrollInput inp ρ) ρ' σ') := by
  obtain ⟨h1, h2, h3, h4⟩ := ellipsis_unroll inp ρ hρ hwf
  exact ⟨h1, h2, fun σ ρ' hs => h3 σ ρ' hs (namesOK_unroll_of_hashFree inp ρ ρ' hp),
    fun σ' ρ' hs => h4 σ' ρ' hs (namesOK_of_hashFree inp ρ hp)⟩

theorem numForm_axisNames_sub (inp : Input) (n : String) (v : Nat) :
    ∀ m ∈ (numForm inp n v).axisNames, m ∈ inp.axisNames := by
  intro m hm
  simp only [Input.axisNames, numForm_occs, List.mem_map, List.mem_filter] at hm ⊢
  obtain ⟨p, ⟨hp, _⟩, rfl⟩ := hm
  exact ⟨p, hp, rfl⟩

/-- **Number = fresh axis with that size**, without name premises: `inp` has plain names (the
candidate name `n` among them), `n` carries no other constraint, all its occurrences stand under the
same ellipses, `v ≥ 1`. -/
theorem number_is_fresh_axis_plain (inp : Input) (n : String) (v : Nat) (hp : plainNames inp = true)
    (hv : 1 ≤ v) (hcn : ∀ c ∈ inp.constraints, c.name ≠ n) (hstack : sameStack inp n = true) (ρ : Var → Nat) :
    (Sat (rankSystem true (numForm inp n v)) ρ ↔ Sat (rankSystem true (withNumConstraint inp n v)) ρ) ∧
    (∀ σ, Sols (withNumConstraint inp n v) ρ σ →
      ∃ σ', Sols (numForm inp n v) ρ σ' ∧ (∀ a ∈ (numForm inp n v).axes ρ, σ' a.2.2 = σ a.2.2) ∧
        shapesOf (numForm inp n v) ρ σ' = shapesOf (withNumConstraint inp n v) ρ σ) ∧
    (∀ σ, Sols (numForm inp n v) ρ σ →
      ∃ σ', Sols (withNumConstraint inp n v) ρ σ' ∧
        (∀ a ∈ inp.axes ρ, a.1 ≠ n → σ' a.2.2 = σ a.2.2) ∧ (∀ a ∈ inp.axes ρ, a.1 = n → σ' a.2.2 = v) ∧
        shapesOf (withNumConstraint inp n v) ρ σ' = shapesOf (numForm inp n v) ρ σ) := by
  obtain ⟨h1, h2, h3⟩ := number_is_fresh_axis inp n v hv hcn hstack ρ
  have hh := hashFree_of_plainNames hp
  have hnum : hashFree (numForm inp n v) = true :=
    (hashFree_iff _).mpr fun m hm => (hashFree_iff inp).mp hh m (numForm_axisNames_sub inp n v m hm)
  have hlong : hashFree (withNumConstraint inp n v) = true := hh
  exact ⟨h1, fun σ hs => h2 σ hs (namesOK_of_hashFree _ ρ hnum),
    fun σ hs => h3 σ hs (freshVars_of_plainNames inp ρ n hp) (namesOK_of_hashFree _ ρ hlong)⟩

theorem renameInput_axisNames (f : String → String) (inp : Input) :
    (renameInput f inp).axisNames = inp.axisNames.map f := by
  simp only [Input.axisNames, renameInput_occs, List.map_map]
  rfl

/-- **Renaming preserves the solutions**, without variable-level premises: `inp` has plain names,
`f` is injective on the names of `inp` and maps the axis names to plain names. -/
theorem rename_preserves_sols_plain (f : String → String) (inp : Input) (hp : plainNames inp = true)
    (hf : ∀ n ∈ inp.axisNames, plainName (f n) = true)
    (hinj : ∀ a ∈ inp.names, ∀ b ∈ inp.names, f a = f b → a = b) (ρ : Var → Nat) :
    (Sat (rankSystem true (renameInput f inp)) ρ ↔ Sat (rankSystem true inp) ρ) ∧
    (∀ σ, Sols inp ρ σ →
      ∃ σ', Sols (renameInput f inp) ρ σ' ∧ (∀ a ∈ inp.axes ρ, σ' (renVar f a) = σ a.2.2) ∧
        shapesOf (renameInput f inp) ρ σ' = shapesOf inp ρ σ) ∧
    (∀ σ', Sols (renameInput f inp) ρ σ' →
      ∃ σ, Sols inp ρ σ ∧ (∀ a ∈ inp.axes ρ, σ a.2.2 = σ' (renVar f a)) ∧
        shapesOf inp ρ σ = shapesOf (renameInput f inp) ρ σ') := by
  have hsub : ∀ a ∈ inp.axisNames, a ∈ inp.names := fun a ha => List.mem_append_left _ ha
  have hok := renOK_of_plainNames f inp ρ hp hf (fun a ha b hb => hinj a (hsub a ha) b (hsub b hb))
  obtain ⟨h1, h2, h3⟩ := rename_preserves_sols f inp hinj ρ hok
  have hren : hashFree (renameInput f inp) = true := by
    rw [hashFree_iff, renameInput_axisNames]
    intro m hm
    obtain ⟨n, hn, rfl⟩ := List.mem_map.mp hm
    exact ((plainChars_iff _).mp (hf n hn)).1
  exact ⟨h1, fun σ hs => h2 σ hs (namesOK_of_hashFree _ ρ hren),
    fun σ' hs => h3 σ' hs (namesOK_of_hashFree inp ρ (hashFree_of_plainNames hp))⟩

/-- **Anonymous `...` = one shared named ellipsis**, without variable-level premises: `inp` has plain
names (e.g. it comes from the parser, `parser_names_plain`), `s` is a plain name (e.g. an
identifier) not used in `inp`. -/
theorem anonymous_ellipsis_shared_plain (inp : Input) (s : String) (hp : plainNames inp = true)
    (hsp : plainName s = true) (hs : s ∉ inp.names) (ρ : Var → Nat) :
    let long := renameInput (swapName anonAxis s) inp
    (Sat (rankSystem true long) ρ ↔ Sat (rankSystem true inp) ρ) ∧
    (∀ σ, Sols inp ρ σ →
      ∃ σ', Sols long ρ σ' ∧ (∀ a ∈ inp.axes ρ, σ' (renVar (swapName anonAxis s) a) = σ a.2.2) ∧
        shapesOf long ρ σ' = shapesOf inp ρ σ) ∧
    (∀ σ', Sols long ρ σ' →
      ∃ σ, Sols inp ρ σ ∧ (∀ a ∈ inp.axes ρ, σ a.2.2 = σ' (renVar (swapName anonAxis s) a)) ∧
        shapesOf inp ρ σ = shapesOf long ρ σ') := by
  apply rename_preserves_sols_plain _ inp hp _ (swapName_inj anonAxis s inp.names hs) ρ
  intro n hn
  unfold swapName
  split
  · exact hsp
  · simp only [plainNames, List.all_eq_true] at hp
    exact hp n hn

/-- Non-vacuity: the hypotheses of the four premise-free theorems hold for the examples of
`Props/C07Stage2.lean` (whose solutions are computed there). -/
example : hashFree exEll = true ∧ checkSat (rankSystem true exEll) [("e0", 2)] = true ∧
    plainNames exNum = true ∧ sameStack exNum "n" = true ∧
    plainNames exAnon = true ∧ plainName "s" = true ∧ "s" ∉ exAnon.names := by decide +kernel

/-! ### The reference solver on the short and the long form (partial)

That `solveAll` returns literally the same verdict on both forms is NOT proved (unit propagation
depends on the order and multiplicity of the equations, and the two value systems differ in both).
What follows from the correspondences above and C02's `solveAll_sound`: the verdicts never
contradict each other — if the solver determines one form completely (`unique`), it cannot refute the
other (`rankNone` / `valueNone`). -/

/-- A solution excludes the verdicts `rankNone` / `valueNone`. -/
theorem solveAll_not_none_of_sol (inp : Input) (ρ σ : Var → Nat) (h : Sols inp ρ σ) :
    solveAll inp ≠ .rankNone ∧ ∀ c, solveAll inp ≠ .valueNone c := by
  have hs := solveAll_sound inp
  constructor
  · intro he; rw [he] at hs; exact hs ρ σ h
  · intro c he; rw [he] at hs; exact hs ρ σ h

/-- The verdict `unique c v` carries a solution. -/
theorem solveAll_unique_sol (inp : Input) (c v : Assign) (h : solveAll inp = .unique c v) :
    Sols inp (toFun c) (toFun v) := by
  have hs := solveAll_sound inp
  rw [h] at hs
  exact hs.1

/-- **Ellipsis = repetition, verdicts (partial)**: if the reference solver solves the short form
(`unique c v`), it does not refute the long form written out with these counts; and if it solves the
long form written out with admissible counts `ρ`, it does not refute the short form. -/
theorem ellipsis_unroll_verdicts_partial (inp : Input) (hp : hashFree inp = true)
    (hwf : ∀ c ∈ inp.constraints, c.vals.length = c.shape.foldr (· * ·) 1) :
    (∀ c v, solveAll inp = .unique c v →
      solveAll (unrollInput inp (toFun c)) ≠ .rankNone ∧ ∀ c', solveAll (unrollInput inp (toFun c)) ≠ .valueNone c') ∧
    (∀ ρ, Sat (rankSystem true inp) ρ → ∀ c' v', solveAll (unrollInput inp ρ) = .unique c' v' →
      solveAll inp ≠ .rankNone ∧ ∀ c, solveAll inp ≠ .valueNone c) := by
  constructor
  · intro c v h
    have hs := solveAll_unique_sol inp c v h
    obtain ⟨_, _, h3, _⟩ := ellipsis_unroll_plain inp (toFun c) hp hs.1 hwf
    obtain ⟨σ', hs', _⟩ := h3 (toFun v) (toFun []) hs
    exact solveAll_not_none_of_sol _ _ σ' hs'
  · intro ρ hρ c' v' h
    have hs := solveAll_unique_sol _ c' v' h
    obtain ⟨_, _, _, h4⟩ := ellipsis_unroll_plain inp ρ hp hρ hwf
    obtain ⟨σ, hs', _⟩ := h4 (toFun v') (toFun c') hs
    exact solveAll_not_none_of_sol inp ρ σ hs'

/-- **Anonymous = named ellipsis, verdicts (partial)**: a `unique` verdict on either form excludes a
refutation of the other. -/
theorem anonymous_ellipsis_verdicts_partial (inp : Input) (s : String) (hp : plainNames inp = true)
    (hsp : plainName s = true) (hs : s ∉ inp.names) :
    let long := renameInput (swapName anonAxis s) inp
    (∀ c v, solveAll inp = .unique c v → solveAll long ≠ .rankNone ∧ ∀ c', solveAll long ≠ .valueNone c') ∧
    (∀ c v, solveAll long = .unique c v → solveAll inp ≠ .rankNone ∧ ∀ c', solveAll inp ≠ .valueNone c') := by
  intro long
  constructor
  · intro c v h
    have hsol := solveAll_unique_sol inp c v h
    obtain ⟨_, h2, _⟩ := anonymous_ellipsis_shared_plain inp s hp hsp hs (toFun c)
    obtain ⟨σ', hs', _⟩ := h2 (toFun v) hsol
    exact solveAll_not_none_of_sol _ _ σ' hs'
  · intro c v h
    have hsol := solveAll_unique_sol long c v h
    obtain ⟨_, _, h3⟩ := anonymous_ellipsis_shared_plain inp s hp hsp hs (toFun c)
    obtain ⟨σ, hs', _⟩ := h3 (toFun v) hsol
    exact solveAll_not_none_of_sol inp _ σ hs'

/-- Non-vacuity: both forms of the examples are solved (`unique`) — `Props/C07Stage2.lean` computes the
verdicts; here only their kind. -/
example : (match solveAll exEll with | .unique .. => true | _ => false) = true ∧
    (match solveAll (unrollInput exEll (toFun [("e0", 2)])) with | .unique .. => true | _ => false) = true ∧
    (match solveAll exAnon with | .unique .. => true | _ => false) = true ∧
    (match solveAll (renameInput (swapName anonAxis "s") exAnon) with | .unique .. => true | _ => false) = true := by
  decide +kernel

end Einx.Solve
