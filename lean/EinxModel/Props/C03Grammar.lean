import EinxModel.Proofs.GrammarParse
import EinxModel.Props.C03Reject
/-!
# C03 / C12 (parser) — the grammar of the notation: operator rules as string-level rejection theorems, `parse` ⇔ grammar

Continues `Props/C03Reject.lean`.  All statements are about the executable model M1 (`Einx.Notation.parseOp/parseArgs/parseArg`,
`parse`), the definitions the driver runs and the C12 correspondence / stream R compare with `stage1/parse.py`.

String-level defects (`Notation/Grammar.lean`): `countDepth0 l s []` — the number of occurrences of the literal `l` in `s`
outside every pair of delimiters (scan of `Notation/Spec.lean`).

* `parse_rejects_multiple_arrows` — two `->` outside all delimiters: never a tree (l.374 "must not contain more than one '->'",
  or an earlier `SyntaxError`).
* `parse_args_rejects_arrow` — `parse_args` on a description with a `->` outside all delimiters: exactly the l.412 error
  whenever `parse_op` accepts the description; never an `Args` tree.
* `parse_arrow_two_sides` — an accepted description with a `->` outside all delimiters has exactly two sides.
* `parse_iff_gram` — **layer 0 of `parse_ok_iff`, both directions, ellipses included**: `parse` succeeds on a token tree iff the
  tree is in the attribute grammar `Gram` (one rule per syntactic form; no positions, no error sites), and the kind attribute is
  the kind of the returned expression.
* `parse_stage_ok_iff` — string level: lexer + delimiter stack + `parse` succeed iff `WF0 s`; `token_tree_iff` — a token tree
  exists iff all tokens are valid and the delimiters balanced.
* `parse_ok_wf` — necessary direction for `parseOp` in full: `parseOp s = .ok t → WF s`.
* `parse_ok_iff_staged` — `parseOp s` succeeds iff `WF0 s` and the remaining passes (`finish`: both `move_up` passes, the count of
  sides, the bracket check) succeed on the tree of `parseStage s`.  The passes after `parse` are *not* characterised declaratively
  (see docs/wp/parsegrammar.md).
-/
namespace Einx.Props.C03Grammar
open Einx.Notation

/-! ## Operator rules, stated on the string -/

/-- **`parse_rejects_multiple_arrows`**: a string with two `->` outside every pair of delimiters is rejected with a
    `SyntaxError` (carets inside the string) — for every such string, whatever else it contains. -/
theorem parse_rejects_multiple_arrows (text : Str) (h : 2 ≤ countDepth0 arrowLit text []) :
    ∃ k pos alts, parseOp text = .error (.syntax k pos alts) ∧ ∀ p ∈ pos, 0 ≤ p ∧ p < text.length :=
  C03Reject.parse_rejected_is_syntax_error text (parseOp_two_arrows_depth0 text h)

/-- An accepted description with a `->` outside all delimiters has two sides (`Op[Args, Args]`). -/
theorem parse_arrow_two_sides (text : Str) (t : Expr) (h : parseOp text = .ok t) (hc : 1 ≤ countDepth0 arrowLit text []) :
    ∃ ins b1 e1 outs b2 e2 b e, t = .op [.args ins b1 e1, .args outs b2 e2] b e := by
  have h2 := parseOp_arrow_two_sides h hc
  rcases C03Reject.parse_root_shape text t h with ⟨ins, b1, e1, b, e, rfl⟩ | h'
  · simp [Expr.children] at h2
  · exact h'

/-- **`parse_args_rejects_arrow`**: `parse_args` (used by `solve_axes`, `matches`, the tensor-wise shorthand) on a description
    with a `->` outside all delimiters never returns; if `parse_op` accepts the description the error is exactly the l.412
    `SyntaxError` "must not contain a '->' operator" with the carets on every `->`. -/
theorem parse_args_rejects_arrow (text : Str) (hc : 1 ≤ countDepth0 arrowLit text []) :
    (∀ a, parseArgs text ≠ .ok a) ∧ (∀ a, parseArg text ≠ .ok a) ∧
    (∀ t, parseOp text = .ok t → parseArgs text = .error (.syntax .argsHasArrow (posForLiteral (lit "->") text 0) [])) := by
  have h := parseArgs_arrow_depth0 hc
  refine ⟨h.2, ?_, h.1⟩
  intro a ha
  unfold parseArg at ha
  cases hp : parseArgs text with
  | error err => rw [hp] at ha; cases ha
  | ok x => exact h.2 x hp

/-! ## `parse` ⇔ grammar -/

/-- **`parse_iff_gram`** (layer 0): `parse` returns a tree for a token list iff the list is in the grammar, for either value of
    `is_parent_composition` and any positions; the grammar's kind is the kind of the tree. -/
theorem parse_iff_gram (ts : List Tok) (b e : Nat) (ipc : Bool) (k : Kind) :
    (∃ x, parse ts b e ipc = .ok x ∧ exprKind x = k) ↔ Gram ipc ts k := by
  constructor
  · rintro ⟨x, hx, rfl⟩
    exact parse_gram ts b e ipc x hx
  · intro h
    exact gram_parse h b e

/-- A token tree exists iff every token of the lexer's segmentation is valid and the delimiters are balanced. -/
theorem token_tree_iff (s : Str) :
    (∃ tree, tokTree s = some tree) ↔ (∀ t ∈ segment literals s 0 0 [], validToken t.text = true) ∧ balanced s = true := by
  unfold tokTree
  constructor
  · rintro ⟨tree, h⟩
    cases hl : lex s with
    | error err => rw [hl] at h; cases h
    | ok toks =>
      rw [hl] at h
      simp only at h
      obtain ⟨htoks, hvalid⟩ := lex_ok_tokens hl
      refine ⟨by rw [← htoks]; exact hvalid, ?_⟩
      cases hb : buildTree (dedupSpaces toks false) [] [] with
      | error err => rw [hb] at h; cases h
      | ok tree' => exact (C03Reject.stack_accepts_iff_balanced s toks hl).mp ⟨tree', hb⟩
  · rintro ⟨hv, hb⟩
    have hl : lex s = .ok (segment literals s 0 0 []) := by
      unfold lex
      dsimp only
      split
      · rename_i t ht
        have h1 := List.mem_of_find?_eq_some ht
        have h2 := List.find?_some ht
        rw [hv t h1] at h2
        cases h2
      · rfl
    obtain ⟨tree, ht⟩ := (C03Reject.stack_accepts_iff_balanced s _ hl).mpr hb
    exact ⟨tree, by rw [hl]; simp only; rw [ht]⟩

/-- **`parse_stage_ok_iff`**: lexer, delimiter stack and `parse` succeed on a string iff the string is `WF0`. -/
theorem parse_stage_ok_iff (s : Str) : (∃ x, parseStage s = .ok x) ↔ WF0 s := by
  unfold parseStage WF0 tokTree
  constructor
  · rintro ⟨x, h⟩
    cases hl : lex s with
    | error err => rw [hl] at h; cases h
    | ok toks =>
      rw [hl] at h
      simp only at h ⊢
      cases hb : buildTree (dedupSpaces toks false) [] [] with
      | error err => rw [hb] at h; cases h
      | ok tree =>
        rw [hb] at h
        simp only at h ⊢
        exact ⟨tree, exprKind x, rfl, parse_gram _ _ _ _ x h⟩
  · rintro ⟨tree, k, ht, hg⟩
    cases hl : lex s with
    | error err => rw [hl] at ht; cases ht
    | ok toks =>
      rw [hl] at ht
      simp only at ht ⊢
      cases hb : buildTree (dedupSpaces toks false) [] [] with
      | error err => rw [hb] at ht; cases ht
      | ok tree' =>
        rw [hb] at ht
        simp only [Option.some.injEq] at ht ⊢
        subst ht
        obtain ⟨x, hx, _⟩ := gram_parse hg 0 (lastEnd tree' 0)
        exact ⟨x, hx⟩

/-- `parseOp` is `parseStage` followed by `finish` (both `move_up` passes, redundant brackets, the two post-checks). -/
theorem parseOp_eq_stage (s : Str) :
    parseOp s = match parseStage s with
      | .error err => .error err
      | .ok x => finish (posForLiteral (lit "->") s 0) x := by
  rw [parseOp_eq]
  unfold parseStage
  cases lex s with
  | error err => rfl
  | ok toks =>
    simp only
    cases buildTree (dedupSpaces toks false) [] [] with
    | error err => rfl
    | ok tree => rfl

/-- The declarative necessary condition for acceptance. -/
def WF (s : Str) : Prop :=
  (∀ c ∈ s, alphabetChar c = true) ∧ balanced s = true ∧ WF0 s ∧ countDepth0 arrowLit s [] ≤ 1 ∧ atDepth0 '+' s [] = false

/-- **`parse_ok_wf`** (the direction `parseOp s = .ok t → WF s`, for every string): an accepted description consists of alphabet
    characters, is balanced, its token tree is in the grammar `Gram`, it has at most one `->` outside delimiters and no `+`
    outside delimiters. -/
theorem parse_ok_wf (s : Str) (t : Expr) (h : parseOp s = .ok t) : WF s := by
  have hn := C03Reject.parse_ok_necessary s t h
  refine ⟨hn.2, hn.1, ?_, ?_, ?_⟩
  · apply (parse_stage_ok_iff s).mp
    rw [parseOp_eq_stage] at h
    cases hp : parseStage s with
    | error err => rw [hp] at h; cases h
    | ok x => exact ⟨x, rfl⟩
  · cases Nat.lt_or_ge 1 (countDepth0 arrowLit s []) with
    | inl h2 => exact absurd h (parseOp_two_arrows_depth0 s h2 t)
    | inr h1 => exact h1
  · cases hp : atDepth0 '+' s [] with
    | false => rfl
    | true => exact absurd h (parseOp_plus_depth0 s hp t)

/-- **`parse_ok_iff_staged`**: acceptance = grammar of `parse` (declarative, `WF0`) + success of the later passes on the tree. -/
theorem parse_ok_iff_staged (s : Str) :
    (∃ t, parseOp s = .ok t) ↔ WF0 s ∧ ∃ x t, parseStage s = .ok x ∧ finish (posForLiteral (lit "->") s 0) x = .ok t := by
  rw [parseOp_eq_stage]
  constructor
  · rintro ⟨t, h⟩
    cases hp : parseStage s with
    | error err => rw [hp] at h; cases h
    | ok x =>
      rw [hp] at h
      exact ⟨(parse_stage_ok_iff s).mp ⟨x, hp⟩, x, t, rfl, h⟩
  · rintro ⟨_, x, t, hx, ht⟩
    rw [hx]
    exact ⟨t, ht⟩

/-! ## Non-vacuity and instances -/

def errOf : Res Expr → Option Err
  | .ok _ => none
  | .error err => some err

/-- The defect predicates on examples. -/
example : countDepth0 arrowLit "a -> b -> c".toList [] = 2 ∧ countDepth0 arrowLit "a -> (b -> c)".toList [] = 1 ∧
    countDepth0 arrowLit "(a -> b) (c -> d)".toList [] = 0 ∧ countDepth0 arrowLit "a, b -> c ->".toList [] = 2 := by decide

/-- The reported sites: l.374 for two arrows; l.412 for `parse_args`; nested arrows at the same level are accepted. -/
example :
    [errOf (parseOp "a -> b -> c".toList), errOf (parseOp "a, b -> c ->".toList), errOf (parseOp "(a -> b) (c -> d)".toList),
     errOf (parseArgs "a b -> c".toList), errOf (parseArgs "a b, c".toList)] =
    [some (.syntax .multipleArrows [2, 3, 7, 8] []), some (.syntax .multipleArrows [5, 6, 10, 11] []), none,
     some (.syntax .argsHasArrow [4, 5] []), none] := by decide +kernel

example : ∃ k pos alts, parseOp "a, b -> c ->".toList = .error (.syntax k pos alts) ∧ ∀ p ∈ pos, 0 ≤ p ∧ p < 12 :=
  parse_rejects_multiple_arrows _ (by decide)

example : parseArgs "a b -> c".toList = .error (.syntax .argsHasArrow (posForLiteral (lit "->") "a b -> c".toList 0) []) := by
  have h : ∃ t, parseOp "a b -> c".toList = .ok t := by
    cases hp : parseOp "a b -> c".toList with
    | ok t => exact ⟨t, rfl⟩
    | error err =>
      have : errOf (parseOp "a b -> c".toList) = none := by decide +kernel
      rw [hp] at this; cases this
  obtain ⟨t, ht⟩ := h
  exact (parse_args_rejects_arrow _ (by decide)).2.2 t ht

/-- The grammar is inhabited by every syntactic form: `WF0` holds for a description using all of them (via the theorem, from the
    model's success), and fails for one with a concatenation outside parentheses. -/
example : WF0 "a [b c]... (d + 1) () -> a, (d e) ...".toList := by
  apply (parse_stage_ok_iff _).mp
  have : ∃ t, parseOp "a [b c]... (d + 1) () -> a, (d e) ...".toList = .ok t := by
    cases hp : parseOp "a [b c]... (d + 1) () -> a, (d e) ...".toList with
    | ok t => exact ⟨t, rfl⟩
    | error err =>
      have : errOf (parseOp "a [b c]... (d + 1) () -> a, (d e) ...".toList) = none := by decide +kernel
      rw [hp] at this; cases this
  obtain ⟨t, ht⟩ := this
  rw [parseOp_eq_stage] at ht
  cases hp : parseStage "a [b c]... (d + 1) () -> a, (d e) ...".toList with
  | error err => rw [hp] at ht; cases ht
  | ok x => exact ⟨x, rfl⟩

example : ¬ WF0 "a [b + c]".toList := by
  intro h
  obtain ⟨x, hx⟩ := (parse_stage_ok_iff _).mpr h
  have : errOf (parseStage "a [b + c]".toList) = some (.syntax .concatNotWrapped [3, 4, 5, 6, 7] []) := by decide +kernel
  rw [hx] at this; cases this

/-- A derivation written out by hand: `a b` is a juxtaposition of two axes (kind `other`). -/
example : Gram false [.atom ⟨['a'], 0, 1⟩, .atom ⟨[' '], 1, 2⟩, .atom ⟨['b'], 2, 3⟩] .other := by
  refine Gram.nary (op := lit " ") (fun _ => Kind.axis) (t0 := .atom ⟨['a'], 0, 1⟩) (rest := [.atom ⟨[' '], 1, 2⟩, .atom ⟨['b'], 2, 3⟩])
    (by rfl) (by decide) ?_ (by decide)
  intro o ho
  have hcases : o = ⟨[.atom ⟨['a'], 0, 1⟩], 0, 1⟩ ∨ o = ⟨[.atom ⟨['b'], 2, 3⟩], 2, 3⟩ := by
    simp [keepOperands, operands, splitOn, Tok.isText, lit, mkTL, lastEnd] at ho
    exact ho
  rcases hcases with rfl | rfl
  · exact Gram.axis (t := ⟨['a'], 0, 1⟩) (by rfl) (by decide) (by decide) (Or.inr (by decide))
  · exact Gram.axis (t := ⟨['b'], 2, 3⟩) (by rfl) (by decide) (by decide) (Or.inr (by decide))

end Einx.Props.C03Grammar
