import EinxModel.Proofs.CseTreesDischarge
import EinxModel.Props.C02Cse
/-!
C02, CSE part, work package cse2 — **which side conditions of `cseTrees_preserves_sols_partial` are theorems**.

`cseCheck` (Solve/CseCheck.lean) is what the proof of `cseTrees_preserves_sols_partial` uses.  Here its conjuncts are
sorted by status (definitions: Solve/CseCheck2.lean):

| conjunct of `cseCheck` | status |
|---|---|
| every replaced part passed the filter, `0 < len` | proved for every input (`cse_trees_is_cse_step`, work package cse) |
| an unknown value has an unbounded range | **proved for every input** (`cse_used_unbounded`, from `value_range_fixed_is_value`) |
| lower bounds inside a replaced part are positive | **proved from the input fact `minPosForest`** (`cse_used_minpos`) |
| `wfForest`, `minPosForest` | facts about the output of stage 2 (input of `cse`), evaluated on every real input |
| a copied axis is not called `cse.<k>` (`freshOK`) | **false** for the real code: defect D19 — stays a hypothesis |
| a part replaced at root level has one dimension (`rootDimsOK`) | **false** for the real code: defect D20 — stays a hypothesis |
| a copied axis is not inside a replaced part (`copiedOK`) | **false** for the real code: defect D21 (overlapping slice candidates, found here) — stays a hypothesis |
| same `cse.<k>` ⇒ same shape; different `cse.<k>` ⇒ disjoint axes (`sharedOK`) | first half: not known to fail on inputs with one `min_value` per name, **not proved** (needs injectivity of `__str__` on well-formed trees); second half: **false** for overlapping candidates (again D21, see Solve/CseCheck2.lean) — stays a hypothesis, evaluated on every real input |

`cseTrees_preserves_sols_reduced_partial` is `cseTrees_preserves_sols_partial` with exactly the last five rows as
hypotheses.
-/
namespace Einx.Solve.CseT
open Einx.Solve

/-- **`_value_range(e) == (m, False)` only if `e.value == m`** — for every stage-2 expression.  (The converse direction
of `valueRange_spec_fixed`: a bounded range is reported only for an expression all of whose axes have a value.) -/
theorem value_range_fixed_is_value (e : VExpr) (m : Nat) (h : valueRange e = some (m, false)) : valueOf e = some m :=
  valueRange_fixed_value e m h

/-- **Every part with an unknown value that `cseTrees` replaces has an unbounded value range** — for every input and both
options, no side condition.  (Together with `cse_trees_is_cse_step` this discharges the conjunct
`(valueOf e).isSome || ub` of `usedOK`.) -/
theorem cse_used_unbounded (opts : Opts) (rs : List (Option VExpr)) (k : Nat) (e : VExpr) (len : Nat) (r : Bool)
    (hu : Ev.used k e len r ∈ cseEvents opts rs) (hv : valueOf e = none) : ∃ m, valueRange e = some (m, true) := by
  obtain ⟨_, ⟨m, ub, hr⟩, _⟩ := cse_trees_is_cse_step opts rs k e len r hu
  have := unknown_value_unbounded hr hv
  subst this
  exact ⟨m, hr⟩

/-- **The lower bounds inside every replaced part are positive if those of the input are** (`minPosForest`: every
unknown axis of the input has `min_value >= 1`): a replaced part is a part of the input, its unknown axes are declared
in the system before CSE. -/
theorem cse_used_minpos (opts : Opts) (rs out : List (Option VExpr)) (hrun : cseTrees opts rs = .ok out)
    (hmin : minPosForest rs = true) (k : Nat) (e : VExpr) (len : Nat) (r : Bool)
    (hu : Ev.used k e len r ∈ cseEvents opts rs) : MinPos e :=
  used_minPos opts rs out hrun hmin hu

/-- **The reduced side conditions imply `cseCheck`** on a run that does not raise. -/
theorem cseCheck_of_reduced (opts : Opts) (rs out : List (Option VExpr)) (hrun : cseTrees opts rs = .ok out)
    (h : cseCheckReduced opts rs = true) : cseCheck opts rs = true :=
  cseCheck_of_reduced_aux opts rs out hrun h

/-- **CSE preserves the solution set** — `cseTrees_preserves_sols_partial` with the hypotheses reduced to: the facts
about the input (`inputOK`), the three conditions that are false for the real code (`freshOK`: D19, `rootDimsOK`: D20,
`copiedOK`: D21) and the unproved conditions on pairs of replaced parts (`sharedOK`). -/
theorem cseTrees_preserves_sols_reduced_partial (opts : Opts) (rs out : List (Option VExpr))
    (hrun : cseTrees opts rs = .ok out) (hin : inputOK rs = true)
    (hfresh : freshOK (cseEvents opts rs) = true) (hroot : rootDimsOK (cseEvents opts rs) = true)
    (hcop : copiedOK (cseEvents opts rs) = true) (hsh : sharedOK (cseEvents opts rs) = true) :
    (∀ σ, Sat (forestSys rs) σ → Sat (forestSys out) (extend σ (cseEvents opts rs))) ∧
    (∀ σ', Sat (forestSys out) σ' →
      ∃ σ, Sat (forestSys rs) σ ∧ (∀ x, x ∉ innerNames (cseEvents opts rs) → σ x = σ' x) ∧
        ∀ k e len r, Ev.used k e len r ∈ cseEvents opts rs → valueOf e = none → evalV σ e = σ' (cseName k)) :=
  cseTrees_preserves_sols_partial opts rs out hrun
    (cseCheck_of_reduced opts rs out hrun (by simp [cseCheckReduced, hin, hfresh, hroot, hcop, hsh]))

/-- CSE does not change whether the constraints are solvable (reduced hypotheses). -/
theorem cseTrees_solvable_iff_reduced_partial (opts : Opts) (rs out : List (Option VExpr))
    (hrun : cseTrees opts rs = .ok out) (h : cseCheckReduced opts rs = true) :
    (∃ σ, Sat (forestSys rs) σ) ↔ (∃ σ', Sat (forestSys out) σ') :=
  cseTrees_solvable_iff_partial opts rs out hrun (cseCheck_of_reduced opts rs out hrun h)

/-! ### Non-vacuity -/

/-- the example of `Props/C02Cse.lean` (`a (b c), (b c) d` against `(2, 6), (6, 5)`) passes the reduced conditions -/
example : cseCheckReduced {} exIn = true := by decide

example : (∃ σ, Sat (forestSys exIn) σ) ↔ (∃ σ', Sat (forestSys exOut) σ') :=
  cseTrees_solvable_iff_reduced_partial {} exIn exOut (by rfl) (by decide)

/-- `cse_used_unbounded` is not vacuous: the run on `exIn` has a `used` event with an unknown value. -/
example : ∃ k e len r, Ev.used k e len r ∈ cseEvents {} exIn ∧ valueOf e = none := by
  have h : cseEvents {} exIn =
      [.surv "a" 1, .used 0 (.list [.flat (.list [.axis "b" none 1, .axis "c" none 1])]) 1 true,
       .used 0 (.list [.flat (.list [.axis "b" none 1, .axis "c" none 1])]) 1 true, .surv "d" 1] := by rfl
  exact ⟨0, _, 1, true, by rw [h]; exact List.mem_cons_of_mem _ List.mem_cons_self, by decide⟩

/-- The stage-2 expressions of `einx.solve_shapes("(a b) cse..., (a b)", zeros((6,2,3)), zeros((6,)))` as `cse` receives
them (D19). -/
def exD19 : List (Option VExpr) :=
  [some (.list [.flat (.list [.axis "a" none 1, .axis "b" none 1]), .axis "cse.0" none 1, .axis "cse.1" none 1]),
   some (.flat (.list [.axis "a" none 1, .axis "b" none 1])),
   some (.list []),
   some (.list [.axis "unnamed.0" (some 6) 1, .axis "unnamed.1" (some 2) 1, .axis "unnamed.2" (some 3) 1]),
   some (.axis "unnamed.3" (some 6) 1),
   none]

/-- D19: exactly `freshOK` fails. -/
example : inputOK exD19 = true ∧ freshOK (cseEvents {} exD19) = false ∧ rootDimsOK (cseEvents {} exD19) = true ∧
    copiedOK (cseEvents {} exD19) = true ∧ sharedOK (cseEvents {} exD19) = true := by decide

/-- … and the conclusion of the theorem is false for it: before CSE the system has the solution `a b = 6`,
`cse.0 = 2`, `cse.1 = 3`; after CSE (`(cse.0) cse.0 cse.1` against `6 2 3`) it has none.  So `freshOK` cannot be
dropped. -/
example : cseTrees {} exD19 = .ok
    [some (.list [.flat (.axis "cse.0" none 1), .axis "cse.0" none 1, .axis "cse.1" none 1]),
     some (.flat (.axis "cse.0" none 1)),
     some (.list []),
     some (.list [.axis "unnamed.0" (some 6) 1, .axis "unnamed.1" (some 2) 1, .axis "unnamed.2" (some 3) 1]),
     some (.axis "unnamed.3" (some 6) 1),
     none] := by rfl

/-- The stage-2 expressions of `einx.sum("a ([c d]) [c d]", zeros((4,6,2,3)))` as `cse` receives them
(`cse_in_brackets=True`; D20). -/
def exD20 : List (Option VExpr) :=
  [some (.list [.axis "a" none 1, .flat (.brackets (.list [.axis "c" none 1, .axis "d" none 1])),
                .brackets (.list [.axis "c" none 1, .axis "d" none 1])]),
   some (.list [.axis "a" none 1, .flat (.list [])]),
   some (.list [.axis "unnamed.0" (some 4) 1, .axis "unnamed.1" (some 6) 1, .axis "unnamed.2" (some 2) 1,
                .axis "unnamed.3" (some 3) 1]),
   none]

/-- D20: exactly `rootDimsOK` fails. -/
example : inputOK exD20 = true ∧ freshOK (cseEvents { cseInBrackets := true } exD20) = true ∧
    rootDimsOK (cseEvents { cseInBrackets := true } exD20) = false ∧
    copiedOK (cseEvents { cseInBrackets := true } exD20) = true ∧
    sharedOK (cseEvents { cseInBrackets := true } exD20) = true := by decide

/-- The stage-2 expressions of `einx.solve_shapes("(a 1 d), (1 d) c", zeros((6,)), zeros((3,2)))` as `cse` receives them
(D21). -/
def exD21 : List (Option VExpr) :=
  [some (.flat (.list [.axis "a" none 1, .axis "unnamed.0" (some 1) 1, .axis "d" none 1])),
   some (.list [.flat (.list [.axis "unnamed.1" (some 1) 1, .axis "d" none 1]), .axis "c" none 1]),
   some (.list []),
   some (.axis "unnamed.2" (some 6) 1),
   some (.list [.axis "unnamed.3" (some 3) 1, .axis "unnamed.4" (some 2) 1]),
   none]

/-- D21: exactly `copiedOK` fails: the slice candidates `a 1` and `1 d` overlap in the node `1`; in `(a 1 d)` the walk
replaces `a 1` and copies `d`, in `(1 d)` it replaces `1 d` by `cse.1` — the link between `d` and `cse.1` is lost. -/
example : inputOK exD21 = true ∧ freshOK (cseEvents {} exD21) = true ∧ rootDimsOK (cseEvents {} exD21) = true ∧
    copiedOK (cseEvents {} exD21) = false ∧ sharedOK (cseEvents {} exD21) = true := by decide

/-- … the model's output for it (the real `cse` returns the same: harness stream (D)): before CSE `a d = 6`, `d = 3`
determine every axis; after CSE `cse.0 d = 6`, `cse.1 = 3` do not. -/
example : cseTrees {} exD21 = .ok
    [some (.flat (.list [.axis "cse.0" none 1, .axis "d" none 1])),
     some (.list [.flat (.axis "cse.1" none 1), .axis "c" none 1]),
     some (.list []),
     some (.axis "unnamed.2" (some 6) 1),
     some (.list [.axis "unnamed.3" (some 3) 1, .axis "unnamed.4" (some 2) 1]),
     none] := by rfl

end Einx.Solve.CseT
