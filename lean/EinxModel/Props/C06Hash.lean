import EinxModel.Proofs.CacheHash
import EinxModel.Props.C06
/-!
C06, second property file — hash consistency of the cache key and the exact characterisation of key equality.

* `pyEq_hash`: `a == b → hash(a) == hash(b)` for the whole value universe of M9 (numbers of all kinds, strings,
  `None`, types, identity objects, tuples, lists, frozendicts irrespective of item order, `_Scalar` wrappers
  (= `(type(x), x)`), `inspect.Parameter`, `Tensor` and `ConvertibleTensor` placeholders), where `==` is the
  comparison the tree being checked performs (`keyEq`: `ConvertibleTensor.__eq__` compares the frozen `concrete`,
  obligation `extracted_conv_eq_frozen`) and `hash` is the exact CPython hash model of `Cache/Hash.lean`.
  The only guard is that mappings have pairwise different keys (`wfKeys`; every Python `dict` does).
* `frozen_key_eq_iff`: two cache keys are `==` **iff** the exact observations of the two calls agree.

Helper lemmas live in `Proofs/CacheHash.lean`.
-/
namespace Einx.Cache
open Einx.Extracted

/-! ### Obligation regenerated from the source -/

/-- `ConvertibleTensor.__eq__` compares `_freeze_value(self.concrete) == _freeze_value(other.concrete)` – the value
that `ConvertibleTensor.__hash__` hashes.  (`keyEq` models this comparison; with the raw comparison of the pinned
tree hash consistency fails once scalars are tagged: `pyEq_hash_raw_refuted`.) -/
theorem extracted_conv_eq_frozen : convEqFrozen = true := by decide

/-! ### Hash consistency -/

/-- **`pyEq_hash`.**  For every dispatch table of `_freeze_value`, every hash environment (string / type / identity
hashes, `hash(None)`) and all values `a`, `b` of the modelled universe: if `a == b` (as the cache compares keys) and
the mappings inside `a` have pairwise different keys, then `hash(a) == hash(b)`.  Numbers of different types with
the same value (`1`, `1.0`, `True`, `np.int64(1)`), frozendicts with the same items in another order,
placeholders whose `concrete` differ only in container kinds are all covered. -/
theorem pyEq_hash (T : Table) (env : HashEnv) (a b : PyVal) (hw : wfKeys a = true) (h : keyEq T a b = true) :
    pyHash T env a = pyHash T env b :=
  keyEq_hash T env a b hw h

/-- The same for the raw comparison `pyEq` of `Value.lean` (the pinned `ConvertibleTensor.__eq__`), on the values
without `ConvertibleTensor` placeholders – the largest sub-universe on which it holds for every table
(`pyEq_hash_raw_refuted`). -/
theorem pyEq_hash_partial (T : Table) (env : HashEnv) (a b : PyVal) (hw : wfKeys a = true) (hc : noConv a = true)
    (h : pyEq a b = true) : pyHash T env a = pyHash T env b :=
  keyEq_hash T env a b hw (by rw [keyEq_noConv T a b hc]; exact h)

/-- Inside a placeholder (`hash(_freeze_value(concrete))`): raw `==` implies equal hash, no guard on placeholders. -/
theorem pyEq_hash_concrete (env : HashEnv) (a b : PyVal) (hw : wfKeys a = true) (h : pyEq a b = true) :
    hash0 env a = hash0 env b :=
  pyEq_hash0 env a b hw h

/-- Hash consistency for the keys of two calls. -/
theorem key_hash_consistent (T : Table) (env : HashEnv) (a b : Call) (hw : a.wf = true)
    (h : keyEq T (keyOf T a) (keyOf T b) = true) : pyHash T env (keyOf T a) = pyHash T env (keyOf T b) := by
  apply keyEq_hash T env _ _ _ h
  simp only [Call.wf, Bool.and_eq_true] at hw
  simp [keyOf, wfKeys, wfKeysList, freeze_wfKeys T _ hw.1, freeze_wfKeys T _ hw.2]

/-- **The hash comparison never hides an equal key**: a stored key is found (`equal hash and ==`) exactly when it
is `==`.  Hence the `hit` relation of the memo machine is `keyEq` itself. -/
theorem key_hit_iff_eq (T : Table) (env : HashEnv) (k k' : PyVal) (hw : wfKeys k = true) :
    keyHitF T env k k' = keyEq T k k' := by
  unfold keyHitF
  cases h : keyEq T k k' with
  | false => simp
  | true => simp [keyEq_hash T env k k' hw h]

/-- The dispatch table with the scalar branch `isinstance(x, bool | int | float | complex | np.generic) → _Scalar(x)`
(used for witnesses and examples, so that they do not depend on the tree being checked). -/
def taggedTable : Table :=
  { pinnedTable with rows := pinnedTable.rows ++ [⟨[.bool, .int, .float, .complex, .npGeneric], .tagType⟩] }

/-- Witness environment for the refutation below. -/
def witnessEnv : HashEnv :=
  { str := fun s => (s.length : Int) + 11, cls := fun s => (s.length : Int) + 101, obj := fun i => (i : Int) + 1001, none := 7 }

/-- Placeholder of a tensor factory `def f(shape, scale=2)` … -/
def factoryInt : PyVal :=
  .conv (.ns [("type", .cls "function"), ("parameters", .dict [("scale", .param "scale" (.num .pyInt ⟨2, 0⟩) (.cls "inspect._empty") 1)])]) Option.none
/-- … and of `def f(shape, scale=2.0)`. -/
def factoryFloat : PyVal :=
  .conv (.ns [("type", .cls "function"), ("parameters", .dict [("scale", .param "scale" (.num .pyFloat ⟨2, 0⟩) (.cls "inspect._empty") 1)])]) Option.none

/-- **Why `extracted_conv_eq_frozen` is an obligation.**  With the raw comparison of `concrete` and a table that
tags scalars (a test on one instance): the two factory placeholders are `==` but hash differently (whether the
second call hits would depend on the layout of the hash table); under `keyEq` they are simply different keys. -/
theorem pyEq_hash_raw_refuted :
    pyEq factoryInt factoryFloat = true ∧ pyHash taggedTable witnessEnv factoryInt ≠ pyHash taggedTable witnessEnv factoryFloat ∧
      keyEq taggedTable factoryInt factoryFloat = false := by
  refine ⟨by decide, ?_, by decide⟩
  decide +kernel

/-- **Numbers.**  On normal forms (`exp = 0` or odd numerator; the driver rejects anything else) two dyadic
rationals denote the same mathematical value only if they are structurally equal – so `pyEq` on numbers is
equality of values across all kinds, and `numHash`, a function of the normal form, gives them one hash. -/
theorem dy_normal_unique (a b : Dy) (ha : a.normal = true) (hb : b.normal = true)
    (h : a.num * 2 ^ b.exp = b.num * 2 ^ a.exp) : a = b := by
  obtain ⟨n, e⟩ := a
  obtain ⟨m, f⟩ := b
  simp only [Dy.normal, Bool.or_eq_true, beq_iff_eq, bne_iff_ne, ne_eq] at ha hb
  simp only at h
  rcases Nat.lt_trichotomy e f with hlt | heq | hgt
  · exfalso
    obtain ⟨d, rfl⟩ : ∃ d, f = e + d + 1 := ⟨f - e - 1, by omega⟩
    exact dy_normal_unique_aux n m e d (by rcases hb with hb | hb; (· omega); exact hb) h
  · subst heq
    have h2 : (2 : Int) ^ e ≠ 0 := Int.pow_ne_zero (by decide)
    rw [Int.eq_of_mul_eq_mul_right h2 h]
  · exfalso
    obtain ⟨d, rfl⟩ : ∃ d, e = f + d + 1 := ⟨e - f - 1, by omega⟩
    exact dy_normal_unique_aux m n f d (by rcases ha with ha | ha; (· omega); exact ha) h.symm

/-- Equal mathematical value ⇒ `==` and equal hash, for numbers of any two kinds. -/
theorem num_value_eq_hash (T : Table) (env : HashEnv) (k k' : NumKind) (a b : Dy) (ha : a.normal = true) (hb : b.normal = true)
    (h : a.num * 2 ^ b.exp = b.num * 2 ^ a.exp) :
    pyEq (.num k a) (.num k' b) = true ∧ pyHash T env (.num k a) = pyHash T env (.num k' b) := by
  have := dy_normal_unique a b ha hb h
  subst this
  simp [pyEq, pyHash]

/-! ### Key equality ⇔ equality of exact observations -/

/-- Value level: under a table that treats containers as the pinned one and tags every scalar, two frozen values
are `==` exactly when their exact observations agree. -/
theorem frozen_value_eq_iff (T : Table) (hr : T.respects = true) (ht : T.tagsAll = true) (x y : PyVal)
    (hx : flatConv x = true) : keyEq T (freeze T x) (freeze T y) = exactEq (observeX x) (observeX y) := by
  have r := respects_of hr
  rw [freeze_factor T r (tagsAll_of ht) x, freeze_factor T r (tagsAll_of ht) y]
  exact key_exact T r (tagsAll_of ht) _ _ (freeze_allConv _ pinnedTable x hx)

/-- **`frozen_key_eq_iff`.**  For every dispatch table that treats containers as the pinned one (`respects`) and
freezes every scalar together with its type (`tagsAll`) – both `decide`d on the extracted table – the cache keys of
two calls are `==` **if and only if** the exact observations of the calls are equal: same `api` object, positional
and keyword values equal after erasing container kinds (list / tuple / array, dict / namespace, `Parameter`), mapping
items irrespective of order, every number with its exact Python / numpy type and value, placeholders by kind,
shape and frozen `concrete`.  Guard: the `concrete` of a `ConvertibleTensor` contains no further placeholder. -/
theorem frozen_key_eq_iff (T : Table) (hr : T.respects = true) (ht : T.tagsAll = true) (a b : Call) (ha : a.flat = true) :
    keyEq T (keyOf T a) (keyOf T b) = true ↔ exactEq (observeCallX a) (observeCallX b) = true := by
  simp only [Call.flat, Bool.and_eq_true] at ha
  have h1 := frozen_value_eq_iff T hr ht (.list a.args) (.list b.args) ha.1
  have h2 := frozen_value_eq_iff T hr ht (.dict a.kwargs) (.dict b.kwargs) ha.2
  simp only [observeX] at h1 h2
  simp [keyOf, observeCallX, keyEq, keyEqList, exactEq, exactEqList, normConv, normConvList, h1, h2]

/-- `frozen_key_eq_iff` on the tree being checked. -/
theorem extracted_key_eq_iff (a b : Call) (ha : a.flat = true) :
    keyEq freezeTable (keyOf freezeTable a) (keyOf freezeTable b) = true ↔ exactEq (observeCallX a) (observeCallX b) = true :=
  frozen_key_eq_iff freezeTable (by decide) (by decide) a b ha

/-- **No redundant retrace**: a call whose exact observation equals that of a stored call hits the cache (equal
hash *and* `==`). -/
theorem exact_observation_hits (T : Table) (hr : T.respects = true) (ht : T.tagsAll = true) (env : HashEnv) (a b : Call)
    (ha : a.flat = true) (hw : a.wf = true) (h : exactEq (observeCallX a) (observeCallX b) = true) :
    keyHitF T env (keyOf T a) (keyOf T b) = true := by
  have hk := (frozen_key_eq_iff T hr ht a b ha).mpr h
  simp [keyHitF, hk, key_hash_consistent T env a b hw hk]

/-- The exact observation refines the typed observation of `key_refines_observation` (values without
`ConvertibleTensor` placeholders): exact type ⇒ numeric class. -/
theorem exact_refines_typed (x y : PyVal) (hx : noConv x = true) (h : exactEq x y = true) : typedEq x y = true :=
  exact_typed x y hx h

/-- `id("a b -> a b c", x, c=2)` and the same call with `c=np.int64(2)`. -/
def retraceA : Call := { op := 0, args := [.str "a b -> a b c", .tensor [2, 3]], kwargs := [("c", .num .pyInt ⟨2, 0⟩), ("backend", .obj 1)] }
def retraceB : Call := { op := 0, args := [.str "a b -> a b c", .tensor [2, 3]], kwargs := [("c", .num .npInt64 ⟨2, 0⟩), ("backend", .obj 1)] }

/-- **The converse of `key_refines_observation` is false** (witness, decided on the table with the scalar branch): the two calls
have the same *typed* observation (an integer 2 – tracing cannot tell them apart) but different keys, because the key
keeps the exact type.  Harmless: the second call is traced again and, by `memo_transparent`, gets the same outcome. -/
theorem typed_observation_not_key_witness :
    typedEq (observeCall retraceA) (observeCall retraceB) = true ∧
      exactEq (observeCallX retraceA) (observeCallX retraceB) = false ∧
      keyEq taggedTable (keyOf taggedTable retraceA) (keyOf taggedTable retraceB) = false := by
  decide

/-- **Cache transparency with the comparison of the tree being checked**: if tracing depends only on the exact
observation, then after any history of (flat) calls the outcome of a call is that of a fresh `_construct_graph`. -/
theorem einx_cache_transparent_exact {F : Type} (T : Table) (hr : T.respects = true) (ht : T.tagsAll = true) (env : HashEnv)
    (compute : Call → Outcome F)
    (hobs : ∀ a b, exactEq (observeCallX a) (observeCallX b) = true → compute a = compute b)
    (h : List Call) (c : Call) (hall : ∀ x ∈ c :: h, x.flat = true) :
    (step (keyOf T) (keyHitF T env) id compute (after (keyOf T) (keyHitF T env) id compute [] h) c).2 = compute c := by
  apply memo_transparent_on (keyOf T) (keyHitF T env) id compute (fun x => x.flat = true)
  · intro m e he; exact he
  · intro a b ha _ hk
    simp only [keyHitF, Bool.and_eq_true] at hk
    exact hobs a b ((frozen_key_eq_iff T hr ht a b ha).mp hk.2)
  · exact hall

/-! ### Non-vacuity -/

/-- `pyEq_hash`: a mapping with reordered items, `2` vs `2.0`, `1` vs `True` – `==` holds, the guard holds. -/
example :
    let a : PyVal := .dict [("b", .num .pyInt ⟨2, 0⟩), ("c", .tuple [.num .pyInt ⟨1, 0⟩, .str "x"])]
    let b : PyVal := .dict [("c", .tuple [.num .pyBool ⟨1, 0⟩, .str "x"]), ("b", .num .pyFloat ⟨2, 0⟩)]
    wfKeys a = true ∧ keyEq pinnedTable a b = true ∧ a.shape = b.shape := by decide

/-- `pyEq_hash` on placeholders: factories with default `[1, 2]` and `(1, 2)` are `==` for the tree being checked
(frozen comparison) although the raw comparison says no. -/
example :
    let f (d : PyVal) : PyVal := .conv (.ns [("type", .cls "function"), ("parameters", .dict [("init", .param "init" d (.cls "inspect._empty") 1)])]) Option.none
    let a := f (.list [.num .pyInt ⟨1, 0⟩, .num .pyInt ⟨2, 0⟩])
    let b := f (.tuple [.num .pyInt ⟨1, 0⟩, .num .pyInt ⟨2, 0⟩])
    wfKeys a = true ∧ keyEq taggedTable a b = true ∧ pyEq a b = false := by decide

/-- The guard of `pyEq_hash` cannot be dropped: association lists with a repeated key (not Python dicts). -/
example :
    let a : PyVal := .dict [("x", .num .pyInt ⟨1, 0⟩), ("x", .num .pyInt ⟨1, 0⟩)]
    let b : PyVal := .dict [("x", .num .pyInt ⟨1, 0⟩), ("y", .num .pyInt ⟨2, 0⟩)]
    keyEq pinnedTable a b = true ∧ wfKeys a = false := by decide

/-- `frozen_key_eq_iff`: keyword order, list vs array, list vs tuple default of a factory – hypotheses hold on the
tagged table and both sides are true; and a pair on which both sides are false. -/
example :
    let f (d : PyVal) : PyVal := .conv (.ns [("type", .cls "function"), ("parameters", .dict [("init", .param "init" d (.cls "inspect._empty") 1)])]) Option.none
    let a : Call := { op := 0, args := [.str "a b, b -> a b", .tensor [2, 3], f (.list [.num .pyInt ⟨1, 0⟩])],
                      kwargs := [("b", .list [.num .pyInt ⟨3, 0⟩]), ("backend", .obj 1)] }
    let b : Call := { op := 0, args := [.str "a b, b -> a b", .tensor [2, 3], f (.tuple [.num .pyInt ⟨1, 0⟩])],
                      kwargs := [("backend", .obj 1), ("b", .ndarray .npInt64 (.list [.num .pyInt ⟨3, 0⟩]))] }
    let c : Call := { b with kwargs := [("backend", .obj 1), ("b", .ndarray .npFloat64 (.list [.num .pyFloat ⟨3, 0⟩]))] }
    taggedTable.respects = true ∧ taggedTable.tagsAll = true ∧ a.flat = true ∧ a.wf = true ∧
      keyEq taggedTable (keyOf taggedTable a) (keyOf taggedTable b) = true ∧ exactEq (observeCallX a) (observeCallX b) = true ∧
      keyEq taggedTable (keyOf taggedTable a) (keyOf taggedTable c) = false ∧ exactEq (observeCallX a) (observeCallX c) = false := by
  decide

/-- `dy_normal_unique`: hypotheses met by `5/2` in normal form; the guard is needed: `4/2` (not normal) and `2/1`
denote the same value and differ structurally. -/
example : (⟨5, 1⟩ : Dy).normal = true ∧ (⟨4, 1⟩ : Dy).normal = false ∧ (4 : Int) * 2 ^ 0 = 2 * 2 ^ 1 ∧ (⟨4, 1⟩ : Dy) ≠ ⟨2, 0⟩ := by
  decide

end Einx.Cache
