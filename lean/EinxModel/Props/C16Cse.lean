import EinxModel.Proofs.CseTreesIds
/-!
C16, CSE part — **the result of `cse()` does not depend on the order in which the dict `str_to_common_expr` is
enumerated**, for the model of the whole of `stage2/cse.py` (`cseTreesEnum`, `Solve/CseTrees.lean`; tied to the real
`cse` structurally on every run by `tools/props/c02_cse.py`, stream (D), and `tools/props/c16.py`).

`cse()` iterates one container whose order could matter: `for str_expr in str_to_common_expr.keys()`.  (Its sets
`used_axis_ids`, `used_axis_names` are only asked for membership; `common_exprs` is a list since fix 035c94b.)  The model
takes that enumeration as the argument `enum`, any function that returns a permutation of the dict entries — an
adversary, not only the insertion order CPython uses.  The theorem: whatever `enum` is, the expressions returned are
those of the insertion order with the new axes `cse.<k>` renamed to `cse.<ρ k>`, `ρ` a bijection of the candidate
indices (an exception of the real code is the `Except.error` of that same replacement).  All filters (`usedOnlyInside` … `notInsideOther`, which compares a candidate with
all others) and both searches of `replace` (node level: first candidate; list level: longest exprlist, first of the
longest) are covered.

No hypothesis on the input is left: that the keys of the candidates are pairwise different (`candidates_keys_nodup`)
and that a list of node identities is an exprlist of one candidate only (`candidates_unique_ids`: identities determine
the nodes, the nodes determine the key, `Proofs/CseTreesIds.lean`) are proved for every input.  The driver still
evaluates the decidable form `uniqueIds` on every real input (request kinds `cse_check` / `cse_enum`) as a sanity
check of the model.
-/
namespace Einx.Solve.CseT
open Einx.Solve

/-- Obligation-free fact used below: the dict has one entry per key, and no filter changes a key. -/
theorem candidates_keys_nodup (opts : Opts) (roots : List (Option VExpr)) :
    (candKeys (candidates opts roots)).Nodup := nodup_candidates opts roots

/-- An exprlist (a list of node identities) belongs to one candidate only. -/
theorem candidates_unique_ids (opts : Opts) (roots : List (Option VExpr)) : UniqueIds (candidates opts roots) :=
  uniqueIds_candidates opts roots

/-- `cseTrees` is the replacement with the candidates of the insertion order and the names `cse.<k>`. -/
theorem cseTrees_eq (opts : Opts) (roots : List (Option VExpr)) :
    cseTrees opts roots =
      replaceRootsM cseName (matchNode (candidates opts roots)) (matchAt (candidates opts roots)) 0 roots := rfl

/-- **Order independence of the whole of `cse`.**  For every enumeration `enum` of the dict entries (a permutation,
chosen adversarially) the result — expressions or exception — is the result for the insertion order with the new axes
numbered by `ρ` instead of the identity, and `ρ` permutes the candidate indices. -/
theorem cseTrees_order_independent (enum : List Cand → List Cand) (henum : ∀ l, (enum l).Perm l)
    (opts : Opts) (roots : List (Option VExpr)) :
    ∃ ρ : Nat → Nat,
      (∀ i, i < (candidates opts roots).length → ρ i < (candidates opts roots).length) ∧
      (∀ i j, i < (candidates opts roots).length → j < (candidates opts roots).length → ρ i = ρ j → i = j) ∧
      cseTreesEnum enum opts roots =
        replaceRootsM (fun k => cseName (ρ k)) (matchNode (candidates opts roots)) (matchAt (candidates opts roots)) 0 roots := by
  let c₁ := candidates opts roots
  let c₂ := selectFrom opts roots (enum (groupEntries (allEntries 0 roots)))
  have hp : c₁.Perm c₂ := selectFrom_perm opts roots (henum _).symm
  have hnd : (candKeys c₁).Nodup := nodup_candidates opts roots
  have hU : UniqueIds c₁ := uniqueIds_candidates opts roots
  refine ⟨renum c₁ c₂, fun i hi => renum_lt hp hi, fun i j hi hj h => renum_inj hp hnd hi hj h, ?_⟩
  show replaceRootsM cseName (matchNode c₂) (matchAt c₂) 0 roots = _
  have h1 : matchNode c₂ = fun id => (matchNode c₁ id).map (renum c₁ c₂) := by
    funext id; exact matchNode_perm hp hnd hU id
  have h2 : matchAt c₂ = fun pid i n => (matchAt c₁ pid i n).map (fun r => (renum c₁ c₂ r.1, r.2)) := by
    funext pid i n; exact matchAt_perm hp hnd hU pid i n
  rw [h1, h2]
  exact replaceRootsM_natural cseName (renum c₁ c₂) (matchNode c₁) (matchAt c₁) roots 0

/-! ### Non-vacuity -/

/-- `(a b) (c d), (a b) (c d)`: two candidates, `(a b)` ↦ `cse.0` and `(c d)` ↦ `cse.1` in insertion order. -/
def exTwo : List (Option VExpr) :=
  [some (.list [.flat (.list [.axis "a" none 1, .axis "b" none 1]), .flat (.list [.axis "c" none 1, .axis "d" none 1])]),
   some (.list [.flat (.list [.axis "a" none 1, .axis "b" none 1]), .flat (.list [.axis "c" none 1, .axis "d" none 1])]),
   none, none]

example : cseTrees {} exTwo = .ok [some (.list [.axis "cse.0" none 1, .axis "cse.1" none 1]),
                                   some (.list [.axis "cse.0" none 1, .axis "cse.1" none 1]), none, none] := by rfl

/-- the adversarial enumeration "reverse" numbers the new axes the other way round … -/
example : cseTreesEnum List.reverse {} exTwo = .ok [some (.list [.axis "cse.1" none 1, .axis "cse.0" none 1]),
                                                    some (.list [.axis "cse.1" none 1, .axis "cse.0" none 1]), none, none] := by rfl

/-- … `reverse` is an admissible enumeration, so the theorem applies: the two results above differ by the bijection
`0 ↦ 1, 1 ↦ 0` of the candidate indices. -/
example : ∀ l : List Cand, (List.reverse l).Perm l := fun l => List.reverse_perm l
example : ∃ ρ : Nat → Nat, (∀ i j, i < 2 → j < 2 → ρ i = ρ j → i = j) ∧
    cseTreesEnum List.reverse {} exTwo =
      replaceRootsM (fun k => cseName (ρ k)) (matchNode (candidates {} exTwo)) (matchAt (candidates {} exTwo)) 0 exTwo := by
  obtain ⟨ρ, _, h2, h3⟩ := cseTrees_order_independent List.reverse (fun l => List.reverse_perm l) {} exTwo
  have hlen : (candidates {} exTwo).length = 2 := by decide
  exact ⟨ρ, fun i j hi hj => h2 i j (by omega) (by omega), h3⟩
/-- the decidable form of `candidates_unique_ids` on this input -/
example : uniqueIds (candidates {} exTwo) = true := by decide

end Einx.Solve.CseT
