import EinxModel.Proofs.Update
import EinxModel.Proofs.UpdateLowering
import EinxModel.Extracted.Update
/-!
C14 — indexed updates apply every update exactly once and touch nothing else.

Property theorems only (helper lemmas live in `Proofs/Update.lean`).  `Extracted/Update.lean` is
regenerated from `/repo` on every run: the obligations `extracted_scatter_broadcasts`,
`extracted_scatter_primitives` and `ravel_index_correct` are re-checked against what
`classical_from_numpy.py` and `_ravel` say now.
-/
namespace Einx.Update

/-! ### Source obligations -/

/-- Obligation regenerated from the source: every numpy scatter wrapper is registered with
`broadcast=`, so that indices and updates reach the numpy primitive with a common shape. -/
theorem extracted_scatter_broadcasts :
    ∀ op ∈ ["set_at", "add_at", "subtract_at"], Einx.Extracted.broadcasts op = true := by decide

/-- Obligation regenerated from the source: the wrappers call `numpy.put`, `numpy.add.at`,
`numpy.subtract.at`. -/
theorem extracted_scatter_primitives :
    Einx.Extracted.updateLowering.prim .set = .put ∧ Einx.Extracted.updateLowering.prim .add = .addAt
      ∧ Einx.Extracted.updateLowering.prim .sub = .subAt := by decide

/-! ### The iteration space -/

/-- The fold of an update ranges over every assignment of the un-bracketed axes exactly once:
`assignments s` has no duplicates, contains exactly the valid multi-indices of `s`, and therefore has
`prod s` entries. -/
theorem assignments_nodup_complete (s : List Nat) :
    (assignments s).Nodup ∧ (∀ σ, σ ∈ assignments s ↔ Valid s σ) ∧ (assignments s).length = prod s :=
  ⟨assignments_nodup s, fun _ => mem_assignments_iff_valid, assignments_length s⟩

/-- … in row-major order: the `k`-th assignment is the multi-index with flat position `k`. -/
theorem assignments_row_major (s σ : List Nat) (h : Valid s σ) : (assignments s)[ravel s σ]? = some σ :=
  assignments_getElem? s σ h

/-- The contributions of an operation are, position by position, the contributions of the
assignments: one per assignment, none invented, none dropped. -/
theorem update_contribs_exactly_once (op : Op) (cs : List (Nat × Int)) (h : op.contribs = some cs) :
    cs.length = prod op.axes ∧
      ∀ (k : Nat) (σ : List Nat), (assignments op.axes)[k]? = some σ → op.contribAt σ = cs[k]? := by
  refine ⟨by rw [mapOpt_length h, assignments_length], ?_⟩
  intro k σ hk
  exact mapOpt_getElem? h k σ hk

/-- The denotation is the fold of exactly those contributions over the target; its shape is the target's. -/
theorem denote_eq_applyUpdates (m : Mode) (op : Op) (t r : List Int) (hd : denote m op t = some r) :
    ∃ cs, op.contribs = some cs ∧ r = applyUpdates m t cs ∧ r.length = t.length := by
  simp only [denote] at hd
  cases hts : targetShape op.axes op.tdims with
  | none => simp [hts] at hd
  | some tshape =>
    cases hc : op.contribs with
    | none => simp [hts, hc] at hd
    | some cs =>
      simp only [hts, hc] at hd
      split at hd
      · obtain rfl := Option.some.inj hd
        exact ⟨cs, rfl, rfl, applyUpdates_length m t cs⟩
      · simp at hd

/-! ### What the fold computes -/

/-- `add_at`: every element ends up as its old value plus the sum of all contributions addressed to it. -/
theorem add_at_sum (t : List Int) (cs : List (Nat × Int)) (k : Nat) :
    (applyUpdates .add t cs)[k]? = t[k]?.map (fun o => o + (addressedTo k cs).sum) := by
  rw [getElem?_applyUpdates]; simp [foldl_add]

/-- `subtract_at`: old value minus the sum of all contributions addressed to the element. -/
theorem subtract_at_sum (t : List Int) (cs : List (Nat × Int)) (k : Nat) :
    (applyUpdates .sub t cs)[k]? = t[k]?.map (fun o => o - (addressedTo k cs).sum) := by
  rw [getElem?_applyUpdates]; simp [foldl_sub]

/-- `add_at` / `subtract_at` do not depend on the order in which the contributions are applied. -/
theorem add_at_order_independent (m : Mode) (hm : m = .add ∨ m = .sub) (t : List Int)
    (cs ds : List (Nat × Int)) (h : cs.Perm ds) : applyUpdates m t cs = applyUpdates m t ds := by
  apply List.ext_getElem?
  intro k
  rcases hm with rfl | rfl
  · rw [add_at_sum, add_at_sum, addressedTo_perm_sum h]
  · rw [subtract_at_sum, subtract_at_sum, addressedTo_perm_sum h]

/-- `set_at`: an element to which contributions are addressed holds the value of one of them (the last
in fold order); an element to which none is addressed keeps its value. -/
theorem set_at_one_of (t : List Int) (cs : List (Nat × Int)) (k : Nat) :
    (applyUpdates .set t cs)[k]? = t[k]?.map (fun o => (addressedTo k cs).getLast?.getD o)
    ∧ (k < t.length → addressedTo k cs ≠ [] →
        ∃ c ∈ cs, c.1 = k ∧ (applyUpdates .set t cs)[k]? = some c.2) := by
  have h1 : (applyUpdates .set t cs)[k]? = t[k]?.map (fun o => (addressedTo k cs).getLast?.getD o) := by
    rw [getElem?_applyUpdates]; simp [foldl_set]
  refine ⟨h1, ?_⟩
  intro hk hne
  obtain ⟨v, hv⟩ : ∃ v, (addressedTo k cs).getLast? = some v := by
    cases hl : (addressedTo k cs).getLast? with
    | none => exact absurd (List.getLast?_eq_none_iff.mp hl) hne
    | some v => exact ⟨v, rfl⟩
  have hmem : v ∈ addressedTo k cs := List.mem_of_getLast? hv
  simp only [addressedTo, List.mem_map, List.mem_filter, beq_iff_eq] at hmem
  obtain ⟨c, ⟨hc, hck⟩, rfl⟩ := hmem
  refine ⟨c, hc, hck, ?_⟩
  rw [h1, List.getElem?_eq_getElem hk, hv]; rfl

/-- Every element that is not addressed keeps its original value, in every mode; and the shape of
the target never changes. -/
theorem untouched_unchanged (m : Mode) (t : List Int) (cs : List (Nat × Int)) (k : Nat)
    (h : ∀ c ∈ cs, c.1 ≠ k) :
    (applyUpdates m t cs)[k]? = t[k]? ∧ (applyUpdates m t cs).length = t.length := by
  refine ⟨?_, applyUpdates_length m t cs⟩
  rw [getElem?_applyUpdates]
  have : addressedTo k cs = [] := by
    simp only [addressedTo, List.map_eq_nil_iff, List.filter_eq_nil_iff, beq_iff_eq]
    exact fun c hc => h c hc
  rw [this]; simp

/-- An update value is read at the projection of the assignment onto the update tensor's own axes:
two assignments that agree on those axes receive the same value (an axis the update tensor lacks is
repeated). -/
theorem update_missing_axis_repeats (op : Op) (σ σ' : List Nat)
    (h : ∀ j ∈ op.udims, σ[j]? = σ'[j]?) : op.readUpd σ = op.readUpd σ' := by
  have : pick σ op.udims = pick σ' op.udims := mapOpt_congr h
  simp only [Op.readUpd, this]

/-! ### Reading back -/

/-- `get_at` with the same coordinates reads back what `set_at` wrote, when the addresses of the
assignments are pairwise distinct. -/
theorem get_after_set (op : Op) (t r : List Int) (cs : List (Nat × Int))
    (hc : op.contribs = some cs) (hd : (cs.map (·.1)).Nodup) (hr : denote .set op t = some r) :
    getAt op r = some (cs.map (·.2)) := by
  simp only [denote, hc] at hr
  cases hts : targetShape op.axes op.tdims with
  | none => simp [hts] at hr
  | some tshape =>
    simp only [hts] at hr
    split at hr
    case isFalse => simp at hr
    case isTrue hlen =>
    obtain rfl := Option.some.inj hr
    simp only [getAt, hts]
    rw [mapOpt_eq_some_iff]
    have hmap := (mapOpt_eq_some_iff _ _ _).mp hc
    apply List.ext_getElem?
    intro k
    have hk := congrArg (fun l => l[k]?) hmap
    simp only [List.getElem?_map] at hk ⊢
    cases hσ : (assignments op.axes)[k]? with
    | none =>
      simp only [hσ, Option.map_none] at hk ⊢
      cases hck : cs[k]? with
      | none => rfl
      | some c => simp [hck] at hk
    | some σ =>
      simp only [hσ, Option.map_some] at hk ⊢
      cases hck : cs[k]? with
      | none => simp [hck] at hk
      | some c =>
        simp only [hck, Option.map_some, Option.some.injEq] at hk ⊢
        -- unfold the contribution of σ
        simp only [Op.contribAt, hts] at hk
        cases hti : op.tidxAt σ with
        | none => simp [hti] at hk
        | some tidx =>
          cases hu : op.readUpd σ with
          | none => simp [hti, hu] at hk
          | some v =>
            simp only [hti, hu] at hk
            split at hk
            case isFalse => simp at hk
            case isTrue hv =>
            obtain rfl := Option.some.inj hk
            have hvalid : Valid tshape tidx := validb_iff.mp hv
            have hlt : ravel tshape tidx < t.length := by rw [hlen.1]; exact ravel_lt hvalid
            simp only [readAt, hv, ↓reduceIte]
            rw [(set_at_one_of t cs _).1, List.getElem?_eq_getElem hlt]
            -- exactly one contribution is addressed to this element
            have hone : addressedTo (ravel tshape tidx) cs = [v] := by
              have hmem : (ravel tshape tidx, v) ∈ cs := List.mem_of_getElem? hck
              clear hck hk hmap hc hr
              induction cs with
              | nil => simp at hmem
              | cons d ds ih =>
                simp only [List.map_cons, List.nodup_cons, List.mem_map, not_exists, not_and] at hd
                rcases List.mem_cons.mp hmem with rfl | hm
                · have : addressedTo (ravel tshape tidx) ds = [] := by
                    simp only [addressedTo, List.map_eq_nil_iff, List.filter_eq_nil_iff, beq_iff_eq]
                    intro c hc heq; exact hd.1 c hc heq
                  simp [addressedTo] at this ⊢
                  exact this
                · have hne : (d.1 == ravel tshape tidx) = false := by
                    simpa using fun (heq : d.1 = ravel tshape tidx) => hd.1 _ hm heq.symm
                  have := ih hd.2 hm
                  simp only [addressedTo, List.filter_cons, hne] at this ⊢
                  exact this
            simp [hone]

/-! ### The lowering -/

/-- The multiplier kernel translated from `_ravel` computes the row-major address: the scaled terms
sum to `ravel shape idx` (for an index of the right rank; in particular for every valid index, for
which the address is also in range). -/
theorem ravel_index_correct (shape idx : List Nat) (h : idx.length = shape.length) :
    (Einx.Extracted.ravelKernel idx shape).sum = ravel shape idx := by
  simp only [Einx.Extracted.ravelKernel, List.foldl_reverse]
  suffices H : ∀ (idx shape : List Nat), idx.length = shape.length →
      (List.foldr (fun (it : Nat × Nat) (st : List Nat × Nat) =>
          ((if (st.2 != 1) = true then it.1 * st.2 else it.1) :: st.1, st.2 * it.2)) ([], 1) (idx.zip shape))
        = ((List.foldr (fun (it : Nat × Nat) (st : List Nat × Nat) =>
          ((if (st.2 != 1) = true then it.1 * st.2 else it.1) :: st.1, st.2 * it.2)) ([], 1) (idx.zip shape)).1, prod shape)
        ∧ ((List.foldr (fun (it : Nat × Nat) (st : List Nat × Nat) =>
          ((if (st.2 != 1) = true then it.1 * st.2 else it.1) :: st.1, st.2 * it.2)) ([], 1) (idx.zip shape)).1).sum = ravel shape idx by
    exact (H idx shape h).2
  intro idx
  induction idx with
  | nil => intro shape hs; cases shape <;> simp_all [ravel, prod]
  | cons i is ih =>
    intro shape hs
    cases shape with
    | nil => simp at hs
    | cons s ss =>
      simp only [List.length_cons, Nat.add_right_cancel_iff] at hs
      obtain ⟨h1, h2⟩ := ih ss hs
      simp only [List.zip_cons_cons, List.foldr_cons, ravel, prod]
      rw [h1]
      simp only [List.sum_cons, h2]
      refine ⟨by rw [Nat.mul_comm (prod ss) s], ?_⟩
      split
      · rfl
      · rename_i hne
        have : prod ss = 1 := by simpa using hne
        simp [this]

/-- For a valid index the kernel's address is inside the flattened target (so `numpy.put` / `ufunc.at`
do not raise and address the element the coordinates name). -/
theorem ravel_index_in_range (shape idx : List Nat) (h : Valid shape idx) :
    (Einx.Extracted.ravelKernel idx shape).sum = ravel shape idx ∧ ravel shape idx < prod shape :=
  ⟨ravel_index_correct shape idx (valid_length h), ravel_lt h⟩

/-- With indices and updates of a common shape (equal lengths after flattening) and in-range
indices, the numpy primitives realise the fold of the denotation. -/
theorem scatter_lowering_sound (t : List Int) (shape : List Nat) (idx : List Nat) (vals : List Int)
    (hi : idx.length = prod shape) (hv : vals.length = prod shape) (hr : ∀ i ∈ idx, i < t.length) :
    npPut t idx vals = some (applyUpdates .set t (idx.zip vals))
    ∧ npAddAt t shape idx shape vals = some (applyUpdates .add t (idx.zip vals))
    ∧ npSubtractAt t shape idx shape vals = some (applyUpdates .sub t (idx.zip vals)) := by
  have hrange : ∀ c ∈ idx.zip vals, c.1 < t.length := fun c hc => hr c.1 (List.of_mem_zip hc).1
  have hb : broadcastTo shape shape vals = some vals := by
    have hall : (List.zipWith (fun a b => decide (a = b ∨ a = 1)) shape shape).all id = true := by
      simp only [List.all_eq_true]
      intro x hx
      simp only [List.mem_iff_getElem?, List.getElem?_zipWith] at hx
      obtain ⟨k, hk⟩ := hx
      cases hs : shape[k]? with
      | none => simp [hs] at hk
      | some a => simp [hs] at hk; subst hk; rfl
    simp only [broadcastTo, hall, hv, and_self, ↓reduceIte]
    rw [← mapOpt_read_assignments shape vals hv]
    apply mapOpt_congr
    intro σ hσ
    have hvσ : Valid shape σ := mem_assignments_iff_valid.mp hσ
    have : List.zipWith (fun i a => if a = 1 then 0 else i) σ shape = σ := clampIndex_self hvσ
    rw [this, readAt, validb_iff.mpr hvσ]; rfl
  refine ⟨?_, ?_, ?_⟩
  · simp only [npPut]
    by_cases he : vals.isEmpty
    · have hv0 : vals = [] := List.isEmpty_iff.mp he
      have : idx = [] := by
        apply List.eq_nil_of_length_eq_zero; rw [hi, ← hv, hv0]; rfl
      simp [this, hv0, applyUpdates]
    · simp only [he, Bool.false_eq_true, ↓reduceIte]
      have hcyc : cycle vals idx.length = some vals := by
        simp only [cycle]
        rw [mapOpt_eq_some_iff]
        apply List.ext_getElem?
        intro k
        simp only [List.getElem?_map]
        by_cases hk : k < vals.length
        · have hk' : k < idx.length := by omega
          simp [List.getElem?_range hk', Nat.mod_eq_of_lt hk, List.getElem?_eq_getElem hk]
        · have h1 : idx.length ≤ k := by omega
          have h2 : vals.length ≤ k := by omega
          simp [List.getElem?_eq_none h2]
          exact h1
      rw [hcyc]
      exact scatterGo_eq_applyUpdates .set t _ hrange
  · simp only [npAddAt, npUfuncAt, hb, hi, ↓reduceIte]
    exact scatterGo_eq_applyUpdates .add t _ hrange
  · simp only [npSubtractAt, npUfuncAt, hb, hi, ↓reduceIte]
    exact scatterGo_eq_applyUpdates .sub t _ hrange

/-- **The lowering computes the denotation.**  For any lowering whose index kernel is the row-major
formula, whose wrapper broadcasts indices and updates to a common shape and which calls the numpy
primitive of the mode: whenever the denotation of an update is defined (coordinates in range, shapes
consistent) and every un-bracketed axis occurs in some operand, ravelling, re-arranging, broadcasting
and `numpy.put` / `numpy.add.at` / `numpy.subtract.at` on the flattened target produce exactly it. -/
theorem update_lowering_sound (L : Lowering) (m : Mode) (op : Op) (t r : List Int)
    (hk : ∀ shape idx : List Nat, idx.length = shape.length → (L.kernel idx shape).sum = ravel shape idx)
    (hb : L.broadcasts m = true) (hp : L.prim m = m.prim) (hc : op.covered)
    (hd : denote m op t = some r) : lower L m op t = some r :=
  lowering_sound L m op t r hk hb hp hc hd

/-- … and the lowering that the source tree defines now (`Extracted.updateLowering`: translated `_ravel`
kernel, extracted registration flags and primitives) is such a lowering, for all three operations. -/
theorem extracted_lowering_sound (m : Mode) (op : Op) (t r : List Int) (hc : op.covered)
    (hd : denote m op t = some r) : lower Einx.Extracted.updateLowering m op t = some r := by
  apply lowering_sound _ m op t r (fun shape idx h => ravel_index_correct shape idx h) _ _ hc hd
  · cases m
    · exact extracted_scatter_broadcasts "set_at" (by simp)
    · exact extracted_scatter_broadcasts "add_at" (by simp)
    · exact extracted_scatter_broadcasts "subtract_at" (by simp)
  · obtain ⟨h1, h2, h3⟩ := extracted_scatter_primitives
    cases m
    · exact h1
    · exact h2
    · exact h3

/-- The shortcut of `op_with_zerosized_args` is the denotation: when an un-bracketed axis has length 0
there is no assignment, so an update (if it means anything) leaves the target as it is — which is what
`lowerCall` returns when a coordinate or update tensor is zero-sized. -/
theorem zero_sized_update_is_identity (L : Lowering) (m : Mode) (op : Op) (t r : List Int) (h : 0 ∈ op.axes)
    (hd : denote m op t = some r) :
    r = t ∧ (op.zeroSized = true → lowerCall L m op t = some r) ∧
      (op.zeroSized = false → lowerCall L m op t = lower L m op t) := by
  have hr : r = t := by
    simp only [denote, Op.contribs, assignments_of_zero _ h, mapOpt] at hd
    cases hts : targetShape op.axes op.tdims with
    | none => simp [hts] at hd
    | some tshape =>
      simp only [hts] at hd
      split at hd
      · exact (Option.some.inj hd).symm
      · simp at hd
  refine ⟨hr, ?_, ?_⟩
  · intro hz; simp [lowerCall, hz, hr]
  · intro hz; simp [lowerCall, hz]

/-! ### Why the registration flag matters -/

/-- `numpy.put` repeats a short value array *cyclically over the flattened indices*; that is not
repetition along the missing axis.  Witness (the input of D12): target `a [h]` = zeros(2,5),
coordinates `a p` = [[0,1,2],[3,4,0]], updates `a` = [10,20].  Without `broadcast=` the lowering writes
10,20,10 into row 0, the denotation 10,10,10. -/
theorem put_cycles_counterexample :
    let op : Op := { axes := [2, 3], tdims := [.vec 0, .idx 5],
                     coords := [{ dims := [.ax 0, .ax 1], data := [0, 1, 2, 3, 4, 0] }],
                     udims := [0], udata := [10, 20] }
    let L (b : Bool) : Lowering := { kernel := fun i s => [ravel s i], broadcasts := fun _ => b, prim := fun _ => .put }
    lower (L false) .set op (List.replicate 10 0) = some [10, 20, 10, 0, 0, 20, 0, 0, 20, 10]
    ∧ denote .set op (List.replicate 10 0) = some [10, 10, 10, 0, 0, 20, 0, 0, 20, 20]
    ∧ lower (L true) .set op (List.replicate 10 0) = denote .set op (List.replicate 10 0) := by
  decide

/-! ### Non-vacuity -/

/-- The hypotheses of `get_after_set` are met by a non-trivial instance (two bracketed target axes,
a vectorised axis, a coordinate tensor `p [2]`), and its conclusion is what one expects. -/
example :
    let op : Op := { axes := [2, 2], tdims := [.idx 2, .vec 0, .idx 3],
                     coords := [{ dims := [.ax 1, .br 2], data := [0, 1, 1, 2] }],
                     udims := [1, 0], udata := [7, 8, 9, 10] }
    op.contribs = some [(1, 7), (8, 9), (4, 8), (11, 10)]
    ∧ ((([(1, 7), (8, 9), (4, 8), (11, 10)] : List (Nat × Int)).map (·.1)).Nodup)
    ∧ denote .set op (List.replicate 12 0) = some [0, 7, 0, 0, 8, 0, 0, 0, 9, 0, 0, 10]
    ∧ getAt op [0, 7, 0, 0, 8, 0, 0, 0, 9, 0, 0, 10] = some [7, 9, 8, 10] := by
  decide

/-- `extracted_lowering_sound` is not vacuous: a covered operation with a defined denotation (duplicate
addresses, update lacking the axis `p`, coordinate axis first). -/
example :
    let op : Op := { axes := [2, 3], tdims := [.idx 2, .vec 0, .idx 2],
                     coords := [{ dims := [.br 2, .ax 1], data := [0, 1, 1, 1, 1, 1] }],
                     udims := [0], udata := [5, 7] }
    op.covered ∧ denote .add op (List.replicate 8 0) = some [0, 5, 0, 7, 0, 10, 0, 14] := by
  refine ⟨⟨by decide, ?_⟩, by decide⟩
  intro j hj
  have : j = 0 ∨ j = 1 := by simp at hj; omega
  rcases this with rfl | rfl <;> decide

/-- Duplicate addresses: `add` accumulates, `set` keeps the last. -/
example : applyUpdates .add [0, 0, 0] [(1, 5), (1, 7), (2, 1)] = [0, 12, 1]
    ∧ applyUpdates .set [0, 0, 0] [(1, 5), (1, 7), (2, 1)] = [0, 7, 1]
    ∧ addressedTo 1 [(1, 5), (1, 7), (2, 1)] = [5, 7] := by decide

/-- The extracted kernel on a concrete index. -/
example : Einx.Extracted.ravelKernel [1, 2, 3] [2, 3, 4] = [12, 8, 3] ∧ ravel [2, 3, 4] [1, 2, 3] = 23 := by decide

end Einx.Update
