import EinxModel.Proofs.NotationSpace
import EinxModel.Proofs.NotationPrintFinal
import EinxModel.Proofs.NotationNFFinal
/-!
# C12 — the expression parser is total and stable under re-printing and extra spacing

All statements are about `Einx.Notation.parseOp` / `parseArgs` / `parseArg` / `Expr.print`, the definitions the
driver executes (model M1 of `einx/_src/namedtensor/stage1/{parse,tree}.py`).  Strings are lists of code points.

*Remark (`parse_total`).*  `parseOp : Str → Except Err Expr` is a total Lean function: `segment` recurses on the
length of the remaining text (every literal is non-empty, `literals_nonempty`), `parse` by well-founded recursion on
the size of the token tree (`termination_by sizeL ts`, lemmas `operands_lt`, `strip_le`), the `move_up` passes, the
bracket pass and the printer by structural recursion.  No `partial`, no fuel.
-/
namespace Einx.Props.C12
open Einx.Notation

/-! ## (e) Obligations over the constants extracted from /repo on every run -/

/-- Operator precedence of the source (lowest first), ignoring the unimplemented `|`: `->` < `,` < `+` < space. -/
theorem nary_ops_precedence : Einx.Extracted.naryOps.filter (· != "|") = ["->", ",", "+", " "] := by decide

/-- The operators for which `parse` has a branch are exactly the four the model's `combine` handles. -/
theorem handled_ops_are_the_models :
    (Einx.Extracted.handledOps.all (fun o => modelHandled.contains o.toList) &&
      modelHandled.all (fun o => (Einx.Extracted.handledOps.map String.toList).contains o)) = true := by decide

/-- Every operator of `_nary_ops` without a branch in `parse` (it ends in `raise AssertionError()`) is `|`. -/
theorem unhandled_ops_only_bar : ∀ op ∈ naryOps, op ∉ modelHandled → op = ['|'] := by decide

/-- No literal is empty (otherwise the lexer loop of `parse_op` would not advance). -/
theorem literals_nonempty : ∀ l ∈ literals, l ≠ [] := by decide

/-- No literal is a prefix of another one: the first match in `_literals` is the only match, so the (hash-seed
    dependent) order of the delimiter sets in `_literals` is irrelevant. -/
theorem literals_prefix_free : ∀ l ∈ literals, ∀ l' ∈ literals, l.isPrefixOf l' = true → l = l' := by decide

/-- `_literals` is built from the other constants as the model assumes. -/
theorem literals_composition :
    Einx.Extracted.literals = Einx.Extracted.naryOps ++ Einx.Extracted.delimitersFront ++ Einx.Extracted.delimitersBack ++ [Einx.Extracted.ellipsis] := by
  decide

/-- Only a space literal contains a space: a space always ends the pending token and is a token of its own. -/
theorem only_space_literal_has_space : ∀ l ∈ literals, ' ' ∈ l → l = [' '] := by decide

theorem axis_name_pattern_exact : Einx.Extracted.axisNamePattern = "[a-zA-Z_][a-zA-Z0-9_]*" := by decide

theorem delimiters_exact : Einx.Extracted.parentheses = [("(", ")"), ("[", "]")] ∧ Einx.Extracted.ellipsis = "..." := by decide

/-- The anonymous ellipsis variable cannot be written by a user: it is neither an axis name, a number nor a literal. -/
theorem anonymous_name_not_writable : validToken anonName = false := by decide

/-- ASCII digits are decimal digits with their usual value (what `int()` computes for them). -/
theorem ascii_digits_decimal :
    ("0123456789".toList.map (fun c => (isDigitChar c, isDecimalChar c, decimalValue c))) =
      (List.range 10).map (fun i => (true, true, i)) := by decide

/-! ## (a) Totality: the only outcomes -/

/-- Outcome classes of `parse_op`.  Besides a tree and a `SyntaxError`, only these internal exceptions are possible:
    an operator of `_nary_ops` without handler (by `unhandled_ops_only_bar`: `|`, the `AssertionError` of `'a | a'`),
    `int()` of a non-decimal digit (`ValueError` of `'²'`), and three assertions (`assertAxisName`, `assertDelimiter`,
    `assertMoveUp`) that the correspondence runs never observed.  The `assert isinstance(expression, Op)` after the
    first `move_up` pass is proved unreachable. -/
theorem parse_total_cases (text : Str) :
    (∃ x, parseOp text = .ok x) ∨ (∃ k pos alts, parseOp text = .error (.syntax k pos alts)) ∨
    (∃ k, parseOp text = .error (.internal k) ∧
      ((∃ op, k = .unhandledOp op ∧ op ∈ naryOps ∧ op ∉ modelHandled) ∨ k = .intLiteral ∨ k = .assertAxisName ∨
        k = .assertDelimiter ∨ k = .assertMoveUp)) := by
  have h := parseOp_int text
  cases hp : parseOp text with
  | ok x => exact Or.inl ⟨x, rfl⟩
  | error err =>
    rw [hp] at h
    rcases err with ⟨k, pos, alts⟩ | ⟨k⟩
    · exact Or.inr (Or.inl ⟨k, pos, alts, rfl⟩)
    · refine Or.inr (Or.inr ⟨k, rfl, ?_⟩)
      rcases h with (h | h | h | h) | h
      · exact Or.inl h
      · exact Or.inr (Or.inl h)
      · exact Or.inr (Or.inr (Or.inl h))
      · exact Or.inr (Or.inr (Or.inr (Or.inl h)))
      · exact Or.inr (Or.inr (Or.inr (Or.inr h)))

/-- The unhandled operator of an internal failure is `|`. -/
theorem unhandled_op_is_bar (text : Str) (op : Str) (h : parseOp text = .error (.internal (.unhandledOp op))) : op = ['|'] := by
  have := parseOp_int text
  rw [h] at this
  rcases this with (⟨op', h1, h2, h3⟩ | h1 | h1 | h1) | h1
  · cases h1; exact unhandled_ops_only_bar op h2 h3
  all_goals cases h1

/-! ## (b) Caret positions -/

/-- `parse_err_pos_in_range`: every caret position of every `SyntaxError` that `parse_op` can raise (including the
    alternatives that depend on set iteration order) lies inside the caller's string — the `assert` in
    `einx.errors.SyntaxError.__init__` and in `ExpressionIndicator.get_pos_for_literal` cannot fire. -/
theorem parse_err_pos_in_range (text : Str) (k : SynKind) (pos : List Int) (alts : List (List Int))
    (h : parseOp text = .error (.syntax k pos alts)) :
    (∀ p ∈ pos, 0 ≤ p ∧ p < text.length) ∧ ∀ a ∈ alts, ∀ p ∈ a, 0 ≤ p ∧ p < text.length := by
  have := parseOp_ok text
  rw [h] at this
  exact this

theorem parse_args_err_pos_in_range (text : Str) (k : SynKind) (pos : List Int) (alts : List (List Int))
    (h : parseArgs text = .error (.syntax k pos alts)) :
    (∀ p ∈ pos, 0 ≤ p ∧ p < text.length) ∧ ∀ a ∈ alts, ∀ p ∈ a, 0 ≤ p ∧ p < text.length := by
  have := parseArgs_ok text
  rw [h] at this
  exact this

theorem parse_arg_err_pos_in_range (text : Str) (k : SynKind) (pos : List Int) (alts : List (List Int))
    (h : parseArg text = .error (.syntax k pos alts)) :
    (∀ p ∈ pos, 0 ≤ p ∧ p < text.length) ∧ ∀ a ∈ alts, ∀ p ∈ a, 0 ≤ p ∧ p < text.length := by
  have := parseArg_ok text
  rw [h] at this
  exact this

/-- Positions on the returned tree: every node's `range(begin_pos, end_pos)` is empty or inside the string, and both
    carets of every `Brackets` node are inside it — so the `assert`s of `get_pos_for_exprs`/`get_pos_for_brackets`, which
    later stages evaluate on these nodes, hold for parser output. -/
theorem parse_tree_positions_in_range (text : Str) (x : Expr) (h : parseOp text = .ok x) : ExprOK text.length x := by
  have := parseOp_ok text
  rw [h] at this
  exact this

/-! ## (c) Redundant spaces — token level

Reading (DESIGN.md, C12): a space is redundant if it is adjacent to another space, at the beginning or end of the string,
directly after an opening / before a closing delimiter, or adjacent to `->`, `,`, `+`.  Proved here: a space is always a
token of its own; the duplicate-space pass makes the token sequence independent of the number of adjacent spaces; leading
and trailing space tokens are invisible to `parse`.  The lift to `parseOp` for ALL redundant-space slots is section (c') below
(`space_invariance`); the metamorphic search (oracle O3) checks the same statement on the real parser. -/

/-- A space is lexed as a one-character token whatever follows, and lexing restarts after it. -/
theorem segment_space (cs : Str) (pos : Nat) :
    segment literals (' ' :: cs) pos pos [] = ⟨[' '], pos, pos + 1⟩ :: segment literals cs (pos + 1) (pos + 1) [] := by
  have h : matchLit literals (' ' :: cs) = some [' '] := by
    simp [matchLit, literals, Einx.Extracted.literals, List.isPrefixOf]
  rw [segment]
  split
  · rename_i l hl
    rw [h] at hl
    cases hl
    simp [flush]
  · rename_i hl
    rw [h] at hl
    cases hl

/-- Duplicate-space removal: a space token directly after a space token is dropped, wherever it stands. -/
theorem dedup_adjacent_space (xs ys : List Token) (s s' : Token) (hs : s.isSpace = true) (hs' : s'.isSpace = true) (f : Bool) :
    dedupSpaces (xs ++ s :: s' :: ys) f = dedupSpaces (xs ++ s :: ys) f := by
  induction xs generalizing f with
  | nil => cases f <;> simp [dedupSpaces, hs, hs']
  | cons x xs ih =>
    simp only [List.cons_append, dedupSpaces]
    split
    · split
      · exact ih true
      · rw [ih true]
    · rw [ih false]

/-- Duplicate-space removal is idempotent. -/
theorem dedup_idempotent (ts : List Token) (f : Bool) : dedupSpaces (dedupSpaces ts f) f = dedupSpaces ts f := by
  induction ts generalizing f with
  | nil => simp [dedupSpaces]
  | cons t ts ih =>
    simp only [dedupSpaces]
    by_cases ht : t.isSpace = true
    · simp only [ht, if_true]
      cases f
      · simp only [Bool.false_eq_true, if_false, dedupSpaces, ht, if_true]
        rw [ih true]
      · simp only [if_true]; exact ih true
    · simp only [ht, Bool.false_eq_true, if_false, dedupSpaces]
      rw [ih false]

/-- Leading space tokens are invisible to `parse` (lines 143–144). -/
theorem strip_leading_space (t : Tok) (ts : List Tok) (h : t.isSpace = true) : strip (t :: ts) = strip ts := by
  simp [strip, List.dropWhile, h]

/-- The normalised token texts of a string do not depend on how many spaces it starts with. -/
theorem leading_spaces_tokens (cs : Str) :
    (dedupSpaces (segment literals (' ' :: ' ' :: cs) 0 0 []) false).map (·.text) =
      (dedupSpaces (segment literals (' ' :: cs) 0 0 []) false).map (·.text) := by
  rw [segment_space, segment_space, segment_space]
  have hsp : ∀ (b e : Nat), (Token.mk [' '] b e).isSpace = true := by intro b e; simp [Token.isSpace, spaceLit]
  simp only [dedupSpaces, hsp, if_true, Bool.false_eq_true, if_false, List.map_cons]
  congr 1
  -- the remaining tokens differ only in their positions
  have shift : ∀ (cs : Str) (p q s s' : Nat) (cur : Str),
      (segment literals cs p s cur).map (·.text) = (segment literals cs q s' cur).map (·.text) := by
    intro cs p q s s' cur
    fun_induction segment literals cs p s cur generalizing q s' with
    | case1 p s cur => rw [segment]; simp only [flush]; split <;> simp
    | case2 p s cur c rest l hl ih =>
      rw [segment]
      split
      · rename_i l' hl'
        rw [hl] at hl'; cases hl'
        simp only [List.map_append, List.map_cons]
        rw [ih (q + l.length) (q + l.length)]
        congr 1
        simp only [flush]; split <;> simp
      · rename_i hl'; rw [hl] at hl'; cases hl'
    | case3 p s cur c rest hl ih =>
      rw [segment]
      split
      · rename_i l' hl'; rw [hl] at hl'; cases hl'
      · exact ih (q + 1) s'
  have dd : ∀ (us vs : List Token) (f : Bool), us.map (·.text) = vs.map (·.text) →
      (dedupSpaces us f).map (·.text) = (dedupSpaces vs f).map (·.text) := by
    intro us
    induction us with
    | nil => intro vs f h; cases vs <;> simp_all [dedupSpaces]
    | cons u us ih =>
      intro vs f h
      cases vs with
      | nil => simp at h
      | cons v vs =>
        simp only [List.map_cons, List.cons.injEq] at h
        have huv : u.isSpace = v.isSpace := by simp [Token.isSpace, h.1]
        simp only [dedupSpaces, huv]
        split
        · split
          · exact ih vs true h.2
          · simp only [List.map_cons, h.1, ih vs true h.2]
        · simp only [List.map_cons, h.1, ih vs false h.2]
  exact dd _ _ true (shift cs _ _ _ _ [])


/-! ## (c') Redundant spaces — lifted to `parseOp`

`RedundantAt xs ys` (Proofs/NotationSim.lean) is the decidable predicate "a space between `xs` and `ys` is redundant":
`xs` is empty, `ys` is empty, `xs` ends with one of the literals ` ` `(` `[` `,` `+` `->`, or `ys` starts with one of
` ` `)` `]` `,` `+` `->`.  These are exactly the slot classes of DESIGN.md (adjacent to a space, begin/end of the string,
directly after an opening / before a closing delimiter, adjacent to `->`, `,`, `+`); a space before `...`, before an
opening or after a closing delimiter is NOT redundant (witnesses below).

Equality "up to positions and fresh ids" is `RSim φ` (Proofs/NotationSim.lean): both results are trees related by
`ESim φ` — same constructors, same named axes, same values; positions arbitrary; every fresh name `unnamed.p` renamed to
`unnamed.(φ p)` and every ellipsis id `d` replaced by `φ d` (the model derives both from token positions, the real code
draws `uuid4()`) — or both are errors raised at the same site (`ErrSim`: same `SynKind`/`IntKind`, carets may differ).
With `φ` injective this is a renumbering of the fresh ids.  Inserting and deleting are the same statement read in the two
directions.

Proof layers (each in its own file under Proofs/): `segment_insert` (lexer: the longer text has exactly one more token,
a space, the later tokens are shifted by one), `tree_insert` (duplicate-space pass and delimiter stack: the additional
space is dropped as a duplicate, or is one additional atom at the edge of a group / of the root or next to an operator
atom), `parse_rel` (`parse` strips it or it ends up at the edge of an operand of the lowest-precedence operator of its
level), `finish_sim` (the `move_up` passes, the bracket pass and the post-checks only compare names for equality). -/

/-- `space_invariance`: inserting (or, read from right to left, deleting) one redundant space does not change the result
    of `parse_op` up to positions and an injective renumbering `φ` of the fresh ids; errors stay errors of the same kind. -/
theorem space_invariance (xs ys : Str) (h : RedundantAt xs ys = true) :
    ∃ φ : Nat → Nat, Function.Injective φ ∧ RSim φ (parseOp (xs ++ ys)) (parseOp (xs ++ ' ' :: ys)) := by
  obtain ⟨k, hk⟩ := parseOp_insert xs ys h
  exact ⟨shiftAt k, shiftAt_injective k, hk⟩

/-- `text[:k] + " " + text[k:]` -/
def insertSpace (s : Str) (k : Nat) : Str := s.take k ++ ' ' :: s.drop k

/-- Position `k` of `s` is a redundant-space slot. -/
def redundantSlot (s : Str) (k : Nat) : Bool := RedundantAt (s.take k) (s.drop k)

/-- The same statement by position. -/
theorem space_invariance_at (s : Str) (k : Nat) (h : redundantSlot s k = true) :
    ∃ φ : Nat → Nat, Function.Injective φ ∧ RSim φ (parseOp s) (parseOp (insertSpace s k)) := by
  have := space_invariance (s.take k) (s.drop k) h
  rwa [List.take_append_drop] at this

/-- Trees: the structure (`shape`: positions, fresh names and ellipsis ids erased) is the same, in both directions. -/
theorem space_invariance_tree (xs ys : Str) (h : RedundantAt xs ys = true) :
    (∀ x, parseOp (xs ++ ys) = .ok x → ∃ y, parseOp (xs ++ ' ' :: ys) = .ok y ∧ x.shape = y.shape) ∧
    (∀ y, parseOp (xs ++ ' ' :: ys) = .ok y → ∃ x, parseOp (xs ++ ys) = .ok x ∧ x.shape = y.shape) := by
  obtain ⟨φ, _, hr⟩ := space_invariance xs ys h
  constructor
  · intro x hx
    rw [hx] at hr
    obtain ⟨y, hy, hxy⟩ := hr.ok_left
    exact ⟨y, hy, ESim.shape_eq _ _ hxy⟩
  · intro y hy
    rw [hy] at hr
    cases hx : parseOp (xs ++ ys) with
    | error e => rw [hx] at hr; exact hr.elim
    | ok x => rw [hx] at hr; exact ⟨x, rfl, ESim.shape_eq _ _ hr⟩

/-- Errors: an error stays an error raised at the same site (same kind), in both directions. -/
theorem space_invariance_error (xs ys : Str) (h : RedundantAt xs ys = true) :
    (∀ e, parseOp (xs ++ ys) = .error e → ∃ e', parseOp (xs ++ ' ' :: ys) = .error e' ∧ ErrSim e e') ∧
    (∀ e', parseOp (xs ++ ' ' :: ys) = .error e' → ∃ e, parseOp (xs ++ ys) = .error e ∧ ErrSim e e') := by
  obtain ⟨φ, _, hr⟩ := space_invariance xs ys h
  constructor
  · intro e he
    rw [he] at hr
    exact hr.error_left
  · intro e' he'
    rw [he'] at hr
    cases hx : parseOp (xs ++ ys) with
    | error e => rw [hx] at hr; exact ⟨e, rfl, hr⟩
    | ok x => rw [hx] at hr; exact hr.elim

/-- Same outcome class and same structure (Boolean, for the witnesses below). -/
def sameOutcome (r r' : Res Expr) : Bool :=
  match r, r' with
  | .ok x, .ok y => x.shape.beq y.shape
  | .error _, .error _ => true
  | _, _ => false

/-- The slot classes that DESIGN.md excludes are really not redundant: a space between a name and `...`, before an opening
    delimiter and after a closing delimiter changes the result (tree vs. error, or a different tree); and the position
    inside the literal `->` is not a slot. -/
theorem non_redundant_slots_change_result :
    (RedundantAt "a".toList "...".toList = false ∧ sameOutcome (parseOp "a...".toList) (parseOp "a ...".toList) = false) ∧
    (RedundantAt "a".toList "(b)".toList = false ∧ sameOutcome (parseOp "a(b)".toList) (parseOp "a (b)".toList) = false) ∧
    (RedundantAt "(a)".toList "b".toList = false ∧ sameOutcome (parseOp "(a)b".toList) (parseOp "(a) b".toList) = false) ∧
    (RedundantAt "a-".toList ">b".toList = false ∧ sameOutcome (parseOp "a->b".toList) (parseOp "a- >b".toList) = false) := by
  decide +kernel

/-! ## (d) Re-printing -/

/-- The result is a tree. -/
def isOkRes (r : Res Expr) : Bool := match r with | .ok _ => true | .error _ => false

/-- Parse `s`, print the tree, parse the printed text: does the structure (positions, fresh names, ellipsis ids erased) survive? -/
def roundTrips (s : String) : Bool :=
  match parseOp s.toList with
  | .ok x =>
    (match parseOp x.print with
     | .ok y => x.shape.beq y.shape
     | .error _ => false)
  | .error _ => false

/-- `print_parse` is FALSE on the pinned tree (D11): `parse_op("[[a b]...]")` succeeds, the inner brackets are dropped as
    redundant, and the resulting `Ellipsis` over a two-element `List` prints with the braces of `Ellipsis.__str__`,
    which the parser rejects.  Stated relative to the extracted brace constants so that it stays true (vacuously) once
    `Ellipsis.__str__` no longer prints braces. -/
theorem print_parse_refuted_braces :
    Einx.Extracted.ellipsisOpen = "{" → roundTrips "[[a b]...]" = false := by decide +kernel

/-- Second counterexample, independent of the braces: an ellipsis directly over an ellipsis over the anonymous ellipsis
    prints as `.........`, which is three `...` tokens in a row. -/
theorem print_parse_refuted_nested_ellipsis : roundTrips "[[......]...]" = false := by decide +kernel

/-- Third counterexample (found while proving `print_parse_partial`): the first `move_up` pass wraps each alternative of
    `((a + b) -> c)` in a `FlattenedAxis`, so the tree contains a `FlattenedAxis` directly over a `ConcatenatedAxis`; it
    prints as `((a + b))`, and the parser collapses the doubled parentheses to the bare `ConcatenatedAxis`. -/
theorem print_parse_refuted_flat_concat : roundTrips "((a + b) -> c)" = false := by decide +kernel

/-- The printed forms of the two counterexamples. -/
theorem print_parse_witness_texts :
    (Einx.Extracted.ellipsisOpen = "{" ∧ Einx.Extracted.ellipsisClose = "}" →
      (parseOp "[[a b]...]".toList).toOption.map (fun x => String.ofList x.print) = some "[{a b}...]") ∧
    (parseOp "[[......]...]".toList).toOption.map (fun x => String.ofList x.print) = some "[.........]" := by decide +kernel

/-! ### `print_parse_partial`

Full statement (FALSE, three refutations above): for every `t` with `parseOp s = .ok t`, `parseOp t.print = .ok y` with
`y.shape = t.shape`.

Proved: the statement for every tree that satisfies the decidable predicate `Printable` (Proofs/NotationPrintDefs.lean):
* `PRoot t` — the normal form of `parse_op`'s results, WITHOUT the three patterns whose printed form is not (or not
  faithfully) in the notation: an `Ellipsis` over a `List` (printed with braces) or over an `Ellipsis` (printed `......`),
  and a `FlattenedAxis` directly over a `ConcatenatedAxis` (printed `((a + b))`, re-parsed without the outer parentheses);
  i.e. `Op` of one or two `Args`; below them named axes with a valid name, numeric axes, `FlattenedAxis` (not over a
  `FlattenedAxis`/`ConcatenatedAxis`), `Brackets` (not nested, not empty), `Ellipsis` over the anonymous axis or over one
  axis / flattened axis / brackets / concatenation / `...`, `ConcatenatedAxis` of ≥ 2 axes or flattened axes, `List`s of 0 or ≥ 2
  non-list children; concatenations and ellipses ARE covered;
* `t` itself passes the inconsistent-brackets check.
There are no further restrictions.  Two restrictions of an earlier version of the proof are lifted: numeric axes may stand inside
brackets (the fresh names `unnamed.<token position>` of the re-parsed tree are pairwise distinct — `Fresh.parse_fresh_nodup`:
lexer positions strictly increase, the duplicate-space pass and the delimiter stack keep the order, `parse` uses every token at
most once — so the inconsistent-brackets check cannot fire on them, `Fresh.fresh_unique`), and the printed text may contain two
adjacent spaces (it does exactly when the left side of `->` ends with an empty argument, `"a,  -> b"`, `Adj.root_adj`; the
duplicate-space pass drops one of them, `Adj.dedup_one`, and `parse` strips the other, `parse_printed_adj`).
That every result of `parseOp` without the three patterns satisfies `Printable` is `parse_printable` below.

Layers (Proofs/): `textsOK_PRoot` (the printed text is the concatenation of well separated token texts),
`segment_pieces`/`lex_pieces` (lexer), `dedup_no_adj`/`Adj.dedup_one` (duplicate-space pass), `buildTree_texts` (delimiter stack), `parse_printed` (`parse`
inverts every printing rule: axis, number, parentheses, brackets, `...`, ` + `, ` `, `, `, ` -> `), `finish_nf` (the passes
after `parse` only add the `Op`/`Args` wrappers on a normal form), `conflict_free_of_shape` (the bracket check). -/

/-- `print_parse_partial`: for every printable tree — in particular for every printable result of `parse_op` — the printed
    text is accepted by `parse_op` and yields the same tree up to positions, fresh names and ellipsis ids. -/
theorem print_parse_partial (t : Expr) (h : Printable t = true) :
    ∃ y, parseOp t.print = .ok y ∧ y.shape = t.shape := parseOp_print h

/-- The same, stated for the image of `parse_op`. -/
theorem print_parse_image_partial (s : Str) (t : Expr) (_ : parseOp s = .ok t) (h : Printable t = true) :
    ∃ y, parseOp t.print = .ok y ∧ y.shape = t.shape := parseOp_print h

/-- `Printable` of the tree of a text (false for texts that do not parse). -/
def printableOf (s : String) : Bool :=
  match parseOp s.toList with
  | .ok t => Printable t
  | .error _ => false

/-- Non-vacuity: results of `parse_op` covering every node kind, both `move_up` passes and the bracket pass are printable. -/
theorem printable_image_samples :
    (["a b c", "a (b c) -> (a b) c", "a [b c] 1, d -> a d", "(a + b) c", "(a -> b) c, d", "(a , b) (c -> d)", "[[a] b] c",
      "a ->", ", a", "", "a... b", "[a...]", "(a b)...", "... a", "(a + 1)... [b]... 2", "a (b (c d)) -> , ()"].all printableOf) = true := by
  decide +kernel

/-- The three refuted patterns are not `Printable`; the two former restrictions of the proof are lifted: a numeric axis inside
    brackets, adjacent spaces in the printed text and `......` are `Printable` (and do round-trip). -/
theorem printable_restrictions :
    (printableOf "[[a b]...]" = false ∧ printableOf "[[......]...]" = false ∧ printableOf "((a + b) -> c)" = false) ∧
    (printableOf "a [1]" = true ∧ roundTrips "a [1]" = true) ∧
    (printableOf "a, -> b" = true ∧ roundTrips "a, -> b" = true) ∧
    (printableOf "b ......" = true ∧ roundTrips "b ......" = true) := by decide +kernel

/-- Round trip *tested* (a `decide` on samples is a test, not a theorem) on descriptions covering every node kind, both
    `move_up` passes and the redundant-bracket pass; the general statement is false (above) and its true part is checked
    by the search oracle O4 on the real code. -/
theorem print_parse_samples :
    (["a b c", "a (b c) -> (a b) c", "a [b c] 1, d -> a d", "(a + b) c", "(a -> b) c, d", "(a , b) (c -> d)", "[[a] b] c",
      "a ->", ", a", "", "a... b", "[a...]", "(a b)...", "... a", "b ......"].all roundTrips) = true := by decide +kernel

/-! ### `parse_print_parse`: the normal form of `parse_op`'s output, and the round trip for ALL strings

`print_parse_partial` is about trees; the statements below are about every string `s`.

**Normal form** (`parse_normal_form`).  Every tree that `parseOp` returns satisfies the decidable predicate `NRoot`
(Proofs/NotationNFDefs.lean): `Op` of one or two non-empty `Args`; below them (grammar `N inBr al`) named axes with a valid
axis name, numeric axes named `unnamed.<begin_pos>`, `FlattenedAxis` never directly over a `FlattenedAxis`, `Brackets` never
inside `Brackets`, never directly over `Brackets`, never empty (`ndim ≠ 0`), `Ellipsis` over the anonymous axis or over a tree with
`ndim ≠ 0`, `ConcatenatedAxis` of at least two axes / flattened axes, `List`s of 0 or ≥ 2 children none of which is a `List`, no
`Op`/`Args` below the two top levels; and no axis name occurs both inside and outside brackets.  Proved layer by layer:
`normal_form_parse` (the result of `parse`, with `Op`/`Args` nodes wherever a `List` may stand), `normal_form_move_up` (each of
the two `move_up` passes returns at least one alternative, every alternative is in the grammar without the lifted node kind),
`normal_form_brackets` (the redundant-bracket pass removes nested brackets and keeps `ndim`).

**Excluded** (`Excluded t`, decidable).  The normal form contains exactly three kinds of node whose printed form is not
(faithfully) in the notation — they are created by the passes AFTER `parse`, which is why the parser accepts the source text
but not the printed text: `Ellipsis` over a `List` (bracket pass: `[[a b]...]`, printed with braces), `Ellipsis` over an
`Ellipsis` over anything but the anonymous axis (bracket pass: `[[a...]...]`, printed `a......`; `......` itself, an ellipsis over
`...`, is NOT excluded: it re-parses to the same tree), `FlattenedAxis` over a `ConcatenatedAxis` (first `move_up` pass:
`((a + b) -> c)`; bracket pass: `[([(a + b)])]`; printed `((a + b))`).  Each comes with a `decide`d witness that it is necessary
(`excluded_ell_list_necessary`, `excluded_ell_ell_necessary`, `excluded_flat_concat_necessary`).  `Excluded` contains nothing else:
the former restrictions of `print_parse_partial` (numeric axis inside brackets, adjacent spaces in the printed text, `......`) are
removed by proof (`former_restrictions_lifted`).

**Round trip** (`parse_print_parse`).  For every string `s`: if `parseOp s = .ok t` and `Excluded t = false`, then `parseOp t.print`
succeeds with a tree of the same `shape`. -/

/-- Layer 0 of the normal form: every tree returned by `parse` (for any token tree, any positions, either value of
    `is_parent_composition`) is in the grammar `G true true true`. -/
theorem normal_form_parse (ts : List Tok) (b e : Nat) (ipc : Bool) (x : Expr) (h : parse ts b e ipc = .ok x) :
    G true true true x = true :=
  ((NF.parse_G ts b e ipc).of_eq h).1

/-- Layers 1 and 2: a successful `move_up` pass (`k = .op`: first pass, `k = .args`: second pass) on a tree of the grammar
    `G ao aa` returns `Op(alts)` / `Args(alts)` with at least one alternative, every alternative in the grammar without the
    lifted node kind. -/
theorem normal_form_move_up (k : Lift) (arrows : List Int) (ao aa : Bool) (x y : Expr) (h : G ao aa true x = true)
    (hm : moveUp k arrows x = .ok y) :
    ∃ alts b e, y = k.wrap alts b e ∧ alts ≠ [] ∧ ∀ a ∈ alts, G (NF.Lift.ao k ao) (NF.Lift.aa k aa) true a = true := by
  obtain ⟨alts, b, e, rfl, hne, ha⟩ := (NF.moveUp_G k arrows ao aa x h).of_eq hm
  exact ⟨alts, b, e, rfl, hne, fun a haa => (ha a haa).1⟩

/-- Layer 3: the redundant-bracket pass maps a tree without `Op`/`Args` nodes into the grammar `N inBr` (no brackets inside
    brackets) and keeps `ndim`. -/
theorem normal_form_brackets (x : Expr) (inBr : Bool) (h : G false false true x = true) :
    N inBr true (traverse inBr x) = true ∧ (traverse inBr x).ndim = x.ndim :=
  ⟨(NF.traverse_N x inBr h).1, (NF.traverse_N x inBr h).2.1⟩

/-- `parse_normal_form`: **the normal form of `parse_op`'s output**, for every string. -/
theorem parse_normal_form (s : Str) (t : Expr) (h : parseOp s = .ok t) :
    NRoot t = true ∧ (conflictNames (occs [] false t)).isEmpty = true := by
  obtain ⟨h1, h2⟩ := NF.parseOp_NRoot s t h
  exact ⟨h1, by rw [h2]; rfl⟩

/-- Every result of `parse_op` that is not `Excluded` is `Printable`. -/
theorem parse_printable (s : Str) (t : Expr) (h : parseOp s = .ok t) (hx : Excluded t = false) : Printable t = true :=
  printable_of_parseOp s t h hx

/-- On the results of `parse_op`, `Printable` is exactly the complement of `Excluded`: `Excluded` names precisely the trees that
    `print_parse_partial` does not cover. -/
theorem parse_printable_iff (s : Str) (t : Expr) (h : parseOp s = .ok t) : Printable t = !Excluded t :=
  printable_iff_not_excluded s t h

/-- `parse_print_parse`: for EVERY string `s` that `parse_op` accepts with a tree `t` that is not `Excluded`, the printed text
    `str(t)` is accepted by `parse_op` and yields the same tree up to positions, fresh names and ellipsis ids. -/
theorem parse_print_parse (s : Str) (t : Expr) (h : parseOp s = .ok t) (hx : Excluded t = false) :
    ∃ y, parseOp t.print = .ok y ∧ y.shape = t.shape :=
  print_parse_partial t (parse_printable s t h hx)

/-- The same with the Boolean `roundTrips` of section (d). -/
theorem parse_print_parse_roundTrips (s : String) (t : Expr) (h : parseOp s.toList = .ok t) (hx : Excluded t = false) :
    roundTrips s = true := by
  obtain ⟨y, hy, hs⟩ := parse_print_parse s.toList t h hx
  simp only [roundTrips, h, hy]
  rw [← hs]
  exact Expr.beq_refl _

/-- `Excluded` of the tree of a text (`true` for texts that do not parse). -/
def excludedOf (s : String) : Bool :=
  match parseOp s.toList with
  | .ok t => Excluded t
  | .error _ => true

/-- Which of the components of `Excluded` hold for the tree of a text:
    (ellipsis over list, ellipsis over non-anonymous ellipsis, flattened axis over concatenation). -/
def excludedWhy (s : String) : Option (Bool × Bool × Bool) :=
  match parseOp s.toList with
  | .ok t => some (anyNode patEllList t, anyNode patEllEll t, anyNode patFlatConcat t)
  | .error _ => none

/-- Each of the three excluded patterns is necessary: a text whose tree is excluded by that pattern ALONE and whose printed
    form does not parse back to the same tree.  (The first is relative to the extracted brace constant.) -/
theorem excluded_ell_list_necessary :
    excludedWhy "[[a b]...]" = some (true, false, false) ∧
      (Einx.Extracted.ellipsisOpen = "{" → roundTrips "[[a b]...]" = false) := by
  decide +kernel

theorem excluded_ell_ell_necessary :
    excludedWhy "[[a...]...]" = some (false, true, false) ∧ roundTrips "[[a...]...]" = false := by
  decide +kernel

/-- `FlattenedAxis` over `ConcatenatedAxis` arises in the first `move_up` pass and in the bracket pass. -/
theorem excluded_flat_concat_necessary :
    (excludedWhy "((a + b) -> c)" = some (false, false, true) ∧ roundTrips "((a + b) -> c)" = false) ∧
    (excludedWhy "[([(a + b)])]" = some (false, false, true) ∧ roundTrips "[([(a + b)])]" = false) := by
  decide +kernel

/-- The former restrictions of `print_parse_partial` are no longer part of `Excluded`: a numeric axis inside brackets, adjacent
    spaces in the printed text (`"a,  -> b"`), an ellipsis over `...`. -/
theorem former_restrictions_lifted :
    excludedOf "a [1]" = false ∧ excludedOf "[[1] 2] (3 -> [4])" = false ∧ excludedOf "a, -> b" = false ∧
      excludedOf "(a, -> b) [c]" = false ∧ excludedOf "b ......" = false := by
  decide +kernel

/-- Non-vacuity of `parse_print_parse`: texts covering every node kind, both `move_up` passes and the bracket pass are not
    excluded. -/
theorem not_excluded_samples :
    (["a b c", "a (b c) -> (a b) c", "a [b c] 1, d -> a d", "(a + b) c", "(a -> b) c, d", "(a , b) (c -> d)", "[[a] b] c",
      "a ->", ", a", "", "a... b", "[a...]", "(a b)...", "... a", "(a + 1)... [b]... 2", "a (b (c d)) -> , ()",
      "[a [b]] c", "([a]) [[b]...]", "b ......", "[[...]...]"].all (fun s => !excludedOf s)) = true := by
  decide +kernel

/-- Non-vacuity of `parse_normal_form` and of the layer theorems: a text that exercises both `move_up` passes with a real
    distribution (two alternatives), the bracket pass and a numeric axis inside brackets parses, its tree is `NRoot` and not
    `Excluded`. -/
example : (match parseOp "(a -> [b [1]]) [c], (d , e)...".toList with
    | .ok t => NRoot t && !Excluded t && Printable t
    | .error _ => false) = true := by decide +kernel

example : ∃ y, parseOp "a [b c]... (d + 1) -> a, (d e)".toList = .ok y ∧
    ∃ z, parseOp y.print = .ok z ∧ z.shape = y.shape :=
  match h : parseOp "a [b c]... (d + 1) -> a, (d e)".toList with
  | .ok y => ⟨y, rfl, parse_print_parse _ y h (by
      have : excludedOf "a [b c]... (d + 1) -> a, (d e)" = false := by decide +kernel
      simpa only [excludedOf, h] using this)⟩
  | .error _ => by
    exfalso
    have : isOkRes (parseOp "a [b c]... (d + 1) -> a, (d e)".toList) = true := by decide +kernel
    rw [h] at this
    cases this

/-! ## Non-vacuity -/

/-- The error of a result (`Res Expr` has no decidable equality: `Expr` is a nested inductive). -/
def errOf : Res Expr → Option Err
  | .ok _ => none
  | .error err => some err

/-- The position theorem is about real errors: an unclosed parenthesis is reported at position 2 of `"a (b"`. -/
example : errOf (parseOp "a (b".toList) = some (.syntax .openingNotClosed [2] []) := by decide +kernel

/-- …and the alternatives exist: in `"[a] a [b] b"` two axis names have inconsistent brackets. -/
example : errOf (parseOp "[a] a [b] b".toList) = some (.syntax .inconsistentBrackets [1, 0, 2, 4] [[7, 6, 8, 10]]) := by decide +kernel

/-- The internal outcomes are inhabited on the pinned tree: `a | a` (D5) and a non-decimal digit (`²`, D15).  Stated
    relative to the extracted constants, so that the examples stay true once `|` leaves `_nary_ops` / digits are ASCII only. -/
example : "|" ∈ Einx.Extracted.naryOps → errOf (parseOp "a | a".toList) = some (.internal (.unhandledOp ['|'])) := by
  decide +kernel

example : isDigitChar '²' = true → errOf (parseOp "²".toList) = some (.internal .intLiteral) := by
  decide +kernel

/-- Without those two causes the same inputs are ordinary syntax errors (what the proposed fixes produce). -/
example : "|" ∉ Einx.Extracted.naryOps → errOf (parseOp "a | a".toList) = some (.syntax .invalidToken [2] []) := by
  decide +kernel

def isOk (r : Res Expr) : Bool := match r with | .ok _ => true | .error _ => false

/-- `space_invariance` instantiated on a concrete text whose result is a tree (next example)… -/
example : ∃ φ : Nat → Nat, Function.Injective φ ∧ RSim φ (parseOp "a [b c]... (d+1) -> a,d".toList) (parseOp "a [b c]... (d+1) ->  a,d".toList) :=
  space_invariance "a [b c]... (d+1) -> ".toList "a,d".toList (by decide)

example : isOk (parseOp "a [b c]... (d+1) -> a,d".toList) = true := by decide +kernel

/-- …and one redundant slot of every class, both sides being trees. -/
example :
    [("", "a b"), ("a b", ""), ("a (", "b c) 2"), ("a (b c", ") 2"), ("a [", "b]"), ("a [b", "]"), ("a,", "b"), ("a", ",b"),
      ("(a+", "b)"), ("(a", "+b)"), ("a->", "b"), ("a", "->b"), ("a ", "b"), ("a", " b")].all
        (fun p => RedundantAt p.1.toList p.2.toList && isOk (parseOp (p.1 ++ p.2).toList) && isOk (parseOp (p.1 ++ " " ++ p.2).toList)) = true := by
  decide +kernel

/-- …and on an erroneous text: both sides report the unclosed parenthesis (at different positions). -/
example : errOf (parseOp "a, (b".toList) = some (.syntax .openingNotClosed [3] []) ∧
    errOf (parseOp "a , (b".toList) = some (.syntax .openingNotClosed [4] []) ∧ RedundantAt "a".toList ", (b".toList = true := by
  decide +kernel

/-- The fresh ids really are renumbered: the numeric axis after the slot gets a different name. -/
example : (parseOp "a,2".toList).toOption.map (fun x => String.ofList x.print) = some "a, 2" ∧
    sameOutcome (parseOp "a,2".toList) (parseOp "a, 2".toList) = true := by decide +kernel

/-- `print_parse_partial` on a hand-written tree (not a parser result: arbitrary positions and ids) with brackets under an
    ellipsis, a concatenation with a numeric axis, and two sides. -/
def sampleTree : Expr :=
  .op [.args [.list [.axis "a".toList none 3 4,
                     .ellipsis (.brackets (.list [.axis "b".toList none 0 0, .axis "c".toList none 0 0] 0 0) 0 0) 7 0 0,
                     .concat [.axis "d".toList none 0 0, .axis "x".toList (some 2) 0 0] 0 0] 0 0] 0 0,
       .args [.list [] 0 0, .flat (.axis "a".toList none 0 0) 0 0] 0 0] 0 0

example : Printable sampleTree = true ∧ String.ofList sampleTree.print = "a [b c]... (d + 2) -> , (a)" := by decide +kernel

example : Printable sampleTree = true → ∃ y, parseOp sampleTree.print = .ok y ∧ y.shape = sampleTree.shape :=
  print_parse_partial sampleTree

/-- `parse_tree_positions_in_range` on a non-trivial tree. -/
example : ∃ x, parseOp "a [b c]... (d + 1) -> a".toList = .ok x ∧ ExprOK 23 x :=
  match h : parseOp "a [b c]... (d + 1) -> a".toList with
  | .ok x => ⟨x, rfl, by have := parse_tree_positions_in_range _ x h; simpa using this⟩
  | .error _ => by
    exfalso
    have : (match parseOp "a [b c]... (d + 1) -> a".toList with | .ok _ => true | .error _ => false) = true := by decide +kernel
    rw [h] at this
    cases this

end Einx.Props.C12
