import EinxModel.Elab.ParseOp
/-!
# M2a Elaboration — outcome classes and rule predicates used by the rejection theorems (Props/C03Elab.lean)

`PErr.isSemantic`: the raise sites of `_parse_op` that construct `einx.errors.SemanticError`.  `flagsSafe`: the flag sets for
which `elab_total` holds.  `defects`: for every rule theorem of Props/C03Elab.lean the Boolean form of its hypothesis on the
trees of a call; the driver evaluates it on every case of stream R of `tools/props/c03.py` (request kind `elab_rules`), and
`defects_rejected` (Props/C03Elab.lean) proves that a non-empty list means `SemanticError`.
-/
namespace Einx.Elab
open Einx.Notation

/-- The outcomes of the model that stand for `raise SemanticError(...)` in `_parse_op` (one constructor per raise site). -/
def PErr.isSemantic : PErr → Bool
  | .concatNotAllowed | .concatBrackets | .noArrow | .inputCount .. | .outputCount .. | .noUniqueParent | .notOneBracket
  | .bracketsNotAllowed .. | .bracketsRequired .. | .markDuplicate _ | .outputDuplicate | .bracketDuplicate => true
  | .syntax _ | .elReparse _ | .internal _ => false

/-- The flag sets under which the tree-mode model has no internal outcome: a valid `implicit_output` (the positional form only
    as `update_at` uses it), and automatic marking only for families whose signature has exactly one output. -/
def flagsSafe (fam : Family) (fl : Flags) : Bool :=
  (match fl.implicit with
   | .none | .bijective => true
   | .index i => i == 0 && fam == .updateAt
   | _ => false) &&
  (!fl.markReduced || fam != .id)

/-- `_to_el_expr(x).ndim != 0`: the expression uses brackets (the code's own notion). -/
def usesBrackets (x : Expr) : Bool := !isScalar (toEl x)

/-- For every rule theorem of Props/C03Elab.lean: its name and the Boolean form of its hypothesis on the call `(ins, outs)` of
    family `fam` with flags `fl`. -/
def defectTable (fam : Family) (fl : Flags) (ins : List Expr) (outs : Option (List Expr)) : List (String × Bool) :=
  let all := ins ++ outs.getD []
  [("concat_not_allowed_rule", !fl.allowConcat && all.any hasConcat),
   ("concat_brackets_rule", all.any (concatTouchesBrackets false)),
   ("missing_output_rule", outs.isNone && fl.implicit == .none),
   ("input_count_rule", (elOpTree fam (ins.map toEl) (outs.map (fun o => o.map toEl))).ins.length != ins.length),
   ("output_count_rule", match outs with
      | some o => fam != .id && o.length != 1
      | none => false),
   ("elementwise_no_bracket_rule", (fam == .elementwise || fam == .id) && ins.any usesBrackets),
   ("scalar_output_no_bracket_rule", match outs with
      | some o => (fam == .elementwise || fam == .reduce || fam == .dot || fam == .getAt || fam == .id) && o.any usesBrackets
      | none => false),
   ("update_output_brackets_rule", match fam, ins, outs with
      | .updateAt, x :: _, some (y :: _) => isScalar (toEl x) != isScalar (toEl y)
      | _, _, _ => false),
   ("auto_mark_duplicate_rule", fl.markReduced && !ins.any hasBrackets && ins.any (fun x => hasDup (axisNames x))),
   ("output_duplicate_rule", match outs with
      | some o => o.any outputHasDup
      | none => false),
   ("dot_bracket_rule", match outs with
      | some o => !fl.allowDupEl && ins.any hasBrackets && (ins ++ o).any (fun x => hasDup (markedNames x))
      | none => false),
   ("implicit_output_unique_rule", match fam, ins, outs with
      | .elementwise, x :: y :: rest, none => fl.implicit == .bijective && (validParents (x :: y :: rest)).length != 1
      | _, _, _ => false),
   ("implicit_output_one_bracket_rule", match fam, ins, outs with
      | .argfind, [x], none => fl.implicit == .bijective && !pyEq (toEl x) freshOutAxis && bracketCount x != 1
      | _, _, _ => false)]

/-- The rules of `_parse_op` that the call breaks (names of the rule theorems whose hypothesis holds). -/
def defects (fam : Family) (fl : Flags) (ins : List Expr) (outs : Option (List Expr)) : List String :=
  ((defectTable fam fl ins outs).filter (·.2)).map (·.1)

end Einx.Elab
