import EinxModel.Notation.Parse
import EinxModel.Extracted.Elab
/-!
# M2a Elaboration — `_to_el_expr` and `_parse_op` (`einx/_src/adapter/einx_from_namedtensor.py`, lines 54–306)

The model works on the stage-1 trees of M1 (`Einx.Notation.Expr`, with positions).  It mirrors the code as it is:

* `toEl` = `_to_el_expr`; `mapExpr` = `stage1.map(..., include_children=False)`; `removeBr`, `keepdimsBr`, `replaceBr`,
  `markAxes` are the four uses of `map` in `_parse_op`; `splitNames` = the axis names of `split_concatenated_axes`.
* The elementary signature (`el_op`) of a family is built in two ways: `elOpString` prints the text exactly as the
  wrapper's `el_op` builder does and parses it again with the M1 parser (what the code does: D11 lives here), `elOpTree`
  builds the two `Args` directly.  `_parse_op` reads only the number of inputs/outputs of `el_op`, `ndim == 0` of each and
  `el_op.children[0] == el_op.children[1]`.  The driver runs both; the theorems of Props/C07 are about the tree mode.
* Per-family flags come from `Einx.Extracted.familyFlags` (regenerated from the source on every run).
* Python's `set` of valid parents (implicit output of scalar operations) is modelled as the list of valid parents without
  duplicates under `Expr.__eq__` (`pyEq`); "exactly one" is the condition of the code.
-/
namespace Einx.Elab
open Einx.Notation

/-! ## Tree utilities -/

mutual
/-- `Expr.__eq__`: positions and ellipsis ids are ignored, axis names and values are compared. -/
def pyEq : Expr → Expr → Bool
  | .axis n v _ _, .axis n' v' _ _ => n == n' && v == v'
  | .flat i _ _, .flat i' _ _ => pyEq i i'
  | .brackets i _ _, .brackets i' _ _ => pyEq i i'
  | .ellipsis i _ _ _, .ellipsis i' _ _ _ => pyEq i i'
  | .concat cs _ _, .concat cs' _ _ => pyEqL cs cs'
  | .list cs _ _, .list cs' _ _ => pyEqL cs cs'
  | .args cs _ _, .args cs' _ _ => pyEqL cs cs'
  | .op cs _ _, .op cs' _ _ => pyEqL cs cs'
  | _, _ => false
def pyEqL : List Expr → List Expr → Bool
  | [], [] => true
  | a :: as, b :: bs => pyEq a b && pyEqL as bs
  | _, _ => false
end

mutual
/-- `any(isinstance(e, ConcatenatedAxis) for e in x.nodes())` -/
def hasConcat : Expr → Bool
  | .axis .. => false
  | .flat i _ _ | .brackets i _ _ | .ellipsis i _ _ _ => hasConcat i
  | .concat .. => true
  | .list cs _ _ | .args cs _ _ | .op cs _ _ => hasConcatL cs
def hasConcatL : List Expr → Bool
  | [] => false
  | c :: cs => hasConcat c || hasConcatL cs
end

mutual
/-- Number of `Brackets` nodes of `x.nodes()`. -/
def bracketCount : Expr → Nat
  | .axis .. => 0
  | .flat i _ _ | .ellipsis i _ _ _ => bracketCount i
  | .brackets i _ _ => 1 + bracketCount i
  | .concat cs _ _ | .list cs _ _ | .args cs _ _ | .op cs _ _ => bracketCountL cs
def bracketCountL : List Expr → Nat
  | [] => 0
  | c :: cs => bracketCount c + bracketCountL cs
end

/-- `any(isinstance(e, Brackets) for e in x.nodes())` -/
def hasBrackets (x : Expr) : Bool := bracketCount x != 0

mutual
/-- The check "Brackets ([]) cannot be used in or around a concatenation (+)" of `_parse_op` (a `SemanticError` since the
    fix of the internal assert in `_to_el_expr`): some `ConcatenatedAxis` node has a node of its subtree in brackets, i.e. a
    bracket above it (`inBr`) or below it. -/
def concatTouchesBrackets (inBr : Bool) : Expr → Bool
  | .axis .. => false
  | .flat i _ _ | .ellipsis i _ _ _ => concatTouchesBrackets inBr i
  | .brackets i _ _ => concatTouchesBrackets true i
  | .concat cs _ _ => inBr || bracketCountL cs != 0
  | .list cs _ _ | .args cs _ _ | .op cs _ _ => concatTouchesBracketsL inBr cs
def concatTouchesBracketsL (inBr : Bool) : List Expr → Bool
  | [] => false
  | c :: cs => concatTouchesBrackets inBr c || concatTouchesBracketsL inBr cs
end

/-- One `Axis` node of `x.nodes()` (pre-order): name, value, and `is_in_brackets`. -/
structure AxisOcc where
  name : Str
  value : Option Nat
  marked : Bool
deriving Repr, DecidableEq

mutual
def axisOccs (inBr : Bool) : Expr → List AxisOcc
  | .axis n v _ _ => [⟨n, v, inBr⟩]
  | .flat i _ _ | .ellipsis i _ _ _ => axisOccs inBr i
  | .brackets i _ _ => axisOccs true i
  | .concat cs _ _ | .list cs _ _ | .args cs _ _ | .op cs _ _ => axisOccsL inBr cs
def axisOccsL (inBr : Bool) : List Expr → List AxisOcc
  | [] => []
  | c :: cs => axisOccs inBr c ++ axisOccsL inBr cs
end

/-- `[a.name for a in x.nodes() if isinstance(a, Axis)]` -/
def axisNames (x : Expr) : List Str := (axisOccs false x).map (·.name)
/-- names of the axes with `is_in_brackets` -/
def markedNames (x : Expr) : List Str := ((axisOccs false x).filter (·.marked)).map (·.name)
/-- `{a.name for a in x.nodes() if isinstance(a, Axis) and a.value != 1}` (as a list) -/
def namesNot1 (x : Expr) : List Str := ((axisOccs false x).filter (fun o => o.value != some 1)).map (·.name)

def hasDup : List Str → Bool
  | [] => false
  | x :: xs => xs.contains x || hasDup xs

/-- `[name for name, count in counts.items() if count > 1]` (dict order = first occurrence) -/
def dups (l : List Str) : List Str := l.eraseDups.filter (fun n => (l.filter (· == n)).length > 1)

def subset (a b : List Str) : Bool := a.all (fun n => b.contains n)

/-! ## `stage1.map` / `stage1.remove` -/

mutual
/-- `stage1.map(expr, f, include_children=False)`: a node for which `f` answers is replaced (and not entered); every
    other node is rebuilt with its smart constructor. -/
def mapExpr (f : Expr → Option Expr) : Expr → Expr
  | .axis n v b e => (f (.axis n v b e)).getD (.axis n v b e)
  | .flat i b e => (f (.flat i b e)).getD (mkFlat (mapExpr f i) b e)
  | .brackets i b e => (f (.brackets i b e)).getD (mkBrackets (mapExpr f i) b e)
  | .ellipsis i id b e => (f (.ellipsis i id b e)).getD (mkEllipsis (mapExpr f i) b e id)
  | .concat cs b e => (f (.concat cs b e)).getD (mkConcat (mapExprL f cs) b e)
  | .list cs b e => (f (.list cs b e)).getD (mkList (mapExprL f cs) b e)
  | .args cs b e => (f (.args cs b e)).getD (.args (mapExprL f cs) b e)
  | .op cs b e => (f (.op cs b e)).getD (.op (mapExprL f cs) b e)
def mapExprL (f : Expr → Option Expr) : List Expr → List Expr
  | [] => []
  | c :: cs => mapExpr f c :: mapExprL f cs
end

/-- `stage1.remove(expr, stage1.Brackets, keep_children=False)`: every bracket becomes `List([])`. -/
def removeBrF : Expr → Option Expr
  | .brackets .. => some emptyList
  | _ => none
def removeBr : Expr → Expr := mapExpr removeBrF

/-- `FlattenedAxis.create(List.create([]))`: the `()` that replaces a bracket under `keepdims=True`. -/
def unitFlat : Expr := .flat emptyList (-1) (-1)

/-- The `keepdims` rewriting (l.143–147, `include_children=True`): a bracket is replaced by `()`; `map` then continues
    *inside the replacement*, where it rebuilds `FlattenedAxis.create(List.create([], -1, -1), -1, -1)` -- the same tree. -/
def keepdimsBrF : Expr → Option Expr
  | .brackets .. => some unitFlat
  | _ => none
def keepdimsBr : Expr → Expr := mapExpr keepdimsBrF

def outputAxisName : Str := Einx.Extracted.outputAxisName.toList

/-- `Brackets.create(Axis.create("output.axis"))` (l.189) -/
def outputBracket : Expr := .brackets (.axis outputAxisName none (-1) (-1)) (-1) (-1)
def replaceBrF : Expr → Option Expr
  | .brackets .. => some outputBracket
  | _ => none
def replaceBr : Expr → Expr := mapExpr replaceBrF

/-- `lambda expr: stage1.Brackets(expr) if _mark(expr) else None` (l.276–282) -/
def markF (namesOut : List Str) : Expr → Option Expr
  | .axis n v b e => if namesOut.contains n then none else some (.brackets (.axis n v b e) (-1) (-1))
  | _ => none
def markAxes (namesOut : List Str) : Expr → Expr := mapExpr (markF namesOut)

/-! ## `_to_el_expr` -/

mutual
/-- `_to_el_expr(expr)` for an expression (the assertion of the `ConcatenatedAxis` case is `concatTouchesBrackets`). -/
def toEl : Expr → Expr
  | .axis .. => emptyList
  | .flat i b e =>
    let inner := toEl i
    if inner.ndim == some 0 then emptyList else mkFlat inner b e
  | .brackets i _ _ => i
  | .ellipsis i id b e => mkEllipsis (toEl i) b e id
  | .concat .. => emptyList
  | .list cs b e => mkList (toElKeep cs) b e
  | .args cs b e => .args (toElL cs) b e
  | .op cs b e => .op (toElL cs) b e
/-- `_to_el_expr(list)`: the children with `ndim != 0` -/
def toElKeep : List Expr → List Expr
  | [] => []
  | c :: cs => let c' := toEl c; if c'.ndim != some 0 then c' :: toElKeep cs else toElKeep cs
def toElL : List Expr → List Expr
  | [] => []
  | c :: cs => toEl c :: toElL cs
end

/-! ## Split concatenations: the unmarked axis names of every alternative of `split_concatenated_axes` -/

mutual
def splitNames (inBr : Bool) : Expr → List (List Str)
  | .axis n _ _ _ => [if inBr then [] else [n]]
  | .flat i _ _ | .ellipsis i _ _ _ => splitNames inBr i
  | .brackets i _ _ => splitNames true i
  | .concat cs _ _ => splitNamesAlt inBr cs
  | .list cs _ _ => splitNamesProd inBr cs
  | .args .. | .op .. => []
def splitNamesAlt (inBr : Bool) : List Expr → List (List Str)
  | [] => []
  | c :: cs => splitNames inBr c ++ splitNamesAlt inBr cs
def splitNamesProd (inBr : Bool) : List Expr → List (List Str)
  | [] => [[]]
  | c :: cs => (splitNames inBr c).flatMap (fun a => (splitNamesProd inBr cs).map (fun r => a ++ r))
end

/-! ## Families and flags -/

inductive Family where
  | id | elementwise | dot | reduce | getAt | updateAt | argfind | preserveShape
deriving Repr, DecidableEq, Inhabited

def Family.key : Family → String
  | .id => "id" | .elementwise => "elementwise" | .dot => "dot" | .reduce => "reduce" | .getAt => "get_at"
  | .updateAt => "update_at" | .argfind => "argfind" | .preserveShape => "preserve_shape"

def Family.ofKey (s : String) : Option Family :=
  [Family.id, .elementwise, .dot, .reduce, .getAt, .updateAt, .argfind, .preserveShape].find? (fun f => f.key == s)

/-- The value of `implicit_output`. -/
inductive Implicit where
  | none | bijective | index (i : Nat) | indices (is : List Nat) | invalid
deriving Repr, DecidableEq, Inhabited

structure Flags where
  implicit : Implicit
  allowConcat : Bool
  markReduced : Bool
  addKeepdims : Bool
  allowDupEl : Bool
  noElPermute : Bool
deriving Repr, DecidableEq, Inhabited

def natOfChars (cs : List Char) : Option Nat :=
  if cs.isEmpty || !cs.all isAsciiDigit then none else some (cs.foldl (fun acc c => 10 * acc + (c.toNat - '0'.toNat)) 0)

def splitComma : List Char → List (List Char)
  | [] => [[]]
  | c :: cs =>
    match splitComma cs with
    | [] => [[c]]
    | r :: rs => if c == ',' then [] :: r :: rs else (c :: r) :: rs

def decodeImplicit (s : String) : Implicit :=
  let cs := s.toList
  if s == "none" then .none
  else if s == "bijective" then .bijective
  else if "index:".toList.isPrefixOf cs then
    match natOfChars (cs.drop 6) with | some i => .index i | none => .invalid
  else if "indices:".toList.isPrefixOf cs then
    match (splitComma (cs.drop 8)).mapM natOfChars with | some is => .indices is | none => .invalid
  else .invalid

/-- The flags with which the wrapper of a family calls `op(...)`, from the extracted table. -/
def flagsOf (fam : Family) : Option Flags :=
  (Einx.Extracted.familyFlags.find? (fun r => r.name == fam.key)).map (fun r =>
    { implicit := decodeImplicit r.implicitOutput, allowConcat := r.allowConcat, markReduced := r.markReducedAxes,
      addKeepdims := r.addKeepdimsParam, allowDupEl := r.allowDuplicateElAxes, noElPermute := r.noElAxisPermute })

/-! ## Errors -/

/-- Exceptions of `_parse_op` that are not `SemanticError`/`SyntaxError`. -/
inductive PInt where
  | noFlags               -- the family has no row in the extracted table (tie lost)
  | assertRoot            -- the parsed description is not `Op[Args(, Args)]`
  | assertConcatBrackets  -- l.71 `assert not any(is_in_brackets(c) ...)` in `_to_el_expr`
  | assertElArrow         -- l.117 `assert len(el_op.children) == 2`
  | assertBracketNum      -- l.184 `assert bracket_num > 0`
  | assertElCount         -- l.217/218
  | assertOneOutput       -- l.270 `assert len(exprs_out) == 1`
  | indexError            -- `exprs_in[implicit_output]` out of range
  | invalidImplicit       -- l.212 `ValueError`
deriving Repr, DecidableEq, Inhabited

/-- Outcome kinds of `_parse_op`, one per raise site. -/
inductive PErr where
  | syntax (e : Err)                              -- `stage1.parse_op(description)` failed
  | concatNotAllowed                              -- l.95
  | concatBrackets                                -- "Brackets ([]) cannot be used in or around a concatenation (+)"
  | noArrow                                       -- l.108 / l.204 / l.210
  | inputCount (expected found : Nat)             -- l.121
  | outputCount (expected found : Nat)            -- l.126
  | noUniqueParent                                -- l.171
  | notOneBracket                                 -- l.193
  | bracketsNotAllowed (i : Nat) (output : Bool)  -- l.233
  | bracketsRequired (i : Nat) (output : Bool)    -- l.239
  | markDuplicate (names : List Str)              -- l.260
  | outputDuplicate                               -- l.290
  | bracketDuplicate                              -- l.304
  | elReparse (e : Err)                           -- l.111/114: the text built by the `el_op` builder does not parse (D11)
  | internal (k : PInt)
deriving Repr, DecidableEq, Inhabited

abbrev PRes := Except PErr

/-! ## The elementary signature -/

/-- What `_parse_op` keeps of `el_op`: `el_op.children[0].children` and `el_op.children[1].children`. -/
structure ElOp where
  ins : List Expr
  outs : List Expr
deriving Repr, Inhabited

inductive ElMode where
  | tree    -- the two `Args` built directly
  | string  -- the text of the wrapper's `el_op` builder, parsed again (what the code does)
deriving Repr, DecidableEq, Inhabited

/-- A name no caller can collide with stands for `a{uuid.uuid4().int}` (tree mode). -/
def freshOutAxis : Expr := .axis (lit "a.uuid") none (-1) (-1)

mutual
/-- Parsing the printed text a second time gives every unnamed axis a new `unnamed.<uuid>` name. -/
def refreshUnnamed : Expr → Expr
  | .axis n v b e => match v with | none => .axis n none b e | some k => .axis (n ++ lit "'") (some k) b e
  | .flat i b e => .flat (refreshUnnamed i) b e
  | .brackets i b e => .brackets (refreshUnnamed i) b e
  | .ellipsis i id b e => .ellipsis (refreshUnnamed i) id b e
  | .concat cs b e => .concat (refreshUnnamedL cs) b e
  | .list cs b e => .list (refreshUnnamedL cs) b e
  | .args cs b e => .args (refreshUnnamedL cs) b e
  | .op cs b e => .op (refreshUnnamedL cs) b e
def refreshUnnamedL : List Expr → List Expr
  | [] => []
  | c :: cs => refreshUnnamed c :: refreshUnnamedL cs
end

/-- `ins[:-1]` joined with `", "` and followed by `", -> …"`: an empty prefix still yields one (empty) input before the comma. -/
def updateAtIns (eins : List Expr) : List Expr :=
  (if eins.dropLast.isEmpty then [emptyList] else eins.dropLast) ++ [emptyList]

/-- `op.children[1].children[0].ndim != 0` or no output at all (the `argfind` builder) -/
def argfindVectorOut (eouts : Option (List Expr)) : Bool :=
  match eouts with
  | none => true
  | some o => (o.headD emptyList).ndim != some 0

/-- The elementary signature, built as trees.  `eins`/`eouts` are `_to_el_expr` of the inputs / outputs of the description. -/
def elOpTree (fam : Family) (eins : List Expr) (eouts : Option (List Expr)) : ElOp :=
  match fam with
  | .id => ⟨eins.map (fun _ => emptyList), (eouts.getD eins).map (fun _ => emptyList)⟩
  | .elementwise => ⟨eins.map (fun _ => emptyList), [emptyList]⟩
  | .dot => ⟨eins, [emptyList]⟩
  | .getAt => ⟨eins, [emptyList]⟩
  | .reduce => ⟨[eins.headD emptyList], [emptyList]⟩
  | .updateAt => ⟨updateAtIns eins, [eins.headD emptyList]⟩
  | .argfind => ⟨[eins.headD emptyList], if argfindVectorOut eouts then [freshOutAxis] else [emptyList]⟩
  | .preserveShape => ⟨[eins.headD emptyList], [refreshUnnamed (eins.headD emptyList)]⟩

def commaJoin (xs : List Str) : Str := joinWith (lit ", ") xs

/-- The text the wrapper's `el_op` builder returns (see `Einx.Extracted.elOpSources`). -/
def elOpText (fam : Family) (eins : List Expr) (eouts : Option (List Expr)) : Str :=
  let in0 := (eins.headD emptyList).print
  match fam with
  | .id => commaJoin (eins.map (fun _ => [])) ++ lit " -> " ++ commaJoin ((eouts.getD eins).map (fun _ => []))
  | .elementwise => commaJoin (eins.map (fun _ => [])) ++ lit " ->"
  | .dot => commaJoin (printL eins) ++ lit " ->"
  | .getAt => commaJoin (printL eins) ++ lit " ->"
  | .reduce => in0 ++ lit " ->"
  | .updateAt => commaJoin (printL eins.dropLast) ++ lit ", -> " ++ in0
  | .argfind => if argfindVectorOut eouts then in0 ++ lit " -> a00000000000000000000000000000000000000" else in0 ++ lit " ->"
  | .preserveShape => in0 ++ lit " -> " ++ in0

def elOpString (fam : Family) (eins : List Expr) (eouts : Option (List Expr)) : PRes ElOp :=
  match parseOp (elOpText fam eins eouts) with
  | .error err => .error (.elReparse err)
  | .ok (.op [.args i _ _, .args o _ _] _ _) => .ok ⟨i, o⟩
  | .ok _ => .error (.internal .assertElArrow)

def elOp (mode : ElMode) (fam : Family) (eins : List Expr) (eouts : Option (List Expr)) : PRes ElOp :=
  match mode with
  | .tree => .ok (elOpTree fam eins eouts)
  | .string => elOpString fam eins eouts

/-! ## Implicit output (l.131–212) -/

/-- Input expressions that contain the axis names (excluding 1s) of all other inputs, without `__eq__`-duplicates. -/
def dedupPyAux (acc : List Expr) : List Expr → List Expr
  | [] => acc.reverse
  | x :: xs => if acc.any (fun y => pyEq y x) then dedupPyAux acc xs else dedupPyAux (x :: acc) xs

/-- `set.add` keeps the element that was inserted first. -/
def dedupPy (xs : List Expr) : List Expr := dedupPyAux [] xs

def validParents (ins : List Expr) : List Expr :=
  let names := ins.map namesNot1
  let valid := (ins.zipIdx).filter (fun p => (names.zipIdx).all (fun c => p.2 == c.2 || subset c.1 (namesNot1 p.1)))
  dedupPy (valid.map (·.1))

/-- `_to_output` (l.182–200) -/
def toOutput (x : Expr) : PRes Expr :=
  if bracketCount x == 1 then .ok (replaceBr x)
  else .error .notOneBracket

def toOutputL : List Expr → PRes (List Expr)
  | [] => .ok []
  | x :: xs =>
    match toOutput x with
    | .error err => .error err
    | .ok y =>
      match toOutputL xs with
      | .error err => .error err
      | .ok ys => .ok (y :: ys)

def getAll (ins : List Expr) : List Nat → Option (List Expr)
  | [] => some []
  | i :: is =>
    match ins[i]?, getAll ins is with
    | some x, some xs => some (x :: xs)
    | _, _ => none

def isScalar (x : Expr) : Bool := x.ndim == some 0

def implicitOut (fl : Flags) (kd : Bool) (el : ElOp) (ins : List Expr) : PRes (List Expr) :=
  match fl.implicit with
  | .bijective =>
    let single := el.ins.length == 1 && el.outs.length == 1
    if single && pyEqL el.ins el.outs then .ok ins
    else if single && isScalar (el.outs.headD emptyList) then
      .ok (if kd then ins.map keepdimsBr else ins.map removeBr)
    else if (el.ins ++ el.outs).all isScalar then
      match ins with
      | [x] => .ok [x]
      | _ =>
        match validParents ins with
        | [p] => .ok [p]
        | _ => .error .noUniqueParent
    else if single then toOutputL ins
    else .error .noArrow
  | .index i =>
    match ins[i]? with
    | some x => .ok [x]
    | none => .error (.internal .indexError)
  | .indices is =>
    match getAll ins is with
    | some xs => .ok xs
    | none => .error (.internal .indexError)
  | .none => .error .noArrow
  | .invalid => .error (.internal .invalidImplicit)

/-! ## Bracket checks, automatic marking, duplicate checks (l.215–306) -/

/-- `check(i, el_arg, el_subarg, arg, inoutput)` over `zip(el_args, el_subargs)` -/
def bracketCheck (output : Bool) : Nat → List Expr → List Expr → Option PErr
  | _, [], _ => none
  | _, _, [] => none
  | i, a :: as, s :: ss =>
    if isScalar a && !isScalar s then some (.bracketsNotAllowed i output)
    else if !isScalar a && isScalar s then some (.bracketsRequired i output)
    else bracketCheck output (i + 1) as ss

/-- l.251–282 -/
def markInputs (ins outs : List Expr) : PRes (List Expr) :=
  match ins.find? (fun x => hasDup (axisNames x)) with
  | some x => .error (.markDuplicate (dups (axisNames x)))
  | none =>
    match outs with
    | [out] => .ok (ins.map (markAxes (axisNames out)))
    | _ => .error (.internal .assertOneOutput)

/-- l.285–294 for one output -/
def outputHasDup (out : Expr) : Bool := (splitNames false out).any hasDup

def finish (fl : Flags) (el : ElOp) (ins outs : List Expr) : PRes (List Expr × List Expr) :=
  if el.outs.length != outs.length then .error (.outputCount el.outs.length outs.length)
  else
    match bracketCheck false 0 el.ins (ins.map toEl) with
    | some err => .error err
    | none =>
      match bracketCheck true 0 el.outs (outs.map toEl) with
      | some err => .error err
      | none =>
        match (if fl.markReduced && !ins.any hasBrackets then markInputs ins outs else .ok ins) with
        | .error err => .error err
        | .ok ins' =>
          if outs.any outputHasDup then .error .outputDuplicate
          else if !fl.allowDupEl && (ins' ++ outs).any (fun x => hasDup (markedNames x)) then .error .bracketDuplicate
          else .ok (ins', outs)

/-! ## `_parse_op` -/

/-- `_parse_op` after `stage1.parse_op(description)`: `ins` = `op.children[0].children`, `outs` = `op.children[1].children` if
    the description has an arrow.  `kd` is the `keepdims` argument (always `False` for families without `add_keepdims_param`). -/
def parseOpTree (mode : ElMode) (fam : Family) (fl : Flags) (kd : Bool) (ins : List Expr) (outs : Option (List Expr)) :
    PRes (List Expr × List Expr) :=
  let all := ins ++ outs.getD []
  if !fl.allowConcat && all.any hasConcat then .error .concatNotAllowed
  else if all.any (concatTouchesBrackets false) then .error .concatBrackets
  else
    let eins := ins.map toEl
    let eouts := outs.map (fun o => o.map toEl)
    match elOp mode fam eins eouts with
    | .error err => .error err
    | .ok el =>
      if el.ins.length != eins.length then .error (.inputCount el.ins.length eins.length)
      else
        match outs with
        | some o =>
          if el.outs.length != o.length then .error (.outputCount el.outs.length o.length)
          else finish fl el ins o
        | none =>
          match implicitOut fl kd el ins with
          | .error err => .error err
          | .ok o => finish fl el ins o

/-- `_parse_op(description, el_op, …)` as the wrapper of `fam` calls it. -/
def parseOpModel (mode : ElMode) (fam : Family) (kd : Bool) (desc : Str) : PRes (List Expr × List Expr) :=
  match flagsOf fam with
  | none => .error (.internal .noFlags)
  | some fl =>
    match parseOp desc with
    | .error err => .error (.syntax err)
    | .ok (.op [.args ins _ _] _ _) => parseOpTree mode fam fl (fl.addKeepdims && kd) ins none
    | .ok (.op [.args ins _ _, .args outs _ _] _ _) => parseOpTree mode fam fl (fl.addKeepdims && kd) ins (some outs)
    | .ok _ => .error (.internal .assertRoot)

end Einx.Elab
