import EinxModel.Compile.Syntax
/-!
M6, part 2: traced graphs (decoded from `tools/lib/graphcap.graph_to_json`), and the models of
`compiler/python/usage.py:get_usages` and `compiler/python/scope.py:get_scopes`.

Operands are `E` values whose `var`s are tracer ids.  Containers are Python objects with identity;
the JSON loses that identity, so every container occurrence is a fresh object here (real graphs never
share a container object between two operand positions: `Call.__init__` copies `args`/`kwargs`).
-/
namespace Einx.Compile

/-- One `tracer.Application`.  `out` is the output tracer id (or the pytree of output tracers). -/
inductive App where
  | call (fn : E) (args : List E) (kwargs : List (String × E)) (deps : List E) (out : Nat)
  | callInplace (xs fn : E) (args : List E) (kwargs : List (String × E)) (deps : List E) (out : Nat)
  | getattr (obj : E) (key : String) (out : Nat)
  | getitem (obj key : E) (out : Nat)
  | updateitem (obj key value : E) (op : String) (out : Nat)
  | import_ (imp : String) (from_ as_ : Option String) (out : Nat)
  | operator (op : String) (operands : List E) (out : Nat)
  | builtin (name : String) (out : Nat)
  | assert_ (xs cond : E) (msg : Option String) (out : E)
  | constant (str : String) (out : Nat)
  | cast (input : E) (out : E)
deriving Repr, Inhabited, DecidableEq

structure SubGraph where
  inputs : List Nat
  output : E
  name : Option String
deriving Repr, Inhabited, DecidableEq

structure Graph where
  apps : List App
  origin : List (Option Nat)      -- tracer id ↦ index of its application
  graphs : List SubGraph          -- table of `gref`s
  top : E                         -- `gref 0` for a `tracer.Graph`; any other value when InlineGraph collapsed it
deriving Repr, Inhabited, DecidableEq

/-- `pytree.flatten`: leaves of nested tuples/lists/dicts (dict items give key and value). -/
def flatten : E → List E
  | .node .tuple a => flattenL a
  | .node .list a => flattenL a
  | .node .dict a => flattenL a
  | e => [e]
where flattenL : E → List E
  | .cons h t => flatten h ++ flattenL t
  | _ => []

def leafVars (e : E) : List Nat := (flatten e).filterMap (fun | .var v => some v | _ => none)

namespace App

/-- `Application.inputs` (strings and numbers are kept: the consumers skip them). -/
def inputs : App → List E
  | .call fn args kwargs deps _ => fn :: args ++ kwargs.map (·.2) ++ deps
  | .callInplace xs fn args kwargs deps _ => xs :: fn :: args ++ kwargs.map (·.2) ++ deps
  | .getattr obj _ _ => [obj]
  | .getitem obj key _ => [obj, key]
  | .updateitem obj key value _ _ => [obj, key, value]
  | .import_ .. => []
  | .operator _ operands _ => operands
  | .builtin .. => []
  | .assert_ xs cond _ _ => flatten xs ++ [cond]
  | .constant .. => []
  | .cast input _ => [input]

/-- `Application.output` as a pytree. -/
def out : App → E
  | .call _ _ _ _ o | .callInplace _ _ _ _ _ o | .getattr _ _ o | .getitem _ _ o | .updateitem _ _ _ _ o
  | .import_ _ _ _ o | .operator _ _ o | .builtin _ o | .constant _ o => .var o
  | .assert_ _ _ _ o | .cast _ o => o

def outs (a : App) : List Nat := leafVars a.out

/-- Inputs of which the output is rendered as an alias (`force_inline=True` definitions). -/
def aliased : App → List E
  | .cast input _ => [input]
  | .callInplace xs .. => [xs]
  | .updateitem obj .. => [obj]
  | .assert_ xs .. => flatten xs
  | _ => []

/-- Inputs that are rendered once, in the statement or expression of the application itself (the aliased
operand of a cast / in-place call / assert is not: it is rendered wherever the output is used). -/
def onceInputs : App → List E
  | .cast .. => []
  | .callInplace _ fn args kwargs deps _ => fn :: args ++ kwargs.map (·.2) ++ deps
  | .assert_ _ cond _ _ => [cond]
  | a => a.inputs

end App

namespace Graph

def originOf (g : Graph) (t : Nat) : Option (Nat × App) :=
  match g.origin[t]? with
  | some (some i) => (g.apps[i]?).map (fun a => (i, a))
  | _ => none

end Graph

/-! ### `usage.py` -/

/-- What `get_usages` / `CodeObject.define` do, read from the source by `tools/extract/compile.py`. -/
structure UCfg where
  /-- the `+= 1` is executed before the `if id(x) in done: return` check -/
  countFirst : Bool
  /-- the outputs of an application are visited with `_recurse(output)` (otherwise only registered) -/
  outputsRecursed : Bool
  /-- every visit of an alias (Cast, in-place result, item-update result, assert result) counts as a use of the aliased
  inputs; the first visit additionally counts the inputs rendered in the application's own statement -/
  aliasForward : Bool
  /-- `define`: `force_inline` wins over a usage count > 1 (otherwise both set ⇒ ValueError) -/
  forceInlineWins : Bool
  /-- a unary operator application is rendered inside parentheses (`(-(x))`; otherwise `-(x).attr` parses as `-(x.attr)`) -/
  unaryParens : Bool := false
  /-- attribute access (`GetAttr`) and builtins are defined with `force_inline=True` (never bound to a variable) -/
  attrForceInline : Bool := false
deriving Repr, DecidableEq, Inhabited

/-- The pinned tree. -/
def UCfg.pinned : UCfg := ⟨false, true, false, false, false, false⟩

abbrev Counts := List (E × Nat)

def assocGet {β} (l : List (E × β)) (k : E) : Option β := (l.find? (·.1 == k)).map (·.2)

def assocSet {β} (l : List (E × β)) (k : E) (v : β) : List (E × β) :=
  if l.any (·.1 == k) then l.map (fun p => if p.1 == k then (k, v) else p) else l ++ [(k, v)]

structure UState where
  counts : Counts := []
  done : List E := []
deriving Repr, Inhabited

def UState.bump (s : UState) (k : E) (n : Nat) : UState :=
  { s with counts := assocSet s.counts k ((assocGet s.counts k).getD 0 + n) }

/-- `_recurse` of `get_usages`. -/
def usageRec (g : Graph) (cfg : UCfg) : Nat → E → UState → UState
  | 0, _, s => s
  | fuel + 1, x, s =>
    let many (xs : List E) (s : UState) : UState := xs.foldl (fun s i => usageRec g cfg fuel i s) s
    match x with
    | .lit _ => s
    | .var t =>
      let s := if cfg.countFirst then s.bump x 1 else s
      let first := !s.done.contains x
      let app := (g.originOf t).map (·.2)
      if !first then
        match app with
        | some a => if cfg.aliasForward then many a.aliased s else s
        | none => s
      else
        let s := { s with done := x :: s.done }
        let s := if cfg.countFirst then s else s.bump x 1
        match app with
        | none => s
        | some a =>
          if cfg.outputsRecursed then
            many (flatten a.out) (many a.inputs s)
          else
            let s := a.outs.foldl (fun s o => { (s.bump (.var o) 0) with done := if s.done.contains (.var o) then s.done else .var o :: s.done }) s
            if cfg.aliasForward then many a.aliased (many a.onceInputs s) else many a.inputs s
    | .gref i =>
      let s := if cfg.countFirst then s.bump x 1 else s
      if s.done.contains x then s else
      let s := { s with done := x :: s.done }
      let s := if cfg.countFirst then s else s.bump x 1
      match g.graphs[i]? with
      | some sg => usageRec g cfg fuel sg.output s
      | none => s
    | .node .tuple a | .node .list a | .node .dict a =>
      -- a fresh container object: never in `done`; its own count is never read
      many a.toList s
    | _ => s          -- slices and other opaque leaves: counted under their own id, never read

/-- `Map.__getitem__` of usage.py. -/
def usageGet (c : Counts) : Nat → E → Except String Nat
  | 0, _ => .error "fuel"
  | fuel + 1, x =>
    match x with
    | .var _ | .gref _ => match assocGet c x with
      | some n => .ok n
      | none => .error "KeyError: usage"
    | .node .tuple a | .node .list a | .node .dict a => do
      let ns ← a.toList.mapM (usageGet c fuel)
      match ns with
      | [] => .error "ValueError: max() of empty"
      | n :: rest => .ok (rest.foldl max n)
    | _ => .error "KeyError: usage"

/-! ### `scope.py` -/

structure ScopeInfo where
  required : List Nat
  parent : Option Nat := none
deriving Repr, Inhabited

structure SState where
  req : List (E × List Nat) := []
  scopes : List ScopeInfo := [{ required := [0] }]
deriving Repr, Inhabited

def dedupe (l : List Nat) : List Nat := l.foldl (fun acc x => if acc.contains x then acc else acc ++ [x]) []

def isScalarLike : E → Bool
  | .lit _ => true
  | .node .tuple .nil => true
  | .node .list .nil => true
  | _ => false

def SState.has (s : SState) (x : E) : Bool :=
  isScalarLike x || (flatten x).all (fun y => (assocGet s.req y).isSome)

def SState.get (s : SState) (x : E) : List Nat :=
  if isScalarLike x then [0] else (flatten x).flatMap (fun y => (assocGet s.req y).getD [])

/-- `_get_required_scopes`. -/
def reqScopes (g : Graph) : Nat → E → SState → Except String (List Nat × SState)
  | 0, _, _ => .error "RecursionError: scope"
  | fuel + 1, x, s =>
    if s.has x then (if (s.get x).isEmpty then .error "AssertionError: no scopes" else .ok (s.get x, s)) else
    let many (xs : List E) (s : SState) : Except String (List Nat × SState) :=
      xs.foldlM (fun (acc : List Nat × SState) i => do
        let (r, s) ← reqScopes g fuel i acc.2
        pure (acc.1 ++ r, s)) ([], s)
    match x with
    | .var t =>
      match g.originOf t with
      | none => .error "ValueError: tracer has no origin"
      | some (_, a) => do
        let (ins, s) ← many a.inputs s
        let r := dedupe (ins ++ [0])
        let s := { s with req := assocSet s.req x r }
        let s ← a.outs.foldlM (fun s o => do let (_, s) ← reqScopes g fuel (.var o) s; pure s) s
        pure (r, s)
    | .node .tuple a | .node .list a | .node .dict a => do
      let (ins, s) ← many a.toList s
      pure (dedupe (ins ++ [0]), s)
    | .gref i =>
      match g.graphs[i]? with
      | none => .error "bad graph reference"
      | some sg => do
        let inner := s.scopes.length
        let s := { s with scopes := s.scopes ++ [{ required := [] }] }
        let s := sg.inputs.foldl (fun s t => { s with req := assocSet s.req (.var t) [inner] }) s
        let (r, s) ← reqScopes g fuel sg.output s
        let r := r.filter (· != inner)
        let r := if r.isEmpty then [0] else r
        let s := { s with scopes := s.scopes.mapIdx (fun j sc => if j == inner then { sc with required := r } else sc),
                           req := assocSet s.req x r }
        pure (r, s)
    | _ => .ok ([0], s)

/-- `_is_predecessor_of` on the required-scope relation (first half of `get_scopes`). -/
def isPredReq (scopes : List ScopeInfo) : Nat → Nat → Nat → Except String Bool
  | 0, _, _ => .error "RecursionError: scope"
  | fuel + 1, a, b =>
    if a == b then .ok true else
    let rq := (scopes[b]?).map (·.required) |>.getD []
    if rq.contains a then .ok true else
    rq.foldlM (fun acc s => if acc then pure true else isPredReq scopes fuel a s) false

def commonScope (isPred : Nat → Nat → Except String Bool) (l : List Nat) : Except String Nat :=
  match dedupe l with
  | [] => .error "ValueError: No scopes found"
  | s0 :: rest => rest.foldlM (fun sc s2 => do
      if sc == s2 then pure sc
      else if ← isPred sc s2 then pure s2
      else if ← isPred s2 sc then pure sc
      else throw "ValueError: scopes not in a predecessor relationship") s0

/-- `Scope.is_predecessor_of` on the parent relation. -/
def isPredParent (scopes : List ScopeInfo) : Nat → Nat → Nat → Except String Bool
  | 0, _, _ => .error "RecursionError: scope"
  | fuel + 1, a, b =>
    if a == b then .ok true else
    match (scopes[b]?).bind (·.parent) with
    | none => .ok false
    | some p => isPredParent scopes fuel a p

structure Scopes where
  scopes : List ScopeInfo
  ofKey : List (E × Nat)       -- tracer / graph ↦ innermost scope
deriving Repr, Inhabited

/-- `get_scopes`. -/
def getScopes (g : Graph) (fuel : Nat) : Except String Scopes := do
  let (_, s) ← reqScopes g fuel g.top {}
  let n := s.scopes.length
  let scopes ← (List.range n).mapM (fun i => do
    let sc := s.scopes[i]!
    if i == 0 then pure sc else
    let p ← commonScope (isPredReq s.scopes (4 * n + 8)) sc.required
    pure { sc with parent := some p })
  let ofKey ← s.req.mapM (fun (k, r) => do
    -- `Map._find_common_scope`: dedupe, append the global scope, walk
    let l := dedupe r ++ [0]
    let sc ← match l with
      | [] => throw "unreachable"
      | s0 :: rest => rest.foldlM (fun sc s2 => do
          if sc == s2 then pure sc
          else if ← isPredParent scopes (n + 2) sc s2 then pure s2
          else if ← isPredParent scopes (n + 2) s2 sc then pure sc
          else throw "ValueError: scopes not in a predecessor relationship") s0
    pure (k, sc))
  pure { scopes, ofKey }

/-- `Map.__getitem__` of scope.py (innermost scope of any value). -/
def Scopes.get (sc : Scopes) : Nat → E → Except String Nat
  | 0, _ => .error "fuel"
  | fuel + 1, x =>
    if isScalarLike x then .ok 0 else
    match assocGet sc.ofKey x with
    | some s => .ok s
    | none =>
      match x with
      | .node .tuple a | .node .list a | .node .dict a => do
        let l ← a.toList.mapM (sc.get fuel)
        let n := sc.scopes.length
        match dedupe l ++ [0] with
        | [] => throw "unreachable"
        | s0 :: rest => rest.foldlM (fun s1 s2 => do
            if s1 == s2 then pure s1
            else if ← isPredParent sc.scopes (n + 2) s1 s2 then pure s2
            else if ← isPredParent sc.scopes (n + 2) s2 s1 then pure s1
            else throw "ValueError: scopes not in a predecessor relationship") s0
      | _ => .error "KeyError: scope"

end Einx.Compile
