import EinxModel.Compile.Gen
/-!
M6, part 4: a small semantics.

Domain: closed terms (`E` without variables) and an event trace.  Pure nodes (attribute, item, operator,
builtin, cast, allow-listed builtin calls) are terms; calls of opaque callables, in-place calls, item
updates and asserts are events, in order.  The result of the k-th event is the atom `res k`.

* `execBlock`  – execution of emitted statements (straight-line; a nested `def` only binds an opaque closure);
* `evalGraph`  – node-by-node evaluation of the traced graph along a traversal order, memoised;
* `fuseSafe`   – the interference condition under which sharing names between variables is sound;
* `opCount`    – number of pure operations evaluated (for "every value is computed once").
-/
namespace Einx.Compile

def atom (name : String) (k : Nat) : E := E.mk (.atom name) [.lit (toString k)]
def inAtom (t : Nat) : E := atom "in" t
def resAtom (k : Nat) : E := atom "res" k
def constAtom (n : Nat) : E := atom "const" n
def closAtom (g : Nat) : E := atom "closure" g
def modAtom (from_ : Option String) (imp : String) : E :=
  E.mk (.atom ("module " ++ (from_.getD "") ++ ":" ++ imp)) []

inductive Event where
  | call (t : E)
  | inplace (t : E)
  | update (target : E) (op : String) (value : E)
  | check (cond : E) (msg : Option String)
deriving Repr, DecidableEq, Inhabited

/-! ### Execution of statements -/

abbrev Env := Nat → E

def Env.set (env : Env) (v : Nat) (t : E) : Env := fun w => if w = v then t else env w

def unbound : Env := fun v => atom "unbound" v

structure XState where
  env : Env
  trace : List Event := []
  ret : Option E := none

def execStmt (x : XState) : Stmt → XState
  | .comment _ => x
  | .import_ v from_ imp => { x with env := x.env.set v (modAtom from_ imp) }
  | .assign v rhs eff =>
    let t := rhs.subst x.env
    if eff then { x with env := x.env.set v (resAtom x.trace.length), trace := x.trace ++ [.call t] }
    else { x with env := x.env.set v t }
  | .exprStmt e _ => { x with trace := x.trace ++ [.inplace (e.subst x.env)] }
  | .update t op v _ => { x with trace := x.trace ++ [.update (t.subst x.env) op (v.subst x.env)] }
  | .assert_ c msg _ => { x with trace := x.trace ++ [.check (c.subst x.env) msg] }
  | .def_ v _ _ gi => { x with env := x.env.set v (closAtom gi) }
  | .param v t => { x with env := x.env.set v (inAtom t) }
  | .constBind v n => { x with env := x.env.set v (constAtom n) }
  | .return_ e => match x.ret with
    | some _ => x
    | none => { x with ret := some (e.subst x.env) }

def execBlock (x : XState) (l : List Stmt) : XState := l.foldl execStmt x

/-- The emitted statements in emission order (the text hoists imports and puts the statements of the root
block before the `def`; see `Props/C04.lean` for what is proved about which order). -/
def GState.program (st : GState) : List Stmt := st.body.map (·.2.stmt)

/-! ### Reference: node-by-node evaluation of the graph -/

structure RState where
  vals : List (E × E) := []       -- memo: tracer / container / graph ↦ closed term
  trace : List Event := []
  nconst : Nat := 0
  ret : Option E := none
deriving Repr, Inhabited

def Stmt.event? : Stmt → Option Event
  | .exprStmt e _ => some (.inplace e)
  | .update t op v _ => some (.update t op v)
  | .assert_ c msg _ => some (.check c msg)
  | _ => none

/-- The reference's side of a rule (operands already evaluated to closed terms). -/
def refRule (r : RState) : Rule → Except String RState
  | .define out e eff _ _ =>
    if eff then do
      pure { r with vals := ← setCache 64 r.vals out (resAtom r.trace.length), trace := r.trace ++ [.call e] }
    else do
      pure { r with vals := ← setCache 64 r.vals out e }
  | .effect s out e => do
    pure { r with vals := ← setCache 64 r.vals out e, trace := r.trace ++ s.event?.toList }
  | .import_ out from_ imp _ => do
    pure { r with vals := ← setCache 64 r.vals (.var out) (modAtom from_ imp) }
  | .constant out _ => do
    pure { r with vals := ← setCache 64 r.vals (.var out) (constAtom (r.nconst + 1)), nconst := r.nconst + 1 }

def refVisit (g : Graph) (up : Bool) (r : RState) : Visit → Except String RState
  | .app i =>
    match g.apps[i]? with
    | some a => do refRule r (← ruleOf g up r.vals a)
    | none => throw "bad application index"
  | .enter gi =>
    match g.graphs[gi]? with
    | none => throw "bad graph reference"
    | some sg => do
      let vals ← setCache 64 r.vals (.gref gi) (closAtom gi)
      let vals ← sg.inputs.foldlM (fun vals t => setCache 64 vals (.var t) (inAtom t)) vals
      pure { r with vals }
  | .exit gi =>
    match g.graphs[gi]? with
    | none => throw "bad graph reference"
    | some sg => do
      let t ← convTop r.vals sg.output
      pure { r with ret := match r.ret with | some x => some x | none => some t }

/-- Memoised node-by-node evaluation along `order`. -/
def evalGraph (g : Graph) (up : Bool) (order : List Visit) : Except String RState :=
  order.foldlM (refVisit g up) {}

/-! ### Name sharing -/

def Stmt.rename (ρ : Nat → Nat) : Stmt → Stmt
  | .comment t => .comment t
  | .import_ v f i => .import_ (ρ v) f i
  | .assign v rhs eff => .assign (ρ v) (rhs.rename ρ) eff
  | .exprStmt e extra => .exprStmt (e.rename ρ) (extra.map (E.rename ρ))
  | .update t op v extra => .update (t.rename ρ) op (v.rename ρ) (extra.map (E.rename ρ))
  | .assert_ c msg extra => .assert_ (c.rename ρ) msg (extra.map (E.rename ρ))
  | .def_ v ps b gi => .def_ (ρ v) (ps.map ρ) b gi
  | .param v t => .param (ρ v) t
  | .constBind v n => .constBind (ρ v) n
  | .return_ e => .return_ (e.rename ρ)

/-- Variables whose value is read by the execution of a statement. -/
def Stmt.reads : Stmt → List Nat
  | .assign _ rhs _ => rhs.vars
  | .exprStmt e _ => e.vars
  | .update t _ v _ => t.vars ++ v.vars
  | .assert_ c _ _ => c.vars
  | .return_ e => e.vars
  | _ => []

/-- Variables read before being (re)defined: live on entry of the statement list. -/
def liveIn : List Stmt → List Nat
  | [] => []
  | s :: rest => s.reads ++ (liveIn rest).filter (fun v => !s.outputVars.contains v)

/-- The interference condition: a statement may write the shared name of its output variable `o` only if no
*other* variable with the same name is live afterwards. -/
def fuseSafe (ρ : Nat → Nat) : List Stmt → Bool
  | [] => true
  | s :: rest =>
    s.outputVars.all (fun o => (liveIn rest).all (fun w => w == o || ρ w != ρ o)) && fuseSafe ρ rest

/-- Variables bound on entry (parameters, variables of enclosing blocks) must keep distinct names as long as
they are live. -/
def entrySafe (ρ : Nat → Nat) (l : List Stmt) : Bool :=
  let live := liveIn l
  live.all (fun v => live.all (fun w => v == w || ρ v != ρ w))

/-! ### Counting pure operations -/

def Tag.isOp : Tag → Bool
  | .call | .attr _ | .index | .unop _ | .unopP _ | .binop _ => true
  | _ => false

/-- Number of operations (calls, attribute/item accesses, operators) in an expression.  Element accesses of a
destructured result (`elem`) are not graph nodes and are not counted. -/
def opCount : E → Nat
  | .cons h t => opCount h + opCount t
  | .node tag a => (if tag.isOp then 1 else 0) + opCount a
  | _ => 0

def Stmt.ops : Stmt → Nat
  | .assign _ rhs _ => opCount rhs
  | .exprStmt e _ => opCount e
  | .update t _ v _ => opCount t + opCount v
  | .assert_ c _ _ => opCount c
  | .return_ e => opCount e
  | _ => 0

/-- Operations executed by the emitted statements (per call of the function, plus module level). -/
def progOps (l : List Stmt) : Nat := (l.map Stmt.ops).sum

/-- Operations of the graph: one per reached application that is an operation. -/
def App.isOp : App → Bool
  | .call .. | .callInplace .. | .getattr .. | .getitem .. | .updateitem .. | .operator .. => true
  | _ => false

def refOps (g : Graph) (order : List Visit) : Nat :=
  (order.filter (fun | .app i => (g.apps[i]?.map App.isOp).getD false | _ => false)).length

/-! ### Well-formedness of a traversal order -/

/-- Every tracer operand (as the generator asks for them) of an application was produced earlier. -/
def closedOrder (g : Graph) : List Visit → List Nat → Bool
  | [], _ => true
  | .app i :: rest, avail =>
    match g.apps[i]? with
    | some a => (a.genOperands.flatMap E.vars).all avail.contains && closedOrder g rest (avail ++ a.outs)
    | none => false
  | .enter gi :: rest, avail =>
    match g.graphs[gi]? with
    | some sg => closedOrder g rest (avail ++ sg.inputs)
    | none => false
  | .exit _ :: rest, avail => closedOrder g rest avail

/-! ### Well-formedness of a traced graph -/

/-- Nested graphs mentioned in a value. -/
def E.grefsOf : E → List Nat
  | .gref g => [g]
  | .cons h t => grefsOf h ++ grefsOf t
  | .node _ a => grefsOf a
  | _ => []

/-- All operand values of an application whose expressions `_eval_app` asks for. -/
def App.operandEs : App → List E
  | .call fn args kwargs _ _ => fn :: args ++ kwargs.map (·.2)
  | .callInplace xs fn args kwargs _ _ => xs :: fn :: args ++ kwargs.map (·.2)
  | .getattr obj _ _ => [obj]
  | .getitem obj key _ => [obj, key]
  | .updateitem obj key value _ _ => [obj, key, value]
  | .operator _ operands _ => operands
  | .assert_ xs cond _ _ => [xs, cond]
  | .cast input _ => [input]
  | _ => []

/-- Tracers an operand can lead the traversal to: its own variables and the variables of the outputs of the nested
graphs it mentions. -/
def cand (g : Graph) (x : E) : List Nat :=
  x.vars ++ x.grefsOf.flatMap (fun k => match g.graphs[k]? with | some sg => sg.output.vars | none => [])

/-- Well-formedness of a traced graph (decidable):
  * a tracer is among the registered outputs of its origin;
  * applications are in topological order: every tracer an operand leads to (directly or as the output of a nested graph
    operand) has an earlier origin;
  * the output of a nested graph mentions no graph;
  * the tracers in the output of a nested graph that an application mentions have earlier origins. -/
def Graph.WF (g : Graph) : Bool :=
  (List.range g.origin.length).all (fun t => match g.originOf t with
    | some (_, a) => (regKeys a.out).contains (.var t)
    | none => true) &&
  (g.apps.zipIdx).all (fun p => (p.1.genOperands.flatMap (cand g)).all (fun t => match g.originOf t with
    | some (j, _) => decide (j < p.2)
    | none => true)) &&
  g.graphs.all (fun sg => sg.output.grefsOf.isEmpty) &&
  (g.apps.zipIdx).all (fun p => (p.1.operandEs.flatMap E.grefsOf).all (fun k => match g.graphs[k]? with
    | some sg => sg.output.vars.all (fun t => match g.originOf t with
      | some (j, _) => decide (j < p.2)
      | none => true)
    | none => true))

/-- While a nested graph is open (between `enter g` and `exit g`) no visited application mentions it, and the output of
a graph that is closed mentions no open graph: the function variable of a graph is not read inside its own body. -/
def noSelfRef (g : Graph) : List Visit → List Nat → Bool
  | [], _ => true
  | .app i :: rest, pend =>
    (match g.apps[i]? with
      | some a => (a.operandEs.flatMap E.grefsOf).all (fun k => !pend.contains k)
      | none => true) && noSelfRef g rest pend
  | .enter gi :: rest, pend => noSelfRef g rest (gi :: pend)
  | .exit gi :: rest, pend =>
    (match g.graphs[gi]? with
      | some sg => sg.output.grefsOf.all (fun k => !pend.contains k)
      | none => true) && noSelfRef g rest (pend.erase gi)

/-- The graphs that are open after a traversal. -/
def pendAfter : List Visit → List Nat → List Nat
  | [], pend => pend
  | .app _ :: rest, pend => pendAfter rest pend
  | .enter gi :: rest, pend => pendAfter rest (gi :: pend)
  | .exit gi :: rest, pend => pendAfter rest (pend.erase gi)

end Einx.Compile
