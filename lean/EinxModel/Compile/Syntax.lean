/-!
M6 (code generation), part 1: expression syntax shared by
  * the operands of traced graphs (`var` = tracer id),
  * the expressions of emitted statements (`var` = variable id), and
  * the terms of the event-trace semantics (`var` = atom: graph input / result of the k-th event).

The type is a plain (non-nested) S-expression so that structural induction is available:
`node tag args` where `args` is a `cons`/`nil` chain.  Mirrors the `Variable | Literal | Inlined`
classes of `einx/_src/tracer/compiler/python/__init__.py`; every `Inlined.to_code` closure of
the generator is one `Tag` here and `renderNode` is its text.
-/
namespace Einx.Compile

inductive Tag where
  | call                         -- args: f :: positional ++ keyword (`kw` nodes)     `f(a, k=v)`
  | kw (name : String)           -- args: [v]                                         `name=v`
  | attr (key : String)          -- args: [obj]                                       `obj.key`
  | index                        -- args: obj :: key parts                            `obj[k1, k2]` / `obj[()]`
  | slice (a b c : Bool)         -- args: the parts that are present                  `a:b:c`
  | elem (k : String)            -- args: [container]                                 `c[k]`
  | unop (op : String)           -- `op(x)`
  | unopP (op : String)          -- `(op(x))`
  | binop (op : String)          -- `(x op y)`
  | tuple | list | dict          -- dict args alternate key, value
  | atom (name : String)         -- semantics only: an opaque object (module, constant, graph input, result of an event)
  | bad (why : String)           -- a value the generator cannot handle (Ellipsis, opaque object, bare slice)
deriving DecidableEq, Repr, Inhabited

inductive E where
  | var (v : Nat)
  | lit (code : String)
  | gref (g : Nat)               -- nested `tracer.Graph` (graph operands only)
  | nil
  | cons (hd tl : E)
  | node (tag : Tag) (args : E)
deriving DecidableEq, Repr, Inhabited

namespace E

def ofList : List E → E
  | [] => .nil
  | x :: xs => .cons x (ofList xs)

def toList : E → List E
  | .cons h t => h :: toList t
  | _ => []

theorem toList_ofList (l : List E) : toList (ofList l) = l := by
  induction l with
  | nil => rfl
  | cons x xs ih => simp [ofList, toList, ih]

def mk (tag : Tag) (args : List E) : E := .node tag (ofList args)

/-- Variables occurring in an expression (`used_variables`), in order of occurrence, with repetitions. -/
def vars : E → List Nat
  | .var v => [v]
  | .lit _ => []
  | .gref _ => []
  | .nil => []
  | .cons h t => vars h ++ vars t
  | .node _ a => vars a

/-- Simultaneous substitution of variables. -/
def subst (σ : Nat → E) : E → E
  | .var v => σ v
  | .lit c => .lit c
  | .gref g => .gref g
  | .nil => .nil
  | .cons h t => .cons (subst σ h) (subst σ t)
  | .node tag a => .node tag (subst σ a)

/-- Renaming of variables. -/
def rename (ρ : Nat → Nat) (e : E) : E := subst (fun v => .var (ρ v)) e

end E

/-! ### Text -/

def commaSep (l : List String) : String := ", ".intercalate l

def pairUp : List String → List String
  | k :: v :: rest => (k ++ ": " ++ v) :: pairUp rest
  | _ => []

/-- `slice_to_code` of `_at`. -/
def renderSlice (a b c : Bool) (parts : List String) : String :=
  let (sa, parts) := if a then (parts.headD "", parts.drop 1) else ("", parts)
  let (sb, parts) := if b then (parts.headD "", parts.drop 1) else ("", parts)
  let sc := if c then ":" ++ parts.headD "" else ""
  sa ++ ":" ++ sb ++ sc

def renderNode (tag : Tag) (ss : List String) : String :=
  match tag with
  | .call => ss.headD "" ++ "(" ++ commaSep (ss.drop 1) ++ ")"
  | .kw name => name ++ "=" ++ ss.headD ""
  | .attr key => ss.headD "" ++ "." ++ key
  | .index => ss.headD "" ++ "[" ++ (if (ss.drop 1).isEmpty then "()" else commaSep (ss.drop 1)) ++ "]"
  | .slice a b c => renderSlice a b c ss
  | .elem k => ss.headD "" ++ "[" ++ k ++ "]"
  | .unop op => op ++ "(" ++ ss.headD "" ++ ")"
  | .unopP op => "(" ++ op ++ "(" ++ ss.headD "" ++ "))"
  | .binop op => "(" ++ ss.headD "" ++ " " ++ op ++ " " ++ (ss.drop 1).headD "" ++ ")"
  | .tuple => "(" ++ commaSep ss ++ (if ss.length == 1 then "," else "") ++ ")"
  | .list => "[" ++ commaSep ss ++ "]"
  | .dict => "{" ++ commaSep (pairUp ss) ++ "}"
  | .atom name => "<" ++ name ++ commaSep ss ++ ">"
  | .bad why => "<unsupported " ++ why ++ ">"

mutual
/-- `value_to_code`: the text of an expression under a naming of the variables. -/
def render (nm : Nat → String) : E → String
  | .var v => nm v
  | .lit c => c
  | .gref _ => "<graph>"
  | .nil => ""
  | .cons h t => render nm h ++ render nm t
  | .node tag a => renderNode tag (renderL nm a)
def renderL (nm : Nat → String) : E → List String
  | .cons h t => render nm h :: renderL nm t
  | _ => []
end

/-- `names()`: a, b, …, z, aa, ab, … (`itertools.product(chars, repeat=length)` for length = 1, 2, …). -/
def nameDigits : Nat → Nat → List Char
  | 0, _ => []
  | len + 1, n => nameDigits len (n / 26) ++ [Char.ofNat (97 + n % 26)]

def nameAtAux : Nat → Nat → Nat → Nat → String
  | 0, _, _, _ => "?"
  | fuel + 1, len, block, n => if n < block then String.ofList (nameDigits len n) else nameAtAux fuel (len + 1) (block * 26) (n - block)

def nameAt (n : Nat) : String := nameAtAux 16 1 26 n

end Einx.Compile
