import EinxModel.Compile.Graph
/-!
M6, part 3: the code generator `compiler/python/__init__.py:compile`.

The generator is a memoised depth-first traversal (`_get_expression_for`/`_eval_app`) that emits a
statement after the operands of an application have been handled.  The model splits it into
  1. `visitOrder`  – the traversal order (which applications are reached, and when), and
  2. `emitAll`     – a fold of the per-application rule `emitApp` over that order,
followed by 3. `fuse` (name re-use), 4. name assignment and 5. text rendering.
-/
namespace Einx.Compile

/-! ### Statements -/

inductive Stmt where
  | comment (text : String)
  | import_ (v : Nat) (from_ : Option String) (imp : String)
  | assign (v : Nat) (rhs : E) (eff : Bool)                   -- `eff`: the right-hand side is a call of an opaque callable
  | exprStmt (e : E) (extra : List E)                          -- in-place call; `extra`: further inputs (the aliased operand)
  | update (target : E) (op : String) (value : E) (extra : List E)   -- `x[k] op v`
  | assert_ (cond : E) (msg : Option String) (extra : List E)
  | def_ (v : Nat) (params : List Nat) (body : Nat) (gi : Nat) -- `body`: block id; `gi`: the nested graph
  | param (v : Nat) (t : Nat)                                 -- not text: parameter `v` is bound to graph input `t` on entry
  | constBind (v : Nat) (n : Nat)                             -- not text: `v` is injected into the namespace as constant number `n`
  | return_ (e : E)
deriving Repr, Inhabited, DecidableEq

namespace Stmt

/-- `Statement.inputs` (flattened), as expressions. -/
def inputs : Stmt → List E
  | .comment _ => []
  | .import_ .. => []
  | .assign _ rhs _ => [rhs]
  | .exprStmt e extra => extra ++ [e]
  | .update t _ v extra => [t, v] ++ extra
  | .assert_ c _ extra => extra ++ [c]
  | .def_ .. => []
  | .param .. => []
  | .constBind .. => []
  | .return_ e => [e]

/-- `Statement.input_variables`. -/
def inputVars (s : Stmt) : List Nat := s.inputs.flatMap E.vars

/-- `Statement.output_variables`. -/
def outputVars : Stmt → List Nat
  | .import_ v .. => [v]
  | .assign v _ _ => [v]
  | .def_ v .. => [v]
  | .param v _ => [v]
  | .constBind v _ => [v]
  | _ => []

end Stmt

/-- A statement with the index of the application that produced it. -/
structure SStmt where
  stmt : Stmt
  src : Option Nat
deriving Repr, Inhabited, DecidableEq

structure VarInfo where
  block : Nat
  reuse : Bool          -- `allow_reusing_name`
deriving Repr, Inhabited, DecidableEq

/-! ### 1. Traversal order -/

inductive Visit where
  | app (i : Nat)
  | enter (g : Nat)
  | exit (g : Nat)
deriving Repr, Inhabited, DecidableEq

/-- `CodeObject._to_key`, structurally: containers are keyed by the keys of their elements. Scalars inside a
container get a key that is never registered.  Dicts are not looked up (their key sorts object addresses). -/
def keyOf : E → Option E
  | .var t => some (.var t)
  | .gref g => some (.gref g)
  | .node .tuple a => some (.node .tuple (keyL a))
  | .node .list a => some (.node .list (keyL a))
  | _ => none
where keyL : E → E
  | .cons h t => .cons ((keyOf h).getD (.node (.bad "scalar") .nil)) (keyL t)
  | _ => .nil

structure OState where
  registered : List E := []
  order : List Visit := []
deriving Repr, Inhabited

/-- Keys registered by `CodeObject.__setitem__(obj, _)` (the object and, for lists/tuples, every element). -/
def regKeys : E → List E
  | .node .tuple a => ((keyOf (.node .tuple a)).toList) ++ regKeysL a
  | .node .list a => ((keyOf (.node .list a)).toList) ++ regKeysL a
  | e => (keyOf e).toList
where regKeysL : E → List E
  | .cons h t => regKeys h ++ regKeysL t
  | _ => []

/-- Key parts of `_at`: a tuple key is a list of slices, anything else one slice. -/
def keyParts : E → List E
  | .node .tuple a => a.toList
  | k => [k]

/-- Operands of an application in the order in which `_eval_app` asks for their expressions. -/
def App.genOperands : App → List E
  | .call fn args kwargs _ _ => fn :: args ++ kwargs.map (·.2)
  | .callInplace xs fn args kwargs _ _ => xs :: fn :: args ++ kwargs.map (·.2)
  | .getattr obj _ _ => [obj]
  | .getitem obj key _ => obj :: (keyParts key).flatMap (fun | .node (.slice ..) a => a.toList | p => [p])
  | .updateitem obj key value _ _ => obj :: (keyParts key).flatMap (fun | .node (.slice ..) a => a.toList | p => [p]) ++ [value, obj]
  | .import_ .. => []
  | .operator _ operands _ => operands
  | .builtin .. => []
  | .assert_ xs cond _ _ => [xs, cond]
  | .constant .. => []
  | .cast input _ => [input]

def isRegistered (reg : List E) (x : E) : Bool :=
  match keyOf x with
  | some k => reg.contains k
  | none => false

/-- The traversal of `_get_expression_for`: post-order over operands, memoised by registered keys. -/
def visit (g : Graph) : Nat → E → OState → Except String OState
  | 0, _, _ => .error "RecursionError"
  | fuel + 1, x, st =>
    if isRegistered st.registered x then .ok st else
    match x with
    | .var t =>
      match g.originOf t with
      | none => .error "AssertionError: tracer with no origin"
      | some (i, a) => do
        let st ← a.genOperands.foldlM (fun st o => visit g fuel o st) st
        pure { registered := st.registered ++ regKeys a.out, order := st.order ++ [.app i] }
    | .lit _ => .ok st
    | .node .tuple a | .node .list a | .node .dict a => a.toList.foldlM (fun st o => visit g fuel o st) st
    | .gref i =>
      match g.graphs[i]? with
      | none => .error "bad graph reference"
      | some sg => do
        let st := { registered := st.registered ++ [.gref i] ++ sg.inputs.map .var, order := st.order ++ [.enter i] }
        let st ← visit g fuel sg.output st
        pure { st with order := st.order ++ [.exit i] }
    | _ => .error "NotImplementedError: value"

def Graph.fuel (g : Graph) : Nat := 4 * (g.apps.length + g.graphs.length) + 64

def visitOrder (g : Graph) : Except String (List Visit) := do
  let st ← visit g g.fuel g.top {}
  pure st.order

/-! ### 2. Emission -/

structure GState where
  cache : List (E × E) := []          -- `cached_expressions`
  vars : List VarInfo := []           -- variables in creation order (id = position)
  hints : List (Nat × String) := []   -- `name_hints`
  consts : List Nat := []             -- `variableid_to_constant` (variables, in order)
  comments : List String := []        -- header of the root block, in text order
  body : List (Nat × SStmt) := []     -- (block, statement) in emission order (imports included; the layout hoists them)
deriving Repr, Inhabited

/-- Static context of one compilation. -/
structure Ctx where
  g : Graph
  cfg : UCfg
  counts : Counts
  scopes : Scopes

def Ctx.blockFor (c : Ctx) (x : E) : Except String Nat := c.scopes.get c.g.fuel x

mutual
/-- `_get_expression_for2` once every operand has been handled. -/
def conv (cache : List (E × E)) : E → Except String E
  | .var t => match assocGet cache (.var t) with
    | some e => .ok e
    | none => .error "operand not evaluated"
  | .gref i => match assocGet cache (.gref i) with
    | some e => .ok e
    | none => .error "operand not evaluated"
  | .lit c => .ok (.lit c)
  | .nil => .ok .nil
  | .cons h t => do pure (.cons (← conv cache h) (← convL cache t))
  | .node tag a =>
    match tag with
    | .tuple | .list =>
      match (keyOf (.node tag a)).bind (assocGet cache) with
      | some e => .ok e
      | none => do pure (.node tag (← convL cache a))
    | .dict => do pure (.node tag (← convL cache a))
    | .slice x y z => do pure (.node (.slice x y z) (← convL cache a))     -- only below `index`
    | _ => .error "NotImplementedError: value"
def convL (cache : List (E × E)) : E → Except String E
  | .cons h t => do pure (.cons (← conv cache h) (← convL cache t))
  | _ => .ok .nil
end

/-- Top-level values handed to `_get_expression_for`: a bare slice is not supported there. -/
def convTop (cache : List (E × E)) (x : E) : Except String E :=
  match x with
  | .node (.slice ..) _ => .error "NotImplementedError: value"
  | _ => conv cache x

/-- `CodeObject.__setitem__`. -/
def setCache : Nat → List (E × E) → E → E → Except String (List (E × E))
  | 0, _, _, _ => .error "fuel"
  | fuel + 1, cache, obj, e =>
    match keyOf obj with
    | none => .error "ValueError: invalid object"
    | some k =>
      if (assocGet cache k).isSome then .error "AssertionError: key already cached" else
      let cache := cache ++ [(k, e)]
      match obj with
      | .node .tuple a | .node .list a =>
        (a.toList.zipIdx).foldlM (fun cache (v, i) => setCache fuel cache v (E.mk (.elem (toString i)) [e])) cache
      | _ => .ok cache

def allowInlineFunctions : List String := ["isinstance", "tuple", "list"]

/-- `origin.function == f` for one of the allow-listed builtins. -/
def isAllowInline (g : Graph) (fn : E) : Bool :=
  match fn with
  | .var t => match g.originOf t with
    | some (_, .builtin name _) => allowInlineFunctions.contains name
    | _ => false
  | _ => false

def convKw (cache : List (E × E)) (kwargs : List (String × E)) : Except String (List E) :=
  kwargs.mapM (fun (k, v) => do pure (E.mk (.kw k) [← convTop cache v]))

/-- `_at`: the indexing expression. -/
def atExpr (cache : List (E × E)) (obj key : E) : Except String E := do
  let o ← convTop cache obj
  let parts ← (keyParts key).mapM (fun p => match p with
    | .node (.slice x y z) a => do pure (E.node (.slice x y z) (← convL cache a))
    | p => convTop cache p)
  pure (E.mk .index (o :: parts))

def replaceNl (s : String) : String := String.ofList (s.toList.map (fun ch => if ch == '\n' then ' ' else ch))

/-- What `_eval_app` does for one application, once the expressions of its operands are known.
The same rule drives the generator (`applyRule`) and the reference evaluation (`Sem.refRule`). -/
inductive Rule where
  /-- `code.define(out, e, no_inline, force_inline)`; `eff`: `e` is a call of an opaque callable. -/
  | define (out e : E) (eff noInline force : Bool)
  /-- append a statement (in-place call, item update, assert), then alias `out` to `e`. -/
  | effect (s : Stmt) (out e : E)
  | import_ (out : Nat) (from_ : Option String) (imp : String) (hint : Option String)
  | constant (out : Nat) (str : String)
deriving Repr, Inhabited, DecidableEq

/-- The per-kind rules of `_eval_app`. -/
def ruleOf (g : Graph) (unaryParens : Bool) (cache : List (E × E)) (a : App) : Except String Rule := do
  match a with
  | .call fn args kwargs _ out =>
    let f ← convTop cache fn
    let as ← args.mapM (convTop cache)
    let ks ← convKw cache kwargs
    let allow := isAllowInline g fn
    pure (.define (.var out) (E.mk .call (f :: as ++ ks)) (!allow) (!allow) false)
  | .callInplace xs fn args kwargs _ out =>
    let x ← convTop cache xs
    let f ← convTop cache fn
    let as ← args.mapM (convTop cache)
    let ks ← convKw cache kwargs
    pure (.effect (.exprStmt (E.mk .call (f :: as ++ ks)) [x]) (.var out) x)
  | .getattr obj key out =>
    let o ← convTop cache obj
    pure (.define (.var out) (E.mk (.attr key) [o]) false false false)
  | .getitem obj key out =>
    let e ← atExpr cache obj key
    pure (.define (.var out) e false false false)
  | .updateitem obj key value op out =>
    let e ← atExpr cache obj key
    let v ← convTop cache value
    let o ← convTop cache obj
    pure (.effect (.update e op v [o]) (.var out) o)
  | .import_ imp from_ as_ out =>
    let hint := match as_ with
      | some n => some n
      | none => if imp.contains '.' then none else some imp
    pure (.import_ out from_ imp hint)
  | .operator op operands out =>
    let os ← operands.mapM (convTop cache)
    match os with
    | [x] => pure (.define (.var out) (E.mk (if unaryParens then .unopP op else .unop op) [x]) false false false)
    | [x, y] => pure (.define (.var out) (E.mk (.binop op) [x, y]) false false false)
    | _ => throw "NotImplementedError: operator arity"
  | .assert_ xs cond msg out =>
    let x ← convTop cache xs
    let cnd ← convTop cache cond
    pure (.effect (.assert_ cnd msg [x]) out x)
  | .builtin name out =>
    pure (.define (.var out) (.lit name) false false false)
  | .cast input out =>
    let x ← convTop cache input
    pure (.define out x false false true)
  | .constant str out =>
    pure (.constant out str)

def GState.set (st : GState) (obj e : E) : Except String GState := do
  pure { st with cache := ← setCache 64 st.cache obj e }

/-- `add_variable_for`. -/
def GState.addVar (c : Ctx) (st : GState) (obj : E) (reuse : Bool) : Except String (Nat × GState) := do
  let block ← c.blockFor obj
  let v := st.vars.length
  let st1 : GState := { st with vars := st.vars ++ [{ block := block, reuse := reuse }] }
  let st2 ← st1.set obj (.var v)
  pure (v, st2)

/-- `CodeObject.define`: the new state and the statements appended (block, statement). -/
def define (c : Ctx) (st : GState) (obj e : E) (eff noInline forceInline : Bool) : Except String (GState × List (Nat × Stmt)) := do
  let n ← usageGet c.counts c.g.fuel obj
  let noInline := noInline || (decide (n > 1) && !(c.cfg.forceInlineWins && forceInline))
  if noInline && forceInline then throw "ValueError: Cannot have both no_inline and force_inline set to True."
  if forceInline || !noInline then
    pure (← st.set obj e, [])
  else
    let (v, st) ← st.addVar c obj true
    let block ← c.blockFor obj
    pure (st, [(block, .assign v e eff)])

/-- The generator's side of a rule. -/
def applyRule (c : Ctx) (st : GState) (r : Rule) : Except String (GState × List (Nat × Stmt)) := do
  match r with
  | .define out e eff noInline force => define c st out e eff noInline force
  | .effect s out e =>
    let block ← c.blockFor out
    let (st, more) ← define c st out e false false true
    pure (st, (block, s) :: more)
  | .import_ out from_ imp hint =>
    let (v, st) ← st.addVar c (.var out) false
    let st := match hint with
      | some n => { st with hints := st.hints ++ [(v, n)] }
      | none => st
    let block ← c.blockFor (.var out)
    if block != 0 then throw "unsupported: import outside the root block"
    pure (st, [(0, .import_ v from_ imp)])
  | .constant out str =>
    let (v, st) ← st.addVar c (.var out) false
    let n := st.consts.length + 1
    pure ({ st with consts := st.consts ++ [v], hints := st.hints ++ [(v, s!"const{n}")],
                    comments := s!"Constant const{n}: {replaceNl str}" :: st.comments }, [(0, .constBind v n)])

/-- `_is_module_attribute`: the operand is an imported module or an attribute chain that starts at one
(fuel = number of applications bounds the chain length). -/
def isModuleChain (g : Graph) : Nat → E → Bool
  | 0, _ => false
  | fuel + 1, .var t =>
    match g.originOf t with
    | some (_, .import_ ..) => true
    | some (_, .getattr obj _ _) => isModuleChain g fuel obj
    | _ => false
  | _, _ => false

/-- Attributes of imported modules and builtins are defined with `force_inline=True` when the extracted switch says so. -/
def patchForce (g : Graph) (cfg : UCfg) (a : App) (r : Rule) : Rule :=
  if cfg.attrForceInline then
    match a, r with
    | .getattr obj _ _, .define out e eff ni f => .define out e eff ni (f || isModuleChain g (g.apps.length + 1) obj)
    | .builtin .., .define out e eff ni _ => .define out e eff ni true
    | _, _ => r
  else r

/-- `_eval_app`. -/
def emitApp (c : Ctx) (a : App) (st : GState) : Except String (GState × List (Nat × Stmt)) := do
  applyRule c st (patchForce c.g c.cfg a (← ruleOf c.g c.cfg.unaryParens st.cache a))

def varOf (cache : List (E × E)) (k : E) : Except String Nat :=
  match assocGet cache k with
  | some (.var v) => .ok v
  | _ => .error "graph variable missing"

def GState.push (st : GState) (src : Option Nat) (new : List (Nat × Stmt)) : GState :=
  { st with body := st.body ++ new.map (fun (b, s) => (b, ⟨s, src⟩)) }

/-- A parameter variable for graph input `t` (and the pseudo statement that binds it on entry). -/
def enterParam (c : Ctx) (st : GState) (t : Nat) : Except String GState := do
  let (v, st) ← st.addVar c (.var t) true
  pure (st.push none [((st.vars[v]?.map (fun i => i.block)).getD 0, .param v t)])

/-- One step of the traversal. -/
def emitVisit (c : Ctx) (st : GState) (v : Visit) : Except String GState := do
  match v with
  | .app i =>
    match c.g.apps[i]? with
    | some a =>
      let (st, new) ← emitApp c a st
      pure (st.push (some i) new)
    | none => throw "bad application index"
  | .enter gi =>
    match c.g.graphs[gi]? with
    | none => throw "bad graph reference"
    | some sg =>
      let (fv, st) ← st.addVar c (.gref gi) true
      let st := match sg.name with
        | some n => { st with hints := st.hints ++ [(fv, n)] }
        | none => st
      sg.inputs.foldlM (enterParam c) st
  | .exit gi =>
    match c.g.graphs[gi]? with
    | none => throw "bad graph reference"
    | some sg =>
      let outer ← c.blockFor (.gref gi)
      let inner ← c.blockFor sg.output
      let fv ← varOf st.cache (.gref gi)
      let params ← sg.inputs.mapM (fun t => varOf st.cache (.var t))
      let r ← convTop st.cache sg.output
      pure (st.push none [(inner, .return_ r), (outer, .def_ fv params inner gi)])

def emitAll (c : Ctx) (order : List Visit) (st : GState) : Except String GState :=
  order.foldlM (emitVisit c) st

/-! ### 3. `fuse`: groups of variables that get the same name -/

/-- Statements of one block in text order. -/
def Stmt.isImport : Stmt → Bool
  | .import_ .. => true
  | _ => false

def Stmt.isParam : Stmt → Bool
  | .param .. => true
  | .constBind .. => true
  | _ => false

/-- `prepend` (comments) and `prepend_after_comments` (imports) put the header of the root block in
reverse order of emission; all other statements are appended. -/
def GState.block (st : GState) (b : Nat) : List SStmt :=
  (if b == 0 then st.comments.map (fun c => ⟨.comment c, none⟩) ++ ((st.body.filter (·.2.stmt.isImport)).map (·.2)).reverse else [])
    ++ (st.body.filter (fun p => p.1 == b && !p.2.stmt.isImport && !p.2.stmt.isParam)).map (·.2)

/-- All statements with their block. -/
def GState.allStmts (st : GState) (nblocks : Nat) : List (Nat × Stmt) :=
  (List.range nblocks).flatMap (fun b => (st.block b).map (fun s => (b, s.stmt)))

/-- Extracted switches of the `fuse` loop (all `true` on the pinned tree). -/
structure FCfg where
  /-- inputs used in a later statement are excluded -/
  checkLater : Bool
  /-- inputs used in another block are excluded -/
  checkBlock : Bool
  /-- `compile` binds a compiled object that is not a variable to a fresh name (otherwise the text lacks it: D7) -/
  bindResult : Bool := false
  /-- the words `names()` refuses because `keyword.iskeyword` says so (empty when the source has no such filter) -/
  nameKeywords : List String := []
  /-- `names()` refuses every name that some variable carries as a name hint (`np`, `op`, `const1`, …) -/
  skipReserved : Bool := false
deriving Repr, DecidableEq, Inhabited

def dedupeNat (l : List Nat) : List Nat := l.foldl (fun acc x => if acc.contains x then acc else acc ++ [x]) []

/-- Merge the group of `v2` into the group of `v1` (`fuse(var1, var2)`). -/
def fuseGroups (grp : List Nat) (v1 v2 : Nat) : List Nat :=
  let g1 := grp[v1]?.getD v1
  let g2 := grp[v2]?.getD v2
  if g1 == g2 then grp else grp.map (fun x => if x == g2 then g1 else x)

/-- The loop over the statements of one block.  `stmts`: (global statement index, statement);
`deps v`: (block, global index) of the statements that use `v`. -/
def fuseBlock (fc : FCfg) (vars : List VarInfo) (deps : Nat → List (Nat × Nat)) :
    List (Nat × Stmt) → List Nat → List Nat → List Nat
  | [], _, grp => grp
  | (sid, s) :: rest, seen, grp =>
    let seen := sid :: seen
    let reuse (v : Nat) : Bool := (vars[v]?.map (·.reuse)).getD false
    let blockOf (v : Nat) : Nat := (vars[v]?.map (·.block)).getD 0
    let outs := (dedupeNat s.outputVars).filter reuse
    let grp :=
      match outs with
      | [o] =>
        let ins := (dedupeNat s.inputVars).filter reuse
        let ins := if fc.checkBlock then ins.filter (fun v => (deps v).all (fun d => d.1 == blockOf v)) else ins
        let ins := if fc.checkLater then ins.filter (fun v => (deps v).all (fun d => seen.contains d.2)) else ins
        match ins with
        | [v] => if blockOf v == blockOf o then fuseGroups grp v o else grp
        | _ => grp
      | _ => grp
    fuseBlock fc vars deps rest seen grp

/-- Number the statements of all blocks and run the `fuse` loop block by block. -/
def fuseAll (fc : FCfg) (st : GState) (nblocks : Nat) : List Nat :=
  let all := (st.allStmts nblocks).zipIdx          -- ((block, stmt), global index)
  let deps (v : Nat) : List (Nat × Nat) := all.filterMap (fun ((b, s), i) => if s.inputVars.contains v then some (b, i) else none)
  (List.range nblocks).foldl (fun grp b =>
    fuseBlock fc st.vars deps ((all.filter (·.1.1 == b)).map (fun ((_, s), i) => (i, s))) [] grp)
    (List.range st.vars.length)

/-! ### 4. Names -/

/-- `next(names)`: the generator `names()` yields `a, b, …, z, aa, ab, …` (`nameAt`) and skips the refused words; the state is
the index of the next candidate.  At most `bad.length` candidates in a row can be refused, hence the fuel. -/
def nextName (bad : List String) : Nat → Nat → Option (String × Nat)
  | 0, _ => none
  | fuel + 1, i => if bad.contains (nameAt i) then nextName bad fuel (i + 1) else some (nameAt i, i + 1)

/-- Group names in the order of the groups' first variables: the single name hint of the group if there
is exactly one, else the next generated name. -/
def assignNames (grp : List Nat) (hints : List (Nat × String)) (bad : List String := []) : List (Nat × String) :=
  let reps := dedupeNat grp
  (reps.foldl (fun (acc : List (Nat × String) × Nat) r =>
    let members := (grp.zipIdx).filterMap (fun (gid, v) => if gid == r then some v else none)
    let hs := hints.filterMap (fun (v, h) => if members.contains v then some h else none)
    match hs with
    | [h] => (acc.1 ++ [(r, h)], acc.2)
    | _ =>
      match nextName bad (bad.length + 1) acc.2 with
      | some (nm, i) => (acc.1 ++ [(r, nm)], i)
      | none => (acc.1 ++ [(r, "?")], acc.2)) ([], 0)).1

/-- The names `names()` refuses: Python keywords and (if the source filters them) all hinted names. -/
def badNames (fc : FCfg) (hints : List (Nat × String)) : List String :=
  fc.nameKeywords ++ (if fc.skipReserved then hints.map (·.2) else [])

def nameOf (grp : List Nat) (names : List (Nat × String)) (v : Nat) : String :=
  match grp[v]? with
  | some r => ((names.find? (·.1 == r)).map (·.2)).getD "?"
  | none => "?"

/-! ### 5. Text -/

def Stmt.head (nm : Nat → String) : Stmt → String
  | .comment t => "# " ++ t
  | .import_ v from_ imp =>
    let code := match from_ with
      | none => "import " ++ imp
      | some f => "from " ++ f ++ " import " ++ imp
    if nm v != imp then code ++ " as " ++ nm v else code
  | .assign v rhs _ => nm v ++ " = " ++ render nm rhs
  | .exprStmt e _ => render nm e
  | .update t op v _ => render nm t ++ " " ++ op ++ " " ++ render nm v
  | .assert_ c msg _ =>
    match msg with
    | some m => "assert " ++ render nm c ++ ", \"" ++ m ++ "\""
    | none => "assert " ++ render nm c
  | .param .. => ""
  | .constBind .. => ""
  | .def_ v params _ _ => "def " ++ nm v ++ "(" ++ commaSep (params.map nm) ++ "):"
  | .return_ e => "return " ++ render nm e

/-- `Block.to_code`. -/
def blockLines (st : GState) (nm : Nat → String) : Nat → Nat → List String
  | 0, _ => ["<fuel>"]
  | fuel + 1, b =>
    (st.block b).flatMap (fun s =>
      match s.stmt with
      | .def_ _ _ body _ => s.stmt.head nm :: (blockLines st nm fuel body).map (fun l => if l == "<fuel>" then l else "    " ++ l)
      | _ => [s.stmt.head nm])

structure Compiled where
  text : String
  evalCode : String
  constants : List String
  st : GState
  grp : List Nat
  order : List Visit
  nblocks : Nat
deriving Repr, Inhabited

/-- `compile(object, return_code=True)`: the text, the expression that is `eval`ed to obtain the compiled
object, and the names under which the constants are injected. -/
def compile (cfg : UCfg) (fc : FCfg) (g : Graph) : Except String Compiled := do
  let scopes ← getScopes g g.fuel
  let counts := (usageRec g cfg g.fuel g.top {}).counts
  let c : Ctx := { g, cfg, counts, scopes }
  let order ← visitOrder g
  let st ← emitAll c order {}
  let obj ← convTop st.cache g.top
  let (st, obj) := match obj with
    | .var _ => (st, obj)
    | e => if fc.bindResult then
        let v := st.vars.length
        let st1 : GState := { st with vars := st.vars ++ [{ block := 0, reuse := false }] }
        (st1.push none [(0, .assign v e false)], E.var v)
      else (st, obj)
  let nblocks := scopes.scopes.length
  let grp := fuseAll fc st nblocks
  let names := assignNames grp st.hints (badNames fc st.hints)
  let nm := nameOf grp names
  -- a `def` whose body block is the block it is defined in (the graph output does not depend on the graph inputs)
  -- makes `Block.to_code` recurse forever
  if (blockLines st nm (nblocks + 1) 0).contains "<fuel>" then throw "RecursionError: Block.to_code"
  pure { text := "\n".intercalate (blockLines st nm (nblocks + 1) 0), evalCode := render nm obj,
         constants := st.consts.map nm, st, grp, order, nblocks }

end Einx.Compile
