import EinxModel.Compile.Sem
import EinxModel.Factory.Check
import EinxModel.Adapt.Model
/-!
Work package "exec": one graph, three views.

The driver decodes the JSON of a captured graph (`tools/lib/graphcap.graph_to_json`) into three graph types:
`Compile.Graph` (C04: the code generator and its semantics), `Factory.Graph` (C13: `factoryOK`, `reachable`) and
`Adapt.Graph` (C15: `adaptOK`).  This file defines the two *translations* `toFactory` and `toAdapt` from the C04 graph
(plus the annotations that the C04 graph does not carry: tracer types/shapes, values of `Constant` nodes) so that the
C13/C15 checkers can be run on the very graph object `compile` is applied to; `Driver/Exec.lean` does exactly that
and additionally compares the translated graphs with the directly decoded ones.

It also defines
  * `Supported`       – the (decidable) node language for which `Props/C13Exec.lean:exec_from_compile` is proved:
                        the compiled object is a graph, no operand mentions a nested graph, every application output is a
                        pytree (tuple/list nesting) of tracers;
  * `appsOf`          – the schedule induced by a traversal: the applications in the order the generator defines them;
  * `taggedTrace`     – the event trace of a list of emitted statements, every event tagged with the application the
                        statement was emitted for (`SStmt.src`).

Core Lean only (compiled into the driver).
-/
namespace Einx.Exec
open Einx.Compile

/-! ### Literals

`Driver/Compile.lean:decodeVal` stores scalars as the Python source text the generator prints (`None`, `True`, `3`,
`"add"`, `2.0`).  The C13/C15 graph types keep them apart by type; `litKind` recovers the type from the text. -/

inductive LitKind where
  | none
  | bool (b : Bool)
  | int (i : Int)
  | str (s : String)
  | float (repr : String)
deriving Repr, DecidableEq, Inhabited

/-- Decimal digits → number (`none` for the empty list or any other character). -/
def parseNat : List Char → Option Nat
  | [] => none
  | cs => cs.foldl (fun acc c => match acc with
      | some n => if 48 ≤ c.toNat && c.toNat ≤ 57 then some (10 * n + (c.toNat - 48)) else none
      | none => none) (some 0)

/-- `str(int)` of Python / `toString` of a Lean `Int`: an optional `-` and decimal digits. -/
def parseInt : List Char → Option Int
  | '-' :: rest => (parseNat rest).map (fun n => -(Int.ofNat n))
  | cs => (parseNat cs).map Int.ofNat

def litKind (s : String) : LitKind :=
  if s == "None" then .none
  else if s == "True" then .bool true
  else if s == "False" then .bool false
  else match s.toList with
    | '"' :: rest =>
      if rest.getLast? == some '"' then .str (String.ofList rest.dropLast) else .float s
    | cs => match parseInt cs with
      | some i => .int i
      | none => .float s

def evens {α : Type} : List α → List α
  | a :: _ :: r => a :: evens r
  | [a] => [a]
  | [] => []

def odds {α : Type} : List α → List α
  | _ :: b :: r => b :: odds r
  | _ => []

/-! ### C04 values → C13 values -/

/-- `slice(a, b, c)`: the C04 value keeps only the parts that are present; the C13 value has `None` atoms for the
absent ones.  Never drops a part. -/
def padSlice : List Bool → List Factory.V → List Factory.V
  | [], ps => ps
  | true :: fs, p :: ps => p :: padSlice fs ps
  | true :: fs, [] => padSlice fs []
  | false :: fs, ps => .atom "none" :: padSlice fs ps

mutual
def toV : E → Factory.V
  | .var t => .ref t
  | .lit s => match litKind s with
    | .int i => .int i
    | .str s => .str s
    | .none => .atom "none"
    | .bool _ => .atom "bool"
    | .float _ => .atom "float"
  | .gref _ => .atom "graph"
  | .nil => .atom "?"
  | .cons _ _ => .atom "?"
  | .node tag a =>
    match tag with
    | .tuple => .seq "tuple" (toVL a)
    | .list => .seq "list" (toVL a)
    | .dict => .seq "dict" (evens (toVL a) ++ odds (toVL a))
    | .slice x y z => .seq "slice" (padSlice [x, y, z] (toVL a))
    | .bad why => .atom (if why == "Ellipsis" then "ellipsis" else "obj")
    | _ => .atom "?"
termination_by structural e => e
def toVL : E → List Factory.V
  | .cons h t => toV h :: toVL t
  | _ => []
termination_by structural e => e
end

def toNode : App → Factory.GNode
  | .call fn args kwargs deps _ => .call (toV fn) (args.map toV) (kwargs.map (fun kv => (kv.1, toV kv.2))) (deps.map toV)
  | .callInplace xs fn args kwargs _ _ =>
    .other "call_inplace" ([toV xs, toV fn] ++ args.map toV ++ (kwargs.map (fun kv => (kv.1, toV kv.2))).map (·.2))
  | .getattr obj key _ => .getattr (toV obj) key
  | .getitem obj key _ => .other "getitem" [toV obj, toV key]
  | .updateitem obj key value _ _ => .other "updateitem" [toV obj, toV key, toV value]
  | .import_ .. => .other "import" []
  | .operator op operands _ => .operator op (operands.map toV)
  | .builtin name _ => .builtin name
  | .assert_ xs cond _ _ => .assert (toV xs) (toV cond)
  | .constant .. => .other "constant" []
  | .cast input _ => .cast (toV input)

def toGApp (a : App) : Factory.GApp := ⟨toNode a, toV a.out⟩

/-- What the C04 graph does not say about a tracer. -/
structure TAux where
  ty : String := "value"
  shape : Option (List Nat) := none
  concrete : String := ""
deriving Repr, Inhabited

def toTracers (origin : List (Option Nat)) (aux : List TAux) : List Factory.TInfo :=
  origin.zipIdx.map (fun p => let a := (aux[p.2]?).getD {}; ⟨a.ty, a.shape, a.concrete, p.1⟩)

/-- The compiled object as a C13 graph: defined when the compiled object is a `tracer.Graph` (`top = gref k`). -/
def toFactory (g : Graph) (aux : List TAux) : Option Factory.Graph :=
  match g.top with
  | .gref k =>
    match g.graphs[k]? with
    | some sg => some { inputs := sg.inputs, output := toV sg.output, apps := g.apps.map toGApp,
                        tracers := toTracers g.origin aux }
    | none => none
  | _ => none

/-! ### C04 values → C15 values -/

mutual
def toVal : E → Adapt.Val
  | .var t => .ref t
  | .lit s => match litKind s with
    | .int i => .int i
    | .str s => .str s
    | .none => .none
    | .bool b => .bool b
    | .float r => .float r
  | .gref _ => .other "graph"
  | .nil => .other "?"
  | .cons _ _ => .other "?"
  | .node tag a =>
    match tag with
    | .tuple => .tuple (toValL a)
    | .list => .list (toValL a)
    | .dict => .dict (evens (toValL a)) (odds (toValL a))
    | .slice .. => .other "slice"
    | .bad why => .other (if why == "Ellipsis" then "ellipsis" else "object")
    | _ => .other "?"
termination_by structural e => e
def toValL : E → List Adapt.Val
  | .cons h t => toVal h :: toValL t
  | _ => []
termination_by structural e => e
end

def toKw (kwargs : List (String × E)) : List (String × Adapt.Val) := kwargs.map (fun kv => (kv.1, toVal kv.2))

/-- `constVal`: the value a `Constant` application holds (the C04 graph keeps only its `str`). -/
def toAdaptApp (constVal : Option Adapt.Val) : App → Adapt.App
  | .call fn args kwargs _ out => .call (toVal fn) (args.map toVal) (toKw kwargs) (.ref out)
  | .callInplace xs fn args kwargs _ out =>
    .other "call_inplace" ([toVal xs, toVal fn] ++ args.map toVal ++ (toKw kwargs).map (·.2)) (.ref out)
  | .getattr obj key out => .getattr (toVal obj) key out
  | .getitem obj key out => .other "getitem" [toVal obj, toVal key] (.ref out)
  | .updateitem obj key value _ out => .other "updateitem" [toVal obj, toVal key, toVal value] (.ref out)
  | .import_ imp from_ _ out => if from_.isSome then .other "from-import" [] (.ref out) else .import_ imp out
  | .operator op operands out => .operator op (operands.map toVal) out
  | .builtin name out => .builtin name out
  | .assert_ xs cond _ out =>
    match out with
    | .var o => .assert_ (toVal xs) (toVal cond) o
    | o => .other "assert" [toVal xs, toVal cond] (toVal o)
  | .constant _ out => .constant (constVal.getD (.other "constant")) out
  | .cast input out => .cast (toVal input) (toVal out)

/-- The compiled object as a C15 graph.  `shapes`: traced tensor shapes; `constVals`: value per application index. -/
def toAdapt (g : Graph) (shapes : List (Nat × List Nat)) (constVals : List (Option Adapt.Val)) : Option Adapt.Graph :=
  match g.top with
  | .gref k =>
    match g.graphs[k]? with
    | some sg => some { apps := g.apps.zipIdx.map (fun p => toAdaptApp ((constVals[p.2]?).getD none) p.1),
                        shapes := shapes, output := toVal sg.output }
    | none => none
  | _ => none

/-! ### The node language of the theorems -/

mutual
/-- A pytree of tracers: a tracer, or a tuple/list of such. -/
def isVarTree : E → Bool
  | .var _ => true
  | .node tag a =>
    match tag with
    | .tuple => isVarTreeL a
    | .list => isVarTreeL a
    | _ => false
  | _ => false
termination_by structural e => e
def isVarTreeL : E → Bool
  | .cons h t => isVarTree h && isVarTreeL t
  | .nil => true
  | _ => false
termination_by structural e => e
end

/-- The restriction under which `exec_from_compile` is proved (decidable; the harness evaluates it on every captured
graph): the compiled object is a graph, its applications mention no nested graph (nested graphs only arise from
`vmap`-style adapters, which cannot run here), and every application's output is a pytree of tracers. -/
def Supported (g : Graph) : Bool :=
  (match g.top with
   | .gref k => (g.graphs[k]?).isSome
   | _ => false) &&
  g.apps.all (fun a => a.genOperands.all (fun o => o.grefsOf.isEmpty)) &&
  g.apps.all (fun a => isVarTree a.out)

/-! ### Schedules and tagged traces -/

/-- The applications of a traversal, in order: the schedule in which the emitted program defines graph nodes. -/
def appsOf : List Visit → List Nat
  | [] => []
  | .app i :: rest => i :: appsOf rest
  | _ :: rest => appsOf rest

/-- `Exec` of `Props/C13.lean` as a Bool (for the driver). -/
def execOK (g : Factory.Graph) (sched : List Nat) : Bool :=
  decide sched.Nodup && sched.all (fun i => (Factory.reachable g).contains i) &&
  (Factory.reachable g).all (fun i => sched.contains i)

/-- Events of a statement list, each tagged with the application its statement was emitted for. -/
def taggedTrace (x : XState) : List SStmt → List (Option Nat × Event)
  | [] => []
  | s :: rest =>
    ((execStmt x s.stmt).trace.drop x.trace.length).map (fun e => (s.src, e)) ++ taggedTrace (execStmt x s.stmt) rest

/-- The emitted statements with their sources, in emission order. -/
def sstmts (st : GState) : List SStmt := st.body.map (·.2)

def isTag (i : Nat) (p : Option Nat × Event) : Bool := p.1 == some i

/-- Is this tagged event produced by a node that calls (a cast of) graph input `t`? -/
def byCallerOf (fg : Factory.Graph) (t : Nat) (p : Option Nat × Event) : Bool :=
  match p.1 with
  | some j => Factory.callsInput fg t j
  | none => false

/-- Is this tagged event produced by a node that calls tracer `c` directly (C15: the user constant)? -/
def byCallOf (ag : Adapt.Graph) (c : Nat) (p : Option Nat × Event) : Bool :=
  match p.1 with
  | some j => (match ag.apps[j]? with | some a => Adapt.isCallOf c a | none => false)
  | none => false

/-- Is application `j` a call whose function operand is (directly) tracer `c`? -/
def callsTracer (ag : Adapt.Graph) (c : Nat) (j : Nat) : Bool :=
  match ag.apps[j]? with
  | some a => Adapt.isCallOf c a
  | none => false

/-- C15 premise (decidable; `adaptOK` does not ask for it): every call of tracer `c` is reachable from the graph output. -/
def callsReachable (ag : Adapt.Graph) (fg : Factory.Graph) (c : Nat) : Bool :=
  (List.range ag.apps.length).all (fun j => !callsTracer ag c j || (Factory.reachable fg).contains j)

/-- Head and arguments of a call term `f(a…, k=v…)`. -/
def callParts : E → Option (E × List E)
  | .node .call (.cons f rest) => some (f, rest.toList)
  | _ => none

/-- Name of a keyword argument term. -/
def kwName : E → Option String
  | .node (.kw k) _ => some k
  | _ => none

def isKw (e : E) : Bool := (kwName e).isSome

/-- A call event whose function term satisfies `q`. -/
def trackedCall (q : E → Bool) : Event → Bool
  | .call t =>
    match callParts t with
    | some (f, _) => q f
    | none => false
  | _ => false

/-- Is this term a constant object injected into the namespace (`constAtom n`)? -/
def isConstAtom : E → Bool
  | .node (.atom nm) _ => nm == "const"
  | _ => false

/-- Is this term the object passed as graph input `t`? -/
def isInAtom (t : Nat) (e : E) : Bool := e == inAtom t

/-- C13 premise of the value-level theorem (decidable): the fuel of `Factory.root` suffices — one step less gives the same root. -/
def rootStable (fg : Factory.Graph) : Bool :=
  (List.range fg.tracers.length).all (fun x =>
    Factory.rootF fg (fg.tracers.length - 1) x == Factory.rootF fg fg.tracers.length x)

/-- C13 premise of the value-level theorem (decidable): a `Cast` of a tracer that denotes graph input `t` yields a single tracer
(casts of other values, e.g. of the tuple an operation returns, may yield pytrees). -/
def castsPlain (g : Graph) (fg : Factory.Graph) (t : Nat) : Bool :=
  g.apps.all (fun a => match a with
    | .cast (.var x) o => Factory.root fg x != t || (match o with | .var _ => true | _ => false)
    | _ => true)

/-- Positional arguments and keyword names of a call event. -/
def callShape : Event → Option (E × List E × List String)
  | .call t =>
    match callParts t with
    | some (f, rest) => some (f, rest.filter (fun e => !isKw e), rest.filterMap kwName)
    | none => none
  | _ => none

end Einx.Exec
