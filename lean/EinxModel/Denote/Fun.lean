import EinxModel.Denote.Expr
import EinxModel.Update.Model
/-
M3 (functional form): the loop-notation denotation of `Denote/Expr.lean` for concatenation-free
expressions, written without `for` loops: one entry per assignment of the output axes (`List.map` /
`mapOpt` over `assignments`), scattered into the flat output.  This is the form the C08 theorems are
stated about; `Driver/Denote.lean` (kind `denote_fun`) runs it next to `denoteId`/`denoteElementwise`
and the harness compares both on every generated case.

Also here: renaming of axis names, permutation of root dimensions, and substitution of symbolic
tensors into cells (composition of rearrangements).
-/
namespace Einx.Denote
open Einx Einx.IR
open Einx.Update (mapOpt)

/-! ### concatenation-free dimensions -/

mutual
def Dim.concatFree : Dim → Bool
  | .axis _ => true
  | .flat ds => Dim.concatFreeL ds
  | .concat _ => false
  | .off _ _ _ => false
def Dim.concatFreeL : List Dim → Bool
  | [] => true
  | d :: ds => d.concatFree && Dim.concatFreeL ds
end

mutual
def Expr.concatFree : Expr → Bool
  | .axis _ _ => true
  | .list cs => Expr.concatFreeL cs
  | .flat e => e.concatFree
  | .concat _ => false
  | .br e => e.concatFree
def Expr.concatFreeL : List Expr → Bool
  | [] => true
  | c :: cs => c.concatFree && Expr.concatFreeL cs
end

/-! ### cells read through a view -/

/-- Flat (row-major) position in a tensor of shape `shape` that the view addresses under `σ`. -/
def flatPos (view : List Dim) (shape : List Nat) (σ : Assign) : Option Nat :=
  (position view σ).map (ravel shape)

/-- The element of input `i` (of shape `shape`) that the view reads under the assignment `σ`. -/
def cellAt (view : List Dim) (shape : List Nat) (i : Nat) (σ : Assign) : Option Cell :=
  (flatPos view shape σ).map (Cell.src i)

/-- Write the entries (flat position, cell), in order, into a flat output with `n` elements. -/
def scatter (n : Nat) (entries : List (Nat × Cell)) : List (Option Cell) :=
  entries.foldl (fun acc e => acc.set e.1 (some e.2)) (List.replicate n none)

/-- All cells of the output, or `none` if some position was never written. -/
def gatherAll (n : Nat) (entries : List (Nat × Cell)) : Option (List Cell) :=
  mapOpt id (scatter n entries)

/-! ### id -/

/-- What `id` writes for the output assignment `σ`: (flat output position, cell of the input). -/
def idEntry (vi : List Dim) (si : List Nat) (i : Nat) (vo : List Dim) (so : List Nat) (σ : Assign) :
    Option (Nat × Cell) :=
  match extend σ (Dim.leavesL vi) with
  | none => none
  | some σ' =>
    match flatPos vo so σ, cellAt vi si i σ' with
    | some po, some c => some (po, c)
    | _, _ => none

/-- The iteration space of an output view: all assignments of its distinct axis names. -/
def outAssignments (vo : List Dim) : List Assign := assignments (axesOf (Dim.leavesL vo))

/-- All entries of one virtual input/output pair (`none` if some assignment has no entry). -/
def idEntries (vi : List Dim) (si : List Nat) (i : Nat) (vo : List Dim) (so : List Nat) :
    Option (List (Nat × Cell)) :=
  mapOpt (idEntry vi si i vo so) (outAssignments vo)

/-- The data of the symbolic output of one concatenation-free pair. -/
def idCells (vi : List Dim) (si : List Nat) (i : Nat) (vo : List Dim) (so : List Nat) : Option (List Cell) :=
  match idEntries vi si i vo so with
  | some es => gatherAll (prod so) es
  | none => none

def denoteIdFun1 (vi : List Dim) (si : List Nat) (i : Nat) (vo : List Dim) (so : List Nat) : E (Tensor Cell) :=
  match idCells vi si i vo so with
  | some cs => pure ⟨so, cs⟩
  | none => throw "id: an axis is unassigned, or the output is not fully defined"

def rootDims (e : Expr) : List Dim := dims false e

/-- `id` on concatenation-free expressions: the k-th output is the k-th input seen through the k-th
output expression. -/
def denoteIdFun (exprsIn exprsOut : List Expr) : E (List (Tensor Cell)) :=
  if !(Expr.concatFreeL exprsIn && Expr.concatFreeL exprsOut) then throw "concatenation: use Denote.denoteId"
  else if exprsIn.length != exprsOut.length then throw "number of virtual inputs and outputs differs"
  else
    (List.zip exprsIn.zipIdx exprsOut).mapM (fun (p : (Expr × Nat) × Expr) =>
      denoteIdFun1 (rootDims p.1.1) (shapeOf p.1.1) p.1.2 (rootDims p.2) (shapeOf p.2))

/-! ### elementwise -/

/-- The argument cells of the elementary function under `σ`: one per input view. -/
def ewArgs (ins : List (List Dim × List Nat)) (σ : Assign) : Option (List Cell) :=
  mapOpt (fun (p : (List Dim × List Nat) × Nat) =>
    match extend σ (Dim.leavesL p.1.1) with
    | some σ' => cellAt p.1.1 p.1.2 p.2 σ'
    | none => none) ins.zipIdx

def ewEntry (f : String) (ins : List (List Dim × List Nat)) (vo : List Dim) (so : List Nat) (σ : Assign) :
    Option (Nat × Cell) :=
  match ewArgs ins σ, flatPos vo so σ with
  | some args, some po => some (po, .app f args)
  | _, _ => none

def ewCells (f : String) (ins : List (List Dim × List Nat)) (vo : List Dim) (so : List Nat) : Option (List Cell) :=
  match mapOpt (ewEntry f ins vo so) (outAssignments vo) with
  | some es => gatherAll (prod so) es
  | none => none

def denoteElementwiseFun (f : String) (exprsIn : List Expr) (exprOut : Expr) : E (Tensor Cell) :=
  if !(Expr.concatFreeL exprsIn && exprOut.concatFree) then throw "concatenation not allowed here"
  else
    match ewCells f (exprsIn.map (fun e => (rootDims e, shapeOf e))) (rootDims exprOut) (shapeOf exprOut) with
    | some cs => pure ⟨shapeOf exprOut, cs⟩
    | none => throw "elementwise: an axis is unassigned, or the output is not fully defined"

/-! ### renaming -/

def Leaf.rename (ρ : String → String) (l : Leaf) : Leaf := { l with name := ρ l.name }

mutual
def Dim.rename (ρ : String → String) : Dim → Dim
  | .axis l => .axis (l.rename ρ)
  | .flat ds => .flat (Dim.renameL ρ ds)
  | .concat ds => .concat (Dim.renameL ρ ds)
  | .off o d t => .off o (d.rename ρ) t
def Dim.renameL (ρ : String → String) : List Dim → List Dim
  | [] => []
  | d :: ds => d.rename ρ :: Dim.renameL ρ ds
end

def Assign.rename (ρ : String → String) (σ : Assign) : Assign := σ.map (fun p => (ρ p.1, p.2))

mutual
def Expr.rename (ρ : String → String) : Expr → Expr
  | .axis n v => .axis (ρ n) v
  | .list cs => .list (Expr.renameL ρ cs)
  | .flat e => .flat (e.rename ρ)
  | .concat cs => .concat (Expr.renameL ρ cs)
  | .br e => .br (e.rename ρ)
def Expr.renameL (ρ : String → String) : List Expr → List Expr
  | [] => []
  | c :: cs => c.rename ρ :: Expr.renameL ρ cs
end

/-! ### permutation of root dimensions (numpy convention: result dimension `j` is source dimension `perm[j]`) -/

def permuteL {α : Type} (perm : List Nat) (l : List α) : Option (List α) := mapOpt (fun a => l[a]?) perm

/-- `perm` lists every index below `n` and nothing else (executable; the guard of `np.transpose`). -/
def isPermOf (perm : List Nat) (n : Nat) : Bool := isPerm perm n && perm.all (· < n)

/-! ### substitution: composition of symbolic tensors -/

/-- Replace every `src r k` by element `k` of the symbolic tensor `ts[r]`: the symbolic result of feeding
the tensors `ts` into an operation whose symbolic result contains the cell. -/
def subst (ts : List (Tensor Cell)) (c : Cell) : Cell := evalCell symAlg ts c

def substT (ts : List (Tensor Cell)) (t : Tensor Cell) : Tensor Cell := t.map (subst ts)

end Einx.Denote
