import EinxModel.Denote.Fun
import EinxModel.Denote.Expr2
/-
M3 (functional form, continued): a loop-free form of `Denote.denoteReduce` and `Denote.denoteDot`
(`Denote/Expr2.lean`) for concatenation-free expressions, and the common shape of all functional
denotations: one cell `X σ` per assignment `σ` of the output axes, scattered into the flat output
(`genCells`).  `Proofs/DenoteReduce.lean` proves the functional forms equal to the executable loop forms.
-/
namespace Einx.Denote
open Einx Einx.IR
open Einx.Update (mapOpt)

/-! ### the common shape: one cell per output assignment -/

def genEntry (X : Assign → Option Cell) (vo : List Dim) (so : List Nat) (σ : Assign) : Option (Nat × Cell) :=
  match X σ, flatPos vo so σ with
  | some c, some po => some (po, c)
  | _, _ => none

def genCells (X : Assign → Option Cell) (vo : List Dim) (so : List Nat) : Option (List Cell) :=
  match mapOpt (genEntry X vo so) (outAssignments vo) with
  | some es => gatherAll (prod so) es
  | none => none

/-! ### reductions -/

/-- The bracketed axes of a view (distinct names with sizes, in order of first occurrence). -/
def markedAxes (v : List Dim) : List (String × Nat) := axesOf ((Dim.leavesL v).filter (·.marked))

/-- The input element read for the output assignment `σ` and the assignment `τ` of the bracketed axes. -/
def redCell (v : List Dim) (s : List Nat) (σ τ : Assign) : Option Cell :=
  match inputAssign σ τ (Dim.leavesL v) with
  | some a => cellAt v s 0 a
  | none => none

/-- All input elements reduced into the output element of `σ`, in iteration order. -/
def redArgs (v : List Dim) (s : List Nat) (σ : Assign) : Option (List Cell) :=
  mapOpt (redCell v s σ) (assignments (markedAxes v))

def redX (f : String) (v : List Dim) (s : List Nat) (σ : Assign) : Option Cell := (redArgs v s σ).map (mkRed f)

def reduceCells (f : String) (v : List Dim) (s : List Nat) (vo : List Dim) (so : List Nat) : Option (List Cell) :=
  genCells (redX f v s) vo so

def denoteReduceFun (f : String) (e eo : Expr) : E (Tensor Cell) :=
  if !(e.concatFree && eo.concatFree) then throw "concatenation not allowed here"
  else
    match reduceCells f (rootDims e) (shapeOf e) (rootDims eo) (shapeOf eo) with
    | some cs => pure ⟨shapeOf eo, cs⟩
    | none => throw "reduce: an axis is unassigned, or the output is not fully defined"

/-! ### dot -/

/-- The contracted axes of a dot: bracketed axes of all inputs, in order of first occurrence. -/
def dotMarked (ins : List (List Dim × List Nat)) : List (String × Nat) :=
  axesOf ((ins.flatMap (fun p => Dim.leavesL p.1)).filter (·.marked))

/-- The element of input `q.2` (view and shape `q.1`) that enters the product for `σ` (output axes) and `τ`
(contracted axes): an axis contracted elsewhere may occur un-bracketed here, so `τ` is consulted first. -/
def dotFactor (σ τ : Assign) (q : (List Dim × List Nat) × Nat) : Option Cell :=
  match inputAssign (τ ++ σ) τ (Dim.leavesL q.1.1) with
  | some a => cellAt q.1.1 q.1.2 q.2 a
  | none => none

def dotTerm (ins : List (List Dim × List Nat)) (σ τ : Assign) : Option Cell :=
  (mapOpt (dotFactor σ τ) ins.zipIdx).map mkProd

def dotArgs (ins : List (List Dim × List Nat)) (σ : Assign) : Option (List Cell) :=
  mapOpt (dotTerm ins σ) (assignments (dotMarked ins))

def dotX (ins : List (List Dim × List Nat)) (σ : Assign) : Option Cell := (dotArgs ins σ).map (mkRed "sum")

def dotCells (ins : List (List Dim × List Nat)) (vo : List Dim) (so : List Nat) : Option (List Cell) :=
  genCells (dotX ins) vo so

def denoteDotFun (exprsIn : List Expr) (exprOut : Expr) : E (Tensor Cell) :=
  if !(Expr.concatFreeL exprsIn && exprOut.concatFree) then throw "concatenation not allowed here"
  else
    match dotCells (exprsIn.map (fun e => (rootDims e, shapeOf e))) (rootDims exprOut) (shapeOf exprOut) with
    | some cs => pure ⟨shapeOf exprOut, cs⟩
    | none => throw "dot: an axis is unassigned, or the output is not fully defined"

/-! ### re-canonicalisation after a substitution -/

/-- Sort the arguments of an application again (what `mkRed` does for the reduction symbol): substituting
tensors into a canonical reduction cell permutes its arguments. -/
def Cell.resort : Cell → Cell
  | .app g args => .app g (sortCells args)
  | c => c

end Einx.Denote

namespace Einx.Denote
open Einx Einx.IR
open Einx.Update (mapOpt)

/-! ### id with concatenations: the general functional form -/

/-- The virtual (concatenation-free) inputs of `id`, in einx's enumeration order, with the index and the shape of the
real input tensor they are a block of. -/
def idVin (exprsIn : List Expr) : List (List Dim × Nat × List Nat) :=
  (exprsIn.zipIdx).flatMap (fun (x : Expr × Nat) => (views x.1).map (fun v => (v, x.2, shapeOf x.1)))

/-- The virtual outputs with the index of the real output tensor they are a block of. -/
def idVout (exprsOut : List Expr) : List (List Dim × Nat) :=
  (exprsOut.zipIdx).flatMap (fun (x : Expr × Nat) => (views x.1).map (fun v => (v, x.2)))

/-- The entries that the `j`-th pair (virtual input, virtual output) writes into its real output tensor. -/
def idPairEntries (exprsOut : List Expr) (x : (List Dim × Nat × List Nat) × (List Dim × Nat)) : Option (List (Nat × Cell)) :=
  mapOpt (idEntry x.1.1 x.1.2.2 x.1.2.1 x.2.1 (shapeOf (exprsOut.getD x.2.2 (Expr.list []))))
    (assignments (axesOf (Dim.leavesL x.2.1)))

/-- All entries written into real output `k`, in order. -/
def entriesFor (k : Nat) (kes : List (Nat × List (Nat × Cell))) : List (Nat × Cell) :=
  (kes.filter (fun ke => ke.1 == k)).flatMap (fun ke => ke.2)

/-- `id` for arbitrary solved expressions (concatenations included), without loops: pair the virtual inputs with the
virtual outputs, collect the entries of every pair, and gather per real output tensor. -/
def denoteIdFunG (exprsIn exprsOut : List Expr) : Option (List (Tensor Cell)) :=
  let ps := List.zip (idVin exprsIn) (idVout exprsOut)
  if (idVin exprsIn).length != (idVout exprsOut).length then none
  else
    match mapOpt (idPairEntries exprsOut) ps with
    | none => none
    | some ess =>
      mapOpt (fun (x : Expr × Nat) =>
        (gatherAll (prod (shapeOf x.1)) (entriesFor x.2 (List.zip (ps.map (fun p => p.2.2)) ess))).map
          (fun cs => (⟨shapeOf x.1, cs⟩ : Tensor Cell))) exprsOut.zipIdx

end Einx.Denote
