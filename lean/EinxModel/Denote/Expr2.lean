import EinxModel.Denote.Expr
import EinxModel.IR.PrimX
/-
M3 (continued): symbolic loop-notation denotation of reductions, dot, flip and roll.
-/
namespace Einx.Denote
open Einx Einx.IR

/-- Assignment for an input view: marked axes from `τ`, un-marked ones from `σ` (length-1 axes that are
missing from `σ` are 0). -/
def inputAssign (σ τ : Assign) (ls : List Leaf) : Option Assign :=
  ls.foldlM (fun (acc : Assign) l =>
    if l.marked then
      match τ.get l.name with
      | some v => some (if (acc.get l.name).isSome then acc else acc ++ [(l.name, v)])
      | none => none
    else
      match acc.get l.name with
      | some _ => some acc
      | none =>
        match σ.get l.name with
        | some v => some (acc ++ [(l.name, v)])
        | none => if l.size == 1 then some (acc ++ [(l.name, 0)]) else none) []

def fillOutput (so : List Nat) (entries : List (List Nat × Cell)) : E (Tensor Cell) := do
  let out := entries.foldl (fun (acc : List (Option Cell)) (p, c) => acc.set (ravel so p) (some c)) (List.replicate (prod so) none)
  let cs ← out.mapM (optE "output not fully defined")
  pure ⟨so, cs⟩

/-- Reduction: `out[σ] = f { in[σ ∪ τ] : τ over the bracketed axes }`. -/
def denoteReduce (f : String) (exprIn exprOut : Expr) : E (Tensor Cell) := do
  let vi ← singleView exprIn
  let vo ← singleView exprOut
  let li := Dim.leavesL vi
  let si := shapeOf exprIn
  let marked := axesOf (li.filter (·.marked))
  let mut entries : List (List Nat × Cell) := []
  for σ in assignments (axesOf (Dim.leavesL vo)) do
    let mut cells : List Cell := []
    for τ in assignments marked do
      let a ← optE "un-bracketed input axis missing from output" (inputAssign σ τ li)
      let p ← optE "unassigned input axis" (position vi a)
      cells := cells ++ [.src 0 (ravel si p)]
    let po ← optE "unassigned output axis" (position vo σ)
    entries := entries ++ [(po, mkRed f cells)]
  fillOutput (shapeOf exprOut) entries

/-- Dot: `out[σ] = Σ_τ Π_i in_i[σ ∪ τ]`, τ over the bracketed (contracted) axes. -/
def denoteDot (exprsIn : List Expr) (exprOut : Expr) : E (Tensor Cell) := do
  let vis ← exprsIn.mapM singleView
  let vo ← singleView exprOut
  let marked := axesOf ((vis.flatMap Dim.leavesL).filter (·.marked))
  let mut entries : List (List Nat × Cell) := []
  for σ in assignments (axesOf (Dim.leavesL vo)) do
    let mut terms : List Cell := []
    for τ in assignments marked do
      let mut factors : List Cell := []
      for ((v, e), i) in (List.zip vis exprsIn).zipIdx do
        -- an axis contracted elsewhere may occur un-bracketed here: look it up in τ first
        let a ← optE "axis neither contracted nor in output" (inputAssign (τ ++ σ) τ (Dim.leavesL v))
        let p ← optE "unassigned input axis" (position v a)
        factors := factors ++ [.src i (ravel (shapeOf e) p)]
      terms := terms ++ [mkProd factors]
    let po ← optE "unassigned output axis" (position vo σ)
    entries := entries ++ [(po, mkRed "sum" terms)]
  fillOutput (shapeOf exprOut) entries

/-- flip / roll over the bracketed axes (`shifts` per bracketed axis, in expression order; flip ignores them). -/
def denoteMove (kind : String) (shifts : List Int) (exprIn exprOut : Expr) : E (Tensor Cell) := do
  let vi ← singleView exprIn
  let vo ← singleView exprOut
  let li := Dim.leavesL vi
  let si := shapeOf exprIn
  let marked := axesOf (li.filter (·.marked))
  if kind == "roll" && shifts.length != marked.length then throw "roll: one shift per bracketed axis expected"
  let mut entries : List (List Nat × Cell) := []
  for σ in assignments (axesOf (Dim.leavesL vo)) do
    -- source index of every bracketed axis
    let τ : Assign := (List.zip marked (shifts ++ List.replicate marked.length 0)).map (fun ((n, d), s) =>
      let i := (σ.get n).getD 0
      if kind == "flip" then (n, d - 1 - i)
      else (n, if d == 0 then 0 else (((i : Int) - s) % (d : Int)).toNat))
    let a ← optE "input axis missing from output" (inputAssign σ τ li)
    let p ← optE "unassigned input axis" (position vi a)
    let po ← optE "unassigned output axis" (position vo σ)
    entries := entries ++ [(po, .src 0 (ravel si p))]
  fillOutput (shapeOf exprOut) entries

end Einx.Denote
