import EinxModel.IR.Cell
import EinxModel.IR.Prim
/-
M3: the loop-notation denotation of solved (stage-3) expressions, symbolically: for every output
position a `Cell` over the input tensors (`src i k` = element `k` of the `i`-th input).  The concrete
meaning for input data `xs` and an interpretation of the elementary functions is, by definition, the
image of these cells under `evalCell`.
-/
namespace Einx.Denote
open Einx Einx.IR

/-- Solved expression trees (stage 3): every axis carries its length. -/
inductive Expr where
  | axis (name : String) (value : Nat)
  | list (children : List Expr)
  | flat (inner : Expr)
  | concat (children : List Expr)
  | br (inner : Expr)
deriving Repr, Inhabited

structure Leaf where
  name : String
  size : Nat
  marked : Bool
deriving Repr, Inhabited, DecidableEq

/-- One root dimension of a (partially) concatenation-free expression. -/
inductive Dim where
  | axis (l : Leaf)
  | flat (ds : List Dim)
  | concat (ds : List Dim)
  | off (offset : Nat) (d : Dim) (total : Nat)     -- a chosen block of a concatenation
deriving Repr, Inhabited

mutual
def dims (marked : Bool) : Expr → List Dim
  | .axis n v => [.axis ⟨n, v, marked⟩]
  | .list cs => dimsL marked cs
  | .flat e => [.flat (dims marked e)]
  | .concat cs => [.concat (dimsL marked cs)]
  | .br e => dims true e
def dimsL (marked : Bool) : List Expr → List Dim
  | [] => []
  | c :: cs => dims marked c ++ dimsL marked cs
end

mutual
def Dim.size : Dim → Nat
  | .axis l => l.size
  | .flat ds => Dim.sizeProd ds
  | .concat ds => Dim.sizeSum ds
  | .off _ _ t => t
def Dim.sizeProd : List Dim → Nat
  | [] => 1
  | d :: ds => d.size * Dim.sizeProd ds
def Dim.sizeSum : List Dim → Nat
  | [] => 0
  | d :: ds => d.size + Dim.sizeSum ds
end

def shapeOf (e : Expr) : List Nat := (dims false e).map Dim.size

mutual
/-- Number of concatenation nodes (termination measure of `views`). -/
def Dim.nconcat : Dim → Nat
  | .axis _ => 0
  | .flat ds => Dim.nconcatL ds
  | .concat ds => 1 + Dim.nconcatL ds
  | .off _ d _ => d.nconcat
def Dim.nconcatL : List Dim → Nat
  | [] => 0
  | d :: ds => d.nconcat + Dim.nconcatL ds
end

mutual
/-- Replace the leftmost concatenation that is not nested in another concatenation by its `k`-th block.
Returns `none` if there is no concatenation. The second component is the number of blocks. -/
def Dim.choose (k : Nat) : Dim → Option Dim
  | .axis _ => none
  | .flat ds => (Dim.chooseL k ds).map .flat
  | .concat ds =>
    match ds[k]? with
    | some d => some (.off ((ds.take k).foldl (fun a x => a + x.size) 0) d (Dim.sizeSum ds))
    | none => none
  | .off o d t => (d.choose k).map (fun d' => .off o d' t)
def Dim.chooseL (k : Nat) : List Dim → Option (List Dim)
  | [] => none
  | d :: ds =>
    if d.nconcat > 0 then (d.choose k).map (· :: ds)
    else (Dim.chooseL k ds).map (d :: ·)
end

mutual
/-- Number of blocks of the leftmost top-level concatenation. -/
def Dim.nblocks : Dim → Nat
  | .axis _ => 0
  | .flat ds => Dim.nblocksL ds
  | .concat ds => ds.length
  | .off _ d _ => d.nblocks
def Dim.nblocksL : List Dim → Nat
  | [] => 0
  | d :: ds => if d.nconcat > 0 then d.nblocks else Dim.nblocksL ds
end

/-- All concatenation-free virtual tensors, in einx's enumeration order (leftmost top-level concatenation
first, depth first).  `fuel` bounds the recursion depth by the number of concatenation nodes. -/
def viewsFuel : Nat → List Dim → List (List Dim)
  | 0, ds => [ds]
  | fuel + 1, ds =>
    if Dim.nconcatL ds == 0 then [ds]
    else
      (List.range (Dim.nblocksL ds)).flatMap (fun k =>
        match Dim.chooseL k ds with
        | some ds' => viewsFuel fuel ds'
        | none => [])

def views (e : Expr) : List (List Dim) :=
  let ds := dims false e
  viewsFuel (Dim.nconcatL ds + 1) ds

mutual
def Dim.leaves : Dim → List Leaf
  | .axis l => [l]
  | .flat ds => Dim.leavesL ds
  | .concat _ => []
  | .off _ d _ => d.leaves
def Dim.leavesL : List Dim → List Leaf
  | [] => []
  | d :: ds => d.leaves ++ Dim.leavesL ds
end

abbrev Assign := List (String × Nat)

def Assign.get (σ : Assign) (n : String) : Option Nat := (σ.find? (·.1 == n)).map (·.2)

mutual
/-- Position along one dimension under an assignment (`none` if an axis is unassigned). -/
def Dim.pos (σ : Assign) : Dim → Option Nat
  | .axis l => σ.get l.name
  | .flat ds => Dim.posFlat σ ds 0
  | .concat _ => none
  | .off o d _ => (d.pos σ).map (o + ·)
def Dim.posFlat (σ : Assign) : List Dim → Nat → Option Nat
  | [], acc => some acc
  | d :: ds, acc =>
    match d.pos σ with
    | some p => Dim.posFlat σ ds (acc * d.size + p)
    | none => none
end

def position (view : List Dim) (σ : Assign) : Option (List Nat) := view.mapM (Dim.pos σ)

/-- Distinct axis names of a view with their sizes, in order of first occurrence. -/
def axesOf (ls : List Leaf) : List (String × Nat) :=
  ls.foldl (fun acc l => if acc.any (·.1 == l.name) then acc else acc ++ [(l.name, l.size)]) []

/-- All assignments of the given axes, row-major in the given order. -/
def assignments : List (String × Nat) → List Assign
  | [] => [[]]
  | (n, s) :: rest => (List.range s).flatMap (fun i => (assignments rest).map (fun σ => (n, i) :: σ))

/-- Extend an assignment of the output axes to the axes of an input view: an input axis that does not
occur in the output must have length 1 (index 0). -/
def extend (σ : Assign) (ls : List Leaf) : Option Assign :=
  ls.foldlM (fun (acc : Assign) l =>
    match acc.get l.name with
    | some _ => some acc
    | none => if l.size == 1 then some (acc ++ [(l.name, 0)]) else none) σ

def viewShape (view : List Dim) : List Nat := view.map Dim.size

/-- Write `cells` (one per assignment) into a flat output of shape `shape`. -/
def scatterCells (shape : List Nat) (entries : List (List Nat × Cell)) : List (Option Cell) :=
  entries.foldl (fun acc (p, c) => acc.set (ravel shape p) (some c)) (List.replicate (prod shape) none)

abbrev E := Except String

def optE {α} (msg : String) : Option α → E α
  | some a => pure a
  | none => throw msg

/-- `id`: the k-th virtual output equals the k-th virtual input. -/
def denoteId (exprsIn exprsOut : List Expr) : E (List (Tensor Cell)) := do
  -- virtual inputs with the index of the real input tensor and its shape
  let vin := (exprsIn.zipIdx).flatMap (fun (e, i) => (views e).map (fun v => (v, i, shapeOf e)))
  let vout := (exprsOut.zipIdx).flatMap (fun (e, k) => (views e).map (fun v => (v, k)))
  if vin.length != vout.length then throw "number of virtual inputs and outputs differs"
  let mut outs : List (List (Option Cell)) := exprsOut.map (fun e => List.replicate (prod (shapeOf e)) none)
  for ((vi, i, si), (vo, k)) in List.zip vin vout do
    let so := shapeOf (exprsOut.getD k (.list []))
    let leavesIn := Dim.leavesL vi
    for σ in assignments (axesOf (Dim.leavesL vo)) do
      let σ' ← optE "input axis missing from output" (extend σ leavesIn)
      let po ← optE "unassigned output axis" (position vo σ)
      let pi ← optE "unassigned input axis" (position vi σ')
      outs := outs.set k ((outs.getD k []).set (ravel so po) (some (.src i (ravel si pi))))
  let mut res : List (Tensor Cell) := []
  for (e, cells) in List.zip exprsOut outs do
    let cs ← cells.mapM (optE "output not fully defined")
    res := res ++ [⟨shapeOf e, cs⟩]
  pure res

def singleView (e : Expr) : E (List Dim) :=
  match views e with
  | [v] => pure v
  | _ => throw "concatenation not allowed here"

/-- Elementwise: `out[σ] = f (in_1[σ], …, in_n[σ])`. -/
def denoteElementwise (f : String) (exprsIn : List Expr) (exprOut : Expr) : E (Tensor Cell) := do
  let vis ← exprsIn.mapM singleView
  let vo ← singleView exprOut
  let so := shapeOf exprOut
  let mut out : List (Option Cell) := List.replicate (prod so) none
  for σ in assignments (axesOf (Dim.leavesL vo)) do
    let mut args : List Cell := []
    for ((v, e), i) in (List.zip vis exprsIn).zipIdx do
      let σ' ← optE "input axis missing from output" (extend σ (Dim.leavesL v))
      let p ← optE "unassigned input axis" (position v σ')
      args := args ++ [.src i (ravel (shapeOf e) p)]
    let po ← optE "unassigned output axis" (position vo σ)
    out := out.set (ravel so po) (some (.app f args))
  let cs ← out.mapM (optE "output not fully defined")
  pure ⟨so, cs⟩

end Einx.Denote
