import EinxModel.Denote.Fun2
/-
M3 (functional form, continued): pieces used by the statements of `Props/C08c.lean`.

* `Cell.resortAt g` -- the re-canonicaliser restricted to one function symbol: sort the arguments of a top-level
  application of `g` again (what `mkRed` does for `red:<f>`), leave every other cell alone.  For dot `g = "red:sum"`:
  a product `multiply […]` that stands alone in a one-term sum keeps its operand order.
* `permRegs` -- the registers fed into an operation one of whose operands was transposed: the transposed symbolic
  tensor in register `j`, the symbolic inputs elsewhere.
* `Dim.viewOK` -- well-formed dimensions of a *virtual* (concatenation-free) tensor: like `Dim.concatFree`, but a chosen
  block `off o d t` of a concatenation is allowed if it fits (`o + d.size ≤ t`).
-/
namespace Einx.Denote
open Einx Einx.IR
open Einx.Update (mapOpt)

def Cell.resortAt (g : String) : Cell → Cell
  | .app h args => if h == g then .app h (sortCells args) else .app h args
  | c => c

/-- Registers after transposing operand `j`: `ins'` are the (view, shape) pairs of the operands *after* the change. -/
def permRegs (ins' : List (List Dim × List Nat)) (j : Nat) (plan : Plan) : List (Tensor Cell) :=
  ins'.zipIdx.map (fun q => if q.2 = j then (⟨plan.shape, plan.cells⟩ : Tensor Cell) else symInput q.2 q.1.2)

mutual
def Dim.viewOK : Dim → Bool
  | .axis _ => true
  | .flat ds => Dim.viewOKL ds
  | .concat _ => false
  | .off o d t => d.viewOK && decide (o + d.size ≤ t)
def Dim.viewOKL : List Dim → Bool
  | [] => true
  | d :: ds => d.viewOK && Dim.viewOKL ds
end

end Einx.Denote
