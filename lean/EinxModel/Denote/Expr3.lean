import EinxModel.Denote.Expr2
/-
M3 (continued): symbolic loop-notation denotation of n-ary elementwise operations, argmax/argmin,
get_at and sort/argsort.

The validator compares cells syntactically, so every denotation is given in one fixed canonical form:

* n-ary elementwise: the left fold of the binary function over the operands in order;
* argmax/argmin: `app "argmax" cells` of the bracketed sub-tensor in row-major order of the bracketed
  axes (an uninterpreted function of the *ordered* list of values), turned into coordinates by peeling the
  sizes from the last axis to the first with `remainder` / `floor_divide` (`peelCells`;
  `Proofs/Peel.lean: peel_eq_unravel` shows that this is `unravel`);
* get_at: `app "take" (ravelExpr :: all cells of the tensor)` where `ravelExpr` is the row-major formula
  `(..(c₀·m₀ + c₁·m₁) + ..) + c_n` over the tensor axes in order, `c_j` being the coordinate component
  (bracketed axis) or the loop index as a literal (un-bracketed axis), `m_j` the product of the later
  sizes, a factor `1` and the term of an un-bracketed axis of length 1 (index 0) being omitted (`Proofs/Peel.lean: evalCell_ravelExpr`, `ravelInt_eq_ravel` show that this is `ravel`);
* sort/argsort: `app "sort:j" cells` / `app "argsort:j" cells` of the bracketed line for output position `j`.

Forms the denotation does not cover raise an error starting with `unsupported:`.
-/
namespace Einx.Denote
open Einx Einx.IR

/-- Left fold of a binary elementary function over the operands in order (`f a b` for two operands). -/
def foldCells (f : String) : List Cell → Cell
  | [] => .bad
  | c :: cs => cs.foldl (fun acc d => .app f [acc, d]) c

/-- n-ary elementwise ("takes any number of scalars"): `out[σ] = f (.. f (f in_1[σ] in_2[σ]) in_3[σ] ..)`. -/
def denoteElementwiseFold (f : String) (exprsIn : List Expr) (exprOut : Expr) : E (Tensor Cell) := do
  let vis ← exprsIn.mapM singleView
  let vo ← singleView exprOut
  let mut entries : List (List Nat × Cell) := []
  for σ in assignments (axesOf (Dim.leavesL vo)) do
    let mut args : List Cell := []
    for ((v, e), i) in (List.zip vis exprsIn).zipIdx do
      let σ' ← optE "input axis missing from output" (extend σ (Dim.leavesL v))
      let p ← optE "unassigned input axis" (position v σ')
      args := args ++ [.src i (ravel (shapeOf e) p)]
    let po ← optE "unassigned output axis" (position vo σ)
    entries := entries ++ [(po, foldCells f args)]
  fillOutput (shapeOf exprOut) entries

/-! ### argmax / argmin -/

/-- Successive `divmod` of the quotient by the given sizes (last axis first): remainders in that order. -/
def peelRevCells : List Nat → Cell → List Cell
  | [], _ => []
  | s :: ss, q => .app "remainder" [q, .lit (Int.ofNat s)] :: peelRevCells ss (.app "floor_divide" [q, .lit (Int.ofNat s)])

/-- Coordinates of the flat index `k` in a block of the given sizes: one bracketed axis needs no
arithmetic, several are peeled from the last to the first. -/
def peelCells (sizes : List Nat) (k : Cell) : List Cell :=
  match sizes with
  | [_] => [k]
  | _ => (peelRevCells sizes.reverse k).reverse

/-- The same peeling on natural numbers (what `peelCells` computes when `remainder` / `floor_divide` are
interpreted as `%` and `/`). -/
def peelRevNat : List Nat → Nat → List Nat
  | [], _ => []
  | s :: ss, q => (q % s) :: peelRevNat ss (q / s)

def peel (sizes : List Nat) (k : Nat) : List Nat :=
  match sizes with
  | [_] => [k]
  | _ => (peelRevNat sizes.reverse k).reverse

/-- argmax / argmin: for every assignment `σ` of the un-bracketed axes, the index of the first extremum
of the bracketed sub-tensor (row-major over the bracketed axes in expression order), as a single index
(one bracketed input axis, no bracketed output axis) or as coordinates along the bracketed output axis. -/
def denoteArgfind (f : String) (exprIn exprOut : Expr) : E (Tensor Cell) := do
  let vi ← singleView exprIn
  let vo ← singleView exprOut
  let li := Dim.leavesL vi
  let lo := Dim.leavesL vo
  let si := shapeOf exprIn
  let markedLeaves := li.filter (·.marked)
  let marked := axesOf markedLeaves
  if marked.length != markedLeaves.length then throw "unsupported: repeated bracketed axis"
  if marked.isEmpty then throw "unsupported: no bracketed axis"
  let omarked := lo.filter (·.marked)
  let sizes := marked.map (·.2)
  let mut entries : List (List Nat × Cell) := []
  for σ in assignments (axesOf (lo.filter (fun l => !l.marked))) do
    let mut cells : List Cell := []
    for τ in assignments marked do
      let a ← optE "un-bracketed input axis missing from output" (inputAssign σ τ li)
      let p ← optE "unassigned input axis" (position vi a)
      cells := cells ++ [.src 0 (ravel si p)]
    let k := Cell.app f cells
    match omarked with
    | [] =>
      if marked.length != 1 then throw "argfind: several bracketed axes need a bracketed output axis"
      let po ← optE "unassigned output axis" (position vo σ)
      entries := entries ++ [(po, k)]
    | [m] =>
      if m.size != marked.length then throw "argfind: the bracketed output axis needs one entry per bracketed input axis"
      for (c, j) in (peelCells sizes k).zipIdx do
        let po ← optE "unassigned output axis" (position vo ((m.name, j) :: σ))
        entries := entries ++ [(po, c)]
    | _ => throw "argfind: at most one bracketed output axis"
  fillOutput (shapeOf exprOut) entries

/-! ### get_at -/

/-- Row-major multipliers: for every axis the product of the later sizes. -/
def strides : List Nat → List Nat
  | [] => []
  | _ :: ss => prod ss :: strides ss

/-- The row-major formula over coordinate cells, in the canonical form: terms in axis order, an axis
without a cell (`none`: an un-bracketed axis of length 1, whose index is 0) and a factor 1 omitted,
summed by a left fold. -/
def ravelExpr (coords : List (Option Cell)) (sizes : List Nat) : Cell :=
  match (List.zip coords (strides sizes)).filterMap (fun (c, m) =>
      c.map (fun c => if m == 1 then c else .app "multiply" [c, .lit (Int.ofNat m)])) with
  | [] => .lit 0
  | terms => foldCells "add" terms

/-- get_at: `exprsIn[0]` is the tensor (bracketed axes are indexed), the others are coordinate tensors
with at most one bracketed coordinate axis each; their components, in order, address the bracketed
tensor axes in order.  `out[σ] = tensor_flat[ravel(coordinates)]`. -/
def denoteGetAt (exprsIn : List Expr) (exprOut : Expr) : E (Tensor Cell) := do
  match exprsIn with
  | [] => throw "get_at: tensor expected"
  | et :: ecs =>
    let vt ← singleView et
    let vcs ← ecs.mapM singleView
    let vo ← singleView exprOut
    let lt := Dim.leavesL vt
    if lt.isEmpty then throw "unsupported: scalar tensor"
    if (axesOf lt).length != lt.length then throw "unsupported: repeated axis in the tensor expression"
    let all := (List.range (prod (shapeOf et))).map (fun k => Cell.src 0 k)
    let mut entries : List (List Nat × Cell) := []
    for σ in assignments (axesOf (Dim.leavesL vo)) do
      -- coordinate components, in order of the coordinate tensors
      let mut comps : List Cell := []
      for ((v, e), t) in (List.zip vcs ecs).zipIdx do
        let lv := Dim.leavesL v
        match axesOf (lv.filter (·.marked)) with
        | [] =>
          let a ← optE "coordinate axis missing from output" (inputAssign σ [] lv)
          let p ← optE "unassigned coordinate axis" (position v a)
          comps := comps ++ [.src (t + 1) (ravel (shapeOf e) p)]
        | [(n, d)] =>
          for j in List.range d do
            let a ← optE "coordinate axis missing from output" (inputAssign σ [(n, j)] lv)
            let p ← optE "unassigned coordinate axis" (position v a)
            comps := comps ++ [.src (t + 1) (ravel (shapeOf e) p)]
        | _ => throw "get_at: at most one bracketed coordinate axis per coordinate tensor"
      -- coordinate of every tensor axis: bracketed → next component, un-bracketed → the loop index
      let mut rest := comps
      let mut cs : List (Option Cell) := []
      for l in lt do
        if l.marked then
          match rest with
          | c :: r =>
            cs := cs ++ [some c]
            rest := r
          | [] => throw "get_at: fewer coordinate components than bracketed tensor axes"
        else if l.size == 1 then cs := cs ++ [none]
        else
          match σ.get l.name with
          | some i => cs := cs ++ [some (.lit (Int.ofNat i))]
          | none => throw "tensor axis missing from output"
      if !rest.isEmpty then throw "get_at: more coordinate components than bracketed tensor axes"
      let po ← optE "unassigned output axis" (position vo σ)
      entries := entries ++ [(po, .app "take" (ravelExpr cs (lt.map (·.size)) :: all))]
    fillOutput (shapeOf exprOut) entries

/-! ### sort / argsort -/

/-- sort / argsort along the single bracketed axis: output position `j` of the line is `f:j` applied to
the cells of the line in order. -/
def denoteSort (f : String) (exprIn exprOut : Expr) : E (Tensor Cell) := do
  let vi ← singleView exprIn
  let vo ← singleView exprOut
  let li := Dim.leavesL vi
  let si := shapeOf exprIn
  match li.filter (·.marked) with
  | [m] =>
    let mut entries : List (List Nat × Cell) := []
    for σ in assignments (axesOf (Dim.leavesL vo)) do
      let j ← optE "bracketed axis missing from output" (σ.get m.name)
      let mut cells : List Cell := []
      for i in List.range m.size do
        let a ← optE "un-bracketed input axis missing from output" (inputAssign σ [(m.name, i)] li)
        let p ← optE "unassigned input axis" (position vi a)
        cells := cells ++ [.src 0 (ravel si p)]
      let po ← optE "unassigned output axis" (position vo σ)
      entries := entries ++ [(po, .app (f ++ ":" ++ toString j) cells)]
    fillOutput (shapeOf exprOut) entries
  | _ => throw "unsupported: exactly one bracketed axis expected"

end Einx.Denote
